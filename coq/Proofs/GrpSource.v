(* GrpSource.v — the grouping of classes by mask and the writing of the v-table entries in
   compiler<Policy>::build_dispatch_tables(), as translated from the C++ text on every run (Gen/GenGrp.v, by
   translators/grouping.py, interpreted by Model/MiniGrp.v), are Model.Compile's groups_of / group_index / write_vtbls -
   for EVERY order in which the unordered sets of covariant classes may be enumerated. *)
From Coq Require Import List Arith NArith Lia Bool Sorting.Sorted Permutation.
From Y2 Require Import Model.Registry Model.Compile Model.MiniGrp Gen.GenGrp
                       Proofs.LatListFacts Proofs.Interfaces Proofs.TablesGeneric Proofs.TablesBuild.
Import ListNotations.
Local Open Scope nat_scope.

(* ------------------------------------------------------------------ the map *)

Fixpoint gget (k : N) (l : list (N * grp)) : option grp :=
  match l with
  | [] => None
  | (k', g) :: r => if N.eqb k k' then Some g else gget k r
  end.

Lemma gtouch_keys k f : forall l, map fst (gtouch k f l) = insert_mask k (map fst l).
Proof.
  induction l as [|[k' g] r IH]; cbn [gtouch map fst insert_mask]; [reflexivity|].
  destruct (N.ltb k k'); [reflexivity|]. destruct (N.eqb k k'); [reflexivity|]. cbn [map fst]. now rewrite IH.
Qed.

Lemma gupd_gtouch k f h : forall l, gupd k f (gtouch k h l) = Some (gtouch k (fun g => f (h g)) l).
Proof.
  induction l as [|[k' g] r IH]; cbn [gtouch gupd].
  - now rewrite N.eqb_refl.
  - destruct (N.ltb k k') eqn:Lt; cbn [gupd]; [now rewrite N.eqb_refl|].
    destruct (N.eqb k k') eqn:Eq; cbn [gupd]; rewrite Eq; [reflexivity|]. now rewrite IH.
Qed.

Lemma gget_touch_other k k' f : k' <> k -> forall l, gget k' (gtouch k f l) = gget k' l.
Proof.
  intro Hne. induction l as [|[k2 g] r IH]; cbn [gtouch gget].
  - apply N.eqb_neq in Hne. now rewrite Hne.
  - destruct (N.ltb k k2); cbn [gget].
    + apply N.eqb_neq in Hne. now rewrite Hne.
    + destruct (N.eqb k k2) eqn:Eq; cbn [gget].
      * apply N.eqb_eq in Eq. subst k2. apply N.eqb_neq in Hne. now rewrite Hne.
      * now rewrite IH.
Qed.

Lemma gget_none_below k : forall l, Forall (fun x => (k < x)%N) (map fst l) -> gget k l = None.
Proof.
  induction l as [|[k' g] r IH]; intro F; cbn [gget]; [reflexivity|]. cbn [map fst] in F. inversion F as [|? ? Hk F']; subst.
  assert (E : N.eqb k k' = false) by (apply N.eqb_neq; lia). rewrite E. now apply IH.
Qed.

Lemma gget_touch_same k f : forall l, StronglySorted N.lt (map fst l) ->
  gget k (gtouch k f l) = Some (f (match gget k l with Some g => g | None => grp0 end)).
Proof.
  induction l as [|[k' g] r IH]; intro S; cbn [gtouch gget].
  - now rewrite N.eqb_refl.
  - cbn [map fst] in S. inversion S as [|? ? S' F]; subst.
    destruct (N.ltb k k') eqn:Lt; cbn [gget].
    + rewrite N.eqb_refl. apply N.ltb_lt in Lt.
      assert (E : N.eqb k k' = false) by (apply N.eqb_neq; lia). rewrite E.
      rewrite gget_none_below; [reflexivity|]. rewrite Forall_forall in *. intros x Hx. specialize (F x Hx). lia.
    + destruct (N.eqb k k') eqn:Eq; cbn [gget]; rewrite Eq; [reflexivity|]. now apply IH.
Qed.

Lemma gget_In l : StronglySorted N.lt (map fst l) -> forall k g, In (k, g) l -> gget k l = Some g.
Proof.
  induction l as [|[k' g'] r IH]; intros S k g Hin; [contradiction|]. cbn [map fst] in S. inversion S as [|? ? S' F]; subst.
  cbn [gget]. destruct Hin as [E|Hin].
  - inversion E; subst. now rewrite N.eqb_refl.
  - assert (Hlt : (k' < k)%N).
    { rewrite Forall_forall in F. apply F. apply in_map_iff. exists (k, g). split; [reflexivity|exact Hin]. }
    assert (E : N.eqb k k' = false) by (apply N.eqb_neq; lia). rewrite E. now apply IH.
Qed.

Lemma sorted_ext : forall l1 l2, StronglySorted N.lt l1 -> StronglySorted N.lt l2 -> (forall x, In x l1 <-> In x l2) -> l1 = l2.
Proof.
  induction l1 as [|a l1 IH]; intros l2 S1 S2 H.
  - destruct l2 as [|b l2]; [reflexivity|]. exfalso. apply (H b). now left.
  - destruct l2 as [|b l2]; [exfalso; apply (H a); now left|].
    inversion S1 as [|? ? S1' F1]; inversion S2 as [|? ? S2' F2]; subst. rewrite Forall_forall in F1, F2.
    assert (a = b).
    { destruct (proj1 (H a) (or_introl eq_refl)) as [E|Hin]; [now symmetry|].
      destruct (proj2 (H b) (or_introl eq_refl)) as [E|Hin']; [exact E|].
      specialize (F1 b Hin'). specialize (F2 a Hin). lia. }
    subst b. f_equal. apply IH; [assumption|assumption|]. intro x. split; intro Hx.
    + destruct (proj1 (H x) (or_intror Hx)) as [E|Hin]; [|exact Hin]. subst x. specialize (F1 a Hx). lia.
    + destruct (proj2 (H x) (or_intror Hx)) as [E|Hin]; [|exact Hin]. subst x. specialize (F2 a Hx). lia.
Qed.

Lemma existsb_ext_mem {A} (f : A -> bool) l1 l2 : (forall x, In x l1 <-> In x l2) -> existsb f l1 = existsb f l2.
Proof.
  intro H. apply tg_bool_eq_iff. rewrite !existsb_exists. split; intros [x [Hx Hf]]; exists x; split; try assumption; now apply H.
Qed.

(* ------------------------------------------------------------------ one class, one dimension *)

Section GrpSrc.
  Variables (L : lattice) (m : cmeth) (enum : nat -> list nat).
  Notation specs := (cm_specs m).

  Definition is_conc (cc : nat) : bool := negb (k_abstract (nth cc (l_info L) (mk_cls [] false))).
  Definition upd_c (cc : nat) (g : grp) : grp := mk_grp (g_classes g ++ [cc]) (g_conc g || is_conc cc).

  Definition mask_step (cc d : nat) (acc : N) (isp : nat * list nat) : N :=
    let '(i, sp) := isp in if memn cc (nth (nth d sp 0) (l_cov L) []) then N.setbit acc (N.of_nat i) else acc.

  Lemma mask_loop d v cc gs key : forall l k,
    gfor (fun isp s' => gexec L m enum (GIfSpecCovers GSetMaskBit) (mk_gcx (Some (d, v)) (Some cc) (Some isp)) s') l (mk_gst gs (Some k) key)
    = Some (mk_gst gs (Some (fold_left (mask_step cc d) l k)) key).
  Proof.
    induction l as [|[i sp] l IH]; intro k; cbn [gfor fold_left]; [reflexivity|].
    cbn [gexec gx_dim gx_class gx_spec gs_mask gs_groups gs_key mask_step].
    destruct (memn cc (nth (nth d sp 0) (l_cov L) [])); apply IH.
  Qed.

  Lemma mask_of_fold d cc : mask_of L specs d cc = fold_left (mask_step cc d) (combine (seq 0 (length specs)) specs) 0%N.
  Proof.
    unfold mask_of. generalize 0%N. generalize (combine (seq 0 (length specs)) specs).
    induction l as [|[i sp] l IH]; intro k; cbn [fold_left]; [reflexivity|]. now rewrite IH.
  Qed.

  Definition class_body : gstmt :=
    GSeq GNewMask (GSeq (GForSpecs (GIfSpecCovers GSetMaskBit)) (GSeq GBindGroup (GSeq GPushClass GOrConcrete))).

  Lemma set_nth_upd_nth {A} d (l : list A) dflt f v : set_nth d (upd_nth d l dflt f) v = set_nth d l v.
  Proof.
    unfold upd_nth. revert d. induction l as [|a l IH]; intros [|d]; cbn [set_nth nth]; try reflexivity. now rewrite IH.
  Qed.
  Lemma set_nth_self {A} (dflt : A) d (l : list A) : set_nth d l (nth d l dflt) = l.
  Proof. revert d. induction l as [|a l IH]; intros [|d]; cbn [set_nth nth]; try reflexivity. now rewrite IH. Qed.
  Lemma set_nth_twice {A} d (l : list A) v w : set_nth d (set_nth d l v) w = set_nth d l w.
  Proof. revert d. induction l as [|a l IH]; intros [|d]; cbn [set_nth]; try reflexivity. now rewrite IH. Qed.

  Lemma class_step d v cc gs mk0 key0 : d < length gs ->
    gexec L m enum class_body (mk_gcx (Some (d, v)) (Some cc) None) (mk_gst gs mk0 key0)
    = Some (mk_gst (upd_nth d gs [] (gtouch (mask_of L specs d cc) (upd_c cc))) (Some (mask_of L specs d cc)) (Some (mask_of L specs d cc))).
  Proof.
    intro Hd. unfold class_body.
    remember (GIfSpecCovers GSetMaskBit) as B eqn:HB.
    cbn [gexec gx_dim gx_class gx_spec gs_mask gs_groups gs_key]. subst B.
    rewrite mask_loop. rewrite <- mask_of_fold. set (k := mask_of L specs d cc).
    cbn [gs_mask gs_groups gs_key]. apply Nat.ltb_lt in Hd. rewrite Hd. apply Nat.ltb_lt in Hd.
    cbn [gs_mask gs_groups gs_key].
    rewrite nth_upd_nth_eq by exact Hd. rewrite gupd_gtouch. cbn [gs_mask gs_groups gs_key].
    rewrite nth_set_nth_eq by (now rewrite length_upd_nth). rewrite gupd_gtouch.
    rewrite set_nth_twice, set_nth_upd_nth. unfold upd_nth. reflexivity.
  Qed.

  (* all the classes of one dimension, in the order they are enumerated *)
  Definition gfold (d : nat) (cs : list nat) (acc : list (N * grp)) : list (N * grp) :=
    fold_left (fun l cc => gtouch (mask_of L specs d cc) (upd_c cc) l) cs acc.

  Lemma upd_nth_upd_nth {A} d (l : list A) dflt f g : d < length l ->
    upd_nth d (upd_nth d l dflt f) dflt g = upd_nth d l dflt (fun x => g (f x)).
  Proof. intro H. unfold upd_nth. rewrite nth_set_nth_eq by exact H. apply set_nth_twice. Qed.

  Lemma dim_loop d v : forall cs gs mk0 key0, d < length gs ->
    exists mk1 key1,
      gfor (fun cc s' => gexec L m enum class_body (mk_gcx (Some (d, v)) (Some cc) None) (mk_gst (gs_groups s') None None)) cs (mk_gst gs mk0 key0)
      = Some (mk_gst (upd_nth d gs [] (gfold d cs)) mk1 key1).
  Proof.
    induction cs as [|cc cs IH]; intros gs mk0 key0 Hd; cbn [gfor].
    - exists mk0, key0. unfold gfold, upd_nth. cbn [fold_left]. now rewrite set_nth_self.
    - cbn [gs_groups]. rewrite class_step by exact Hd.
      destruct (IH (upd_nth d gs [] (gtouch (mask_of L specs d cc) (upd_c cc))) (Some (mask_of L specs d cc)) (Some (mask_of L specs d cc)))
        as [mk1 [key1 E]]; [now rewrite length_upd_nth|].
      exists mk1, key1. rewrite E. rewrite upd_nth_upd_nth by exact Hd. reflexivity.
  Qed.

  Definition dim_step (g : list (list (N * grp))) (dv : nat * nat) : list (list (N * grp)) :=
    upd_nth (fst dv) g [] (gfold (fst dv) (enum (snd dv))).

  Lemma params_loop : forall dvs gs mk0 key0, (forall dv, In dv dvs -> fst dv < length gs) ->
    exists mk1 key1,
      gfor (fun dv s' => gexec L m enum (GForCovariant class_body) (mk_gcx (Some dv) None None) s') dvs (mk_gst gs mk0 key0)
      = Some (mk_gst (fold_left dim_step dvs gs) mk1 key1).
  Proof.
    induction dvs as [|[d v] dvs IH]; intros gs mk0 key0 Hd; cbn [gfor fold_left].
    - now exists mk0, key0.
    - assert (E0 : gexec L m enum (GForCovariant class_body) (mk_gcx (Some (d, v)) None None) (mk_gst gs mk0 key0)
                   = gfor (fun cc s' => gexec L m enum class_body (mk_gcx (Some (d, v)) (Some cc) None) (mk_gst (gs_groups s') None None))
                          (enum v) (mk_gst gs mk0 key0)) by reflexivity.
      rewrite E0. destruct (dim_loop d v (enum v) gs mk0 key0) as [mk1 [key1 E1]]; [apply (Hd (d, v)); now left|].
      rewrite E1. destruct (IH (upd_nth d gs [] (gfold d (enum v))) mk1 key1) as [mk2 [key2 E2]].
      + intros dv H. rewrite length_upd_nth. apply Hd. now right.
      + exists mk2, key2. exact E2.
  Qed.

  Lemma length_fold_dim_step : forall dvs gs, length (fold_left dim_step dvs gs) = length gs.
  Proof. induction dvs as [|dv dvs IH]; intro gs; cbn [fold_left]; [reflexivity|]. rewrite IH. apply length_upd_nth. Qed.

  Lemma nth_fold_dim_step : forall vs start gs d, start + length vs <= length gs ->
    nth d (fold_left dim_step (combine (seq start (length vs)) vs) gs) []
    = if (start <=? d) && (d <? start + length vs) then gfold d (enum (nth (d - start) vs 0)) (nth d gs []) else nth d gs [].
  Proof.
    induction vs as [|v vs IH]; intros start gs d Hlen; cbn [length seq combine fold_left].
    - destruct (start <=? d) eqn:E1; cbn [andb]; [|reflexivity].
      assert (E2 : (d <? start + 0) = false) by (apply Nat.ltb_ge; apply Nat.leb_le in E1; lia). now rewrite E2.
    - cbn [length] in Hlen. rewrite IH by (unfold dim_step; rewrite length_upd_nth; lia).
      assert (Hn : nth d (dim_step gs (start, v)) []
                   = if Nat.eqb d start then gfold start (enum v) (nth start gs []) else nth d gs []).
      { unfold dim_step. cbn [fst snd]. destruct (Nat.eqb_spec d start) as [->|Hne].
        - now rewrite nth_upd_nth_eq by lia.
        - now rewrite nth_upd_nth_neq by auto. }
      rewrite Hn. destruct (Nat.eqb_spec d start) as [->|Hne].
      + assert (E1 : (S start <=? start) = false) by (apply Nat.leb_gt; lia). rewrite E1. cbn [andb].
        rewrite Nat.leb_refl.
        assert (E2 : (start <? start + S (length vs)) = true) by (apply Nat.ltb_lt; lia). rewrite E2. cbn [andb].
        now rewrite Nat.sub_diag.
      + destruct (Nat.leb_spec (S start) d) as [H1|H1]; destruct (Nat.leb_spec start d) as [H2|H2]; try lia; cbn [andb].
        * replace (start + S (length vs)) with (S start + length vs) by lia.
          destruct (d <? S start + length vs); [|reflexivity].
          replace (d - start) with (S (d - S start)) by lia. reflexivity.
        * reflexivity.
  Qed.

  Theorem src_groups_run :
    exists gs, run_groups L m enum gen_groups = Some gs /\ length gs = length (cm_vp m) /\
               forall d, d < length (cm_vp m) -> nth d gs [] = gfold d (enum (nth d (cm_vp m) 0)) [].
  Proof.
    unfold run_groups. change gen_groups with (GForParams (GForCovariant class_body)).
    assert (E0 : forall s, gexec L m enum (GForParams (GForCovariant class_body)) (mk_gcx None None None) s
                 = gfor (fun dv s' => gexec L m enum (GForCovariant class_body) (mk_gcx (Some dv) None None) s')
                        (combine (seq 0 (length (cm_vp m))) (cm_vp m)) s) by reflexivity.
    rewrite E0.
    destruct (params_loop (combine (seq 0 (length (cm_vp m))) (cm_vp m)) (repeat [] (length (cm_vp m))) None None) as [mk1 [key1 E1]].
    - intros [d v] Hin. cbn [fst]. rewrite repeat_length. apply in_combine_l in Hin. apply in_seq in Hin. lia.
    - rewrite E1. eexists. split; [reflexivity|]. cbn [gs_groups]. split; [now rewrite length_fold_dim_step, repeat_length|].
      intros d Hd. rewrite nth_fold_dim_step by (rewrite repeat_length; lia).
      cbn [Nat.leb andb plus]. apply Nat.ltb_lt in Hd. rewrite Hd. rewrite Nat.sub_0_r, nth_repeat_nil. reflexivity.
  Qed.

  (* ---------------------------------------------------------------- what the map holds in the end *)
  Section Pure.
    Variable d : nat.
    Notation mk := (mask_of L specs d).
    Definition info (cs : list nat) (k : N) : grp :=
      mk_grp (filter (fun c => N.eqb (mk c) k) cs) (existsb (fun c => N.eqb (mk c) k && is_conc c) cs).

    Lemma info_nomatch cs k : existsb (fun c => N.eqb (mk c) k) cs = false -> info cs k = grp0.
    Proof.
      intro H. unfold info, grp0. induction cs as [|c cs IH]; [reflexivity|].
      cbn [existsb] in H. apply orb_false_iff in H. destruct H as [H1 H2]. specialize (IH H2). inversion IH as [[I1 I2]].
      cbn [filter existsb]. rewrite H1. cbn [andb orb]. now rewrite I1, I2.
    Qed.

    Lemma gfold_keys : forall cs acc, map fst (gfold d cs acc) = fold_left (fun a c => insert_mask (mk c) a) cs (map fst acc).
    Proof.
      unfold gfold. induction cs as [|c cs IH]; intro acc; cbn [fold_left]; [reflexivity|]. now rewrite IH, gtouch_keys.
    Qed.

    Lemma gfold_get : forall cs done acc, StronglySorted N.lt (map fst acc) ->
      (forall k, gget k acc = if existsb (fun c => N.eqb (mk c) k) done then Some (info done k) else None) ->
      forall k, gget k (gfold d cs acc) = if existsb (fun c => N.eqb (mk c) k) (done ++ cs) then Some (info (done ++ cs) k) else None.
    Proof.
      unfold gfold. induction cs as [|c cs IH]; intros done acc S H k; cbn [fold_left].
      - rewrite app_nil_r. apply H.
      - replace (done ++ c :: cs) with ((done ++ [c]) ++ cs) by (now rewrite <- app_assoc).
        apply IH; [rewrite gtouch_keys; now apply tg_insert_mask_sorted|]. clear k. intro k.
        rewrite existsb_app. cbn [existsb]. rewrite orb_false_r.
        destruct (N.eqb_spec (mk c) k) as [E|E].
        + subst k. rewrite orb_true_r. rewrite gget_touch_same by exact S. f_equal.
          assert (Hv : match gget (mk c) acc with Some g => g | None => grp0 end = info done (mk c)).
          { rewrite H. destruct (existsb (fun c0 => N.eqb (mk c0) (mk c)) done) eqn:Ex; [reflexivity|]. symmetry. now apply info_nomatch. }
          rewrite Hv. unfold upd_c, info. cbn [g_classes g_conc]. rewrite filter_app, existsb_app. cbn [filter existsb].
          rewrite N.eqb_refl. cbn [andb]. now rewrite orb_false_r.
        + rewrite orb_false_r. rewrite gget_touch_other by auto. rewrite H.
          destruct (existsb (fun c0 => N.eqb (mk c0) k) done); [|reflexivity]. f_equal.
          unfold info. rewrite filter_app, existsb_app. cbn [filter existsb]. apply N.eqb_neq in E. rewrite E. cbn [andb orb].
          now rewrite app_nil_r, orb_false_r.
    Qed.

    Lemma gfold_sorted cs : StronglySorted N.lt (map fst (gfold d cs [])).
    Proof. rewrite gfold_keys. apply tg_fold_insert_sorted. constructor. Qed.

    Lemma gfold_entry cs k g : In (k, g) (gfold d cs []) -> g = info cs k.
    Proof.
      intro Hin. pose proof (gget_In _ (gfold_sorted cs) k g Hin) as E.
      rewrite (gfold_get cs [] [] ltac:(constructor) ltac:(intro k0; reflexivity) k) in E. cbn [app] in E.
      destruct (existsb (fun c => N.eqb (mk c) k) cs); [now inversion E|discriminate].
    Qed.

    (* the groups of dimension d, for any enumeration cs of the covariant classes of the parameter's class *)
    Theorem gfold_groups cs : (forall x, In x cs <-> In x (cov_of L (nth d (cm_vp m) 0))) ->
      map (fun kg => (fst kg, g_conc (snd kg))) (gfold d cs []) = groups_of L m d
      /\ forall k g, In (k, g) (gfold d cs []) -> g_classes g = filter (fun c => N.eqb (mk c) k) cs.
    Proof.
      intro Hmem. split.
      - rewrite tb_groups_eq.
        assert (Hk : map fst (gfold d cs []) = tb_masks L m d).
        { apply sorted_ext; [apply gfold_sorted|apply tb_masks_sorted|]. intro x.
          rewrite gfold_keys. cbn [map]. unfold tb_masks. rewrite !tg_fold_insert_In. cbn [In].
          split; (intros [[]|[c [Hc E]]]; right; exists c; split; [now apply Hmem|exact E]). }
        rewrite <- Hk, map_map. apply map_ext_in. intros [k g] Hin. cbn [fst snd]. f_equal.
        rewrite (gfold_entry cs k g Hin). unfold info, tb_hc. cbn [g_conc]. now apply existsb_ext_mem.
      - intros k g Hin. now rewrite (gfold_entry cs k g Hin).
    Qed.
  End Pure.

  (* the translated block builds the model's groups, whatever the enumeration order *)
  Theorem src_groups : (forall v x, In x (enum v) <-> In x (cov_of L v)) ->
    exists gs, run_groups L m enum gen_groups = Some gs /\ length gs = length (cm_vp m) /\
      forall d, d < length (cm_vp m) ->
        map (fun kg => (fst kg, g_conc (snd kg))) (nth d gs []) = groups_of L m d /\
        forall k g, In (k, g) (nth d gs []) ->
          g_classes g = filter (fun c => N.eqb (mask_of L specs d c) k) (enum (nth d (cm_vp m) 0)).
  Proof.
    intro Hen. destruct src_groups_run as [gs [E [Hlen Hn]]]. exists gs. split; [exact E|]. split; [exact Hlen|].
    intros d Hd. rewrite (Hn d Hd). apply gfold_groups. apply Hen.
  Qed.
End GrpSrc.

(* ------------------------------------------------------------------ v-table entries *)

Section Writes.
  Variables (mi d slot : nat) (firsts : list nat).

  Definition write1 (s : vt) (cg : nat * nat) : vt :=
    upd_nth (fst cg) s [] (fun l => set_nth (slot - nth (fst cg) firsts 0) l (mi, d, snd cg)).
  Definition apply_writes (ws : list (nat * nat)) (s : vt) : vt := fold_left write1 ws s.

  Lemma set_nth_comm {A} (s : list A) : forall a b x y, a <> b -> set_nth b (set_nth a s x) y = set_nth a (set_nth b s y) x.
  Proof.
    induction s as [|r s IH]; intros [|a] [|b] x y Hne; cbn [set_nth]; try reflexivity; try congruence.
    f_equal. apply IH. congruence.
  Qed.

  Lemma write1_comm s a b : fst a <> fst b -> write1 (write1 s a) b = write1 (write1 s b) a.
  Proof.
    intro Hne. unfold write1. destruct a as [ca ga], b as [cb gb]. cbn [fst snd] in *.
    unfold upd_nth. rewrite !nth_set_nth_neq by auto. now apply set_nth_comm.
  Qed.

  Lemma apply_writes_perm ws1 ws2 : Permutation ws1 ws2 -> NoDup (map fst ws1) -> forall s, apply_writes ws1 s = apply_writes ws2 s.
  Proof.
    unfold apply_writes. induction 1 as [|x l l' Hp IH|x y l|l l' l'' Hp1 IH1 Hp2 IH2]; intros Hnd s; cbn [fold_left].
    - reflexivity.
    - cbn [map] in Hnd. inversion Hnd; subst. now apply IH.
    - cbn [map] in Hnd. inversion Hnd as [|? ? Hy Hnd']; subst. rewrite write1_comm; [reflexivity|].
      intro E. apply Hy. left. now symmetry.
    - rewrite IH1 by exact Hnd. apply IH2. apply (Permutation_NoDup (Permutation_map fst Hp1) Hnd).
  Qed.

  Lemma length_write1 s cg : length (write1 s cg) = length s.
  Proof. apply length_upd_nth. Qed.
  Lemma row_length_write1 s cg c : length (nth c (write1 s cg) []) = length (nth c s []).
  Proof.
    unfold write1. destruct (Nat.eq_dec (fst cg) c) as [<-|Hne].
    - destruct (Nat.lt_ge_cases (fst cg) (length s)) as [Hlt|Hge].
      + rewrite nth_upd_nth_eq by exact Hlt. apply length_set_nth.
      + unfold upd_nth. now rewrite set_nth_oob.
    - now rewrite nth_upd_nth_neq.
  Qed.
  Lemma length_apply_writes ws : forall s, length (apply_writes ws s) = length s.
  Proof. unfold apply_writes. induction ws as [|w ws IH]; intro s; cbn [fold_left]; [reflexivity|]. now rewrite IH, length_write1. Qed.
  Lemma row_length_apply_writes ws c : forall s, length (nth c (apply_writes ws s) []) = length (nth c s []).
  Proof. unfold apply_writes. induction ws as [|w ws IH]; intro s; cbn [fold_left]; [reflexivity|]. now rewrite IH, row_length_write1. Qed.
End Writes.

Lemma flat_map_app_perm {A B} (f g : A -> list B) l :
  Permutation (flat_map (fun k => f k ++ g k) l) (flat_map f l ++ flat_map g l).
Proof.
  induction l as [|k l IH]; cbn [flat_map]; [constructor|].
  rewrite IH, <- !app_assoc. apply Permutation_app_head. apply Permutation_app_swap_app.
Qed.

Lemma flat_map_single (f : nat -> N) c keys : NoDup keys -> In (f c) keys ->
  flat_map (fun k => if N.eqb (f c) k then [c] else []) keys = [c].
Proof.
  induction keys as [|k keys IH]; intros Hnd Hin; [contradiction|]. inversion Hnd as [|? ? Hk Hnd']; subst. cbn [flat_map].
  destruct (N.eqb_spec (f c) k) as [E|E].
  - subst k. cbn [app]. f_equal.
    clear IH Hin Hnd. induction keys as [|k' keys IH']; [reflexivity|]. cbn [flat_map].
    assert (E : N.eqb (f c) k' = false) by (apply N.eqb_neq; intro E; apply Hk; left; now symmetry). rewrite E. cbn [app].
    apply IH'; [intro H; apply Hk; now right|now inversion Hnd'].
  - cbn [app]. apply IH; [exact Hnd'|]. destruct Hin as [H|H]; [congruence|exact H].
Qed.

Lemma partition_perm (f : nat -> N) keys : NoDup keys -> forall cs, (forall c, In c cs -> In (f c) keys) ->
  Permutation (flat_map (fun k => filter (fun c => N.eqb (f c) k) cs) keys) cs.
Proof.
  intro Hnd. induction cs as [|c cs IH]; intro Hin.
  - cbn [filter]. clear. induction keys as [|k keys IHk]; [constructor|]. cbn [flat_map app]. exact IHk.
  - cbn [filter].
    assert (E : forall k, (if N.eqb (f c) k then c :: filter (fun c0 => N.eqb (f c0) k) cs else filter (fun c0 => N.eqb (f c0) k) cs)
                          = (if N.eqb (f c) k then [c] else []) ++ filter (fun c0 => N.eqb (f c0) k) cs)
      by (intro k; now destruct (N.eqb (f c) k)).
    rewrite (flat_map_ext _ _ E). rewrite flat_map_app_perm.
    rewrite (flat_map_single f c keys Hnd (Hin c (or_introl eq_refl))). cbn [app]. constructor.
    apply IH. intros c' H. apply Hin. now right.
Qed.

Section EntriesSrc.
  Variables (mi : nat) (slots firsts : list nat) (groups : list (list (N * grp))).

  Definition okw (d : nat) (s : vt) (c : nat) : Prop :=
    nth c firsts 0 <= nth d slots 0 /\ nth d slots 0 - nth c firsts 0 < length (nth c s []) /\ c < length s.
  Definition same_shape (s s0 : vt) : Prop := length s = length s0 /\ forall c, length (nth c s []) = length (nth c s0 []).

  Lemma same_shape_refl s : same_shape s s.
  Proof. split; [reflexivity|]. intro c. reflexivity. Qed.
  Lemma same_shape_write d s s0 cg : same_shape s s0 -> same_shape (write1 mi d (nth d slots 0) firsts s cg) s0.
  Proof. intros [H1 H2]. split; [now rewrite length_write1|]. intro c. now rewrite row_length_write1. Qed.
  Lemma same_shape_writes d ws : forall s s0, same_shape s s0 -> same_shape (apply_writes mi d (nth d slots 0) firsts ws s) s0.
  Proof. intros s s0 [H1 H2]. split; [now rewrite length_apply_writes|]. intro c. now rewrite row_length_apply_writes. Qed.
  Lemma okw_shape d s s0 c : same_shape s s0 -> okw d s0 c -> okw d s c.
  Proof. intros [H1 H2] [A [B C]]. unfold okw. rewrite H1, H2. auto. Qed.

  Lemma ewrite_step d gn cls0 cc s : okw d s cc ->
    eexec mi slots firsts groups EWriteEntry (mk_ecx (Some d) (Some (gn, cls0)) (Some cc)) s
    = Some (write1 mi d (nth d slots 0) firsts s (cc, gn)).
  Proof.
    intros [A [B C]]. cbn [eexec ex_dim ex_group ex_cls].
    assert (E1 : (nth d slots 0 <? nth cc firsts 0) = false) by (apply Nat.ltb_ge; exact A). rewrite E1.
    apply Nat.ltb_lt in B. apply Nat.ltb_lt in C. rewrite B, C. reflexivity.
  Qed.

  Lemma ewrite_loop d gn cls0 s0 : forall cls s, same_shape s s0 -> (forall c, In c cls -> okw d s0 c) ->
    efor (fun cc s' => eexec mi slots firsts groups EWriteEntry (mk_ecx (Some d) (Some (gn, cls0)) (Some cc)) s') cls s
    = Some (apply_writes mi d (nth d slots 0) firsts (map (fun c => (c, gn)) cls) s).
  Proof.
    induction cls as [|c cls IH]; intros s Hs Hok; cbn [efor map apply_writes fold_left]; [reflexivity|].
    rewrite ewrite_step by (apply (okw_shape d s s0 c Hs); apply Hok; now left).
    apply IH; [now apply same_shape_write|]. intros c' H. apply Hok. now right.
  Qed.

  Definition code_writes (gcs : list (nat * list nat)) : list (nat * nat) :=
    flat_map (fun gc => map (fun c => (c, fst gc)) (snd gc)) gcs.

  Lemma egroups_loop d s0 : forall gcs s, same_shape s s0 -> (forall gc c, In gc gcs -> In c (snd gc) -> okw d s0 c) ->
    efor (fun ig s' => eexec mi slots firsts groups (EForGroupClasses EWriteEntry) (mk_ecx (Some d) (Some ig) None) s') gcs s
    = Some (apply_writes mi d (nth d slots 0) firsts (code_writes gcs) s).
  Proof.
    induction gcs as [|[gn cls] gcs IH]; intros s Hs Hok; cbn [efor code_writes flat_map]; [reflexivity|].
    assert (E : eexec mi slots firsts groups (EForGroupClasses EWriteEntry) (mk_ecx (Some d) (Some (gn, cls)) None) s
                = efor (fun cc s' => eexec mi slots firsts groups EWriteEntry (mk_ecx (Some d) (Some (gn, cls)) (Some cc)) s') cls s) by reflexivity.
    rewrite E, (ewrite_loop d gn cls s0 cls s Hs) by (intros c Hc; apply (Hok (gn, cls) c); [now left|exact Hc]).
    rewrite IH; [|now apply same_shape_writes|intros gc c H1 H2; apply (Hok gc c); [now right|exact H2]].
    cbn [fst snd]. unfold apply_writes. now rewrite fold_left_app.
  Qed.

  Definition gcs_of (d : nat) : list (nat * list nat) :=
    combine (seq 0 (length (nth d groups []))) (map (fun kg => g_classes (snd kg)) (nth d groups [])).

  Lemma edim_step d s s0 : same_shape s s0 -> (forall gc c, In gc (gcs_of d) -> In c (snd gc) -> okw d s0 c) ->
    eexec mi slots firsts groups (EForGroups (EForGroupClasses EWriteEntry)) (mk_ecx (Some d) None None) s
    = Some (apply_writes mi d (nth d slots 0) firsts (code_writes (gcs_of d)) s).
  Proof. intros Hs Hok. cbn [eexec ex_dim]. now apply (egroups_loop d s0). Qed.

  Definition all_dims (ds : list nat) (s : vt) : vt :=
    fold_left (fun s' d => apply_writes mi d (nth d slots 0) firsts (code_writes (gcs_of d)) s') ds s.

  Lemma edims_loop s0 : forall ds s, same_shape s s0 ->
    (forall d gc c, In d ds -> In gc (gcs_of d) -> In c (snd gc) -> okw d s0 c) ->
    efor (fun d s' => eexec mi slots firsts groups (EForGroups (EForGroupClasses EWriteEntry)) (mk_ecx (Some d) None None) s') ds s
    = Some (all_dims ds s).
  Proof.
    induction ds as [|d ds IH]; intros s Hs Hok; cbn [efor all_dims fold_left]; [reflexivity|].
    rewrite (edim_step d s s0 Hs) by (intros gc c H1 H2; apply (Hok d gc c); [now left|exact H1|exact H2]).
    apply IH; [now apply same_shape_writes|]. intros d' gc c H0 H1 H2. apply (Hok d' gc c); [now right|exact H1|exact H2].
  Qed.

  Theorem entries_run s : (forall d gc c, d < length slots -> In gc (gcs_of d) -> In c (snd gc) -> okw d s c) ->
    eexec mi slots firsts groups gen_entries (mk_ecx None None None) s = Some (all_dims (seq 0 (length slots)) s).
  Proof.
    intro Hok. change gen_entries with (EForDims (EForGroups (EForGroupClasses EWriteEntry))).
    cbn [eexec]. apply (edims_loop s); [apply same_shape_refl|].
    intros d gc c Hd. apply Hok. apply in_seq in Hd. lia.
  Qed.
End EntriesSrc.

(* ------------------------------------------------------------------ the entries are the model's *)

Lemma flat_map_ext_in {A B} (f g : A -> list B) l : (forall x, In x l -> f x = g x) -> flat_map f l = flat_map g l.
Proof. induction l as [|a l IH]; intro H; cbn [flat_map]; [reflexivity|]. rewrite (H a (or_introl eq_refl)), IH; [reflexivity|]. intros x Hx. apply H. now right. Qed.

Lemma flat_map_combine_snd {A B} (G : A -> list B) : forall ks start,
  flat_map (fun p : nat * A => G (snd p)) (combine (seq start (length ks)) ks) = flat_map G ks.
Proof. induction ks as [|k ks IH]; intro start; cbn [length seq combine flat_map snd]; [reflexivity|]. now rewrite IH. Qed.

Lemma map_flat_map {A B C} (P : B -> C) (F : A -> list B) l : flat_map (fun k => map P (F k)) l = map P (flat_map F l).
Proof. induction l as [|a l IH]; cbn [flat_map map]; [reflexivity|]. now rewrite map_app, IH. Qed.

Lemma in_combine_seq {A} (ks : list A) dflt : forall start i k, In (i, k) (combine (seq start (length ks)) ks) ->
  start <= i /\ i - start < length ks /\ nth (i - start) ks dflt = k.
Proof.
  induction ks as [|k0 ks IH]; intros start i k H; cbn [length seq combine] in H; [contradiction|].
  destruct H as [E|H].
  - inversion E; subst. rewrite Nat.sub_diag. cbn [length nth]. repeat split; lia.
  - destruct (IH (S start) i k H) as [H1 [H2 H3]]. cbn [length]. replace (i - start) with (S (i - S start)) by lia. cbn [nth].
    repeat split; try lia. exact H3.
Qed.

Section EntriesModel.
  Variables (L : lattice) (m : cmeth) (enum : nat -> list nat).
  Variables (mi : nat) (slots firsts : list nat) (gs : list (list (N * grp))).
  Notation specs := (cm_specs m).
  Notation vp := (cm_vp m).

  Hypothesis Hen_mem : forall v x, In x (enum v) <-> In x (cov_of L v).
  Hypothesis Hen_nd : forall v, NoDup (enum v).
  Hypothesis Hcov_nd : forall v, NoDup (cov_of L v).
  Hypothesis Hkeys : forall d, d < length vp -> map fst (nth d gs []) = tb_masks L m d.
  Hypothesis Hcls : forall d k g, d < length vp -> In (k, g) (nth d gs []) ->
    g_classes g = filter (fun c => N.eqb (mask_of L specs d c) k) (enum (nth d vp 0)).

  Definition model_dim (s : vt) (d : nat) : vt :=
    let slot := nth d slots 0 in
    fold_left (fun s' c => let fs := nth c firsts 0 in
                           if slot <? fs then s' else upd_nth c s' [] (fun l => set_nth (slot - fs) l (mi, d, group_index L m d c)))
              (cov_of L (nth d vp 0)) s.

  Lemma model_dim_writes d : forall cs s, (forall c, In c cs -> nth c firsts 0 <= nth d slots 0) ->
    fold_left (fun s' c => let fs := nth c firsts 0 in
                           if nth d slots 0 <? fs then s' else upd_nth c s' [] (fun l => set_nth (nth d slots 0 - fs) l (mi, d, group_index L m d c))) cs s
    = apply_writes mi d (nth d slots 0) firsts (map (fun c => (c, group_index L m d c)) cs) s.
  Proof.
    induction cs as [|c cs IH]; intros s H; cbn [fold_left map apply_writes]; [reflexivity|].
    assert (E : (nth d slots 0 <? nth c firsts 0) = false) by (apply Nat.ltb_ge; apply H; now left). cbv zeta. rewrite E.
    unfold apply_writes in IH. rewrite IH by (intros c' H'; apply H; now right). reflexivity.
  Qed.

  Lemma group_index_of_key d c : group_index L m d c
    = match index_ofN (mask_of L specs d c) (tb_masks L m d) with Some g => g | None => 0 end.
  Proof. unfold group_index. now rewrite tb_groups_fst. Qed.

  Lemma code_writes_perm d : d < length vp ->
    Permutation (map (fun c => (c, group_index L m d c)) (cov_of L (nth d vp 0))) (code_writes (gcs_of gs d)).
  Proof.
    intro Hd. set (en := enum (nth d vp 0)). set (keys := tb_masks L m d). set (gd := nth d gs []).
    assert (Hcl : map (fun kg => g_classes (snd kg)) gd = map (fun k => filter (fun c => N.eqb (mask_of L specs d c) k) en) keys).
    { unfold keys. rewrite <- (Hkeys d Hd). fold gd. rewrite map_map. apply map_ext_in. intros [k g] Hin. cbn [fst snd].
      now apply (Hcls d k g Hd). }
    assert (Hlen : length gd = length keys) by (unfold keys; rewrite <- (Hkeys d Hd); fold gd; now rewrite map_length).
    unfold gcs_of. fold gd. rewrite Hcl, Hlen.
    (* the classes of group number i all have group_index i *)
    assert (E1 : code_writes (combine (seq 0 (length keys)) (map (fun k => filter (fun c => N.eqb (mask_of L specs d c) k) en) keys))
                 = map (fun c => (c, group_index L m d c)) (flat_map (fun k => filter (fun c => N.eqb (mask_of L specs d c) k) en) keys)).
    { unfold code_writes.
      rewrite <- (map_flat_map (fun c => (c, group_index L m d c)) (fun k => filter (fun c => N.eqb (mask_of L specs d c) k) en) keys).
      rewrite <- (flat_map_combine_snd (fun k => map (fun c => (c, group_index L m d c)) (filter (fun c => N.eqb (mask_of L specs d c) k) en)) keys 0).
      (* combine (seq ..) (map F keys)  =  map (fun '(i,k) => (i, F k)) (combine (seq ..) keys) *)
      assert (Ec : forall (ks : list N) start,
                 flat_map (fun gc : nat * list nat => map (fun c => (c, fst gc)) (snd gc))
                          (combine (seq start (length ks)) (map (fun k => filter (fun c => N.eqb (mask_of L specs d c) k) en) ks))
                 = flat_map (fun p : nat * N => map (fun c => (c, fst p)) (filter (fun c => N.eqb (mask_of L specs d c) (snd p)) en))
                            (combine (seq start (length ks)) ks)).
      { induction ks as [|k ks IHk]; intro start; cbn [length seq map combine flat_map fst snd]; [reflexivity|]. now rewrite IHk. }
      rewrite Ec. apply flat_map_ext_in. intros [i k] Hin. cbn [fst snd].
      destruct (in_combine_seq keys 0%N 0 i k Hin) as [_ [Hi Hk]]. rewrite Nat.sub_0_r in Hi, Hk.
      apply map_ext_in. intros c Hc. apply filter_In in Hc. destruct Hc as [_ Hc]. apply N.eqb_eq in Hc.
      f_equal. rewrite group_index_of_key, Hc. fold keys.
      now rewrite (index_ofN_nodup k keys (tb_masks_NoDup L m d) i Hi Hk). }
    rewrite E1. apply Permutation_map.
    transitivity en.
    - apply NoDup_Permutation; [apply Hcov_nd|apply Hen_nd|]. intro x. symmetry. apply Hen_mem.
    - symmetry. apply partition_perm; [apply tb_masks_NoDup|].
      intros c Hc. apply tb_masks_In. exists c. split; [now apply Hen_mem|reflexivity].
  Qed.

  Theorem src_entries s : length slots = length vp ->
    (forall d c, d < length vp -> In c (cov_of L (nth d vp 0)) -> okw slots firsts d s c) ->
    eexec mi slots firsts gs gen_entries (mk_ecx None None None) s = Some (fold_left model_dim (seq 0 (length vp)) s).
  Proof.
    intros Hsl Hok. rewrite entries_run.
    - f_equal. rewrite Hsl. unfold all_dims.
      assert (G : forall ds s1, (forall d, In d ds -> d < length vp) ->
                fold_left (fun s' d => apply_writes mi d (nth d slots 0) firsts (code_writes (gcs_of gs d)) s') ds s1
                = fold_left model_dim ds s1).
      { induction ds as [|d ds IH]; intros s1 Hds; cbn [fold_left]; [reflexivity|].
        assert (Hd : d < length vp) by (apply Hds; now left).
        unfold model_dim at 2. rewrite model_dim_writes by (intros c Hc; apply (Hok d c Hd Hc)).
        rewrite (apply_writes_perm mi d (nth d slots 0) firsts _ _ (code_writes_perm d Hd)).
        - apply IH. intros d' H. apply Hds. now right.
        - rewrite map_map. cbn [fst]. rewrite map_id. apply Hcov_nd. }
      apply G. intros d Hd. apply in_seq in Hd. lia.
    - intros d gc c Hd Hgc Hc. rewrite Hsl in Hd. apply (Hok d c Hd).
      (* c belongs to a group of dimension d, hence to the covariant classes *)
      unfold gcs_of in Hgc. destruct gc as [gn cls]. cbn [snd] in Hc.
      apply in_combine_r in Hgc. apply in_map_iff in Hgc. destruct Hgc as [[k g] [Eg Hin]]. cbn [snd] in Eg. subst cls.
      rewrite (Hcls d k g Hd Hin) in Hc. apply filter_In in Hc. destruct Hc as [Hc _]. now apply Hen_mem.
  Qed.
End EntriesModel.

(* ------------------------------------------------------------------ both blocks, for one method *)

Theorem src_groups_entries L m enum mi slots firsts s :
  (forall v x, In x (enum v) <-> In x (cov_of L v)) -> (forall v, NoDup (enum v)) -> (forall v, NoDup (cov_of L v)) ->
  exists gs, run_groups L m enum gen_groups = Some gs /\
    (forall d, d < length (cm_vp m) -> map (fun kg => (fst kg, g_conc (snd kg))) (nth d gs []) = groups_of L m d) /\
    (length slots = length (cm_vp m) ->
     (forall d c, d < length (cm_vp m) -> In c (cov_of L (nth d (cm_vp m) 0)) -> okw slots firsts d s c) ->
     eexec mi slots firsts gs gen_entries (mk_ecx None None None) s
     = Some (fold_left (model_dim L m mi slots firsts) (seq 0 (length (cm_vp m))) s)).
Proof.
  intros Hmem Hnd Hcnd. destruct (src_groups L m enum Hmem) as [gs [E [Hlen Hg]]].
  exists gs. split; [exact E|]. split; [intros d Hd; apply (Hg d Hd)|].
  intros Hsl Hok. apply (src_entries L m enum mi slots firsts gs Hmem Hnd Hcnd); try assumption.
  - intros d Hd. destruct (Hg d Hd) as [H1 _]. rewrite <- tb_groups_fst, <- H1, map_map. cbn [fst]. reflexivity.
  - intros d k g Hd Hin. destruct (Hg d Hd) as [_ H2]. now apply H2.
Qed.
