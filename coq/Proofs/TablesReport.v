(* TablesReport.v — (T3) what the counters of build_method's report mean, at the level of class indexes:
   a counter is positive iff some legal tuple (of non-abstract classes, for the concrete counters)
   reaches a cell of that kind. *)
From Coq Require Import List Arith NArith Lia Bool.
From Y2 Require Import Model.Registry Model.Compile Spec.Dispatch Proofs.Interfaces
                       Proofs.TablesGeneric Proofs.TablesBuild.
Import ListNotations.
Local Open Scope nat_scope.

(* class c is not abstract *)
Definition tr_concrete (L : lattice) (c : nat) : Prop :=
  k_abstract (nth c (l_info L) (mk_cls [] false)) = false.

(* the (mask, has_concrete) pairs of the groups of the classes of a tuple, dimension dim first *)
Definition tr_pairs (L : lattice) (m : cmeth) (dim : nat) (cs : list nat) : list (N * bool) :=
  map (fun dc => (mask_of L (cm_specs m) (fst dc) (snd dc),
                  tb_hc L m (fst dc) (mask_of L (cm_specs m) (fst dc) (snd dc))))
      (combine (seq dim (length cs)) cs).

Lemma tr_best_tuple L m cs :
  Forall (fun sp => length sp = length (cm_vp m) /\ Forall (fun c => c < ncls L) sp) (cm_specs m) ->
  length cs = length (cm_vp m) ->
  tb_best L (cm_specs m)
          (fold_left tb_inter (rev (tr_pairs L m 0 cs)) (N.ones (N.of_nat (length (cm_specs m))), true))
  = (cell_of (best L (cm_specs m) (applicable_set L m cs)), tb_flag L m cs).
Proof.
  intros Hspecs Hl. unfold tb_best, tr_pairs. f_equal.
  - rewrite tb_bits_applicable by assumption. reflexivity.
  - rewrite tb_fold_inter_flag. cbn [snd andb]. rewrite tg_forallb_rev, tb_forallb_map. reflexivity.
Qed.

(* a tuple of non-abstract classes selects groups that all have a concrete class *)
Lemma tr_flag_concrete L m vps cs : tb_legal L vps cs -> Forall (tr_concrete L) cs ->
  forall pre, cm_vp m = pre ++ vps ->
  forallb snd (tr_pairs L m (length pre) cs) = true.
Proof.
  unfold tr_pairs.
  induction 1 as [|p c vps cs Hpc H IH]; intros Hc pre E; [reflexivity|].
  inversion Hc as [|? ? Hc0 Hc']; subst.
  cbn [length seq combine map forallb fst snd]. apply andb_true_iff. split.
  - unfold tb_hc. apply existsb_exists. exists c. split.
    + rewrite E, nth_middle. exact Hpc.
    + rewrite N.eqb_refl. unfold tr_concrete in Hc0. now rewrite Hc0.
  - specialize (IH Hc' (pre ++ [p])). rewrite app_length in IH. cbn [length] in IH.
    rewrite Nat.add_1_r in IH. apply IH. rewrite E, <- app_assoc. reflexivity.
Qed.

(* every tuple of groups is the tuple of groups of some legal tuple of classes; when all the groups
   have a concrete class, of non-abstract classes *)
Lemma tr_choose L m (b : bool) vps : forall pre idx, cm_vp m = pre ++ vps ->
  tg_inb _ (tb_groups L m (length pre) (length vps)) idx ->
  (b = true -> forallb snd (tb_selected (tb_groups L m (length pre) (length vps)) idx) = true) ->
  exists cs, tb_legal L vps cs /\
             tb_selected (tb_groups L m (length pre) (length vps)) idx = tr_pairs L m (length pre) cs /\
             (b = true -> Forall (tr_concrete L) cs).
Proof.
  induction vps as [|p vps IH]; intros pre idx E Hinb Hb.
  - inversion Hinb; subst. exists []. repeat split; constructor.
  - cbn [length tb_groups seq map] in Hinb, Hb |- *.
    inversion Hinb as [|? k ? idx' Hk Hinb']; subst.
    unfold tb_selected in Hb. cbn [combine map forallb fst snd] in Hb.
    specialize (IH (pre ++ [p]) idx'). rewrite app_length in IH. cbn [length] in IH.
    rewrite Nat.add_1_r in IH.
    destruct IH as [cs [Hlegal [Hsel Hconc]]].
    { rewrite E, <- app_assoc. reflexivity. }
    { exact Hinb'. }
    { intro Hbt. specialize (Hb Hbt). apply andb_true_iff in Hb. apply Hb. }
    rewrite tb_groups_length in Hk.
    assert (exists c, In c (cov_of L p) /\
                      nth k (tb_masks L m (length pre)) 0%N = mask_of L (cm_specs m) (length pre) c /\
                      (b = true -> tr_concrete L c)) as [c [Hc [Hm Hcc]]].
    { destruct b.
      - specialize (Hb eq_refl). apply andb_true_iff in Hb. destruct Hb as [Hb _].
        rewrite tb_groups_nth in Hb by assumption. cbn [snd] in Hb.
        unfold tb_hc in Hb. apply existsb_exists in Hb. destruct Hb as [c [Hc Hb]].
        apply andb_true_iff in Hb. destruct Hb as [Hb1 Hb2]. apply N.eqb_eq in Hb1.
        rewrite E, nth_middle in Hc. exists c. repeat split; [assumption|now symmetry|].
        intros _. unfold tr_concrete. now destruct (k_abstract _).
      - assert (In (nth k (tb_masks L m (length pre)) 0%N) (tb_masks L m (length pre))) as Hin
          by (now apply nth_In).
        apply tb_masks_In in Hin. destruct Hin as [c [Hc Hm]]. rewrite E, nth_middle in Hc.
        exists c. repeat split; [assumption|assumption|discriminate]. }
    exists (c :: cs). split; [|split].
    + constructor; assumption.
    + unfold tb_selected, tr_pairs. cbn [length seq combine map fst snd]. f_equal.
      * rewrite tb_groups_nth by assumption. now rewrite Hm.
      * exact Hsel.
    + intro Hbt. constructor; [now apply Hcc|now apply Hconc].
Qed.

Section Report.
  Variables (L : lattice) (m : cmeth).
  Hypothesis Hwf : meth_wf L m.

  Let t := build_method L m.
  Let cell_at (cs : list nat) : cell := nth (table_index L m (t_strides t) 0 cs) (t_cells t) CNi.

  Lemma tr_cell_at cs : tb_legal L (cm_vp m) cs ->
    cell_at cs = fst (nth (table_index L m (tb_strides L m) 0 cs) (tb_cf L m) (CNi, false)).
  Proof.
    intros _. unfold cell_at, t. rewrite tb_cells_eq, tb_strides_eq.
    change CNi with (fst (CNi, false)) at 1. now rewrite map_nth.
  Qed.

  (* the produced (cell, flag) pairs are exactly those of the legal tuples *)
  Lemma tr_cf_In x : In x (tb_cf L m) ->
    exists cs, tb_legal L (cm_vp m) cs /\
               x = (cell_of (best L (cm_specs m) (applicable_set L m cs)), tb_flag L m cs) /\
               (snd x = true -> Forall (tr_concrete L) cs).
  Proof.
    pose proof Hwf as (Hne & Hvp & Hspecs & _). intro Hx.
    rewrite tb_cf_eq in Hx by assumption.
    destruct (tg_build_In _ _ tb_inter (tb_best L (cm_specs m)) _ _ (0%N, false) _ Hx) as [idx [Hinb Ex]].
    rewrite tb_sel_spec in Ex.
    assert (tg_inb _ (tb_groups L m 0 (length (cm_vp m))) (rev idx)) as Hinb'.
    { apply tg_Forall2_rev in Hinb. now rewrite rev_involutive in Hinb. }
    assert (length (tb_groups L m 0 (length (cm_vp m))) = length (rev idx)) as Hlen
      by (exact (tg_Forall2_length _ _ _ Hinb')).
    rewrite <- (rev_involutive idx) in Ex. rewrite tb_selected_rev in Ex by assumption.
    destruct (tr_choose L m (snd x) (cm_vp m) [] (rev idx) eq_refl Hinb') as [cs [Hlegal [Hsel Hconc]]].
    { intro Hs. rewrite Ex in Hs. unfold tb_best in Hs. cbn [snd] in Hs.
      rewrite tb_fold_inter_flag in Hs. cbn [snd andb] in Hs. now rewrite tg_forallb_rev in Hs. }
    cbn [length] in Hsel. rewrite Hsel in Ex.
    exists cs. split; [assumption|]. split; [|assumption].
    rewrite Ex. apply tr_best_tuple; [assumption|].
    symmetry. exact (tg_Forall2_length _ _ _ Hlegal).
  Qed.

  Lemma tr_cf_of_tuple cs : tb_legal L (cm_vp m) cs ->
    In (cell_at cs, tb_flag L m cs) (tb_cf L m) /\
    (Forall (tr_concrete L) cs -> tb_flag L m cs = true).
  Proof.
    intro Hlegal.
    assert (length cs = length (cm_vp m)) as Hl by (symmetry; exact (tg_Forall2_length _ _ _ Hlegal)).
    destruct (tb_cf_at L m cs Hwf Hl Hlegal) as [Hlt Hn]. split.
    - rewrite tr_cell_at by assumption. rewrite Hn. cbn [fst]. rewrite <- Hn. now apply nth_In.
    - intro Hc. pose proof (tr_flag_concrete L m _ _ Hlegal Hc [] eq_refl) as H.
      unfold tr_pairs in H. rewrite tb_forallb_map in H. exact H.
  Qed.

  (* counting the cells of one kind *)
  Lemma tr_count_pos (w : cell -> bool) :
    0 < length (filter (fun cf => w (fst cf)) (tb_cf L m)) <->
    exists cs, tb_legal L (cm_vp m) cs /\ w (cell_at cs) = true.
  Proof.
    rewrite tg_filter_length_pos. split.
    - intros [x [Hx Hw]]. destruct (tr_cf_In x Hx) as [cs [Hlegal [Ex _]]].
      exists cs. split; [assumption|].
      assert (length cs = length (cm_vp m)) as Hl by (symmetry; exact (tg_Forall2_length _ _ _ Hlegal)).
      destruct (tb_cf_at L m cs Hwf Hl Hlegal) as [_ Hn].
      rewrite tr_cell_at, Hn by assumption. cbn [fst]. now rewrite Ex in Hw.
    - intros [cs [Hlegal Hw]]. destruct (tr_cf_of_tuple cs Hlegal) as [Hin _].
      exists (cell_at cs, tb_flag L m cs). split; [assumption|exact Hw].
  Qed.

  Lemma tr_count_concrete_pos (w : cell -> bool) :
    0 < length (filter (fun cf => w (fst cf) && snd cf) (tb_cf L m)) <->
    exists cs, tb_legal L (cm_vp m) cs /\ Forall (tr_concrete L) cs /\ w (cell_at cs) = true.
  Proof.
    rewrite tg_filter_length_pos. split.
    - intros [x [Hx Hw]]. apply andb_true_iff in Hw. destruct Hw as [Hw Hs].
      destruct (tr_cf_In x Hx) as [cs [Hlegal [Ex Hc]]].
      exists cs. split; [assumption|]. split; [now apply Hc|].
      assert (length cs = length (cm_vp m)) as Hl by (symmetry; exact (tg_Forall2_length _ _ _ Hlegal)).
      destruct (tb_cf_at L m cs Hwf Hl Hlegal) as [_ Hn].
      rewrite tr_cell_at, Hn by assumption. cbn [fst]. now rewrite Ex in Hw.
    - intros [cs [Hlegal [Hc Hw]]]. destruct (tr_cf_of_tuple cs Hlegal) as [Hin Hf].
      exists (cell_at cs, tb_flag L m cs). split; [assumption|].
      cbn [fst snd]. rewrite Hw, Hf by assumption. reflexivity.
  Qed.

  Lemma tr_is_ni c : is_ni c = true <-> c = CNi.
  Proof. destruct c; cbn; split; congruence. Qed.
  Lemma tr_is_amb c : is_amb c = true <-> c = CAmb.
  Proof. destruct c; cbn; split; congruence. Qed.

  (* ---------------------------------------------------------------- (T3) *)

  Theorem report_ni :
    0 < rp_ni (t_report t) <-> exists cs, tb_legal L (cm_vp m) cs /\ cell_at cs = CNi.
  Proof.
    change (rp_ni (t_report t)) with (length (filter (fun cf => is_ni (fst cf)) (tb_cf L m))).
    rewrite tr_count_pos. split; intros [cs [H1 H2]]; exists cs; (split; [assumption|]); now apply tr_is_ni.
  Qed.

  Theorem report_amb :
    0 < rp_amb (t_report t) <-> exists cs, tb_legal L (cm_vp m) cs /\ cell_at cs = CAmb.
  Proof.
    change (rp_amb (t_report t)) with (length (filter (fun cf => is_amb (fst cf)) (tb_cf L m))).
    rewrite tr_count_pos. split; intros [cs [H1 H2]]; exists cs; (split; [assumption|]); now apply tr_is_amb.
  Qed.

  Theorem report_cni :
    0 < rp_cni (t_report t) <->
    exists cs, tb_legal L (cm_vp m) cs /\ Forall (tr_concrete L) cs /\ cell_at cs = CNi.
  Proof.
    change (rp_cni (t_report t)) with (length (filter (fun cf => is_ni (fst cf) && snd cf) (tb_cf L m))).
    rewrite tr_count_concrete_pos.
    split; intros [cs [H1 [H2 H3]]]; exists cs; (split; [assumption|split; [assumption|]]); now apply tr_is_ni.
  Qed.

  Theorem report_camb :
    0 < rp_camb (t_report t) <->
    exists cs, tb_legal L (cm_vp m) cs /\ Forall (tr_concrete L) cs /\ cell_at cs = CAmb.
  Proof.
    change (rp_camb (t_report t)) with (length (filter (fun cf => is_amb (fst cf) && snd cf) (tb_cf L m))).
    rewrite tr_count_concrete_pos.
    split; intros [cs [H1 [H2 H3]]]; exists cs; (split; [assumption|split; [assumption|]]); now apply tr_is_amb.
  Qed.

  Theorem report_cells :
    rp_cells (t_report t) = if 1 <? length (cm_vp m) then length (t_cells t) else 0.
  Proof.
    pose proof Hwf as (Hne & _).
    change (rp_cells (t_report t)) with (if 1 <? length (cm_vp m) then prod_list (tb_sizes L m) else 0).
    unfold t. rewrite tb_cells_eq, map_length, tb_cf_length by assumption. reflexivity.
  Qed.

  Corollary report_cells_multi : 1 < length (cm_vp m) -> rp_cells (t_report t) = length (t_cells t).
  Proof. intro H. rewrite report_cells. apply Nat.ltb_lt in H. now rewrite H. Qed.

  Corollary report_cells_uni : length (cm_vp m) = 1 -> rp_cells (t_report t) = 0.
  Proof. intro H. rewrite report_cells, H. reflexivity. Qed.
End Report.
