(* C16 — the obligations over the access lists translated from the current
   source (Gen/GenCallPath.v), and their composition with the generic
   interleaving theorem.  Kept apart from CallPathProofs.v so that the generic
   proofs still build when a translated fact stops holding. *)

From Coq Require Import String List Bool NArith Arith.
From Y2 Require Import Model.CallPath Proofs.CallPathProofs Gen.GenCallPath.
Import ListNotations.

Lemma readonly_lemma :
  forallb route_read_only (checked_routes GenCallPath.routes) = true.
Proof. vm_compute. reflexivity. Qed.

Lemma routes_complete_lemma :
  routes_complete GenCallPath.routes = true.
Proof. vm_compute. reflexivity. Qed.

Lemma dispatch_jump_lemma :
  forallb route_jump_ok (checked_routes GenCallPath.routes) = true.
Proof. vm_compute. reflexivity. Qed.

Lemma no_global_written_lemma :
  written_globals_of (checked_routes GenCallPath.routes) = [].
Proof. vm_compute. reflexivity. Qed.

(* a thread "runs a checked route" when the kinds of its steps are the
   translated access list of that route (TRUSTED: that the translator's list
   covers what the compiled code does) *)
Definition runs_checked_route (t : thread) : Prop :=
  exists r, In r (checked_routes GenCallPath.routes) /\ kinds t = r_accesses r.

Lemma runs_checked_route_clean : forall t, runs_checked_route t -> clean t.
Proof.
  intros t [r [Hin Hk]].
  pose proof readonly_lemma as H. rewrite forallb_forall in H.
  specialize (H r Hin). unfold route_read_only in H. unfold clean. rewrite Hk.
  destruct (is_smart r); [right | left]; exact H.
Qed.

Lemma call_path_lemma :
  forall (ts : list thread) (sch : schedule) (s0 : shared),
    (forall t, In t ts -> runs_checked_route t) ->
    interleave ts sch ->
    ~ race sch
    /\ fst (run sch s0) = s0
    /\ (forall i t, nth_error ts i = Some t ->
          obs_of i (snd (run sch s0)) = alone t s0).
Proof.
  intros ts sch s0 H Hil.
  destruct (no_race_lemma ts sch s0) as [H1 [H2 H3]].
  - intros t Hin. apply runs_checked_route_clean. apply H. exact Hin.
  - exact Hil.
  - split; [exact H1|]. split; [exact H2|]. intros i t Ht. apply (H3 i t Ht).
Qed.

Lemma call_path_foreign_update_lemma :
  forall (W : loc -> Prop) (ts : list thread) (u : nat) (tu : thread)
         (sch : schedule) (s0 : shared),
    nth_error ts u = Some tu ->
    writes_within W tu ->
    (forall i t, nth_error ts i = Some t -> i <> u ->
        runs_checked_route t /\ observes_outside W t) ->
    interleave ts sch ->
    ~ race sch
    /\ agree_outside W (fst (run sch s0)) s0
    /\ (forall i t, nth_error ts i = Some t -> i <> u ->
          obs_of i (snd (run sch s0)) = alone t s0).
Proof.
  intros W ts u tu sch s0 Hu Hw Hothers Hil.
  apply (foreign_update_lemma W ts u tu sch s0 Hu Hw); [|exact Hil].
  intros i t Ht Hne. destruct (Hothers i t Ht Hne) as [Hr Ho].
  split; [apply runs_checked_route_clean; exact Hr | exact Ho].
Qed.
