(* HashSource.v — fast_perfect_hash::hash_initialize, hash_type_id and the rejection test of the checked variant, as
   TRANSLATED from policies/fast_perfect_hash.hpp on this run (Gen/GenHashSearch.v) and interpreted by Model/MiniHash.v,
   are Model.Hash's hash_initialize / hash / checked_lookup — for every multiplier stream, budget, previous state and
   class list.  Hence the C05 theorems hold of the translated code. *)
From Coq Require Import NArith List Bool Lia.
From Y2 Require Import Gen.GenHashConsts Model.Hash Model.MiniHash Gen.GenHashSearch.
Import ListNotations.
Open Scope N_scope.

Definition SZ : N := word_bits / 8.

Lemma word_bits_bytes : 8 * SZ = word_bits.
Proof. reflexivity. Qed.

Definition fN (b : bool) : N := if b then 1 else 0.

(* the store with the four things an attempt changes taken from the model's accumulator *)
Definition put (s : store) (a : acc) : store :=
  mk_store (s_M s) (s_pass s) (s_total s) (s_attempts s) (fN (a_found a)) (s_size s) (s_mult s) (s_shift s)
           (s_length s) (a_min a) (a_max a) (s_halv s) (s_N s) (a_buckets a).

Section Src.
  Variable budget : N.
  Notation P := gen_search.
  Notation HE := (heval budget SZ).
  Notation CE := (ceval budget SZ).
  Notation BX := (bexec budget SZ).

  Ltac red_store :=
    cbn [bexec fold_left sexec heval ceval getv setv set_buckets put fN
         s_M s_pass s_total s_attempts s_found s_size s_mult s_shift s_length s_min s_max s_halv s_N s_buckets
         a_buckets a_min a_max a_found
         hp_pre hp_halv_init hp_halv_step hp_halv_body hp_pass_init hp_pass_cond hp_pass_step hp_pass_pro hp_while_cond
         hp_attempt_pre hp_id_pre hp_id_cond hp_id_then hp_id_post hp_found_cond hp_found_then hp_err_attempts hp_err_buckets].

  (* ---------------------------------------------------------------- the hash function *)
  Theorem src_hash_type_id s t d : HE d t s gen_hash_type_id = hash (s_mult s) (s_shift s) t.
  Proof. unfold gen_hash_type_id, hash. red_store. reflexivity. Qed.

  (* ---------------------------------------------------------------- the straight-line pieces, evaluated once *)
  Lemma hash_comm m sh t : N.shiftr (N.land (t * m) (N.ones word_bits)) sh = hash m sh t.
  Proof. unfold hash. now rewrite N.mul_comm. Qed.

  Lemma id_pre_eq d t s :
    BX d t (hp_id_pre P) s
    = let i := hash (s_mult s) (s_shift s) t in
      mk_store (s_M s) (s_pass s) (s_total s) (s_attempts s) (s_found s) (s_size s) (s_mult s) (s_shift s) (s_length s)
               (N.min (s_min s) i) (N.max (s_max s) i) (s_halv s) (s_N s) (s_buckets s).
  Proof. destruct s. unfold gen_search. red_store. unfold hash. rewrite ?(N.mul_comm t). reflexivity. Qed.

  Lemma id_cond_eq d t s :
    CE d t s (hp_id_cond P) = negb (vget (s_buckets s) (hash (s_mult s) (s_shift s) t) =? sentinel).
  Proof. destruct s. unfold gen_search. red_store. unfold hash. rewrite ?(N.mul_comm t). reflexivity. Qed.

  Lemma id_then_eq d t s : BX d t (hp_id_then P) s = setv s VFound 0.
  Proof. reflexivity. Qed.

  Lemma id_post_eq d t s :
    BX d t (hp_id_post P) s = set_buckets s (vset (s_buckets s) (hash (s_mult s) (s_shift s) t) t).
  Proof. destruct s. unfold gen_search. red_store. unfold hash. rewrite ?(N.mul_comm t). reflexivity. Qed.

  (* ---------------------------------------------------------------- the loop over one class's ids *)
  Lemma src_ids d ids : forall s a, s = put s a ->
    ids_loop budget SZ P d ids s = put s (attempt_class (s_mult s) (s_shift s) ids a).
  Proof.
    induction ids as [|t r IH]; intros s a Hs.
    - exact Hs.
    - cbn [ids_loop attempt_class]. rewrite id_pre_eq, id_cond_eq. cbv zeta.
      destruct s as [M pass total attempts found size mult shift len mn mx halv n buckets].
      destruct a as [ab amn amx af]. unfold put in Hs. cbn in Hs. injection Hs as -> -> -> ->.
      cbn [s_M s_pass s_total s_attempts s_found s_size s_mult s_shift s_length s_min s_max s_halv s_N s_buckets
           a_buckets a_min a_max a_found].
      set (i := hash mult shift t).
      destruct (vget ab i =? sentinel) eqn:E; cbn [negb].
      + rewrite id_post_eq. cbn [set_buckets s_M s_pass s_total s_attempts s_found s_size s_mult s_shift s_length s_min s_max s_halv s_N s_buckets].
        fold i.
        rewrite (IH _ (mk_acc (vset ab i t) (N.min amn i) (N.max amx i) af)) by reflexivity.
        reflexivity.
      + rewrite id_then_eq. reflexivity.
  Qed.

  (* ---------------------------------------------------------------- the loop over the classes *)
  Lemma put_put s a b : put (put s a) b = put s b.
  Proof. reflexivity. Qed.

  Lemma src_classes d classes : forall s a, s = put s a ->
    classes_loop budget SZ P d classes s = put s (attempt_classes (s_mult s) (s_shift s) classes a).
  Proof.
    unfold classes_loop, attempt_classes.
    induction classes as [|c cs IH]; intros s a Hs.
    - exact Hs.
    - cbn [fold_left]. rewrite (src_ids d (cls_ids c) s a Hs).
      rewrite (IH _ (attempt_class (s_mult s) (s_shift s) (cls_ids c) a)) by reflexivity.
      reflexivity.
  Qed.

  (* an attempt keeps the number of buckets *)
  Lemma set_nth_length {A} (l : list A) : forall n x, length (set_nth n x l) = length l.
  Proof. induction l as [|y r IH]; intros [|n] x; cbn; auto. Qed.

  Lemma attempt_class_length m sh ids : forall a, length (a_buckets (attempt_class m sh ids a)) = length (a_buckets a).
  Proof.
    induction ids as [|t r IH]; intros a; [reflexivity|]. cbn [attempt_class].
    destruct (vget (a_buckets a) (hash m sh t) =? sentinel); [|reflexivity].
    rewrite IH. cbn [a_buckets]. unfold vset. apply set_nth_length.
  Qed.

  Lemma attempt_classes_length m sh classes : forall a,
    length (a_buckets (attempt_classes m sh classes a)) = length (a_buckets a).
  Proof.
    unfold attempt_classes. induction classes as [|c cs IH]; intros a; [reflexivity|].
    cbn [fold_left]. rewrite IH. apply attempt_class_length.
  Qed.

  (* ---------------------------------------------------------------- one pass: the while loop *)
  Lemma while_cond_eq s : CE 0 0 s (hp_while_cond P) = negb (negb (s_found s =? 0)) && (s_attempts s <? budget).
  Proof. reflexivity. Qed.

  Lemma attempt_pre_eq x s :
    BX x 0 (hp_attempt_pre P) s
    = mk_store (s_M s) (s_pass s) (s_total s + 1) (s_attempts s + 1) 1 (s_size s) (N.lor x 1) (s_shift s) (s_length s)
               (s_min s) (s_max s) (s_halv s) (s_N s) (repeat sentinel (length (s_buckets s))).
  Proof. destruct s. reflexivity. Qed.

  (* what the pass leaves in the store, given the model's outcome of the pass *)
  Definition after_pass (s : store) (o : pass_outcome) : option (store * list N) :=
    match o with
    | PassFound rest att m a =>
        Some (mk_store (s_M s) (s_pass s) (s_total s + (att - s_attempts s)) att 1 (s_size s) m (s_shift s) (s_length s)
                       (a_min a) (a_max a) (s_halv s) (s_N s) (a_buckets a), rest)
    | PassFail rest att m mn mx b =>
        Some (mk_store (s_M s) (s_pass s) (s_total s + (att - s_attempts s)) att 0 (s_size s) m (s_shift s) (s_length s)
                       mn mx (s_halv s) (s_N s) b, rest)
    | PassStream => None
    end.

  Lemma pass_loop_attempts sh size classes : forall stream att m mn mx b,
    match pass_loop sh size classes budget stream att m mn mx b with
    | PassFound _ att' _ _ => att <= att'
    | PassFail _ att' _ _ _ _ => att <= att'
    | PassStream => True
    end.
  Proof.
    induction stream as [|x rest IH]; intros att m mn mx b; cbn [pass_loop].
    - destruct (budget <=? att); [lia|exact I].
    - destruct (budget <=? att); [lia|].
      destruct (a_found (attempt (N.lor x 1) sh size classes mn mx)); [lia|].
      specialize (IH (att + 1) (N.lor x 1) (a_min (attempt (N.lor x 1) sh size classes mn mx))
                     (a_max (attempt (N.lor x 1) sh size classes mn mx)) (a_buckets (attempt (N.lor x 1) sh size classes mn mx))).
      destruct (pass_loop _ _ _ _ _ _ _ _ _ _); try lia; try exact I.
  Qed.

  Lemma src_attempts classes size : forall stream s,
    s_found s = 0 -> length (s_buckets s) = size ->
    attempts_loop budget SZ P classes stream s
    = after_pass s (pass_loop (s_shift s) size classes budget stream (s_attempts s) (s_mult s) (s_min s) (s_max s) (s_buckets s)).
  Proof.
    induction stream as [|x rest IH]; intros s Hf Hl.
    - cbn [attempts_loop pass_loop]. rewrite while_cond_eq, Hf. cbn [N.eqb negb andb].
      rewrite N.ltb_antisym. destruct (budget <=? s_attempts s); cbn [negb after_pass]; [|reflexivity].
      destruct s; cbn in *. subst. rewrite N.sub_diag, N.add_0_r. reflexivity.
    - cbn [attempts_loop pass_loop]. rewrite while_cond_eq, Hf. cbn [N.eqb negb andb].
      rewrite N.ltb_antisym. destruct (budget <=? s_attempts s) eqn:Eb; cbn [negb after_pass].
      { destruct s; cbn in *. subst. rewrite N.sub_diag, N.add_0_r. reflexivity. }
      rewrite attempt_pre_eq.
      set (s1 := mk_store _ _ _ _ _ _ _ _ _ _ _ _ _ _).
      set (a0 := mk_acc (repeat sentinel size) (s_min s) (s_max s) true).
      assert (Hs1 : s1 = put s1 a0) by (unfold s1, a0, put; cbn; rewrite Hl; reflexivity).
      rewrite (src_classes x classes s1 a0 Hs1).
      unfold attempt. fold a0. cbn [s_mult s_shift s1].
      set (a := attempt_classes (N.lor x 1) (s_shift s) classes a0).
      destruct (a_found a) eqn:Ef.
      + (* found: the loop condition is false at the next test *)
        destruct rest as [|y rest']; cbn [attempts_loop]; rewrite while_cond_eq; unfold put; cbn [s_found s_attempts fN];
          rewrite Ef; cbn [fN N.eqb negb andb after_pass];
          unfold s1; cbn; (replace (s_attempts s + 1 - s_attempts s) with 1 by lia); reflexivity.
      + (* not found: same situation, one attempt later *)
        rewrite IH.
        * unfold put, s1. cbn [s_shift s_attempts s_mult s_min s_max s_buckets].
          pose proof (pass_loop_attempts (s_shift s) size classes rest (s_attempts s + 1) (N.lor x 1) (a_min a) (a_max a) (a_buckets a)) as Hm.
          destruct (pass_loop (s_shift s) size classes budget rest (s_attempts s + 1) (N.lor x 1) (a_min a) (a_max a) (a_buckets a));
            cbn [after_pass s_M s_pass s_total s_attempts s_size s_shift s_length s_halv s_N]; try reflexivity;
            do 2 f_equal; f_equal; lia.
        * unfold put. cbn. rewrite Ef. reflexivity.
        * unfold put. cbn [s_buckets]. unfold a. rewrite attempt_classes_length. unfold a0. cbn. apply repeat_length.
  Qed.

  (* ---------------------------------------------------------------- the halving loop: M = first_M *)
  Lemma halv_step_eq s : BX 0 0 (hp_halv_step P) s = setv s VHalv (N.shiftr (s_halv s) 1).
  Proof. reflexivity. Qed.
  Lemma halv_body_eq s : BX 0 0 (hp_halv_body P) s = setv s VM (s_M s + 1).
  Proof. reflexivity. Qed.

  Lemma src_halving : forall p s fuel, s_halv s = N.pos p -> (Pos.size_nat p <= fuel)%nat ->
    halving budget SZ P fuel s = setv (setv s VM (s_M s + halvings p)) VHalv 0.
  Proof.
    induction p as [q IH|q IH|]; intros s fuel Hh Hf.
    - destruct fuel as [|k]; [cbn in Hf; lia|]. cbn [halving]. rewrite halv_step_eq, Hh.
      change (N.shiftr (N.pos q~1) 1) with (N.pos q). cbn [getv setv s_halv N.eqb negb].
      rewrite halv_body_eq. rewrite IH; [|reflexivity|cbn in Hf; lia].
      destruct s as [M pass total attempts found size mult shift len mn mx halv n buckets]; cbn [setv s_M s_halv halvings]. f_equal. lia.
    - destruct fuel as [|k]; [cbn in Hf; lia|]. cbn [halving]. rewrite halv_step_eq, Hh.
      change (N.shiftr (N.pos q~0) 1) with (N.pos q). cbn [getv setv s_halv N.eqb negb].
      rewrite halv_body_eq. rewrite IH; [|reflexivity|cbn in Hf; lia].
      destruct s as [M pass total attempts found size mult shift len mn mx halv n buckets]; cbn [setv s_M s_halv halvings]. f_equal. lia.
    - destruct fuel as [|k]; cbn [halving]; rewrite halv_step_eq, Hh;
        change (N.shiftr 1 1) with 0; cbn [getv setv s_halv N.eqb negb];
        destruct s as [M pass total attempts found size mult shift len mn mx halv n buckets]; cbn [setv s_M s_halv halvings]; f_equal; lia.
  Qed.

  Lemma src_halving_0 s fuel : s_halv s = 0 -> halving budget SZ P fuel s = s.
  Proof.
    intros Hh. destruct fuel; cbn [halving]; rewrite halv_step_eq, Hh; change (N.shiftr 0 1) with 0;
      cbn [getv setv s_halv N.eqb negb]; destruct s as [M pass total attempts found size mult shift len mn mx halv n buckets]; cbn in *; subst; reflexivity.
  Qed.

  (* ---------------------------------------------------------------- the pass loop and the error tail *)
  Definition to_outcome (checked : bool) (control : list N) (r : sres) : outcome :=
    match r with
    | SFound s =>
        Found (mk_hstate (s_mult s) (s_shift s) (s_length s) (s_min s) (s_max s)
                         (if checked then resize (N.to_nat (s_length s)) (s_buckets s) 0 else control))
              (s_total s)
    | SError a b s =>
        SearchError a b (mk_hstate (s_mult s) (s_shift s) (s_length s) (s_min s) (s_max s)
                                   (if checked then s_buckets s else control))
    | SStream => StreamExhausted
    | SFuel => StreamExhausted
    end.

  Lemma pass_cond_eq s : CE 0 0 s (hp_pass_cond P) = (s_pass s <? 4).
  Proof. reflexivity. Qed.

  Lemma pass_pro_eq s :
    BX 0 0 (hp_pass_pro P) s
    = mk_store (s_M s) (s_pass s) (s_total s) 0 0 (N.shiftl 1 (s_M s)) (s_mult s) (8 * SZ - s_M s) 0
               (s_min s) (s_max s) (s_halv s) (s_N s) (resize (N.to_nat (N.shiftl 1 (s_M s))) (s_buckets s) 0).
  Proof. destruct s. reflexivity. Qed.

  Lemma found_cond_eq s : CE 0 0 s (hp_found_cond P) = negb (s_found s =? 0).
  Proof. reflexivity. Qed.
  Lemma found_then_eq s : BX 0 0 (hp_found_then P) s = setv s VLength (s_max s + 1).
  Proof. reflexivity. Qed.
  Lemma pass_step_eq s : BX 0 0 (hp_pass_step P) s = setv (setv s VPass (s_pass s + 1)) VM (s_M s + 1).
  Proof. destruct s. reflexivity. Qed.
  Lemma err_eq s : HE 0 0 s (hp_err_attempts P) = s_total s /\ HE 0 0 s (hp_err_buckets P) = N.shiftl 1 (s_M s).
  Proof. split; reflexivity. Qed.

  Lemma resize_length {A} n (l : list A) d : length (resize n l d) = n.
  Proof. unfold resize. rewrite app_length, firstn_length, repeat_length. lia. Qed.

  Lemma src_passes classes checked control : forall npass fuel stream s,
    s_pass s + N.of_nat npass = 4 -> (npass <= fuel)%nat ->
    to_outcome checked control (MiniHash.passes budget SZ P fuel classes stream s)
    = passes_loop checked npass (s_M s) classes budget stream (s_total s) (s_mult s) (s_shift s) (s_length s)
                  (s_min s) (s_max s) (s_buckets s) control.
  Proof.
    induction npass as [|k IH]; intros fuel stream s Hp Hf.
    - (* pass = 4: the for loop is over, error *)
      assert (E : s_pass s = 4) by lia.
      destruct fuel; cbn [MiniHash.passes passes_loop]; rewrite pass_cond_eq, E; change (4 <? 4) with false; cbv iota;
        destruct (err_eq s) as [-> ->]; cbn [to_outcome]; rewrite N.shiftl_1_l; reflexivity.
    - destruct fuel as [|fuel]; [lia|].
      cbn [MiniHash.passes passes_loop]. rewrite pass_cond_eq.
      assert (E : (s_pass s <? 4) = true) by (apply N.ltb_lt; lia). rewrite E. cbv iota.
      rewrite pass_pro_eq.
      set (s0 := mk_store _ _ _ _ _ _ _ _ _ _ _ _ _ _).
      rewrite (src_attempts classes (N.to_nat (2 ^ s_M s)) stream s0);
        [|reflexivity|unfold s0; cbn [s_buckets]; rewrite resize_length, N.shiftl_1_l; reflexivity].
      unfold s0. cbn [s_shift s_attempts s_mult s_min s_max s_buckets]. rewrite word_bits_bytes, N.shiftl_1_l.
      destruct (pass_loop (word_bits - s_M s) (N.to_nat (2 ^ s_M s)) classes budget stream 0 (s_mult s) (s_min s) (s_max s)
                          (resize (N.to_nat (2 ^ s_M s)) (s_buckets s) 0)) as [rest att m a|rest att m mn mx b|];
        cbn [after_pass s_M s_pass s_total s_attempts s_size s_shift s_length s_halv s_N].
      + rewrite found_cond_eq. cbn [s_found N.eqb negb]. rewrite found_then_eq.
        cbn [to_outcome setv s_mult s_shift s_length s_min s_max s_buckets s_total s_M s_pass s_attempts s_found s_size s_halv s_N].
        rewrite N.sub_0_r. reflexivity.
      + rewrite found_cond_eq. cbn [s_found N.eqb negb]. rewrite pass_step_eq.
        rewrite IH; [|cbn; lia|lia].
        cbn [setv s_mult s_shift s_length s_min s_max s_buckets s_total s_M s_pass s_attempts s_found s_size s_halv s_N].
        rewrite N.sub_0_r. reflexivity.
      + reflexivity.
  Qed.
End Src.

(* ---------------------------------------------------------------- hash_initialize *)
Lemma run_hash_initialize_to_outcome p checked stream budget st classes :
  run_hash_initialize p checked stream budget st classes
  = to_outcome checked (h_control st)
      (run_search budget (word_bits / 8) p classes stream
                  (store_of st (if checked then h_control st else []) (N.of_nat (length classes)))).
Proof. unfold run_hash_initialize, to_outcome. destruct (run_search _ _ _ _ _ _); reflexivity. Qed.

Theorem src_hash_initialize checked stream budget st classes :
  run_hash_initialize gen_search checked stream budget st classes = hash_initialize checked stream budget st classes.
Proof.
  rewrite run_hash_initialize_to_outcome. unfold run_search, hash_initialize, first_M. fold SZ.
  set (b0 := if checked then h_control st else []).
  set (n := N.of_nat (length classes)).
  change (bexec budget SZ 0 0 (hp_pre gen_search) (store_of st b0 n))
    with (mk_store 1 0 0 0 0 0 (h_mult st) (h_shift st) (h_length st) (h_min st) (h_max st) 0 n b0).
  cbn [heval hp_halv_init gen_search getv s_N].
  change (n * growth_num / growth_den) with (n * 5 / 4).
  destruct (n * 5 / 4) as [|p] eqn:E.
  - rewrite src_halving_0 by reflexivity.
    change (bexec budget SZ 0 0 (hp_pass_init gen_search) ?s) with s.
    rewrite (src_passes budget classes checked (h_control st) Hash.passes 64); [reflexivity|reflexivity|unfold Hash.passes, GenHashConsts.passes; lia].
  - cbn [setv]. rewrite (src_halving budget p) by (reflexivity || (cbn [N.size_nat]; lia)).
    rewrite (src_passes budget classes checked (h_control st) Hash.passes 64); [reflexivity|reflexivity|unfold Hash.passes, GenHashConsts.passes; lia].
Qed.

(* ---------------------------------------------------------------- the checked lookup *)
(* the translated rejection test, on the statics st and the id t, is the model's *)
Theorem src_checked_reject budget st t :
  ceval budget SZ 0 t (store_of st (h_control st) 0) gen_checked_reject
  = (h_length st <=? hash_st st t) || negb (vget (h_control st) (hash_st st t) =? t).
Proof.
  unfold gen_checked_reject, hash_st, hash. cbn.
  first [reflexivity | rewrite negb_andb, N.ltb_antisym, negb_involutive; reflexivity].
Qed.

Theorem src_checked_lookup budget st t :
  checked_lookup st t
  = if ceval budget SZ 0 t (store_of st (h_control st) 0) gen_checked_reject then Error (UnknownClass t)
    else Ok (heval budget SZ 0 t (store_of st (h_control st) 0) gen_hash_type_id).
Proof.
  rewrite src_checked_reject, src_hash_type_id. unfold checked_lookup, hash_st. cbn [store_of s_mult s_shift]. reflexivity.
Qed.
