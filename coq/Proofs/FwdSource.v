(* FwdSource.v — generator::write_forward_declarations, as translated from generator.hpp on every run (Gen/GenFwd.v, by
   translators/fwdwrite.py, interpreted by Model/MiniFwd.v), is Model.FwdDecl.write_forward_declarations on every list of
   names - including the inputs on which an iterator would run off its string (both are undefined there: None). *)
From Coq Require Import List Ascii String Bool Arith Lia.
From Y2 Require Import Model.FwdDecl Model.MiniFwd Gen.GenFwd.
Import ListNotations.
Local Open Scope nat_scope.

(* the loop of the interpreter, named *)
Definition wloop (k : fcond) (body : fstmt) : nat -> f_st -> option (f_st * bool) :=
  fix loop (n : nat) (s0 : f_st) {struct n} : option (f_st * bool) :=
    match n with
    | 0 => None
    | S n' => match fcond_eval k s0 with
              | Some true => match fexec body s0 with
                             | Some (s', true) => Some (s', false)
                             | Some (s', false) => loop n' s'
                             | None => None
                             end
              | Some false => Some (s0, false)
              | None => None
              end
    end.

Lemma fexec_while k body s : fexec (FWhile k body) s = wloop k body (in_sight s) s.
Proof. reflexivity. Qed.

Lemma wloop_S k body n s :
  wloop k body (S n) s = match fcond_eval k s with
                         | Some true => match fexec body s with
                                        | Some (s', true) => Some (s', false)
                                        | Some (s', false) => wloop k body n s'
                                        | None => None
                                        end
                         | Some false => Some (s, false)
                         | None => None
                         end.
Proof. reflexivity. Qed.

(* ------------------------------------------------------------------ the closing loop *)
Definition close_body : fstmt := FSeq (FIf FPrevIsColon (FSeq FEmitClose FIncPrev) FSkip) FIncPrev.

Lemma close_loop : forall n span fromb nb na sc out, List.length span < n ->
  wloop FSpanNonEmpty close_body n (mk_fst (Some span) fromb nb na sc out)
  = match close_all span with
    | Some o => Some (mk_fst (Some []) (match span with [] => fromb | _ => false end) nb na sc (out ++ o), false)
    | None => None
    end.
Proof.
  induction n as [|n IH]; intros span fromb nb na sc out Hn; [lia|].
  rewrite wloop_S. destruct span as [|c r].
  - cbn [fcond_eval s_span close_all]. now rewrite app_nil_r.
  - cbn [fcond_eval s_span close_all]. unfold close_body at 1.
    cbn [fexec fcond_eval s_span]. destruct (is_colon c).
    + cbn [fexec emit_out s_span s_fromb s_nb s_na s_scope s_out].
      destruct r as [|c2 r']; [reflexivity|].
      cbn [fexec s_span s_fromb s_nb s_na s_scope s_out].
      rewrite IH by (cbn [List.length] in Hn; lia).
      destruct (close_all r') as [o|]; cbn [option_map]; [|reflexivity].
      rewrite <- app_assoc. now destruct r'.
    + cbn [fexec s_span s_fromb s_nb s_na s_scope s_out].
      rewrite IH by (cbn [List.length] in Hn; lia).
      destruct (close_all r) as [o|]; [|reflexivity]. now destruct r.
Qed.

(* ------------------------------------------------------------------ the rewind to the start of a component *)
Lemma back_loop : forall n nb na span fromb out, List.length nb < n ->
  exists sc', wloop (FAnd FNameNotAtBegin FBeforeNameNotColon) FDecName n (mk_fst span fromb nb na None out)
              = Some (mk_fst span fromb (fst (back_up nb na)) (snd (back_up nb na)) sc' out, false) /\ sc' = None.
Proof.
  induction n as [|n IH]; intros nb na span fromb out Hn; [lia|].
  rewrite wloop_S. destruct nb as [|c nb'].
  - cbn [fcond_eval s_nb back_up fst snd]. eexists. split; reflexivity.
  - cbn [fcond_eval s_nb back_up]. destruct (is_colon c); cbn [negb fst snd].
    + eexists. split; reflexivity.
    + cbn [fexec s_nb s_span s_fromb s_na s_out]. apply IH. cbn [List.length] in Hn. lia.
Qed.

Lemma back_up_length : forall nb na, List.length (fst (back_up nb na)) + List.length (snd (back_up nb na)) = List.length nb + List.length na.
Proof.
  induction nb as [|c nb IH]; intro na; cbn [back_up]; [reflexivity|].
  destruct (is_colon c); [reflexivity|]. rewrite IH. cbn [List.length]. lia.
Qed.

(* ------------------------------------------------------------------ the scan of the common prefix *)
Definition close_stmt : fstmt := FWhile FSpanNonEmpty close_body.
Definition back_stmt : fstmt := FWhile (FAnd FNameNotAtBegin FBeforeNameNotColon) FDecName.
(* `if (c) { ...; break; } REST` and `if (c) { ...; break; } else { REST }` are one spelling for the translator (the second) *)
Definition scan_body : fstmt :=
  FIf (FOr FNameAtEnd FPrevCharDiffers) (FSeq close_stmt (FSeq back_stmt FBreak)) (FSeq FIncPrev FIncName).

Lemma mismatch_branch span nb na out : span <> [] ->
  fexec (FSeq close_stmt (FSeq back_stmt FBreak)) (mk_fst (Some span) false nb na None out)
  = match close_all span with
    | Some o => Some (mk_fst (Some []) false (fst (back_up nb na)) (snd (back_up nb na)) None (out ++ o), true)
    | None => None
    end.
Proof.
  intro Hne. cbn [fexec]. fold close_stmt.
  change (fexec close_stmt (mk_fst (Some span) false nb na None out))
    with (wloop FSpanNonEmpty close_body (in_sight (mk_fst (Some span) false nb na None out)) (mk_fst (Some span) false nb na None out)).
  rewrite close_loop by (unfold in_sight; cbn [s_span s_nb s_na]; lia).
  destruct (close_all span) as [o|]; [|reflexivity].
  destruct span as [|c r]; [contradiction|].
  change (fexec back_stmt (mk_fst (Some []) false nb na None (out ++ o)))
    with (wloop (FAnd FNameNotAtBegin FBeforeNameNotColon) FDecName (in_sight (mk_fst (Some []) false nb na None (out ++ o)))
                (mk_fst (Some []) false nb na None (out ++ o))).
  destruct (back_loop (in_sight (mk_fst (Some []) false nb na None (out ++ o))) nb na (Some []) false (out ++ o)) as [sc' [E ->]];
    [unfold in_sight; cbn [s_span s_nb s_na]; lia|].
  rewrite E. reflexivity.
Qed.

Lemma scan_loop : forall n span nb na out, List.length span < n ->
  wloop FSpanNonEmpty scan_body n (mk_fst (Some span) false nb na None out)
  = match fst (scan_common span nb na) with
    | Some o => Some (mk_fst (Some []) false (fst (snd (scan_common span nb na))) (snd (snd (scan_common span nb na))) None (out ++ o), false)
    | None => None
    end.
Proof.
  induction n as [|n IH]; intros span nb na out Hn; [lia|].
  rewrite wloop_S. destruct span as [|p sp].
  - cbn [fcond_eval s_span scan_common fst snd]. now rewrite app_nil_r.
  - cbn [fcond_eval s_span]. unfold scan_body at 1.
    remember (FSeq close_stmt (FSeq back_stmt FBreak)) as MB eqn:HMB.
    cbn [fexec fcond_eval s_na s_span]. destruct na as [|c na'].
    + (* name exhausted *)
      subst MB. rewrite mismatch_branch by discriminate. cbn [scan_common fst snd].
      destruct (close_all (p :: sp)) as [o|]; reflexivity.
    + destruct (Ascii.eqb p c) eqn:Epc; cbn [negb].
      * (* same character: both iterators advance *)
        cbn [fexec s_span s_fromb s_nb s_na s_scope s_out].
        rewrite IH by (cbn [List.length] in Hn; lia).
        cbn [scan_common]. rewrite Epc. reflexivity.
      * subst MB. rewrite mismatch_branch by discriminate. cbn [scan_common]. rewrite Epc. cbn [fst snd].
        destruct (close_all (p :: sp)) as [o|]; reflexivity.
Qed.

Lemma scan_common_length : forall span nb na,
  List.length (fst (snd (scan_common span nb na))) + List.length (snd (snd (scan_common span nb na))) = List.length nb + List.length na.
Proof.
  induction span as [|p sp IH]; intros nb na; cbn [scan_common]; [reflexivity|].
  destruct na as [|c na']; cbn [fst snd]; [apply back_up_length|].
  destruct (Ascii.eqb p c); cbn [fst snd]; [|apply back_up_length].
  rewrite IH. cbn [List.length]. lia.
Qed.

(* ------------------------------------------------------------------ namespaces and the class *)
Definition emit_body : fstmt :=
  FSeq FFindColon (FIf FScopeAtEnd (FSeq FEmitClass FBreak) (FSeq FEmitNamespace (FSeq FNameToScopePlus2 FPrevLastToNameIter))).

Lemma find_colon_length : forall a, List.length (fst (find_colon a)) + List.length (snd (find_colon a)) = List.length a.
Proof.
  induction a as [|c r IH]; cbn [find_colon]; [reflexivity|].
  destruct (is_colon c); cbn [fst snd List.length]; [reflexivity|].
  destruct (find_colon r) as [s t]. cbn [fst snd List.length] in *. lia.
Qed.

Lemma emit_iter nb na sc out :
  fexec emit_body (mk_fst (Some (rev nb)) true nb na sc out)
  = match find_colon na with
    | (seg, []) => Some (mk_fst (Some (rev nb)) true nb na (Some (seg, [])) (out ++ declare_class seg), true)
    | (seg, [c1]) => None
    | (seg, c1 :: c2 :: rest') =>
        Some (mk_fst (Some (rev (c2 :: c1 :: rev seg ++ nb))) true (c2 :: c1 :: rev seg ++ nb) rest' None (out ++ open_namespace seg), false)
    end.
Proof.
  unfold emit_body. cbn [fexec fcond_eval s_span s_fromb s_nb s_na s_scope s_out].
  destruct (find_colon na) as [seg rest]. destruct rest as [|c1 rest1].
  - reflexivity.
  - cbn [fexec emit_out s_span s_fromb s_nb s_na s_scope s_out]. destruct rest1 as [|c2 rest2]; reflexivity.
Qed.

Lemma emit_loop : forall n f nb na sc out, List.length na < n -> List.length na < f ->
  match emit f nb na with
  | Some (o, span') => exists s', wloop FTrue emit_body n (mk_fst (Some (rev nb)) true nb na sc out) = Some (s', false)
                                  /\ s_span s' = Some span' /\ s_out s' = out ++ o
  | None => wloop FTrue emit_body n (mk_fst (Some (rev nb)) true nb na sc out) = None
  end.
Proof.
  induction n as [|n IH]; intros f nb na sc out Hn Hf; [lia|].
  destruct f as [|f]; [lia|].
  rewrite !wloop_S. cbn [fcond_eval emit]. rewrite !emit_iter.
  pose proof (find_colon_length na) as Hfl.
  destruct (find_colon na) as [seg rest] eqn:Efc. cbn [fst snd] in Hfl.
  destruct rest as [|c1 rest1].
  - eexists. split; [reflexivity|]. cbn [s_span s_out]. auto.
  - destruct rest1 as [|c2 rest2]; [reflexivity|].
    cbn [List.length] in Hfl.
    specialize (IH f (c2 :: c1 :: rev seg ++ nb) rest2 None (out ++ open_namespace seg) ltac:(lia) ltac:(lia)).
    destruct (emit f (c2 :: c1 :: rev seg ++ nb) rest2) as [[o span']|].
    + destruct IH as [s' [E [H1 H2]]]. exists s'. split; [exact E|]. split; [exact H1|]. now rewrite H2, <- app_assoc.
    + exact IH.
Qed.

(* ------------------------------------------------------------------ one name *)
Definition name_body : fstmt :=
  FSeq (FWhile FSpanNonEmpty scan_body) (FSeq FPrevIterToNameBegin (FSeq FPrevLastToNameIter (FWhile FTrue emit_body))).

Lemma name_step span name out :
  match scan_common span [] name with
  | (Some o1, (nb, na)) =>
      match emit (S (List.length name)) nb na with
      | Some (o2, span') => exists s' b, fexec name_body (mk_fst (Some span) false [] name None out) = Some (s', b)
                                         /\ s_span s' = Some span' /\ s_out s' = out ++ o1 ++ o2
      | None => fexec name_body (mk_fst (Some span) false [] name None out) = None
      end
  | (None, _) => fexec name_body (mk_fst (Some span) false [] name None out) = None
  end.
Proof.
  unfold name_body.
  remember (FWhile FSpanNonEmpty scan_body) as SL eqn:HSL. remember (FWhile FTrue emit_body) as EL eqn:HEL.
  cbn [fexec]. subst SL. rewrite fexec_while.
  rewrite scan_loop by (unfold in_sight; cbn [s_span s_nb s_na]; lia).
  pose proof (scan_common_length span [] name) as Hlen.
  destruct (scan_common span [] name) as [[o1|] [nb na]]; cbn [fst snd] in *; [|reflexivity].
  cbn [fexec s_span s_fromb s_nb s_na s_scope s_out]. subst EL.
  pose proof (emit_loop (in_sight (mk_fst (Some (rev nb)) true nb na None (out ++ o1))) (S (List.length name)) nb na None (out ++ o1)) as He.
  assert (H1 : List.length na < in_sight (mk_fst (Some (rev nb)) true nb na None (out ++ o1))) by (unfold in_sight; cbn [s_span s_nb s_na]; lia).
  assert (H2 : List.length na < S (List.length name)) by (cbn [List.length] in Hlen; lia).
  specialize (He H1 H2).
  destruct (emit (S (List.length name)) nb na) as [[o2 span']|].
  - destruct He as [s' [E [A B]]]. exists s', false. rewrite fexec_while, E. split; [reflexivity|]. split; [exact A|]. now rewrite B, <- app_assoc.
  - rewrite fexec_while. now rewrite He.
Qed.

(* ------------------------------------------------------------------ all the names, then the closing loop *)
Fixpoint wl_names (names : list text) (span : text) : option (text * text) :=
  match names with
  | [] => Some ([], span)
  | name :: more =>
      let '(closes, (before, after)) := scan_common span [] name in
      match closes, emit (S (List.length name)) before after with
      | Some o1, Some (o2, span') =>
          match wl_names more span' with
          | Some (o, sp) => Some (o1 ++ o2 ++ o, sp)
          | None => None
          end
      | _, _ => None
      end
  end.

Lemma write_loop_split : forall names span,
  write_loop names span = match wl_names names span with
                          | Some (o, sp) => option_map (app o) (close_all sp)
                          | None => None
                          end.
Proof.
  induction names as [|name more IH]; intro span; cbn [write_loop wl_names].
  - destruct (close_all span); reflexivity.
  - destruct (scan_common span [] name) as [[o1|] [nb na]]; [|reflexivity].
    destruct (emit (S (List.length name)) nb na) as [[o2 span']|]; [|reflexivity].
    rewrite IH. destruct (wl_names more span') as [[o sp]|]; [|reflexivity].
    destruct (close_all sp) as [oc|]; cbn [option_map]; [|reflexivity]. now rewrite <- !app_assoc.
Qed.

Lemma names_loop : forall names span out,
  frun_names name_body names (Some span) out
  = match wl_names names span with Some (o, sp) => Some (Some sp, out ++ o) | None => None end.
Proof.
  induction names as [|name more IH]; intros span out; cbn [frun_names wl_names].
  - now rewrite app_nil_r.
  - pose proof (name_step span name out) as Hs.
    destruct (scan_common span [] name) as [[o1|] [nb na]]; [|now rewrite Hs].
    destruct (emit (S (List.length name)) nb na) as [[o2 span']|]; [|now rewrite Hs].
    destruct Hs as [s' [b [E [A B]]]]. rewrite E, A, B, IH.
    destruct (wl_names more span') as [[o sp]|]; [|reflexivity]. now rewrite <- !app_assoc.
Qed.

Theorem fwd_generic names : frun name_body close_stmt names = write_forward_declarations names.
Proof.
  unfold frun, write_forward_declarations. rewrite names_loop, write_loop_split.
  destruct (wl_names names []) as [[o sp]|]; [|reflexivity].
  change (fexec close_stmt (mk_fst (Some sp) false [] [] None ([] ++ o)))
    with (wloop FSpanNonEmpty close_body (in_sight (mk_fst (Some sp) false [] [] None ([] ++ o))) (mk_fst (Some sp) false [] [] None ([] ++ o))).
  rewrite close_loop by (unfold in_sight; cbn [s_span s_nb s_na]; lia).
  destruct (close_all sp) as [oc|]; reflexivity.
Qed.

(* the translated function *)
Theorem src_write_forward_declarations names :
  frun gen_fwd_body gen_fwd_final names = write_forward_declarations names.
Proof.
  change gen_fwd_body with name_body. change gen_fwd_final with close_stmt. apply fwd_generic.
Qed.
