(* VptrSource.v — virtual_ptr(Other&&) and virtual_ptr::final(Other&&), as TRANSLATED from core.hpp on this run
   (Gen/GenVptr.v) and interpreted by Model/MiniVptr.v, are Model.VirtualPtr.ctor / final_, for every policy configuration
   (supported or not), every state and every argument: the constructor with the same result AND the same log of what is read;
   `final` with the same result and a log that contains nothing the model's function does not read (the order in which `final`
   reads the static v-table pointer and runs its checks is not fixed: both orders are `final_`). *)
From Coq Require Import List NArith Bool.
From Y2 Require Import Model.VirtualPtr Model.MiniVptr Gen.GenVptr.
Import ListNotations.

Ltac split_reads :=
  repeat (cbv -[N.eqb mem control vptrs ivptrs svp];
          match goal with
          | |- context [mem ?x (control ?s)] => destruct (mem x (control s))
          | |- context [vptrs ?s ?x] => destruct (vptrs s x)
          | |- context [ivptrs ?s ?x] => destruct (ivptrs s x)
          end);
  cbv -[N.eqb mem control vptrs ivptrs svp].

Theorem src_ctor cfg st a : run_ctor gen_ctor cfg st a = ctor cfg st a.
Proof.
  destruct cfg as [h p i], a as [o d s src ctrl box].
  unfold run_ctor, ctor, ctor_with, gen_ctor. cbn [vf_traits vf_body ctor_ids a_src a_stat a_dyn].
  destruct src; cbn [ctor_ids]; destruct (N.eqb d s) eqn:E;
    destruct h, p, i; cbn; rewrite ?E; split_reads; reflexivity.
Qed.

(* final: the same result ... *)
Theorem src_final_result cfg st a : snd (run_final gen_final cfg st a) = snd (final_ cfg st a).
Proof.
  destruct cfg as [h p i], a as [o d s src ctrl box].
  unfold run_final, final_, final_with, gen_final. cbn [vf_traits vf_body final_ids a_src a_stat a_dyn].
  destruct src; cbn [final_ids]; destruct (N.eqb d s) eqn:E;
    destruct h, p, i; cbn; rewrite ?E; split_reads; reflexivity.
Qed.

(* ... and it reads nothing that final_ does not read *)
Theorem src_final_reads cfg st a : incl (fst (run_final gen_final cfg st a)) (fst (final_ cfg st a)).
Proof.
  destruct cfg as [h p i], a as [o d s src ctrl box].
  unfold run_final, final_, final_with, gen_final. cbn [vf_traits vf_body final_ids a_src a_stat a_dyn].
  destruct src; cbn [final_ids]; destruct (N.eqb d s) eqn:E;
    destruct h, p, i; cbn; rewrite ?E; split_reads;
    intros x Hx; cbn [In] in *; tauto.
Qed.

(* in a supported configuration both functions succeed or fail together, so on success the logs have the same members *)
Theorem src_final_ok cfg st a p : snd (final_ cfg st a) = Ok p -> incl (fst (final_ cfg st a)) (fst (run_final gen_final cfg st a)).
Proof.
  destruct cfg as [h pl i], a as [o d s src ctrl box].
  unfold run_final, final_, final_with, gen_final. cbn [vf_traits vf_body final_ids a_src a_stat a_dyn].
  destruct src; cbn [final_ids]; destruct (N.eqb d s) eqn:E;
    destruct h, pl, i; cbn; rewrite ?E; split_reads;
    intros H x Hx; cbn [In snd] in *; try discriminate; tauto.
Qed.
