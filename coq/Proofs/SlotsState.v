(* SlotsState.v — vocabulary on sstate shared by the tree and lattice parts of the proof:
   accessors, well-sized states (sgood), set_slot, and footprints (what a traversal may change). *)
From Coq Require Import List NArith Arith Lia Bool.
From Y2 Require Import Model.Registry Model.Compile Proofs.Interfaces Proofs.SlotsBits Proofs.SlotsOrder.
Import ListNotations.
Local Open Scope nat_scope.

Definition used_of (st : sstate) (z : nat) : N := getN (s_used st) z.
Definition resv_of (st : sstate) (z : nat) : N := getN (s_resv st) z.
Definition mark_of (st : sstate) (z : nat) : bool := nth z (s_mark st) false.

(* ------------------------------------------------------------------ the slots table *)

Definition slot_in (sl : list (list nat)) (mi p : nat) : nat := nth p (nth mi sl []) 0.

Lemma slot_of_in st mi p : slot_of st mi p = slot_in (s_slots st) mi p.
Proof. reflexivity. Qed.

Lemma set_slot_eq st mi p v :
  set_slot st (mi, p) v = upd_nth mi (s_slots st) [] (fun l => set_nth p l v).
Proof. reflexivity. Qed.

Lemma set_slot_length st mp v : length (set_slot st mp v) = length (s_slots st).
Proof. unfold set_slot. apply upd_nth_length. Qed.

Lemma set_slot_length_m st mp v mi :
  length (nth mi (set_slot st mp v) []) = length (nth mi (s_slots st) []).
Proof.
  unfold set_slot. destruct (Nat.eq_dec mi (fst mp)) as [->|Hne].
  - destruct (Nat.lt_ge_cases (fst mp) (length (s_slots st))) as [Hlt|Hge].
    + rewrite nth_upd_nth_eq by exact Hlt. apply set_nth_length.
    + now rewrite upd_nth_overflow.
  - now rewrite nth_upd_nth_neq.
Qed.

Lemma slot_set_slot_same st mi p v :
  mi < length (s_slots st) -> p < length (nth mi (s_slots st) []) ->
  slot_in (set_slot st (mi, p) v) mi p = v.
Proof.
  intros H1 H2. unfold slot_in. rewrite set_slot_eq.
  rewrite nth_upd_nth_eq by exact H1. now apply nth_set_nth_eq.
Qed.

Lemma slot_set_slot_other st mi p v mi' p' :
  (mi', p') <> (mi, p) -> slot_in (set_slot st (mi, p) v) mi' p' = slot_in (s_slots st) mi' p'.
Proof.
  intros Hne. unfold slot_in. rewrite set_slot_eq.
  destruct (Nat.eq_dec mi' mi) as [->|Hm].
  - destruct (Nat.lt_ge_cases mi (length (s_slots st))) as [Hlt|Hge].
    + rewrite nth_upd_nth_eq by exact Hlt. apply nth_set_nth_neq. intros ->. now apply Hne.
    + now rewrite upd_nth_overflow.
  - now rewrite nth_upd_nth_neq.
Qed.

(* ------------------------------------------------------------------ well-sized states *)

Section State.
  Variable L : lattice.
  Variable ms : list cmeth.
  Notation n := (ncls L).

  Record sgood (st : sstate) : Prop := {
    sg_slots : length (s_slots st) = length ms;
    sg_slots_m : forall mi m, nth_error ms mi = Some m ->
        length (nth mi (s_slots st) []) = length (cm_vp m);
    sg_used : length (s_used st) = n;
    sg_resv : length (s_resv st) = n;
    sg_mark : length (s_mark st) = n;
    sg_first : length (s_first st) = n;
    sg_vlen : length (s_vlen st) = n
  }.

  Lemma vp_at_valid st mi p x : sgood st -> vp_at ms mi p = Some x ->
    mi < length (s_slots st) /\ p < length (nth mi (s_slots st) []).
  Proof.
    intros Hg H. unfold vp_at in H. destruct (nth_error ms mi) as [m|] eqn:Hm; [|discriminate].
    rewrite (sg_slots st Hg), (sg_slots_m st Hg mi m Hm). split.
    - apply nth_error_Some. congruence.
    - apply nth_error_Some. congruence.
  Qed.

  (* a state with a new slots table of the same shape and new bit sets of the same length *)
  Lemma sgood_set_slot st mp v us rs :
    sgood st -> length us = n -> length rs = n ->
    sgood (mk_ss (set_slot st mp v) us rs (s_mark st) (s_first st) (s_vlen st) (s_fuel_ok st)).
  Proof.
    intros Hg Hu Hr. constructor; cbn [s_slots s_used s_resv s_mark s_first s_vlen]; auto;
      try apply Hg.
    - rewrite set_slot_length. apply Hg.
    - intros mi m Hm. rewrite set_slot_length_m. now apply Hg.
  Qed.

  (* ---------------------------------------------------------------- footprints *)

  (* st' differs from st only at the classes of S: first, vlen, used, mark of other classes and the slots
     of pairs whose class is not in S are unchanged (reserved sets are not part of the footprint) *)
  Definition fp (S : nat -> Prop) (st st' : sstate) : Prop :=
    (forall z, ~ S z ->
       first_of st' z = first_of st z /\ vlen_of st' z = vlen_of st z /\
       used_of st' z = used_of st z /\ mark_of st' z = mark_of st z) /\
    (forall mi p, (forall y, vp_at ms mi p = Some y -> ~ S y) -> slot_of st' mi p = slot_of st mi p) /\
    s_fuel_ok st' = s_fuel_ok st.

  Lemma fp_refl S st : fp S st st.
  Proof. repeat split; auto. Qed.

  Lemma fp_trans S st1 st2 st3 : fp S st1 st2 -> fp S st2 st3 -> fp S st1 st3.
  Proof.
    intros (A1 & B1 & C1) (A2 & B2 & C2). split; [|split].
    - intros z Hz. destruct (A1 z Hz) as (a1 & b1 & c1 & d1). destruct (A2 z Hz) as (a2 & b2 & c2 & d2).
      repeat split; congruence.
    - intros mi p H. rewrite B2, B1; auto.
    - congruence.
  Qed.

  Lemma fp_weaken (S S' : nat -> Prop) st st' : (forall z, S z -> S' z) -> fp S st st' -> fp S' st st'.
  Proof.
    intros Hs (A & B & C). split; [|split].
    - intros z Hz. apply A. intros H. apply Hz. now apply Hs.
    - intros mi p H. apply B. intros y Hy Hc. apply (H y Hy). now apply Hs.
    - exact C.
  Qed.
End State.
