(* Proofs/SpecPresent.v — the specification depends on a registry only through its ancestor
   relation (and, for legality, its set of registered classes).
   (P2) extensionality in anc:      spec_dispatch_anc_ext, spec_next_anc_ext, legal_anc_ext
   (P1) presentations of one graph: anc_of_presentation                       (property C08)
   (P3)                             spec_dispatch_presentations, spec_next_presentations
   (P4) ids are only seen through proj: class_of_proj, spec_rtti_flavour_irrelevant (property C10)
   No axioms; stdlib only. *)
From Y2 Require Import Model.Registry Model.Compile Spec.Dispatch Proofs.SpecAnc Proofs.SpecCore.
From Coq Require Import List NArith Arith Lia Bool Relations Permutation.
Import ListNotations.

(* anc is monotone in edge *)
Lemma anc_mono R R' :
  (forall b d, edge R b d -> edge R' b d) -> forall b d, anc R b d -> anc R' b d.
Proof.
  intros He b d H. induction H as [x y H|x|x y z _ IH1 _ IH2].
  - apply rt_step. now apply He.
  - apply rt_refl.
  - eapply rt_trans; eassumption.
Qed.

Lemma anc_edge_ext R R' :
  (forall b d, edge R b d <-> edge R' b d) -> forall b d, anc R b d <-> anc R' b d.
Proof. intros He b d. split; apply anc_mono; intros x y; apply He. Qed.

(* ---------------- (P2) extensionality in the ancestor relation ---------------- *)
Section AncExt.
  Variables R R' : registry.
  Hypothesis Hanc : forall b d, anc R b d <-> anc R' b d.

  Lemma ancb_anc_ext b d : ancb R b d = ancb R' b d.
  Proof. apply bool_eq_iff. rewrite !ancb_correct. apply Hanc. Qed.

  Lemma applicable_anc_ext d args : applicable R d args <-> applicable R' d args.
  Proof. unfold applicable. apply Forall2_iff_pointwise. apply Hanc. Qed.

  Lemma applicableb_anc_ext d args : applicableb R d args = applicableb R' d args.
  Proof. apply bool_eq_iff. rewrite !applicableb_correct. apply applicable_anc_ext. Qed.

  Lemma proper_base_anc_ext b d : proper_base R b d <-> proper_base R' b d.
  Proof. unfold proper_base. rewrite Hanc. reflexivity. Qed.

  Lemma proper_baseb_anc_ext b d : proper_baseb R b d = proper_baseb R' b d.
  Proof. unfold proper_baseb. now rewrite ancb_anc_ext. Qed.

  Lemma more_specific_anc_ext a b : more_specific R a b <-> more_specific R' a b.
  Proof.
    unfold more_specific. split; intros [Hl [Hn [i [x [y [Hx [Hy Hp]]]]]]];
      (split; [assumption|]); split.
    - intros j u v Hu Hv Hq. apply (Hn j u v Hu Hv). now apply proper_base_anc_ext.
    - exists i, x, y. split; [assumption|]. split; [assumption|]. now apply proper_base_anc_ext.
    - intros j u v Hu Hv Hq. apply (Hn j u v Hu Hv). now apply proper_base_anc_ext.
    - exists i, x, y. split; [assumption|]. split; [assumption|]. now apply proper_base_anc_ext.
  Qed.

  Lemma more_specificb_anc_ext a b : more_specificb R a b = more_specificb R' a b.
  Proof. apply bool_eq_iff. rewrite !more_specificb_correct. apply more_specific_anc_ext. Qed.

  Lemma strictly_more_general_anc_ext a b :
    strictly_more_general R a b <-> strictly_more_general R' a b.
  Proof.
    unfold strictly_more_general.
    rewrite (Forall2_iff_pointwise (anc R) (anc R') Hanc). reflexivity.
  Qed.

  Lemma strictly_more_generalb_anc_ext a b :
    strictly_more_generalb R a b = strictly_more_generalb R' a b.
  Proof. unfold strictly_more_generalb. now rewrite applicableb_anc_ext. Qed.

  Lemma dominatesb_anc_ext defs cand i : dominatesb R defs cand i = dominatesb R' defs cand i.
  Proof.
    unfold dominatesb. induction cand as [|j cand IH]; cbn [forallb]; [reflexivity|].
    now rewrite more_specificb_anc_ext, IH.
  Qed.

  Lemma dominant_anc_ext defs cand i : dominant R defs cand i <-> dominant R' defs cand i.
  Proof.
    unfold dominant. split; intros [Hi D]; (split; [assumption|]); intros j Hj Hne;
      apply more_specific_anc_ext; auto.
  Qed.

  Lemma outcome_ok_anc_ext defs cand o : outcome_ok R defs cand o <-> outcome_ok R' defs cand o.
  Proof.
    destruct o as [i| |]; cbn [outcome_ok].
    - apply dominant_anc_ext.
    - reflexivity.
    - split; intros [Hn H]; (split; [assumption|]); intros i D; apply (H i);
        now apply dominant_anc_ext.
  Qed.

  Theorem spec_dispatch_among_anc_ext defs cand :
    spec_dispatch_among R defs cand = spec_dispatch_among R' defs cand.
  Proof.
    apply spec_dispatch_among_iff. apply outcome_ok_anc_ext. apply spec_dispatch_among_ok_gen.
  Qed.

  Lemma applicable_idx_anc_ext defs args : applicable_idx R defs args = applicable_idx R' defs args.
  Proof. unfold applicable_idx. apply filter_ext. intro i. apply applicableb_anc_ext. Qed.

  Theorem spec_dispatch_anc_ext defs args : spec_dispatch R defs args = spec_dispatch R' defs args.
  Proof.
    unfold spec_dispatch. now rewrite spec_dispatch_among_anc_ext, applicable_idx_anc_ext.
  Qed.

  Theorem spec_next_anc_ext defs k : spec_next R defs k = spec_next R' defs k.
  Proof.
    unfold spec_next. rewrite spec_dispatch_among_anc_ext.
    f_equal. apply filter_ext. intro i. apply strictly_more_generalb_anc_ext.
  Qed.

  (* legality also looks at the set of registered classes *)
  Hypothesis Hreg : forall c, registered R c <-> registered R' c.

  Lemma registeredb_anc_ext c : registeredb R c = registeredb R' c.
  Proof. apply bool_eq_iff. rewrite !registeredb_correct. apply Hreg. Qed.

  Theorem legal_anc_ext m m' args :
    meth_vp R m = meth_vp R' m' -> (legal R m args <-> legal R' m' args).
  Proof.
    intro E. unfold legal. rewrite E. apply Forall2_iff_pointwise.
    intros p a. rewrite Hreg, Hanc. reflexivity.
  Qed.

  Lemma legalb_anc_ext m m' args :
    meth_vp R m = meth_vp R' m' -> legalb R m args = legalb R' m' args.
  Proof.
    intro E. apply bool_eq_iff. rewrite !legalb_correct. now apply legal_anc_ext.
  Qed.
End AncExt.

(* ---------------- (P1) presentations of one inheritance graph ---------------- *)
Section Presentation.
  Variable G : list (N * N).                 (* direct-base edges (base, derived) *)

  Definition Gedge (b d : N) : Prop := In (b, d) G.

  (* every direct-base relationship appears in at least one registration;
     every listed base is an ancestor-or-self in G *)
  Definition presentation_of (R : registry) : Prop :=
    (forall b d, In (b, d) G -> b <> d -> edge R b d) /\
    (forall b d, edge R b d -> clos_refl_trans N Gedge b d).

  Theorem anc_of_presentation R :
    presentation_of R -> forall b d, anc R b d <-> clos_refl_trans N Gedge b d.
  Proof.
    intros [H1 H2] b d. split; intro H.
    - induction H as [x y H|x|x y z _ IH1 _ IH2].
      + now apply H2.
      + apply rt_refl.
      + eapply rt_trans; eassumption.
    - induction H as [x y H|x|x y z _ IH1 _ IH2].
      + destruct (N.eq_dec x y) as [->|Hne]; [apply rt_refl|].
        apply rt_step. now apply H1.
      + apply rt_refl.
      + eapply rt_trans; eassumption.
  Qed.

  (* ---------------- (P3) two presentations of the same graph dispatch alike ---------------- *)
  Lemma anc_presentations R R' :
    presentation_of R -> presentation_of R' -> forall b d, anc R b d <-> anc R' b d.
  Proof.
    intros P P' b d. rewrite (anc_of_presentation R P), (anc_of_presentation R' P'). reflexivity.
  Qed.

  Corollary spec_dispatch_presentations R R' defs args :
    presentation_of R -> presentation_of R' ->
    (forall c, registered R c <-> registered R' c) ->
    spec_dispatch R defs args = spec_dispatch R' defs args.
  Proof. intros P P' _. apply spec_dispatch_anc_ext. now apply anc_presentations. Qed.

  Corollary spec_next_presentations R R' defs k :
    presentation_of R -> presentation_of R' ->
    (forall c, registered R c <-> registered R' c) ->
    spec_next R defs k = spec_next R' defs k.
  Proof. intros P P' _. apply spec_next_anc_ext. now apply anc_presentations. Qed.

  Corollary legal_presentations R R' m m' args :
    presentation_of R -> presentation_of R' ->
    (forall c, registered R c <-> registered R' c) ->
    meth_vp R m = meth_vp R' m' -> (legal R m args <-> legal R' m' args).
  Proof. intros P P' Hreg. apply legal_anc_ext; [now apply anc_presentations|exact Hreg]. Qed.
End Presentation.

(* ---------------- (P4) ids are only seen through proj ---------------- *)

Lemma class_of_proj R t t' :
  proj R t = proj R t' -> forall keys, class_of R keys t = class_of R keys t'.
Proof. intros E keys. unfold class_of. now rewrite E. Qed.

(* what the specification reads of the class catalog: per record, its class and listed bases *)
Definition spec_class_view (R : registry) : list (N * list N) :=
  map (fun r => (rec_class R r, rec_bases R r)) (r_classes R).

Lemma map_pair_combine {A B C} (f : A -> B) (g : A -> C) l :
  map (fun x => (f x, g x)) l = combine (map f l) (map g l).
Proof. induction l as [|x l IH]; cbn [map combine]; [reflexivity|now rewrite IH]. Qed.

Lemma spec_class_view_eq R R' :
  map (rec_class R') (r_classes R') = map (rec_class R) (r_classes R) ->
  map (rec_bases R') (r_classes R') = map (rec_bases R) (r_classes R) ->
  spec_class_view R' = spec_class_view R.
Proof. intros Hc Hb. unfold spec_class_view. now rewrite !map_pair_combine, Hc, Hb. Qed.

Lemma edge_view R b d :
  edge R b d <-> b <> d /\ exists bs, In (d, bs) (spec_class_view R) /\ In b bs.
Proof.
  unfold edge, spec_class_view. split.
  - intros [Hn [r [Hr [Hc Hb]]]]. split; [assumption|]. exists (rec_bases R r).
    split; [|assumption]. apply in_map_iff. exists r. split; [now rewrite Hc|assumption].
  - intros [Hn [bs [Hin Hb]]]. apply in_map_iff in Hin. destruct Hin as [r [E Hr]].
    injection E as E1 E2. subst. split; [assumption|]. exists r. auto.
Qed.

Lemma registered_view R c : registered R c <-> In c (map (rec_class R) (r_classes R)).
Proof.
  unfold registered. rewrite in_map_iff.
  split; intros [r [H1 H2]]; exists r; auto.
Qed.

Lemma nth_error_map_eq {A A' B} (f : A -> B) (g : A' -> B) l l' i a a' :
  map f l = map g l' -> nth_error l i = Some a -> nth_error l' i = Some a' -> f a = g a'.
Proof.
  intros E Ha Ha'. apply (map_nth_error f) in Ha. apply (map_nth_error g) in Ha'.
  rewrite E in Ha. congruence.
Qed.

Section RttiFlavour.
  Variables R R' : registry.
  Hypothesis Hc : map (rec_class R') (r_classes R') = map (rec_class R) (r_classes R).
  Hypothesis Hb : map (rec_bases R') (r_classes R') = map (rec_bases R) (r_classes R).

  Lemma edge_flavour b d : edge R b d <-> edge R' b d.
  Proof. rewrite !edge_view, (spec_class_view_eq R R' Hc Hb). reflexivity. Qed.

  Lemma anc_flavour b d : anc R b d <-> anc R' b d.
  Proof. apply anc_edge_ext. apply edge_flavour. Qed.

  Lemma registered_flavour c : registered R c <-> registered R' c.
  Proof. rewrite !registered_view, Hc. reflexivity. Qed.

  Theorem spec_rtti_flavour_irrelevant :
    (forall b d, edge R b d <-> edge R' b d) /\
    (forall b d, anc R b d <-> anc R' b d) /\
    (forall c, registered R c <-> registered R' c) /\
    (forall defs args, spec_dispatch R defs args = spec_dispatch R' defs args) /\
    (forall defs k, spec_next R defs k = spec_next R' defs k).
  Proof.
    split; [exact edge_flavour|]. split; [exact anc_flavour|]. split; [exact registered_flavour|].
    split; intros defs x.
    - apply spec_dispatch_anc_ext. exact anc_flavour.
    - apply spec_next_anc_ext. exact anc_flavour.
  Qed.

  (* method by method, when the methods too are the same up to proj *)
  Hypothesis Hvp : map (meth_vp R') (r_methods R') = map (meth_vp R) (r_methods R).
  Hypothesis Hdefs : map (meth_defs R') (r_methods R') = map (meth_defs R) (r_methods R).

  Theorem spec_rtti_flavour_irrelevant_methods i m m' :
    nth_error (r_methods R) i = Some m -> nth_error (r_methods R') i = Some m' ->
    meth_vp R m = meth_vp R' m' /\
    meth_defs R m = meth_defs R' m' /\
    (forall args, legal R m args <-> legal R' m' args) /\
    (forall args, spec_dispatch R (meth_defs R m) args = spec_dispatch R' (meth_defs R' m') args) /\
    (forall k, spec_next R (meth_defs R m) k = spec_next R' (meth_defs R' m') k).
  Proof.
    intros Hm Hm'.
    assert (meth_vp R m = meth_vp R' m') as Evp
      by (eapply nth_error_map_eq; [symmetry; exact Hvp|exact Hm|exact Hm']).
    assert (meth_defs R m = meth_defs R' m') as Edefs
      by (eapply nth_error_map_eq; [symmetry; exact Hdefs|exact Hm|exact Hm']).
    split; [exact Evp|]. split; [exact Edefs|]. split; [|split].
    - intro args. apply legal_anc_ext; [exact anc_flavour|exact registered_flavour|exact Evp].
    - intro args. rewrite Edefs. apply spec_dispatch_anc_ext. exact anc_flavour.
    - intro k. rewrite Edefs. apply spec_next_anc_ext. exact anc_flavour.
  Qed.
End RttiFlavour.

Print Assumptions anc_of_presentation.
Print Assumptions spec_dispatch_anc_ext.
Print Assumptions legal_anc_ext.
Print Assumptions spec_dispatch_presentations.
Print Assumptions spec_rtti_flavour_irrelevant.
