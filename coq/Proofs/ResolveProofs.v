(* ResolveProofs.v — the composition: for every well-formed registry, the word method::resolve reads from the tables
   update installed is the one the specification designates, for every legal tuple of dynamic classes, every arity
   and every placement of non-virtual parameters. *)
From Y2 Require Import Model.Registry Model.Compile Spec.Dispatch.
From Y2 Require Import Proofs.Interfaces Proofs.LatListFacts Proofs.WalkProofs Proofs.BoundsProofs Proofs.InstallProofs Proofs.MethodsProofs.
From Y2 Require Import Proofs.SpecProofs Proofs.LatticeProofs Proofs.SlotsProofs Proofs.TablesProofs.
From Coq Require Import Lia.
Local Open Scope nat_scope.

Definition word_of_outcome (mi : nat) (o : outcome) : word := word_of_cell mi (cell_of_outcome o).

Lemma nth_map_combine_seq {A B} (f : nat * A -> B) (l : list A) i a d :
  nth_error l i = Some a -> nth i (map f (combine (seq 0 (length l)) l)) d = f (i, a).
Proof.
  intro H.
  assert (G : forall (l : list A) s i a, nth_error l i = Some a -> nth_error (combine (seq s (length l)) l) i = Some (s + i, a)).
  { clear. induction l as [|x l IH]; intros s [|i] a H; cbn in *; try discriminate.
    - inversion H. now rewrite Nat.add_0_r.
    - rewrite (IH (S s) i a H). do 2 f_equal. lia. }
  apply G with (s := 0) in H. cbn [Nat.add] in H.
  apply nth_error_nth. rewrite nth_error_map, H. reflexivity.
Qed.

Lemma nth0_firstn1 (l : list nat) : nth 0 (firstn 1 l) 0 = nth 0 l 0.
Proof. destruct l; reflexivity. Qed.

Lemma skipn_cons_inv {A} (d : A) : forall n (l : list A) p ps, skipn n l = p :: ps -> nth n l d = p /\ skipn (S n) l = ps.
Proof.
  induction n as [|n IH]; intros l p ps H.
  - cbn [skipn] in H. subst l. split; reflexivity.
  - destruct l as [|x l]; [discriminate|]. cbn [skipn] in H. destruct (IH l p ps H) as [H1 H2]. split; [exact H1|exact H2].
Qed.

Section Assembly.
  Variables (R : registry) (L : lattice) (ms : list cmeth) (stale : list word).
  Hypothesis Hwf : wf_registry R.
  Hypothesis Hlo : lattice_ok R L.
  Hypothesis Hms : Forall (meth_wf L) ms.
  Hypothesis Hmok : forall i m, nth_error (r_methods R) i = Some m -> exists cm, nth_error ms i = Some cm /\ meth_ok R L m cm.

  Let st := assign_slots L ms.
  Let C := install_with stale L ms st.
  Let tables := map (build_method L) ms.
  Let vt := write_vtbls L ms st.

  Let Hacy : acyclic R := proj1 Hwf.
  Let Hso : slots_ok L ms st := assign_slots_ok L ms (lo_wf R L Hlo) Hms.

  (* the pieces of install *)
  Let offs := fst (place_tables 0 0 (combine ms tables)).
  Let img1 := snd (place_tables 0 0 (combine ms tables)).
  Let vts := map (map (entry_word ms tables offs)) vt.
  Let vps := fst (place_vtbls (length img1) (s_first st) vts).
  Let img2 := snd (place_vtbls (length img1) (s_first st) vts).

  Lemma install_fields :
    o_meths C = ms /\ o_vptr C = vps /\
    (exists junk, o_image C = (img1 ++ img2) ++ junk) /\
    o_ss C = map (fun '(mi, (m, t)) => slots_strides_of st mi m t) (combine (seq 0 (length ms)) (combine ms tables)).
  Proof.
    unfold C, install_with. fold tables. fold vt.
    unfold offs, img1, vps, img2, vts, offs, img1.
    destruct (place_tables 0 0 (combine ms tables)) as [o i1] eqn:E1. cbn [fst snd].
    destruct (place_vtbls (length i1) (s_first st) (map (map (entry_word ms tables o)) vt)) as [v i2] eqn:E2. cbn [fst snd].
    cbn [o_meths o_vptr o_image o_ss]. repeat split. eexists. reflexivity.
  Qed.

  Lemma read_img12 a w : nth_error (img1 ++ img2) a = Some w -> read (o_image C) (Z.of_nat a) = Ok w.
  Proof.
    intro H. destruct install_fields as [_ [_ [[junk E] _]]]. rewrite E. unfold read.
    destruct (Z.ltb_spec (Z.of_nat a) 0) as [Hneg|_]; [lia|]. rewrite Nat2Z.id.
    rewrite nth_error_app1 by (apply nth_error_Some; congruence). rewrite H. reflexivity.
  Qed.

  Lemma nth_tables mi cm : nth_error ms mi = Some cm -> nth_error (combine ms tables) mi = Some (cm, build_method L cm).
  Proof.
    unfold tables. clear. revert mi. induction ms as [|x l IH]; intros [|mi] H; cbn in *; try discriminate.
    - inversion H. reflexivity.
    - apply IH. exact H.
  Qed.

  (* a cell of a multi-method dispatch table *)
  Lemma read_table mi cm idx : nth_error ms mi = Some cm -> length (cm_vp cm) <> 1 ->
    idx < length (t_cells (build_method L cm)) ->
    read (o_image C) (Z.of_nat (nth mi offs 0 + idx)) = Ok (word_of_cell mi (nth idx (t_cells (build_method L cm)) CNi)).
  Proof.
    intros Hm Hne Hidx.
    destruct (place_tables_spec (combine ms tables) 0 0 offs img1) as [_ Hk].
    { unfold offs, img1. destruct (place_tables 0 0 (combine ms tables)); reflexivity. }
    destruct (Hk mi cm (build_method L cm) (nth_tables mi cm Hm) Hne) as [pre [H1 [H2 H3]]].
    rewrite H1. cbn [Nat.add]. apply read_img12. rewrite nth_error_app1 by lia. apply H3. exact Hidx.
  Qed.

  Lemma vt_facts : length vt = ncls L /\ (forall z, z < ncls L -> length (nth z vt []) = vlen_of st z) /\
    forall mi m dim c, nth_error ms mi = Some m -> dim < length (cm_vp m) -> In c (cov_of L (nth dim (cm_vp m) 0)) ->
      nth (slot_of st mi dim - first_of st c) (nth c vt []) (0, 0, 0) = (mi, dim, group_index L m dim c).
  Proof. destruct (write_vtbls_spec L ms st Hso) as [[H1 H2] H3]. auto. Qed.

  (* the v-table cell of an applicable (method, parameter) pair, read through the class's static v-table pointer *)
  Lemma read_vtbl mi cm dim c : nth_error ms mi = Some cm -> dim < length (cm_vp cm) -> In c (cov_of L (nth dim (cm_vp cm) 0)) ->
    read (o_image C) (nth c (o_vptr C) 0%Z + Z.of_nat (slot_of st mi dim))%Z
    = Ok (entry_word ms tables offs (mi, dim, group_index L cm dim c)).
  Proof.
    intros Hm Hd Hc.
    destruct vt_facts as [Hvl [Hvz Hve]].
    assert (Ha : applies L ms mi dim c).
    { exists cm. split; [assumption|]. exists (nth dim (cm_vp cm) 0). split; [apply nth_error_nth'; assumption|assumption]. }
    pose proof (so_in_vtbl L ms st Hso mi dim c Ha) as Hin.
    assert (Hcn : c < ncls L).
    { destruct (Nat.lt_ge_cases c (ncls L)) as [H|H]; [assumption|]. exfalso.
      unfold vlen_of in Hin. rewrite (nth_overflow (s_vlen st)) in Hin by (rewrite (so_len_vlen L ms st Hso); exact H). lia. }
    destruct (place_vtbls_spec (s_first st) vts (length img1) vps img2) as [_ Hk].
    { unfold vps, img2. destruct (place_vtbls (length img1) (s_first st) vts); reflexivity. }
    { unfold vts. rewrite map_length, Hvl. apply (so_len_first L ms st Hso). }
    assert (Hz : nth_error vts c = Some (map (entry_word ms tables offs) (nth c vt []))).
    { unfold vts. rewrite nth_error_map. rewrite (nth_error_nth' vt []) by lia. reflexivity. }
    destruct (Hk c _ Hz) as [pre [H1 [H2 H3]]].
    destruct install_fields as [_ [Evp _]]. rewrite Evp, H1. fold (first_of st c).
    set (j := slot_of st mi dim - first_of st c).
    replace (Z.of_nat (length img1 + pre) - Z.of_nat (first_of st c) + Z.of_nat (slot_of st mi dim))%Z
      with (Z.of_nat (length img1 + (pre + j))) by (unfold j; lia).
    apply read_img12. rewrite nth_error_app2 by lia.
    replace (length img1 + (pre + j) - length img1) with (pre + j) by lia.
    assert (Hj : j < length (map (entry_word ms tables offs) (nth c vt []))).
    { rewrite map_length, (Hvz c Hcn). unfold j. lia. }
    rewrite (H3 j Hj). f_equal.
    rewrite (nth_map_lt _ _ _ (0, 0, 0)) by (rewrite map_length in Hj; exact Hj).
    f_equal. apply Hve; assumption.
  Qed.

  Lemma nth_ss mi cm : nth_error ms mi = Some cm -> nth mi (o_ss C) [] = slots_strides_of st mi cm (build_method L cm).
  Proof.
    intro Hm. destruct install_fields as [_ [_ [_ E]]]. rewrite E.
    assert (Hl : length (combine ms tables) = length ms) by (unfold tables; rewrite combine_length, map_length; lia).
    rewrite <- Hl. rewrite (nth_map_combine_seq _ (combine ms tables) mi (cm, build_method L cm)); [reflexivity|].
    apply nth_tables. exact Hm.
  Qed.

  Lemma tables_nth mi cm : nth_error ms mi = Some cm ->
    nth mi ms (mk_cmeth [] [] [] []) = cm /\ nth mi tables (mk_ct [] [] [] (mk_rep 0 0 0 0 0 0) []) = build_method L cm.
  Proof.
    intro Hm. split; [apply nth_error_nth; exact Hm|].
    unfold tables. apply nth_error_nth. rewrite nth_error_map, Hm. reflexivity.
  Qed.

  Section OneMethod.
    Variables (mi : nat) (m : meth_rec) (cm : cmeth).
    Hypothesis Hm : nth_error ms mi = Some cm.
    Hypothesis Hok : meth_ok R L m cm.

    Let t := build_method L cm.
    Let n := length (cm_vp cm).
    Let ss := nth mi (o_ss C) [].

    Let Hcmwf : meth_wf L cm.
    Proof. apply (proj1 (Forall_forall _ _) Hms). eapply nth_error_In; eassumption. Qed.

    Let Hslen : length (nth mi (s_slots st) []) = n := so_len_slots_m L ms st Hso mi cm Hm.

    Lemma ss_slot k : k < n -> nth k ss 0 = slot_of st mi k.
    Proof.
      intro Hk. unfold ss. rewrite (nth_ss mi cm Hm). unfold slots_strides_of, slot_of. fold n.
      destruct (Nat.eqb_spec n 1) as [E|NE].
      - assert (k = 0) by lia. subst k. apply nth0_firstn1.
      - rewrite app_nth1 by lia. reflexivity.
    Qed.

    Lemma ss_stride k : n <> 1 -> 1 <= k -> nth (n + k - 1) ss 0 = nth (k - 1) (t_strides t) 0.
    Proof.
      intros NE Hk. unfold ss. rewrite (nth_ss mi cm Hm). unfold slots_strides_of. fold n.
      destruct (Nat.eqb_spec n 1) as [E|_]; [contradiction|].
      rewrite app_nth2 by lia. f_equal. lia.
    Qed.

    (* the tail of the multi-method walk adds the remaining group indexes times their strides *)
    Lemma walk_next_spec : n <> 1 -> forall rest c va acc off,
      1 <= va -> va + length (c :: rest) = n ->
      Forall2 (fun p z => In z (cov_of L p)) (skipn va (cm_vp cm)) (c :: rest) ->
      walk_next C n ss va (Z.of_nat (off + acc)) (vptrs_of C (c :: rest))
      = read (o_image C) (Z.of_nat (off + (acc + table_index L cm (t_strides t) va (c :: rest)))).
    Proof.
      intro NE. induction rest as [|c' rest IH]; intros c va acc off Hva Hlen Hf.
      - cbn [length] in Hlen. cbn [vptrs_of map walk_next].
        assert (Hin : In c (cov_of L (nth va (cm_vp cm) 0))).
        { destruct (skipn va (cm_vp cm)) as [|p ps] eqn:E; inversion Hf; subst.
          destruct (skipn_cons_inv 0 va _ _ _ E) as [-> _]. assumption. }
        rewrite (ss_slot va) by lia. rewrite (read_vtbl mi cm va c Hm ltac:(fold n; lia) Hin). cbn [bind entry_word].
        destruct (tables_nth mi cm Hm) as [-> ->]. fold n.
        destruct (Nat.eqb_spec n 1) as [|_]; [contradiction|].
        destruct (Nat.eqb_spec va 0) as [|_]; [lia|].
        destruct (Nat.eqb_spec (S va) n) as [_|]; [|lia].
        rewrite (ss_stride va NE Hva). f_equal. cbn [table_index].
        destruct va as [|d]; [lia|]. cbn [Nat.sub]. rewrite Nat.sub_0_r. lia.
      - cbn [length] in Hlen.
        change (vptrs_of C (c :: c' :: rest)) with (nth c (o_vptr C) 0%Z :: vptrs_of C (c' :: rest)). cbn [walk_next].
        assert (Hsk : exists p ps, skipn va (cm_vp cm) = p :: ps /\ nth va (cm_vp cm) 0 = p /\ skipn (S va) (cm_vp cm) = ps).
        { destruct (skipn va (cm_vp cm)) as [|p ps] eqn:E; [inversion Hf|]. exists p, ps. split; [reflexivity|].
          exact (skipn_cons_inv 0 va _ _ _ E). }
        destruct Hsk as [p [ps [E [Ep Eps]]]]. rewrite E in Hf. inversion Hf as [|? ? ? ? Hpc Hrest]; subst.
        rewrite (ss_slot va) by lia.
        rewrite (read_vtbl mi cm va c Hm ltac:(fold n; lia) Hpc). cbn [bind entry_word].
        destruct (tables_nth mi cm Hm) as [-> ->]. fold n.
        destruct (Nat.eqb_spec n 1) as [|_]; [contradiction|].
        destruct (Nat.eqb_spec va 0) as [|_]; [lia|].
        destruct (Nat.eqb_spec (S va) n) as [|_]; [lia|].
        rewrite (ss_stride va NE Hva).
        set (g := group_index L cm va c). set (s := nth (va - 1) (t_strides t) 0).
        replace (Z.of_nat (off + acc) + Z.of_nat g * Z.of_nat s)%Z with (Z.of_nat (off + (acc + g * s))) by lia.
        rewrite (IH c' (S va) (acc + g * s) off) by (first [exact Hrest | cbn [length] in *; lia]).
        f_equal. f_equal. cbn [table_index]. fold g.
        destruct va as [|d]; [lia|]. unfold s. cbn [Nat.sub]. rewrite Nat.sub_0_r. lia.
    Qed.

    (* the whole walk over the virtual arguments *)
    Theorem walk_correct cs :
      Forall2 (fun p z => In z (cov_of L p)) (cm_vp cm) cs ->
      (if n =? 1 then walk_uni C ss (vptrs_of C cs) else walk_first C n ss (vptrs_of C cs))
      = Ok (word_of_outcome mi (spec_dispatch R (meth_defs R m) (map (key L) cs))).
    Proof.
      intro Hf.
      destruct (table_cell_spec R L Hlo Hacy (ancb_correct R) cm m cs Hcmwf Hok Hf) as [Hidx Hcell]. fold t in Hidx, Hcell.
      assert (Hlen : length cs = n) by (symmetry; exact (tg_Forall2_length _ _ _ Hf)).
      destruct cs as [|c0 rest].
      { exfalso. destruct Hcmwf as [Hne _]. apply Hne. apply length_zero_iff_nil. fold n. cbn [length] in Hlen. lia. }
      assert (H0 : In c0 (cov_of L (nth 0 (cm_vp cm) 0)) /\ Forall2 (fun p z => In z (cov_of L p)) (skipn 1 (cm_vp cm)) rest).
      { inversion Hf as [|p c ps cs' Hpc Hrest Evp]; subst. cbn [nth skipn]. split; assumption. }
      destruct H0 as [H0 Hrest0].
      unfold word_of_outcome. rewrite <- Hcell.
      destruct (Nat.eqb_spec n 1) as [E1|NE1].
      - (* uni-method *)
        cbn [vptrs_of map walk_uni]. rewrite (ss_slot 0) by lia.
        rewrite (read_vtbl mi cm 0 c0 Hm ltac:(fold n; lia) H0). cbn [entry_word].
        destruct (tables_nth mi cm Hm) as [-> ->]. fold n. destruct (Nat.eqb_spec n 1) as [_|]; [|contradiction].
        destruct rest; [|cbn [length] in Hlen; lia]. cbn [table_index]. fold t.
        do 3 f_equal. lia.
      - (* multi-method *)
        cbn [vptrs_of map walk_first]. rewrite (ss_slot 0) by (cbn [length] in Hlen; lia).
        rewrite (read_vtbl mi cm 0 c0 Hm ltac:(fold n; cbn [length] in Hlen; lia) H0). cbn [bind entry_word].
        destruct (tables_nth mi cm Hm) as [-> ->]. fold n. destruct (Nat.eqb_spec n 1) as [|_]; [contradiction|].
        cbn [Nat.eqb].
        destruct rest as [|c1 rest]; [cbn [length] in Hlen; lia|].
        change (map (fun c => nth c (o_vptr C) 0%Z) (c1 :: rest)) with (vptrs_of C (c1 :: rest)).
        rewrite (walk_next_spec NE1 rest c1 1 (group_index L cm 0 c0) (nth mi offs 0)).
        + assert (Eidx : table_index L cm (t_strides t) 0 (c0 :: c1 :: rest)
                         = group_index L cm 0 c0 + table_index L cm (t_strides t) 1 (c1 :: rest)).
          { change (table_index L cm (t_strides t) 0 (c0 :: c1 :: rest))
              with (group_index L cm 0 c0 * 1 + table_index L cm (t_strides t) 1 (c1 :: rest)). lia. }
          rewrite Eidx in Hidx |- *. apply (read_table mi cm _ Hm NE1). exact Hidx.
        + lia.
        + cbn [length] in Hlen |- *. lia.
        + exact Hrest0.
    Qed.
  End OneMethod.
End Assembly.
