(* DefSource.v — compiler<Policy>::resolve_static_type_ids as TRANSLATED from detail/compiler.hpp on this run (Gen/GenDef.v,
   interpreted by Model/MiniDef.v) is Model.Deferred.resolve_static_type_ids: the same cells are resolved, each once, the same
   flags are set, and the same runs crash (a cell resolved twice) — for every store, catalog and id function. *)
From Coq Require Import List NArith Bool Arith Lia.
From Y2 Require Import Model.Registry Model.Deferred Model.MiniDef Gen.GenDef Proofs.DeferredProofs.
Import ListNotations.

Lemma set_nth_self {A} (l : list A) : forall i a, nth_error l i = Some a -> set_nth i l a = l.
Proof. induction l as [|x r IH]; intros [|i] a H; cbn in *; try discriminate. - inversion H; reflexivity. - f_equal. apply IH. exact H. Qed.

Lemma ds_eta s : mk_ds (d_arrays s) (d_types s) = s.
Proof. destruct s; reflexivity. Qed.

Section Def.
  Variables (idf : N -> N) (k : dcatalog).

  (* the translated resolve_list on array i is the model's resolve_array *)
  Lemma src_resolve_list s i :
    lexec_ idf (ds_resolve_list gen_resolve) s i = resolve_array idf s i.
  Proof.
    unfold gen_resolve, resolve_array, resolve_list. cbn [ds_resolve_list lexec_].
    destruct (nth_error (d_arrays s) i) as [a|] eqn:Ea; [|reflexivity].
    destruct (a_cells a) as [|c0 cs] eqn:Ec; [rewrite (set_nth_self _ _ _ Ea), ds_eta; reflexivity|].
    destruct (a_flag a) eqn:Ef; [rewrite (set_nth_self _ _ _ Ea), ds_eta; reflexivity|].
    rewrite <- Ec. destruct (resolve_cells idf (a_cells a)) as [cs'|] eqn:Er; cbn [dbind]; [|reflexivity].
    cbn [d_arrays d_types].
    assert (Hi : i < length (d_arrays s)) by (apply nth_error_Some; congruence).
    assert (Hn : nth_error (set_nth i (d_arrays s) (mk_arr cs' (a_flag a))) i = Some (mk_arr cs' (a_flag a))).
    { clear -Hi. revert i Hi. induction (d_arrays s) as [|x r IH]; intros [|i] Hi; cbn in *; try lia; [reflexivity|].
      apply IH. lia. }
    rewrite Ef in Hn. rewrite Hn. cbn [a_cells]. f_equal. f_equal.
    clear. revert i. induction (d_arrays s) as [|x r IH]; intros [|i]; cbn; try reflexivity. f_equal. apply IH.
  Qed.

  Lemma ffor_ext {A} (f g : A -> dstore -> dres dstore) (H : forall a s, f a s = g a s) : forall xs s, ffor f xs s = ffor g xs s.
  Proof. induction xs as [|a r IH]; intros s; cbn [ffor]; [reflexivity|]. rewrite H. destruct (g a s); cbn [dbind]; [apply IH|reflexivity]. Qed.

  Lemma ffor_arrays (step : nat -> dstore -> dres dstore) (H : forall i s, step i s = resolve_array idf s i) :
    forall l s, ffor step l s = resolve_arrays idf s l.
  Proof. induction l as [|i r IH]; intros s; cbn [ffor resolve_arrays]; [reflexivity|]. rewrite H. destruct (resolve_array idf s i); cbn [dbind]; [apply IH|reflexivity]. Qed.

  Theorem src_resolve s : run_resolve idf k gen_resolve s = resolve_static_type_ids idf s k.
  Proof.
    unfold run_resolve, resolve_static_type_ids.
    change (ds_body gen_resolve) with
      (FSeq (FForClasses (FSeq (FIfTypeUnresolved (FSeq FResolveType FSetTypeResolved)) (FResolveList FBasesOfClass)))
            (FForMethods (FSeq (FResolveList FVpOfMethod) (FForDefinitions (FResolveList FVpOfDefinition))))).
    cbn [fexec].
    (* the classes *)
    assert (Hc : forall cs s0, ffor (fun ci s' => fexec idf k gen_resolve
                   (FSeq (FIfTypeUnresolved (FSeq FResolveType FSetTypeResolved)) (FResolveList FBasesOfClass))
                   (mk_fctx (Some ci) None None) s') cs s0 = resolve_classes idf s0 cs).
    { induction cs as [|ci r IH]; intros s0; cbn [ffor resolve_classes]; [reflexivity|].
      cbn [fexec x_class x_method x_def].
      assert (Ht : (match nth_error (d_types s0) (dc_type ci) with
                    | None => DOk s0
                    | Some (_, true) => DOk s0
                    | Some (_, false) =>
                        dbind (match nth_error (d_types s0) (dc_type ci) with
                               | None => DOk s0
                               | Some (c0, fl) => match resolve_cell idf c0 with
                                                  | DOk c' => DOk (mk_ds (d_arrays s0) (set_nth (dc_type ci) (d_types s0) (c', fl)))
                                                  | DCrash => DCrash
                                                  end
                               end)
                              (fun s1 => match nth_error (d_types s1) (dc_type ci) with
                                         | None => DOk s1
                                         | Some (c0, _) => DOk (mk_ds (d_arrays s1) (set_nth (dc_type ci) (d_types s1) (c0, true)))
                                         end)
                    end) = resolve_type idf s0 (dc_type ci)).
      { unfold resolve_type. destruct (nth_error (d_types s0) (dc_type ci)) as [[c0 [|]]|] eqn:En; try reflexivity.
        destruct (resolve_cell idf c0) as [c'|]; cbn [dbind]; [|reflexivity]. cbn [d_types d_arrays].
        assert (Hi : dc_type ci < length (d_types s0)) by (apply nth_error_Some; congruence).
        assert (Hn : nth_error (set_nth (dc_type ci) (d_types s0) (c', false)) (dc_type ci) = Some (c', false)).
        { clear -Hi. revert Hi. generalize (dc_type ci). induction (d_types s0) as [|x r0 IH0]; intros [|i] Hi; cbn in *; try lia; [reflexivity|].
          apply IH0. lia. }
        rewrite Hn. f_equal. f_equal. clear. generalize (dc_type ci). induction (d_types s0) as [|x r0 IH0]; intros [|i]; cbn; try reflexivity. f_equal. apply IH0. }
      rewrite Ht. destruct (resolve_type idf s0 (dc_type ci)) as [s1|]; cbn [dbind]; [|reflexivity].
      change (ds_resolve_is_call_and_store gen_resolve) with true. cbn iota. rewrite src_resolve_list.
      destruct (resolve_array idf s1 (dc_bases ci)) as [s2|]; cbn [dbind]; [apply IH|reflexivity]. }
    rewrite Hc. destruct (resolve_classes idf s (dk_classes k)) as [s1|]; cbn [dbind]; [|reflexivity].
    (* the methods *)
    generalize (dk_methods k). intros ms. revert s1.
    induction ms as [|m r IH]; intros s1; cbn [ffor resolve_methods]; [reflexivity|].
    cbn [fexec x_class x_method x_def]. change (ds_resolve_is_call_and_store gen_resolve) with true. cbn iota.
    rewrite src_resolve_list.
    destruct (resolve_array idf s1 (dm_vp m)) as [s2|]; cbn [dbind]; [|reflexivity].
    rewrite (ffor_arrays (fun d s' => fexec idf k gen_resolve (FResolveList FVpOfDefinition) (mk_fctx None (Some m) (Some d)) s')).
    2:{ intros i s0. cbn [fexec x_def]. change (ds_resolve_is_call_and_store gen_resolve) with true. cbn iota. apply src_resolve_list. }
    destruct (resolve_arrays idf s2 (dm_defs m)) as [s3|]; cbn [dbind]; [apply IH|reflexivity].
  Qed.
End Def.

(* the theorems of C10 / C07 about deferred ids, restated on the translated function *)
Theorem src_deferred : forall idf s k, store_ok s ->
  exists s', run_resolve idf k gen_resolve s = DOk s' /\ store_ok s' /\ extends idf s s' /\ catalog_resolved s' k.
Proof. intros idf s k H. rewrite src_resolve. exact (resolve_static_type_ids_ok idf s k H). Qed.

Theorem src_deferred_repeat : forall idf s k, store_ok s -> catalog_resolved s k ->
  run_resolve idf k gen_resolve s = DOk s.
Proof. intros idf s k H1 H2. rewrite src_resolve. exact (resolve_static_type_ids_idempotent idf s k H1 H2). Qed.
