(* Proofs/SpecTuples.v — (S6) all_classes, tuples and the meaning of spec_flag.
   No axioms; stdlib only. *)
From Y2 Require Import Model.Registry Spec.Dispatch Proofs.SpecAnc Proofs.SpecCore.
From Coq Require Import List NArith Arith Lia Bool Relations Permutation.
Import ListNotations.

Section SpecTuples.
  Variable R : registry.

  Definition spec_ac_step (acc : list N) (r : class_rec) : list N :=
    if memN (rec_class R r) acc then acc else acc ++ [rec_class R r].

  Lemma all_classes_unfold : all_classes R = fold_left spec_ac_step (r_classes R) [].
  Proof. reflexivity. Qed.

  Lemma spec_ac_step_NoDup acc r : NoDup acc -> NoDup (spec_ac_step acc r).
  Proof.
    intro ND. unfold spec_ac_step. destruct (memN (rec_class R r) acc) eqn:E; [assumption|].
    eapply Permutation_NoDup; [apply Permutation_cons_append|].
    constructor; [now apply memN_false|assumption].
  Qed.

  Lemma spec_ac_step_In acc r x : In x (spec_ac_step acc r) <-> In x acc \/ rec_class R r = x.
  Proof.
    unfold spec_ac_step. destruct (memN (rec_class R r) acc) eqn:E.
    - apply memN_In in E. split; [auto|]. intros [H|H]; [assumption|now subst].
    - rewrite in_app_iff. cbn [In]. tauto.
  Qed.

  Lemma spec_ac_fold l : forall acc, NoDup acc ->
    NoDup (fold_left spec_ac_step l acc) /\
    forall x, In x (fold_left spec_ac_step l acc) <->
              In x acc \/ exists r, In r l /\ rec_class R r = x.
  Proof.
    induction l as [|r l IH]; intros acc ND; cbn [fold_left].
    - split; [assumption|]. intro x. split; [auto|]. intros [H|[r [[] _]]]. assumption.
    - destruct (IH _ (spec_ac_step_NoDup acc r ND)) as [H1 H2]. split; [assumption|].
      intro x. rewrite H2, spec_ac_step_In. cbn [In]. split.
      + intros [[H|H]|[r' [Hr' E]]].
        * now left.
        * right. exists r. auto.
        * right. exists r'. auto.
      + intros [H|[r' [[Hr'|Hr'] E]]].
        * left. now left.
        * subst r'. left. now right.
        * right. exists r'. auto.
  Qed.

  Theorem all_classes_NoDup : NoDup (all_classes R).
  Proof. rewrite all_classes_unfold. apply spec_ac_fold. constructor. Qed.

  Theorem all_classes_In a : In a (all_classes R) <-> registered R a.
  Proof.
    rewrite all_classes_unfold. destruct (spec_ac_fold (r_classes R) [] (NoDup_nil _)) as [_ H].
    rewrite H. unfold registered. cbn [In]. tauto.
  Qed.

  Theorem tuples_correct vp : forall args,
    In args (tuples R vp) <-> Forall2 (fun p a => In a (all_classes R) /\ anc R p a) vp args.
  Proof.
    induction vp as [|p vp IH]; intros args; cbn [tuples].
    - cbn [In]. split.
      + intros [<-|[]]. constructor.
      + intro H. inversion H. now left.
    - rewrite in_flat_map. split.
      + intros [c [Hc Ha]]. apply filter_In in Hc. destruct Hc as [Hc Hp].
        apply in_map_iff in Ha. destruct Ha as [t [<- Ht]].
        constructor; [split; [assumption|now apply ancb_correct]|now apply IH].
      + intro H. inversion H as [|? a ? t [Ha Hp] Ht]; subst. exists a. split.
        * apply filter_In. split; [assumption|now apply ancb_correct].
        * apply in_map. now apply IH.
  Qed.

  Corollary tuples_legal m args : In args (tuples R (meth_vp R m)) <-> legal R m args.
  Proof.
    rewrite tuples_correct. unfold legal. apply Forall2_iff_pointwise.
    intros p a. rewrite all_classes_In. reflexivity.
  Qed.

  Lemma concrete_tuple_correct args :
    concrete_tuple R args = true <-> forall c, In c args -> is_abstract R c = false.
  Proof.
    unfold concrete_tuple. rewrite forallb_forall.
    split; intros H c Hc; apply negb_true_iff; auto.
  Qed.

  Theorem spec_flag_correct which concrete_only :
    spec_flag R which concrete_only = true <->
    exists m args, In m (r_methods R) /\ legal R m args /\
                   which (spec_dispatch R (meth_defs R m) args) = true /\
                   (concrete_only = true -> forall c, In c args -> is_abstract R c = false).
  Proof.
    unfold spec_flag. rewrite existsb_exists. split.
    - intros [m [Hm H]]. apply existsb_exists in H. destruct H as [args [Ha H]].
      apply andb_true_iff in H. destruct H as [Hw Hc]. exists m, args.
      split; [assumption|]. split; [now apply tuples_legal|]. split; [assumption|].
      intro E. rewrite E in Hc. cbn [negb orb] in Hc. now apply concrete_tuple_correct.
    - intros [m [args [Hm [Hl [Hw Hc]]]]]. exists m. split; [assumption|].
      apply existsb_exists. exists args. split; [now apply tuples_legal|].
      rewrite Hw. cbn [andb]. destruct concrete_only; cbn [negb orb]; [|reflexivity].
      apply concrete_tuple_correct. auto.
  Qed.
End SpecTuples.
