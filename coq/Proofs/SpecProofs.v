(* Proofs/SpecProofs.v — everything proved about Spec/Dispatch.v, in one import.
     SpecAnc    (S1) ancb decides anc (ancb_correct, parents_edge)
     SpecCore   (S2) boolean/Prop equivalences, (S3) asymmetry of more_specific and uniqueness of the
                dominant definition, (S4) spec_dispatch_among is the one outcome allowed by outcome_ok;
                reader-level characterisation of spec_dispatch and spec_next
     SpecTuples (S6) all_classes, tuples, spec_flag
     SpecPresent (P1-P4) extensionality in anc, presentations of one graph, ids seen through proj
     SpecPerm   (S5) independence from the order of the class catalog and of the definitions
   No axioms; stdlib only. *)
From Y2 Require Export Proofs.SpecAnc Proofs.SpecCore Proofs.SpecTuples Proofs.SpecPresent Proofs.SpecPerm.

Print Assumptions ancb_correct.
Print Assumptions spec_dispatch_among_ok.
Print Assumptions spec_dispatch_among_unique.
Print Assumptions spec_dispatch_among_perm.
Print Assumptions spec_dispatch_Run.
Print Assumptions spec_flag_correct.
Print Assumptions tuples_correct.
Print Assumptions spec_dispatch_perm.
Print Assumptions spec_next_perm.
Print Assumptions anc_of_presentation.
Print Assumptions spec_dispatch_anc_ext.
Print Assumptions spec_next_anc_ext.
Print Assumptions legal_anc_ext.
Print Assumptions spec_dispatch_presentations.
Print Assumptions spec_next_presentations.
Print Assumptions class_of_proj.
Print Assumptions spec_rtti_flavour_irrelevant.
Print Assumptions spec_rtti_flavour_irrelevant_methods.
