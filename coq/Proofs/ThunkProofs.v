(** * Proofs about the subobject model and the argument-conversion model (C11) *)

From Coq Require Import List NArith Bool Arith Lia.
From Y2 Require Import Model.Subobject Model.Thunk.
Import ListNotations.

(** ** Lists of classes *)

Lemma sub_eqb_refl : forall a, sub_eqb a a = true.
Proof.
  induction a as [|x a IH]; cbn [sub_eqb]; [reflexivity|].
  rewrite N.eqb_refl, IH. reflexivity.
Qed.

Lemma sub_eqb_true : forall a b, sub_eqb a b = true -> a = b.
Proof.
  induction a as [|x a IH]; intros [|y b] Hab; cbn [sub_eqb] in Hab; try discriminate.
  - reflexivity.
  - apply andb_true_iff in Hab. destruct Hab as [Hxy Hr].
    apply N.eqb_eq in Hxy. apply IH in Hr. subst. reflexivity.
Qed.

Lemma sub_eqb_false_length : forall a b, length a <> length b -> sub_eqb a b = false.
Proof.
  intros a b Hl. destruct (sub_eqb a b) eqn:He; [|reflexivity].
  apply sub_eqb_true in He. subst. exfalso. apply Hl. reflexivity.
Qed.

Lemma strip_suffix_self : forall t, strip_suffix t t = Some [].
Proof.
  intros [|x t]; cbn [strip_suffix].
  - reflexivity.
  - rewrite sub_eqb_refl. reflexivity.
Qed.

Lemma strip_suffix_app : forall pre t, strip_suffix t (pre ++ t) = Some pre.
Proof.
  induction pre as [|x pre IH]; intros t.
  - apply strip_suffix_self.
  - cbn [app strip_suffix].
    rewrite sub_eqb_false_length.
    + rewrite IH. reflexivity.
    + cbn [length]. rewrite app_length. lia.
Qed.

Lemma last_app_nonempty : forall (d t : sub) x, t <> [] -> last (d ++ t) x = last t x.
Proof.
  induction d as [|a d IH]; intros t x Ht.
  - reflexivity.
  - cbn [app]. specialize (IH t x Ht).
    destruct (d ++ t) as [|b l] eqn:Hdt.
    + destruct d; destruct t; try discriminate. exfalso. apply Ht. reflexivity.
    + cbn [last]. cbn [last] in IH. exact IH.
Qed.

(** Composition keeps the class of the embedded subobject. *)
Lemma sub_class_embed : forall d r, sub_class (embed d r) = sub_class r.
Proof.
  intros d [|h t]; [reflexivity|].
  unfold embed. destruct (N.eqb h (sub_class d)) eqn:Hh; [|reflexivity].
  apply N.eqb_eq in Hh.
  destruct t as [|y t].
  - rewrite app_nil_r. unfold sub_class at 2. cbn [last]. symmetry. exact Hh.
  - unfold sub_class. rewrite last_app_nonempty by discriminate. reflexivity.
Qed.

Lemma In_filter_single : forall (A : Type) (f : A -> bool) l x y,
  filter f l = [y] -> In x l -> f x = true -> x = y.
Proof.
  intros A f l x y Hf Hin Hfx.
  assert (Hx : In x (filter f l)) by (apply filter_In; split; assumption).
  rewrite Hf in Hx. destruct Hx as [Hx|[]]. symmetry. exact Hx.
Qed.

Lemma filter_single_in : forall (A : Type) (f : A -> bool) l y,
  filter f l = [y] -> In y l /\ f y = true.
Proof.
  intros A f l y Hf. apply filter_In. rewrite Hf. left. reflexivity.
Qed.

Lemma filter_map_commute : forall (A B : Type) (p : B -> bool) (p' : A -> bool) (g : A -> B) l,
  (forall x, p (g x) = p' x) -> filter p (map g l) = map g (filter p' l).
Proof.
  intros A B p p' g l Hp. induction l as [|a l IH]; [reflexivity|].
  cbn [map filter]. rewrite Hp. destruct (p' a); cbn [map]; rewrite IH; reflexivity.
Qed.

(** ** The enumeration produces Rossie-Friedman canonical paths *)

Fixpoint nv_chain (H : hier) (p : sub) : Prop :=
  match p with
  | x :: t => match t with
              | y :: _ => In y (nv_bases H x) /\ nv_chain H t
              | [] => True
              end
  | [] => True
  end.

Lemma nv_paths_wf : forall H f X p,
  In p (nv_paths H f X) -> p <> [] /\ sub_head p = X /\ nv_chain H p.
Proof.
  intros H f. induction f as [|f IH]; intros X p Hin; cbn [nv_paths] in Hin.
  - destruct Hin.
  - destruct Hin as [Hp|Hin].
    + subst p. split; [discriminate|]. split; [reflexivity|]. exact I.
    + apply in_map_iff in Hin. destruct Hin as [q [Hq Hin]]. subst p.
      apply in_flat_map in Hin. destruct Hin as [Y [HY Hin]].
      destruct (IH Y q Hin) as [Hne [Hhd Hch]].
      split; [discriminate|]. split; [reflexivity|].
      destruct q as [|y q]; [exfalso; apply Hne; reflexivity|].
      unfold sub_head in Hhd. cbn [hd] in Hhd. subst y.
      cbn [nv_chain]. split; [exact HY|exact Hch].
Qed.

Lemma mem_class_In : forall x l, mem_class x l = true <-> In x l.
Proof.
  intros x l. induction l as [|y l IH]; cbn [mem_class In].
  - split; [discriminate|intros []].
  - rewrite orb_true_iff, IH, N.eqb_eq. split; intros [Hx|Hx]; auto.
Qed.

Lemma dedup_In : forall x l, In x (dedup l) <-> In x l.
Proof.
  intros x l. induction l as [|y l IH]; cbn [dedup]; [reflexivity|].
  destruct (mem_class y l) eqn:Hm.
  - rewrite IH. cbn [In]. split; [auto|]. intros [Hx|Hx]; [|exact Hx].
    subst y. apply mem_class_In. exact Hm.
  - cbn [In]. rewrite IH. reflexivity.
Qed.

(** every enumerated subobject is a non-empty chain of non-virtual edges
    anchored at the complete class or at one of its virtual bases *)
Lemma subobjects_wf : forall H f C s,
  In s (subobjects H f C) ->
  s <> [] /\ nv_chain H s /\ (sub_head s = C \/ In (sub_head s) (vbases H f C)).
Proof.
  intros H f C s Hin. unfold subobjects in Hin. apply in_app_or in Hin.
  destruct Hin as [Hin|Hin].
  - destruct (nv_paths_wf _ _ _ _ Hin) as [Hne [Hhd Hch]]. auto.
  - apply in_flat_map in Hin. destruct Hin as [V [HV Hin]].
    destruct (nv_paths_wf _ _ _ _ Hin) as [Hne [Hhd Hch]].
    split; [exact Hne|]. split; [exact Hch|]. right. rewrite Hhd. exact HV.
Qed.

(** a virtual base is the target of a virtual edge reachable from the class *)
Lemma vbases_sound : forall H f C V,
  In V (vbases H f C) -> In (V, true) (all_edges H f C).
Proof.
  intros H f C V Hin. unfold vbases in Hin. apply (proj1 (dedup_In _ _)) in Hin.
  apply in_map_iff in Hin. destruct Hin as [[V' b] [HV Hin]]. cbn [fst] in HV. subst V'.
  apply filter_In in Hin. destruct Hin as [Hin Hb]. cbn [snd] in Hb. subst b. exact Hin.
Qed.

(** ** Containment *)

Lemma contains_inv : forall H f d s,
  contains H f d s = true ->
  exists r, In r (subobjects H f (sub_class d)) /\ s = embed d r.
Proof.
  intros H f d s Hc. unfold contains, base_subobjects in Hc.
  apply existsb_exists in Hc. destruct Hc as [x [Hin Heq]].
  apply in_map_iff in Hin. destruct Hin as [r [Hr Hin]].
  apply sub_eqb_true in Heq. exists r. subst. split; [assumption|reflexivity].
Qed.

Lemma contains_intro : forall H f d r,
  In r (subobjects H f (sub_class d)) -> contains H f d (embed d r) = true.
Proof.
  intros H f d r Hin. unfold contains, base_subobjects.
  apply existsb_exists. exists (embed d r). split.
  - apply in_map. exact Hin.
  - apply sub_eqb_refl.
Qed.

(** ** The casts *)

(** static_cast, when well formed, recovers the enclosing D subobject. *)
Lemma static_downcast_contained : forall H f d s D,
  sub_class d = D ->
  static_cast_ok H f (sub_class s) D = true ->
  contains H f d s = true ->
  static_downcast H f s D = Some d.
Proof.
  intros H f d s D Hd Hok Hc.
  destruct (contains_inv _ _ _ _ Hc) as [r [Hr Hs]]. rewrite Hd in Hr.
  assert (Hcls : sub_class s = sub_class r) by (rewrite Hs; apply sub_class_embed).
  unfold static_cast_ok in Hok. unfold static_downcast.
  destruct (filter (of_class (sub_class s)) (subobjects H f D)) as [|q [|q2 l]] eqn:Hf;
    try discriminate.
  destruct q as [|h t]; try discriminate.
  rewrite Hok. apply N.eqb_eq in Hok. subst h.
  assert (Hrq : r = D :: t).
  { apply (In_filter_single _ _ _ r _ Hf Hr). unfold of_class. apply N.eqb_eq.
    symmetry. exact Hcls. }
  subst r. unfold embed in Hs. rewrite Hd, N.eqb_refl in Hs. subst s.
  rewrite strip_suffix_app. rewrite Hd, N.eqb_refl. reflexivity.
Qed.

(** dynamic_cast finds the D subobject when the complete object has one. *)
Lemma dynamic_cast_unique : forall H f C d s D,
  filter (of_class D) (subobjects H f C) = [d] ->
  contains H f d s = true ->
  dynamic_cast H f C s D = Some d.
Proof.
  intros H f C d s D Hf Hc. unfold dynamic_cast. rewrite Hf.
  cbn [filter]. rewrite Hc. reflexivity.
Qed.

(** ** The thunk *)

(** Main lemma (every kind). *)
Theorem thunk_arg_correct : forall H f k C (s d : sub) D,
  In s (subobjects H f C) ->
  filter (of_class D) (subobjects H f C) = [d] ->
  contains H f d s = true ->
  thunk_arg H f k C s D = Some d /\ sub_class d = D /\ contains H f d s = true.
Proof.
  intros H f k C s d D Hs Hf Hc.
  destruct (filter_single_in _ _ _ _ Hf) as [Hdin Hdc].
  unfold of_class in Hdc. apply N.eqb_eq in Hdc.
  split; [|split; assumption].
  assert (Hstatic : uses_optimal_cast k = true ->
            (if static_cast_ok H f (sub_class s) D then CStatic else CDynamic) = cast_choice H f k (sub_class s) D).
  { intros Hk. unfold cast_choice. destruct k; try discriminate; reflexivity. }
  unfold thunk_arg.
  destruct (uses_optimal_cast k) eqn:Hk.
  - rewrite <- (Hstatic eq_refl).
    destruct (static_cast_ok H f (sub_class s) D) eqn:Hok; unfold do_cast.
    + rewrite Hk. apply static_downcast_contained; assumption.
    + apply dynamic_cast_unique; assumption.
  - destruct k; try discriminate; unfold cast_choice.
    + destruct (N.eqb (sub_class s) D) eqn:HBD; unfold do_cast.
      * cbn [uses_optimal_cast]. f_equal.
        apply (In_filter_single _ _ _ s _ Hf Hs). unfold of_class. exact HBD.
      * apply dynamic_cast_unique; assumption.
    + unfold do_cast. apply dynamic_cast_unique; assumption.
Qed.

(** Converting the definition's view back to the method's class gives the
    caller's subobject, whenever that conversion is unambiguous. *)
Theorem upcast_back : forall H f (s d : sub) q,
  contains H f d s = true ->
  filter (of_class (sub_class s)) (subobjects H f (sub_class d)) = [q] ->
  upcast H f d (sub_class s) = Some s.
Proof.
  intros H f s d q Hc Hq.
  destruct (contains_inv _ _ _ _ Hc) as [r [Hr Hs]].
  assert (Hcls : sub_class s = sub_class r) by (rewrite Hs; apply sub_class_embed).
  unfold upcast, base_subobjects.
  rewrite (filter_map_commute _ _ (of_class (sub_class s)) (of_class (sub_class s)) (embed d)).
  - rewrite Hq. cbn [map unique]. f_equal.
    assert (Hrq : r = q).
    { apply (In_filter_single _ _ _ r _ Hq Hr). unfold of_class. apply N.eqb_eq.
      symmetry. exact Hcls. }
    subst r. symmetry. exact Hs.
  - intros x. unfold of_class. rewrite sub_class_embed. reflexivity.
Qed.

Theorem thunk_arg_upcast : forall H f k C (s d : sub) D q,
  In s (subobjects H f C) ->
  filter (of_class D) (subobjects H f C) = [d] ->
  contains H f d s = true ->
  filter (of_class (sub_class s)) (subobjects H f D) = [q] ->
  exists d', thunk_arg H f k C s D = Some d' /\ sub_class d' = D /\
             upcast H f d' (sub_class s) = Some s.
Proof.
  intros H f k C s d D q Hs Hf Hc Hq.
  destruct (thunk_arg_correct H f k C s d D Hs Hf Hc) as [Ht [Hd _]].
  exists d. split; [exact Ht|]. split; [exact Hd|].
  apply (upcast_back H f s d q Hc). rewrite Hd. exact Hq.
Qed.

(** static and dynamic flavours agree wherever both apply: the choice made by
    optimal_cast cannot change which object a definition receives *)
Theorem static_dynamic_agree : forall H f C (s d : sub) D,
  filter (of_class D) (subobjects H f C) = [d] ->
  contains H f d s = true ->
  static_cast_ok H f (sub_class s) D = true ->
  static_downcast H f s D = dynamic_cast H f C s D.
Proof.
  intros H f C s d D Hf Hc Hok.
  destruct (filter_single_in _ _ _ _ Hf) as [_ Hdc].
  unfold of_class in Hdc. apply N.eqb_eq in Hdc.
  rewrite (static_downcast_contained H f d s D Hdc Hok Hc).
  rewrite (dynamic_cast_unique H f C d s D Hf Hc). reflexivity.
Qed.

(** ** Shared ownership *)

Theorem thunk_ctrl_shared : forall H f k C (s d : sub) D ctrl,
  In s (subobjects H f C) ->
  filter (of_class D) (subobjects H f C) = [d] ->
  contains H f d s = true ->
  thunk_ctrl k ctrl (thunk_arg H f k C s D) = if is_smart k then Some ctrl else None.
Proof.
  intros H f k C s d D ctrl Hs Hf Hc.
  destruct (thunk_arg_correct H f k C s d D Hs Hf Hc) as [Ht _].
  rewrite Ht. unfold thunk_ctrl. destruct (is_smart k); reflexivity.
Qed.

(** ** Cast choice *)

Theorem cast_choice_optimal : forall H f k B D,
  uses_optimal_cast k = true ->
  (cast_choice H f k B D = CStatic <-> static_cast_ok H f B D = true).
Proof.
  intros H f k B D Hk. unfold cast_choice.
  destruct k; try discriminate;
    destruct (static_cast_ok H f B D); split; intros Hx; try reflexivity; discriminate.
Qed.

Theorem cast_choice_shared : forall H f B D,
  (cast_choice H f KShared B D = CStatic <-> B = D) /\
  cast_choice H f KCShared B D = CDynamic.
Proof.
  intros H f B D. unfold cast_choice. split; [|reflexivity].
  destruct (N.eqb B D) eqn:HBD.
  - apply N.eqb_eq in HBD. split; intros _; [exact HBD|reflexivity].
  - apply N.eqb_neq in HBD. split; intros Hx; [discriminate|contradiction].
Qed.

(** ** Non-virtual arguments *)

Lemma iter_fwd_value : forall n c st, ns_value (iter_fwd n c st) = ns_value st.
Proof.
  induction n as [|n IH]; intros c st; cbn [iter_fwd]; [reflexivity|].
  rewrite IH. unfold fwd_layer. destruct (by_value c); reflexivity.
Qed.

Lemma iter_fwd_copies : forall n c st, ns_copies (iter_fwd n c st) = ns_copies st.
Proof.
  induction n as [|n IH]; intros c st; cbn [iter_fwd]; [reflexivity|].
  rewrite IH. unfold fwd_layer. destruct (by_value c); reflexivity.
Qed.

Lemma iter_fwd_moves : forall n c st,
  ns_moves (iter_fwd n c st) = ns_moves st + (if by_value c then n else 0).
Proof.
  induction n as [|n IH]; intros c st; cbn [iter_fwd].
  - destruct (by_value c); lia.
  - rewrite IH. unfold fwd_layer. destruct (by_value c); cbn [ns_moves]; lia.
Qed.

Lemma init_layer_value : forall c e v, ns_value (init_layer c e v) = v.
Proof. intros c e v. unfold init_layer. destruct (by_value c); destruct e; reflexivity. Qed.

Lemma init_layer_copies : forall c e v, ns_copies (init_layer c e v) = intrinsic_copies c e.
Proof. intros c e v. unfold init_layer, intrinsic_copies. destruct (by_value c); destruct e; reflexivity. Qed.

Lemma init_layer_moves : forall c e v, ns_moves (init_layer c e v) = intrinsic_moves c e.
Proof. intros c e v. unfold init_layer, intrinsic_moves. destruct (by_value c); destruct e; reflexivity. Qed.

Theorem thunk_narg_value_copies : forall r c e v,
  ns_value (thunk_narg r c e v) = v /\
  ns_copies (thunk_narg r c e v) = intrinsic_copies c e /\
  (e <> ELvalue -> ns_copies (thunk_narg r c e v) = 0).
Proof.
  intros r c e v. unfold thunk_narg.
  rewrite iter_fwd_value, iter_fwd_copies, init_layer_value, init_layer_copies.
  split; [reflexivity|]. split; [reflexivity|].
  intros He. unfold intrinsic_copies. destruct (by_value c); [|reflexivity].
  destruct e; try reflexivity. exfalso. apply He. reflexivity.
Qed.

Theorem thunk_narg_moves : forall r c e v,
  ns_moves (thunk_narg r c e v) =
  intrinsic_moves c e + (if by_value c then fwd_steps r else 0).
Proof.
  intros r c e v. unfold thunk_narg. rewrite iter_fwd_moves, init_layer_moves. reflexivity.
Qed.

Theorem thunk_narg_moves_reference : forall r c e v,
  by_value c = false -> ns_moves (thunk_narg r c e v) = 0 /\ narg_same_object c = true.
Proof.
  intros r c e v Hc. rewrite thunk_narg_moves. unfold intrinsic_moves, narg_same_object.
  rewrite Hc. split; reflexivity.
Qed.

Theorem thunk_return_unchanged : forall r k v,
  ns_value (thunk_return r k v) = v /\ ns_copies (thunk_return r k v) = 0 /\
  ns_moves (thunk_return r k v) = 0.
Proof. intros r k v. unfold thunk_return. cbn. auto. Qed.

(** K1: the forwarding layers move a by-value argument more than once. *)
Theorem byvalue_moves_refuted :
  exists r c e, by_value c = true /\ e <> ELvalue /\
                ns_copies (thunk_narg r c e 7%N) = 0 /\
                ns_moves (thunk_narg r c e 7%N) > 1.
Proof.
  exists RFn, NVal, EPrvalue. split; [reflexivity|]. split; [discriminate|].
  split; vm_compute; [reflexivity|lia].
Qed.

Theorem byvalue_moves_exact :
  ns_moves (thunk_narg RFn NVal EPrvalue 7%N) = 3 /\
  ns_moves (thunk_narg RMacro NVal EPrvalue 7%N) = 4 /\
  ns_moves (thunk_narg RFn NMoveOnly EXvalue 7%N) = 4 /\
  ns_moves (thunk_narg RMacro NMoveOnly EXvalue 7%N) = 5.
Proof. vm_compute. auto. Qed.
