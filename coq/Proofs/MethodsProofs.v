(* MethodsProofs.v — stage 2 (augment_methods): for a well-formed registry every method and definition parameter
   class is found, and the compiled methods are the registry's methods with class indexes for class keys. *)
From Y2 Require Import Model.Registry Model.Compile Spec.Dispatch Proofs.Interfaces Proofs.LatListFacts.
From Coq Require Import Lia.
Local Open Scope nat_scope.

Section Methods.
  Variables (R : registry) (L : lattice).
  Hypothesis Hlo : lattice_ok R L.

  Lemma lookup_all_ok : forall ts, Forall (registered R) (map (proj R) ts) ->
    exists cs, lookup_all R (l_keys L) ts = Ok cs /\ length cs = length ts /\
               Forall (fun c => c < ncls L) cs /\ map (key L) cs = map (proj R) ts.
  Proof.
    induction ts as [|t ts IH]; intro H; cbn [lookup_all map].
    - exists []. repeat split; constructor.
    - cbn [map] in H. inversion H as [|? ? Ht Hts]; subst.
      apply (lo_registered R L Hlo) in Ht.
      destruct (index_ofN_In _ _ Ht) as [i Hi].
      assert (Hc : class_of R (l_keys L) t = Some i) by exact Hi.
      rewrite Hc. destruct (IH Hts) as [cs [E [Hl [Hlt Hk]]]]. rewrite E. cbn [bind].
      apply (lo_class_of R L Hlo) in Hc. destruct Hc as [Hi' Hkey].
      exists (i :: cs). repeat split; cbn [length map]; [lia|constructor; assumption|rewrite Hkey, Hk; reflexivity].
  Qed.

  Lemma lookup_defs_ok : forall ds n,
    (forall d, In d ds -> length (d_vp d) = n /\ Forall (registered R) (map (proj R) (d_vp d))) ->
    exists vs, lookup_defs R (l_keys L) ds = Ok vs /\ length vs = length ds /\
               Forall (fun sp => length sp = n /\ Forall (fun c => c < ncls L) sp) vs /\
               map (map (key L)) vs = map (fun d => map (proj R) (d_vp d)) ds.
  Proof.
    induction ds as [|d ds IH]; intros n H; cbn [lookup_defs map].
    - exists []. repeat split; constructor.
    - destruct (H d (or_introl eq_refl)) as [Hn Hr].
      destruct (lookup_all_ok _ Hr) as [v [E [Hl [Hlt Hk]]]]. rewrite E. cbn [bind].
      destruct (IH n (fun d' Hd' => H d' (or_intror Hd'))) as [vs [E' [Hl' [Hf Hk']]]]. rewrite E'. cbn [bind].
      exists (v :: vs). repeat split; cbn [length map]; [lia|constructor; [split; [lia|assumption]|assumption]|rewrite Hk, Hk'; reflexivity].
  Qed.

  Lemma augment_methods_ok : forall ms,
    (forall m, In m ms -> m_vp m <> [] /\ Forall (registered R) (meth_vp R m) /\
                          length (filter (fun b : bool => b) (m_shape m)) = length (m_vp m) /\
                          forall d, In d (meth_defs R m) -> length d = length (m_vp m) /\ Forall (registered R) d) ->
    exists cms, augment_methods R (l_keys L) ms = Ok cms /\ length cms = length ms /\
                Forall (meth_wf L) cms /\
                forall i m, nth_error ms i = Some m -> exists cm, nth_error cms i = Some cm /\ meth_ok R L m cm.
  Proof.
    induction ms as [|m ms IH]; intro H; cbn [augment_methods].
    - exists []. repeat split; [constructor|]. intros [|i] m Hm; discriminate.
    - destruct (H m (or_introl eq_refl)) as [Hne [Hvp [Hshape Hdefs]]].
      destruct (lookup_all_ok _ Hvp) as [vp [E [Hl [Hlt Hk]]]]. rewrite E. cbn [bind].
      assert (Hd : forall d, In d (m_defs m) -> length (d_vp d) = length (m_vp m) /\ Forall (registered R) (map (proj R) (d_vp d))).
      { intros d Hd. destruct (Hdefs (map (proj R) (d_vp d))) as [H1 H2].
        - unfold meth_defs. apply in_map_iff. exists d. auto.
        - rewrite map_length in H1. auto. }
      destruct (lookup_defs_ok _ _ Hd) as [specs [E' [Hl' [Hf Hk']]]]. rewrite E'. cbn [bind].
      destruct (IH (fun m' Hm' => H m' (or_intror Hm'))) as [cms [E'' [Hl'' [Hwf Hok]]]]. rewrite E''. cbn [bind].
      eexists. split; [reflexivity|]. split; [cbn [length]; lia|]. split.
      + constructor; [|assumption]. unfold meth_wf. cbn [cm_vp cm_specs cm_has_next cm_shape].
        repeat split.
        * intro Hnil. subst vp. destruct (m_vp m); [congruence|discriminate].
        * assumption.
        * eapply Forall_impl; [|exact Hf]. intros sp [H1 H2]. split; [lia|assumption].
        * rewrite map_length. lia.
        * lia.
      + intros [|i] m' Hm'; cbn [nth_error] in *.
        * inversion Hm'; subst m'. eexists. split; [reflexivity|].
          unfold meth_ok. cbn [cm_vp cm_specs cm_has_next cm_shape]. repeat split; assumption.
        * apply Hok. assumption.
  Qed.
End Methods.

(* all stages up to the compiled methods, from the registry's well-formedness *)
Lemma methods_ok_premise R : methods_ok R ->
  forall m, In m (r_methods R) -> m_vp m <> [] /\ Forall (registered R) (meth_vp R m) /\
                          length (filter (fun b : bool => b) (m_shape m)) = length (m_vp m) /\
                          forall d, In d (meth_defs R m) -> length d = length (m_vp m) /\ Forall (registered R) d.
Proof. intros H m Hm. exact (H m Hm). Qed.
