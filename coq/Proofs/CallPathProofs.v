(* C16 — proofs about interleavings of read-only threads (Model/CallPath.v). *)

From Coq Require Import String List Bool NArith Arith Lia.
From Y2 Require Import Model.CallPath.
Import ListNotations.

(* ------------------------------------------------------------------------- *)
(** * The predicates on access lists imply "no shared write"                  *)

Lemma access_read_only_no_write :
  forall a, access_read_only a = true -> shared_write a = false.
Proof.
  intros a H. destruct a; cbn in *; try reflexivity; try discriminate.
  rewrite H. reflexivity.
Qed.

Lemma access_owner_only_no_write :
  forall a, access_owner_only a = true -> shared_write a = false.
Proof.
  intros a H. destruct a; cbn in *; try reflexivity; try discriminate.
  rewrite H. reflexivity.
Qed.

Lemma read_only_implies_owner :
  forall a, access_read_only a = true -> access_owner_only a = true.
Proof.
  intros a H. destruct a; cbn in *; try reflexivity; try discriminate; try exact H.
  rewrite H. reflexivity.
Qed.

Lemma shared_read_only_no_write :
  forall t, shared_read_only (kinds t) = true -> no_shared_write t.
Proof.
  intros t H c Hin. unfold shared_read_only, kinds in H.
  rewrite forallb_forall in H. apply access_read_only_no_write.
  apply H. apply in_map. exact Hin.
Qed.

Lemma shared_read_only_owner_no_write :
  forall t, shared_read_only_owner (kinds t) = true -> no_shared_write t.
Proof.
  intros t H c Hin. unfold shared_read_only_owner, kinds in H.
  rewrite forallb_forall in H. apply access_owner_only_no_write.
  apply H. apply in_map. exact Hin.
Qed.

Lemma route_read_only_no_write :
  forall r t, kinds t = r_accesses r -> route_read_only r = true -> no_shared_write t.
Proof.
  intros r t Hk H. unfold route_read_only in H. rewrite <- Hk in H.
  destruct (is_smart r).
  - apply shared_read_only_owner_no_write. exact H.
  - apply shared_read_only_no_write. exact H.
Qed.

(* ------------------------------------------------------------------------- *)
(** * set_nth / nth_error                                                     *)

Lemma nth_error_set_nth_eq :
  forall (X : Type) (l : list X) i v x,
    nth_error l i = Some x -> nth_error (set_nth i v l) i = Some v.
Proof.
  intros X l. induction l as [|y l IH]; intros i v x H.
  - destruct i; discriminate.
  - destruct i as [|i]; cbn in *.
    + reflexivity.
    + eapply IH. exact H.
Qed.

Lemma nth_error_set_nth_neq :
  forall (X : Type) (l : list X) i j v,
    i <> j -> nth_error (set_nth i v l) j = nth_error l j.
Proof.
  intros X l. induction l as [|y l IH]; intros i j v Hne.
  - destruct i; reflexivity.
  - destruct i as [|i]; destruct j as [|j]; cbn; try reflexivity.
    + contradiction.
    + apply IH. intro E. apply Hne. rewrite E. reflexivity.
Qed.

(* ------------------------------------------------------------------------- *)
(** * Interleavings: projections and membership                               *)

Lemma proj_cons_eq :
  forall (X : Type) i (x : X) sch, proj i ((i, x) :: sch) = x :: proj i sch.
Proof.
  intros. unfold proj. cbn [filter fst]. rewrite Nat.eqb_refl. reflexivity.
Qed.

Lemma proj_cons_neq :
  forall (X : Type) i j (x : X) sch, j <> i -> proj i ((j, x) :: sch) = proj i sch.
Proof.
  intros X i j x sch Hne. unfold proj. cbn [filter fst].
  destruct (Nat.eqb_spec j i) as [E|E]; [contradiction|reflexivity].
Qed.

(* the steps of thread i, in schedule order, are exactly thread i *)
Lemma interleave_proj :
  forall (X : Type) (ts : list (list X)) sch,
    interleave ts sch ->
    forall i t, nth_error ts i = Some t -> proj i sch = t.
Proof.
  intros X ts sch H. induction H as [ts Hall | ts i0 x rest sch Hnth Hil IH]; intros i t Ht.
  - rewrite Forall_forall in Hall. symmetry. apply Hall.
    eapply nth_error_In. exact Ht.
  - destruct (Nat.eq_dec i0 i) as [E|E].
    + subst i0. rewrite Hnth in Ht. inversion Ht; subst t.
      rewrite proj_cons_eq. f_equal. apply IH.
      eapply nth_error_set_nth_eq. exact Hnth.
    + rewrite proj_cons_neq by exact E. apply IH.
      rewrite nth_error_set_nth_neq by exact E. exact Ht.
Qed.

(* every scheduled step belongs to the thread it is tagged with *)
Lemma interleave_in :
  forall (X : Type) (ts : list (list X)) sch,
    interleave ts sch ->
    forall j c, In (j, c) sch -> exists t, nth_error ts j = Some t /\ In c t.
Proof.
  intros X ts sch H. induction H as [ts Hall | ts i0 x rest sch Hnth Hil IH]; intros j c Hin.
  - destruct Hin.
  - destruct Hin as [E|Hin].
    + inversion E; subst j c. exists (x :: rest). split; [exact Hnth | left; reflexivity].
    + destruct (IH j c Hin) as [t [Ht Hc]].
      destruct (Nat.eq_dec i0 j) as [E|E].
      * subst i0. erewrite nth_error_set_nth_eq in Ht by exact Hnth.
        inversion Ht; subst t. exists (x :: rest). split; [exact Hnth | right; exact Hc].
      * rewrite nth_error_set_nth_neq in Ht by exact E. exists t. split; assumption.
Qed.

(* ------------------------------------------------------------------------- *)
(** * Running a schedule under a frame                                        *)

Lemma run_cons :
  forall i c r s,
    run ((i, c) :: r) s =
    (fst (run r (effect c s)), (i, observe c s) :: snd (run r (effect c s))).
Proof.
  intros. cbn [run]. destruct (run r (effect c s)). reflexivity.
Qed.

Lemma obs_of_cons_eq :
  forall i o log, obs_of i ((i, o) :: log) = o :: obs_of i log.
Proof.
  intros. unfold obs_of. cbn [filter fst]. rewrite Nat.eqb_refl. reflexivity.
Qed.

Lemma obs_of_cons_neq :
  forall i j o log, j <> i -> obs_of i ((j, o) :: log) = obs_of i log.
Proof.
  intros i j o log Hne. unfold obs_of. cbn [filter fst].
  destruct (Nat.eqb_spec j i) as [E|E]; [contradiction|reflexivity].
Qed.

Lemma effect_agree :
  forall (W : loc -> Prop) c s s0,
    agree_outside W s s0 ->
    (shared_write (c_acc c) = true -> W (c_loc c)) ->
    agree_outside W (effect c s) s0.
Proof.
  intros W c s s0 Hag Hw l Hl. unfold effect.
  destruct (shared_write (c_acc c)) eqn:E.
  - unfold upd. destruct (N.eqb_spec l (c_loc c)) as [El|El].
    + subst l. exfalso. apply Hl. apply Hw. reflexivity.
    + apply Hag. exact Hl.
  - apply Hag. exact Hl.
Qed.

Lemma observe_agree :
  forall (W : loc -> Prop) c s s0,
    agree_outside W s s0 ->
    (shared_observe (c_acc c) = true -> ~ W (c_loc c)) ->
    observe c s = observe c s0.
Proof.
  intros W c s s0 Hag Ho. unfold observe.
  destruct (shared_observe (c_acc c)) eqn:E; [|reflexivity].
  f_equal. apply Hag. apply Ho. reflexivity.
Qed.

(* writes confined to W leave everything outside W as it was *)
Lemma run_agree :
  forall (W : loc -> Prop) (s0 : shared) sch s,
    agree_outside W s s0 ->
    (forall j c, In (j, c) sch -> shared_write (c_acc c) = true -> W (c_loc c)) ->
    agree_outside W (fst (run sch s)) s0.
Proof.
  intros W s0 sch. induction sch as [|[j c] r IH]; intros s Hag Hw.
  - exact Hag.
  - rewrite run_cons. cbn [fst]. apply IH.
    + apply effect_agree; [exact Hag|]. intro E. eapply Hw; [left; reflexivity | exact E].
    + intros j' c' Hin. apply (Hw j' c'). right. exact Hin.
Qed.

(* the frame lemma: all writes of the schedule fall in W, thread i observes
   only outside W; then thread i observes the INITIAL store at every step *)
Lemma run_frame :
  forall (W : loc -> Prop) (s0 : shared) (i : nat) sch s,
    agree_outside W s s0 ->
    (forall j c, In (j, c) sch -> shared_write (c_acc c) = true -> W (c_loc c)) ->
    (forall c, In (i, c) sch -> shared_observe (c_acc c) = true -> ~ W (c_loc c)) ->
    obs_of i (snd (run sch s)) = map (fun c => observe c s0) (proj i sch).
Proof.
  intros W s0 i sch. induction sch as [|[j c] r IH]; intros s Hag Hw Ho.
  - reflexivity.
  - rewrite run_cons. cbn [snd].
    assert (Hag' : agree_outside W (effect c s) s0).
    { apply effect_agree; [exact Hag|]. intro E. eapply Hw; [left; reflexivity | exact E]. }
    pose proof (IH (effect c s) Hag'
                 (fun j' c' Hin => Hw j' c' (or_intror Hin))
                 (fun c' Hin => Ho c' (or_intror Hin))) as IH1.
    destruct (Nat.eq_dec j i) as [E|E].
    + subst j. rewrite obs_of_cons_eq, proj_cons_eq. cbn [map]. f_equal; [|exact IH1].
      eapply observe_agree; [exact Hag|]. intro Eo. apply Ho; [left; reflexivity | exact Eo].
    + rewrite obs_of_cons_neq by exact E. rewrite proj_cons_neq by exact E. exact IH1.
Qed.

(* a thread without shared writes, alone: the store never changes *)
Lemma alone_no_write :
  forall t s, no_shared_write t -> alone t s = map (fun c => observe c s) t.
Proof.
  intros t. induction t as [|c t IH]; intros s Hn.
  - reflexivity.
  - unfold alone in *. cbn [map]. rewrite run_cons. cbn [snd map]. f_equal.
    assert (E : effect c s = s).
    { unfold effect. rewrite (Hn c (or_introl eq_refl)). reflexivity. }
    rewrite E. apply IH. intros c' Hin. apply Hn. right. exact Hin.
Qed.

Lemma run_no_write_store :
  forall sch s,
    (forall j c, In (j, c) sch -> shared_write (c_acc c) = false) ->
    fst (run sch s) = s.
Proof.
  intros sch. induction sch as [|[j c] r IH]; intros s Hn.
  - reflexivity.
  - rewrite run_cons. cbn [fst].
    assert (E : effect c s = s).
    { unfold effect. rewrite (Hn j c (or_introl eq_refl)). reflexivity. }
    rewrite E. apply IH. intros j' c' Hin. eapply Hn. right. exact Hin.
Qed.

(* ------------------------------------------------------------------------- *)
(** * No race                                                                 *)

Lemma conflict_needs_write :
  forall c d, conflict c d = true ->
    (shared_write (c_acc c) = true \/ shared_write (c_acc d) = true).
Proof.
  intros c d H. unfold conflict in H.
  apply andb_true_iff in H. destruct H as [_ H].
  apply orb_true_iff in H. exact H.
Qed.

Lemma no_write_no_race :
  forall sch,
    (forall j c, In (j, c) sch -> shared_write (c_acc c) = false) -> ~ race sch.
Proof.
  intros sch Hn [p [q [i [c [j [d [_ [Hp [Hq [_ Hc]]]]]]]]]].
  apply nth_error_In in Hp. apply nth_error_In in Hq.
  destruct (conflict_needs_write _ _ Hc) as [E|E].
  - rewrite (Hn _ _ Hp) in E. discriminate.
  - rewrite (Hn _ _ Hq) in E. discriminate.
Qed.

Lemma conflict_same_loc :
  forall c d, conflict c d = true -> c_loc c = c_loc d.
Proof.
  intros c d H. unfold conflict in H.
  apply andb_true_iff in H. destruct H as [H _].
  apply andb_true_iff in H. destruct H as [_ H].
  apply N.eqb_eq. exact H.
Qed.

Lemma conflict_touches :
  forall c d, conflict c d = true -> touches c = true /\ touches d = true.
Proof.
  intros c d H. unfold conflict in H.
  apply andb_true_iff in H. destruct H as [H _].
  apply andb_true_iff in H. destruct H as [H _].
  apply andb_true_iff in H. exact H.
Qed.

(* ------------------------------------------------------------------------- *)
(** * The two theorems                                                        *)

Definition clean (t : thread) : Prop :=
  shared_read_only (kinds t) = true \/ shared_read_only_owner (kinds t) = true.

Lemma clean_no_write : forall t, clean t -> no_shared_write t.
Proof.
  intros t [H|H].
  - apply shared_read_only_no_write. exact H.
  - apply shared_read_only_owner_no_write. exact H.
Qed.

Lemma no_race_lemma :
  forall (ts : list thread) (sch : schedule) (s0 : shared),
    (forall t, In t ts -> clean t) ->
    interleave ts sch ->
    ~ race sch
    /\ fst (run sch s0) = s0
    /\ (forall i t, nth_error ts i = Some t ->
          obs_of i (snd (run sch s0)) = alone t s0
          /\ forall (R : Type) (result : list (option val) -> R),
               result (obs_of i (snd (run sch s0))) = result (alone t s0)).
Proof.
  intros ts sch s0 Hclean Hil. unfold thread in *.
  assert (Hnw : forall j c, In (j, c) sch -> shared_write (c_acc c) = false).
  { intros j c Hin. destruct (interleave_in _ _ _ Hil j c Hin) as [t [Ht Hc]].
    apply (clean_no_write t); [|exact Hc].
    apply Hclean. eapply nth_error_In. exact Ht. }
  split; [apply no_write_no_race; exact Hnw|].
  split; [apply run_no_write_store; exact Hnw|].
  intros i t Ht.
  assert (E : obs_of i (snd (run sch s0)) = alone t s0).
  { rewrite (run_frame (fun _ => False) s0 i sch s0).
    - rewrite (interleave_proj _ _ _ Hil i t Ht).
      symmetry. apply alone_no_write. apply clean_no_write. apply Hclean.
      eapply nth_error_In. exact Ht.
    - intros l _. reflexivity.
    - intros j c Hin Hw. rewrite (Hnw j c Hin) in Hw. discriminate.
    - intros c _ _ F. exact F. }
  split; [exact E|]. intros R result. rewrite E. reflexivity.
Qed.

(* one thread (index u) may write, but only inside W; the others are clean and
   observe only outside W *)
Lemma foreign_update_lemma :
  forall (W : loc -> Prop) (ts : list thread) (u : nat) (tu : thread)
         (sch : schedule) (s0 : shared),
    nth_error ts u = Some tu ->
    writes_within W tu ->
    (forall i t, nth_error ts i = Some t -> i <> u -> clean t /\ observes_outside W t) ->
    interleave ts sch ->
    ~ race sch
    /\ agree_outside W (fst (run sch s0)) s0
    /\ (forall i t, nth_error ts i = Some t -> i <> u ->
          obs_of i (snd (run sch s0)) = alone t s0).
Proof.
  intros W ts u tu sch s0 Hu Hwu Hothers Hil. unfold thread in *.
  assert (Hw : forall j c, In (j, c) sch -> shared_write (c_acc c) = true -> W (c_loc c)).
  { intros j c Hin Hwr. destruct (interleave_in _ _ _ Hil j c Hin) as [t [Ht Hc]].
    destruct (Nat.eq_dec j u) as [E|E].
    - rewrite E in Ht. rewrite Hu in Ht. inversion Ht as [Et]. rewrite Et in Hwu.
      apply Hwu; assumption.
    - destruct (Hothers j t Ht E) as [Hcl _].
      rewrite (clean_no_write t Hcl c Hc) in Hwr. discriminate. }
  assert (Hreader : forall j c, In (j, c) sch -> j <> u ->
            shared_write (c_acc c) = false
            /\ (shared_observe (c_acc c) = true -> ~ W (c_loc c))).
  { intros j c Hin Hne. destruct (interleave_in _ _ _ Hil j c Hin) as [t [Ht Hc]].
    destruct (Hothers j t Ht Hne) as [Hcl Hout]. split.
    - apply (clean_no_write t Hcl c Hc).
    - intro Eo. apply (Hout c Hc Eo). }
  split.
  - (* no race: a conflicting pair needs a writer, which can only be u; the
       other step is a reader's and touches a location outside W *)
    intros [p [q [i [c [j [d [_ [Hp [Hq [Hij Hc]]]]]]]]]].
    apply nth_error_In in Hp. apply nth_error_In in Hq.
    pose proof (conflict_same_loc _ _ Hc) as Eloc.
    destruct (conflict_touches _ _ Hc) as [Tc Td].
    destruct (conflict_needs_write _ _ Hc) as [Ew|Ew].
    + (* c writes: so i = u, and d is a reader's step *)
      destruct (Nat.eq_dec i u) as [Ei|Ei].
      * subst i. assert (Hj : j <> u) by (intro E; apply Hij; symmetry; exact E).
        destruct (Hreader j d Hq Hj) as [Hdw Hdo].
        unfold touches in Td. rewrite Hdw, orb_false_r in Td.
        apply (Hdo Td). rewrite <- Eloc. apply (Hw u c Hp Ew).
      * destruct (Hreader i c Hp Ei) as [Hcw _]. rewrite Hcw in Ew. discriminate.
    + destruct (Nat.eq_dec j u) as [Ej|Ej].
      * subst j. assert (Hi : i <> u) by exact Hij.
        destruct (Hreader i c Hp Hi) as [Hcw Hco].
        unfold touches in Tc. rewrite Hcw, orb_false_r in Tc.
        apply (Hco Tc). rewrite Eloc. apply (Hw u d Hq Ew).
      * destruct (Hreader j d Hq Ej) as [Hdw _]. rewrite Hdw in Ew. discriminate.
  - split.
    + apply run_agree; [intros l _; reflexivity | exact Hw].
    + intros i t Ht Hne.
      rewrite (run_frame W s0 i sch s0).
      * rewrite (interleave_proj _ _ _ Hil i t Ht).
        symmetry. apply alone_no_write. apply clean_no_write.
        apply (Hothers i t Ht Hne).
      * intros l _. reflexivity.
      * exact Hw.
      * intros c Hin Eo. apply (Hreader i c Hin Hne). exact Eo.
Qed.
