(* PubSource.v — publish_vptrs and dynamic_vptr of vptr_vector and vptr_map, as TRANSLATED from policies/vptr_vector.hpp and
   vptr_map.hpp on this run (Gen/GenPub.v) and interpreted by Model/MiniPub.v, are the models:
     vptr_map                      : Model.VptrPolicy.map_publish / map_lookup
     vptr_vector without type_hash : Model.VptrPolicy.vec_publish / vec_lookup
     vptr_vector with type_hash    : Model.Hash.publish_vptrs / dynamic_vptr (fast and checked hash)
   and with indirect_vptr the indirect vector is resized and filled at the same indexes as the direct one. *)
From Coq Require Import NArith List Bool Lia.
From Y2 Require Import Model.Registry Model.Hash Model.VptrPolicy Model.MiniPub Gen.GenPub Proofs.VptrPolicyProofs.
Import ListNotations.
Open Scope N_scope.

Lemma set_nth_same {A} (l : list A) : forall n x, Hash.set_nth n x l = Registry.set_nth n l x.
Proof. induction l as [|y r IH]; intros [|n] x; cbn; try reflexivity. now rewrite IH. Qed.

Lemma resize_same {A} n (l : list A) d : Hash.resize n l d = vresize n l d.
Proof. reflexivity. Qed.

Section Pub.
  Variables (checked : bool) (stream : list N) (budget : N) (classes : list cls) (dyn_id : N).

  (* ------------------------------------------------------------------ vptr_map *)
  Lemma map_ids vp ids hh ii : forall s,
    ids_loop hh ii checked dyn_id vp ids QMapStore s = POk (with_map s (map_set_ids vp ids (q_map s))).
  Proof.
    induction ids as [|t r IH]; intros s; cbn [ids_loop map_set_ids]; [destruct s; reflexivity|].
    cbn [qbody pbind]. rewrite IH. destruct s; reflexivity.
  Qed.

  Lemma map_classes hh ii cs : forall s,
    classes_loop hh ii checked dyn_id cs QMapStore s = POk (with_map s (map_publish cs (q_map s))).
  Proof.
    induction cs as [|c r IH]; intros s; cbn [classes_loop map_publish]; [destruct s; reflexivity|].
    rewrite map_ids. cbn [pbind]. rewrite IH. destruct s; reflexivity.
  Qed.

  Theorem src_map_publish hh ii s :
    qexec hh ii checked stream budget classes dyn_id gen_map_publish s = POk (with_map s (map_publish classes (q_map s))).
  Proof. unfold gen_map_publish. cbn [qexec]. apply map_classes. Qed.

  Theorem src_map_lookup hh ii s :
    run_lookup hh ii checked stream budget classes dyn_id gen_map_lookup s = POk (map_lookup (q_map s) dyn_id).
  Proof. reflexivity. Qed.

  (* ------------------------------------------------------------------ vptr_vector, no type_hash *)
  (* the loop that computes the largest id *)
  Lemma max_ids vp ids ii : forall s,
    ids_loop false ii checked dyn_id vp ids (QSetSize (XMax XSize XCurId)) s
    = POk (with_size s (fold_left N.max ids (q_size s))).
  Proof.
    induction ids as [|t r IH]; intros s; cbn [ids_loop fold_left]; [destruct s; reflexivity|].
    cbn [qbody xeval pbind snd]. rewrite IH. destruct s; reflexivity.
  Qed.

  Lemma max_classes ii cs : forall s,
    classes_loop false ii checked dyn_id cs (QSetSize (XMax XSize XCurId)) s
    = POk (with_size s (fold_left N.max (all_ids cs) (q_size s))).
  Proof.
    induction cs as [|c r IH]; intros s; cbn [classes_loop]; [destruct s; reflexivity|].
    rewrite max_ids. cbn [pbind]. rewrite IH. unfold all_ids. cbn [flat_map]. rewrite fold_left_app.
    destruct s; reflexivity.
  Qed.

  Lemma fold_max_nat ids : forall m,
    N.to_nat (fold_left N.max ids m) = fold_left (fun a t => Nat.max a (N.to_nat t)) ids (N.to_nat m).
  Proof. induction ids as [|t r IH]; intros m; cbn [fold_left]; [reflexivity|]. rewrite IH, N2Nat.inj_max. reflexivity. Qed.

  (* the loop that stores, without hash; iv: the indirect vector is filled alongside when the facet is there *)
  (* the body of the loop that stores the v-table pointers: the last `for` over the ids in the translated publish_vptrs *)
  Fixpoint last_forids (p : pstmt) : option pstmt :=
    match p with
    | QSeq a b => match last_forids b with Some x => Some x | None => last_forids a end
    | QIfFacet _ t e => match last_forids e with Some x => Some x | None => last_forids t end
    | QForIds body => Some body
    | _ => None
    end.
  Definition body_store : pstmt := match last_forids gen_vector_publish with Some b => b | None => QSkip end.

  Lemma store_ids vp ids ii : forall s, exists ix,
    ids_loop false ii checked dyn_id vp ids body_store s
    = POk (mk_pstate (q_size s) ix (q_hst s) (q_attempts s) (vec_set_ids vp ids (q_vptrs s))
                     (if ii then vec_set_ids vp ids (q_ivptrs s) else q_ivptrs s) (q_map s)).
  Proof.
    induction ids as [|t r IH]; intros s; cbn [ids_loop vec_set_ids].
    - exists (q_index s). destruct s, ii; reflexivity.
    - unfold body_store at 1. cbn [last_forids gen_vector_publish qbody xeval pbind has snd fst with_index with_vptrs with_ivptrs q_index q_vptrs q_ivptrs q_size q_hst q_attempts q_map].
      destruct ii; cbn [qbody xeval pbind with_index with_vptrs with_ivptrs q_index q_vptrs q_ivptrs q_size q_hst q_attempts q_map];
        match goal with |- context [ids_loop _ _ _ _ _ _ _ ?s1] => destruct (IH s1) as [ix E]; rewrite E end;
        exists ix; cbn [q_size q_hst q_attempts q_vptrs q_ivptrs q_map]; rewrite !set_nth_same; reflexivity.
  Qed.

  Lemma store_classes ii cs : forall s, exists ix,
    classes_loop false ii checked dyn_id cs body_store s
    = POk (mk_pstate (q_size s) ix (q_hst s) (q_attempts s) (vec_set_classes cs (q_vptrs s))
                     (if ii then vec_set_classes cs (q_ivptrs s) else q_ivptrs s) (q_map s)).
  Proof.
    induction cs as [|c r IH]; intros s; cbn [classes_loop vec_set_classes].
    - exists (q_index s). destruct s, ii; reflexivity.
    - destruct (store_ids (cls_vptr c) (cls_ids c) ii s) as [ix0 E0]. rewrite E0. cbn [pbind].
      match goal with |- context [classes_loop _ _ _ _ _ _ ?s1] => destruct (IH s1) as [ix E]; rewrite E end.
      exists ix. cbn [q_size q_hst q_attempts q_vptrs q_ivptrs q_map]. destruct ii; reflexivity.
  Qed.

  (* vptr_vector::publish_vptrs for a policy without type_hash: vptrs becomes vec_publish; with indirect_vptr the indirect
     vector gets the same treatment (resized to the same size, the class's own token stored at the same indexes) *)
  Theorem src_vector_publish_nohash ii s : exists sz ix,
    qexec false ii checked stream budget classes dyn_id gen_vector_publish s
    = POk (mk_pstate sz ix (q_hst s) (q_attempts s) (vec_publish classes (q_vptrs s))
                     (if ii then vec_publish classes (q_ivptrs s) else q_ivptrs s) (q_map s)).
  Proof.
    unfold gen_vector_publish.
    cbn [qexec has pbind qbody xeval with_size].
    rewrite max_classes. cbn [pbind qexec qbody xeval with_size q_size].
    set (mx := fold_left N.max (all_ids classes) 0).
    assert (Esz : N.to_nat (mx + 1) = vec_size classes).
    { unfold vec_size, mx. rewrite N2Nat.inj_add, fold_max_nat. change (N.to_nat 1) with 1%nat. change (N.to_nat 0) with 0%nat.
      unfold all_pids, all_ids. rewrite Nat.add_1_r. reflexivity. }
    destruct ii; cbn [pbind qexec qbody xeval has with_vptrs with_ivptrs with_size q_size q_vptrs q_ivptrs q_index q_hst q_attempts q_map];
      match goal with |- context [classes_loop _ ?i _ _ _ ?b ?s1] => change b with body_store; destruct (store_classes i classes s1) as [ix E]; rewrite E end;
      exists (mx + 1), ix; cbn [q_size q_hst q_attempts q_vptrs q_ivptrs q_map]; rewrite Esz; reflexivity.
  Qed.

  Theorem src_vector_lookup_nohash ii s :
    run_lookup false ii checked stream budget classes dyn_id gen_vector_lookup s = POk (vec_lookup (q_vptrs s) dyn_id).
  Proof. unfold gen_vector_lookup, run_lookup. cbn. reflexivity. Qed.

  (* ------------------------------------------------------------------ vptr_vector with type_hash *)
  Lemma store_ids_hash vp ids ii : forall s,
    match publish_ids checked (q_hst s) vp ids (q_vptrs s) with
    | Ok v' => exists ix iv',
        ids_loop true ii checked dyn_id vp ids body_store s
        = POk (mk_pstate (q_size s) ix (q_hst s) (q_attempts s) v' iv' (q_map s))
    | Error (UnknownClass t) => ids_loop true ii checked dyn_id vp ids body_store s = PUnknown t (q_hst s)
    end.
  Proof.
    induction ids as [|t r IH]; intros s; cbn [ids_loop publish_ids].
    - exists (q_index s), (q_ivptrs s). destruct s; reflexivity.
    - destruct s as [sz ix0 hst att v iv m]. unfold body_store at 1 3.
      cbn [last_forids gen_vector_publish qbody xeval pbind has snd fst with_index with_vptrs with_ivptrs q_index q_vptrs q_ivptrs q_size q_hst q_attempts q_map].
      destruct (lookup checked hst t) as [i|[u]];
        cbn [qbody xeval pbind has snd fst with_index with_vptrs with_ivptrs q_index q_vptrs q_ivptrs q_size q_hst q_attempts q_map];
        [|reflexivity].
      destruct ii; cbn [qbody xeval pbind has snd fst with_index with_vptrs with_ivptrs q_index q_vptrs q_ivptrs q_size q_hst q_attempts q_map];
        unfold with_index, with_vptrs, with_ivptrs; cbn [q_size q_index q_hst q_attempts q_vptrs q_ivptrs q_map];
        match goal with |- context [ids_loop _ _ _ _ _ _ _ ?s1] => specialize (IH s1) end;
        cbn [q_size q_hst q_attempts q_vptrs q_ivptrs q_map] in IH;
        destruct (publish_ids checked hst vp r (set_nth (N.to_nat i) (Some vp) v)) as [v'|[u]];
        [destruct IH as (ix & iv' & E); rewrite E; exists ix, iv'; reflexivity | exact IH
        |destruct IH as (ix & iv' & E); rewrite E; exists ix, iv'; reflexivity | exact IH].
  Qed.

  Lemma store_classes_hash ii cs : forall s,
    match publish_classes checked (q_hst s) cs (q_vptrs s) with
    | Ok v' => exists ix iv',
        classes_loop true ii checked dyn_id cs body_store s
        = POk (mk_pstate (q_size s) ix (q_hst s) (q_attempts s) v' iv' (q_map s))
    | Error (UnknownClass t) => classes_loop true ii checked dyn_id cs body_store s = PUnknown t (q_hst s)
    end.
  Proof.
    induction cs as [|c r IH]; intros s; cbn [classes_loop publish_classes].
    - exists (q_index s), (q_ivptrs s). destruct s; reflexivity.
    - pose proof (store_ids_hash (cls_vptr c) (cls_ids c) ii s) as H.
      destruct (publish_ids checked (q_hst s) (cls_vptr c) (cls_ids c) (q_vptrs s)) as [v1|[u]].
      + destruct H as (ix & iv' & E). rewrite E. cbn [pbind].
        match goal with |- context [classes_loop _ _ _ _ _ _ ?s1] => specialize (IH s1) end.
        cbn [q_size q_hst q_attempts q_vptrs q_ivptrs q_map] in IH.
        destruct (publish_classes checked (q_hst s) r v1) as [v'|[u]].
        * destruct IH as (ix2 & iv2 & E2). rewrite E2. exists ix2, iv2. reflexivity.
        * exact IH.
      + rewrite H. reflexivity.
  Qed.

  Definition to_pub (r : pres pstate) : publish_outcome :=
    match r with
    | POk s => Published (q_hst s) (q_attempts s) (q_vptrs s)
    | PSearchError a b s => PubSearchError a b s
    | PUnknown t s => PubUnknown t s
    | PStream => PubStreamExhausted
    end.

  (* vptr_vector::publish_vptrs for a policy with type_hash (fast or checked), with or without indirect_vptr: what it
     leaves in `vptrs`, in the hash state, and how it fails, is Model.Hash.publish_vptrs *)
  Theorem src_vector_publish_hash ii st v iv m :
    to_pub (qexec true ii checked stream budget classes dyn_id gen_vector_publish (pstate_of st v iv m))
    = publish_vptrs checked stream budget st v classes.
  Proof.
    unfold gen_vector_publish, publish_vptrs, pstate_of.
    cbn [qexec has pbind q_hst].
    destruct (hash_initialize checked stream budget st classes) as [st' n|n b st'|]; cbn [pbind to_pub]; try reflexivity.
    cbn [qexec qbody xeval pbind has with_size with_vptrs with_ivptrs q_size q_vptrs q_ivptrs q_index q_hst q_attempts q_map].
    destruct ii; cbn [qexec qbody xeval pbind has with_size with_vptrs with_ivptrs q_size q_vptrs q_ivptrs q_index q_hst q_attempts q_map];
      unfold with_size, with_vptrs, with_ivptrs; cbn [q_size q_vptrs q_ivptrs q_index q_hst q_attempts q_map];
      match goal with |- context [classes_loop _ ?i _ _ _ ?b ?s1] => change b with body_store; pose proof (store_classes_hash i classes s1) as H end;
      cbn [q_size q_hst q_attempts q_vptrs q_ivptrs q_map] in H;
      destruct (publish_classes checked st' classes (resize (N.to_nat (h_length st')) v None)) as [v'|[u]];
      [destruct H as (ix & iv' & E); rewrite E; reflexivity | rewrite H; reflexivity
      |destruct H as (ix & iv' & E); rewrite E; reflexivity | rewrite H; reflexivity].
  Qed.

  Theorem src_vector_lookup_hash ii s :
    run_lookup true ii checked stream budget classes dyn_id gen_vector_lookup s
    = match dynamic_vptr checked (q_hst s) (q_vptrs s) dyn_id with
      | Ok (_, p) => POk p
      | Error (UnknownClass u) => PUnknown u (q_hst s)
      end.
  Proof.
    unfold gen_vector_lookup, run_lookup, dynamic_vptr.
    cbn [qexec qbody xeval pbind has with_index q_index q_hst q_vptrs].
    destruct (lookup checked (q_hst s) dyn_id) as [i|[u]]; reflexivity.
  Qed.
End Pub.

(* publish with the translated code, then look up with the translated code: every registered id finds its own class *)
Theorem src_map_roundtrip checked stream budget classes hh ii s : ids_disjoint classes ->
  forall c t, In c classes -> In t (pc_ids c) ->
  exists s', qexec hh ii checked stream budget classes 0 gen_map_publish s = POk s' /\
             run_lookup hh ii checked stream budget classes t gen_map_lookup s' = POk (Some (pc_vptr c)).
Proof.
  intros D c t Hc Ht. eexists. split; [apply src_map_publish|].
  rewrite src_map_lookup. destruct s; unfold with_map; cbn. f_equal. apply map_lookup_registered; assumption.
Qed.

Theorem src_vector_roundtrip checked stream budget classes ii s : ids_disjoint classes ->
  forall c t, In c classes -> In t (pc_ids c) ->
  exists s', qexec false ii checked stream budget classes 0 gen_vector_publish s = POk s' /\
             run_lookup false ii checked stream budget classes t gen_vector_lookup s' = POk (Some (pc_vptr c)).
Proof.
  intros D c t Hc Ht. destruct (src_vector_publish_nohash checked stream budget classes 0 ii s) as (sz & ix & E).
  eexists. split; [exact E|].
  rewrite src_vector_lookup_nohash. cbn. f_equal. apply vec_lookup_registered; assumption.
Qed.
