(* LatticeProofs.v — stage 1: on a well-formed registry augment_classes never fails and the lattice it
   builds satisfies lattice_ok (hence lat_wf).
   Helpers: LatListFacts (lists), LatClosure (the closure loop and its fuel), LatBases (class table,
   collect_bases, anc on keys vs. closure on indexes), LatOrder (weights, sort, direct, derived, covariant). *)
From Coq Require Import List Arith NArith Lia Bool Relations.
From Y2 Require Import Model.Registry Model.Compile Spec.Dispatch Proofs.Interfaces.
From Y2 Require Import Proofs.LatListFacts Proofs.LatClosure Proofs.LatBases Proofs.LatOrder.
Import ListNotations.
Local Open Scope nat_scope.

(* ------------------------------------------------------------------ what augment_classes computes *)

Definition lattice_from (R : registry) (tb2 : list (list nat)) : lattice :=
  let keys := class_keys R in
  let n := length keys in
  mk_lat keys (class_infos R keys) (tb3_of tb2) (direct_tbl tb2) (derived_tbl n tb2) (cov_tbl n tb2).

(* tb2: for each class, the duplicate-free list of its proper ancestors *)
Definition tb2_ok (R : registry) (tb2 : list (list nat)) : Prop :=
  let n := length (class_keys R) in
  length tb2 = n /\
  (forall c, NoDup (tget tb2 c)) /\
  (forall c b, In b (tget tb2 c) <-> (b < n /\ c < n /\ b <> c /\ anc R (keyn R b) (keyn R c))).

Lemma augment_classes_char R : acyclic R -> bases_registered R ->
  exists tb2, augment_classes R = Ok (lattice_from R tb2) /\ tb2_ok R tb2.
Proof.
  intros Acy BR.
  destruct (collect_bases_spec R BR) as [tb0 [Hc [Hlen0 H0]]].
  set (n := length (class_keys R)) in *.
  assert (W0 : tb_wf (length tb0) tb0).
  { split; [reflexivity|]. intros c b H. apply H0 in H. rewrite Hlen0. apply H. }
  destruct (closure_correct tb0 W0 (ancp_irrefl R tb0 Acy H0)) as [tb1 [Hcl [[Hlen1 _] H1]]].
  rewrite Hlen0 in Hcl, Hlen1.
  exists (map (fun l => dedupn l []) tb1). split.
  - unfold augment_classes. cbv zeta. fold n. rewrite Hc. cbn [bind]. rewrite Hcl. cbn [bind]. reflexivity.
  - unfold tb2_ok. cbv zeta. fold n. split; [now rewrite map_length|].
    assert (T : forall c, tget (map (fun l => dedupn l []) tb1) c = dedupn (tget tb1 c) []).
    { intro c. now apply (tget_map (fun l => dedupn l [])). }
    split.
    + intro c. rewrite T. apply dedupn_NoDup.
    + intros c b. rewrite T, dedupn_In, H1, (ancp_anc R tb0 Acy BR H0). fold n. cbn [In]. tauto.
Qed.

(* ------------------------------------------------------------------ the strict partial order on indexes *)

Lemma tb2_trans R tb2 : acyclic R -> tb2_ok R tb2 ->
  forall a b c, In a (tget tb2 b) -> In b (tget tb2 c) -> In a (tget tb2 c).
Proof.
  intros Acy [Hlen [Hnd H2]] a b c Hab Hbc. set (n := length (class_keys R)) in *.
  apply H2 in Hab. apply H2 in Hbc. apply H2.
  destruct Hab as [Ha [Hb [Hab Aab]]]. destruct Hbc as [_ [Hc [Hbc Abc]]].
  split; [assumption|]. split; [assumption|]. split.
  - intros ->. apply Hbc. apply (keyn_inj R); try assumption. now apply Acy.
  - eapply rt_trans; eassumption.
Qed.

Lemma tb2_order R tb2 : acyclic R -> tb2_ok R tb2 -> order_facts (length (class_keys R)) tb2.
Proof.
  intros Acy Hok. pose proof (tb2_trans R tb2 Acy Hok) as Htr.
  destruct Hok as [Hlen [Hnd H2]]. set (n := length (class_keys R)) in *.
  apply order_facts_hold; try assumption.
  - intros c b H. apply H2 in H. apply H.
  - intros c H. apply H2 in H. destruct H as [_ [_ [Hne _]]]. congruence.
Qed.

(* ------------------------------------------------------------------ lo_abstract *)

Lemma class_infos_abstract R i : i < length (class_keys R) ->
  k_abstract (nth i (class_infos R (class_keys R)) (mk_cls [] false)) = is_abstract R (keyn R i).
Proof.
  intro Hi. unfold class_infos.
  rewrite (nth_map_lt _ _ _ 0%N) by assumption. cbv zeta. cbn [k_abstract].
  unfold is_abstract, keyn.
  apply (filter_head_find (fun cr => N.eqb (proj R (c_tid cr)) (nth i (class_keys R) 0%N)) c_abstract false).
Qed.

(* ------------------------------------------------------------------ assembly *)

Lemma lattice_from_wf R tb2 : acyclic R -> tb2_ok R tb2 -> lat_wf (lattice_from R tb2).
Proof.
  intros Acy Hok. pose proof (tb2_order R tb2 Acy Hok) as F. pose proof (tb2_trans R tb2 Acy Hok) as Htr.
  destruct Hok as [Hlen [Hnd H2]]. set (n := length (class_keys R)) in *.
  constructor; unfold ncls, tb_of, direct_of_, derived_of_, cov_of, lattice_from; cbv zeta;
    cbn [l_keys l_info l_tb l_direct l_derived l_cov]; fold n.
  - unfold class_infos. now rewrite map_length.
  - apply (of_len_tb3 _ _ F).
  - apply (of_len_direct _ _ F).
  - apply (of_len_derived _ _ F).
  - apply (of_len_cov _ _ F).
  - intros c b H. apply (of_tb3_In _ _ F) in H. apply H2 in H. split; apply H.
  - apply (of_tb3_NoDup _ _ F).
  - intros c H. apply (of_tb3_In _ _ F) in H. apply H2 in H. destruct H as [_ [_ [Hne _]]]. congruence.
  - intros a b c Hab Hbc. apply (of_tb3_In _ _ F). apply (of_tb3_In _ _ F) in Hab. apply (of_tb3_In _ _ F) in Hbc.
    now apply (Htr a b c).
  - intros c b H. apply (of_tb3_In _ _ F). now apply (of_direct_sub _ _ F).
  - intros c b H. apply (of_tb3_In _ _ F) in H. destruct (of_direct_max _ _ F c b H) as [Hd|[d [Hd Hb]]]; [auto|].
    right. exists d. split; [assumption|]. now apply (of_tb3_In _ _ F).
  - apply (of_direct_NoDup _ _ F).
  - intros c a b Ha Hb H. apply (of_tb3_In _ _ F) in H. revert H. now apply (of_direct_inc _ _ F c).
  - apply (of_derived_In _ _ F).
  - apply (of_derived_NoDup _ _ F).
  - intros c d Hc. rewrite (of_cov_In _ _ F c d Hc).
    assert (T : In c (tget (tb3_of tb2) d) <-> In c (tget tb2 d)) by apply (of_tb3_In _ _ F).
    unfold tget in T at 1. rewrite T. tauto.
  - apply (of_cov_NoDup _ _ F).
Qed.

Lemma lattice_from_ok R tb2 : acyclic R -> tb2_ok R tb2 -> lattice_ok R (lattice_from R tb2).
Proof.
  intros Acy Hok. pose proof (tb2_order R tb2 Acy Hok) as F.
  constructor; [now apply lattice_from_wf| | | | | |];
    destruct Hok as [Hlen [Hnd H2]]; set (n := length (class_keys R)) in *;
    unfold ncls, key, tb_of, lattice_from; cbv zeta; cbn [l_keys l_info l_tb]; fold n.
  - apply class_keys_eq.
  - apply class_keys_NoDup.
  - apply class_keys_In.
  - apply class_of_spec.
  - intros c b Hc Hb.
    assert (T : In b (tget (tb3_of tb2) c) <-> In b (tget tb2 c)) by apply (of_tb3_In _ _ F).
    unfold tget in T at 1. rewrite T, H2. unfold keyn. tauto.
  - intros i Hi. now apply class_infos_abstract.
Qed.

(* ------------------------------------------------------------------ the theorems of this stage *)

Theorem augment_classes_total : forall R, wf_registry R -> exists L, augment_classes R = Ok L.
Proof.
  intros R [Acy [BR _]]. destruct (augment_classes_char R Acy BR) as [tb2 [H _]]. eauto.
Qed.

Theorem augment_classes_lattice_ok : forall R L, wf_registry R -> augment_classes R = Ok L -> lattice_ok R L.
Proof.
  intros R L [Acy [BR _]] HL. destruct (augment_classes_char R Acy BR) as [tb2 [H Hok]].
  rewrite H in HL. inversion HL; subst L. now apply lattice_from_ok.
Qed.

Print Assumptions augment_classes_total.
Print Assumptions augment_classes_lattice_ok.
