(* Proofs for property C19 (Model/FwdDecl.v against Spec/FwdDeclSpec.v).

   Writer.  The character-level loops are shown equal to a segment-level rendering (`render_all`): close the
   namespaces of the previous name that the next one does not share, open the missing ones, declare the class.
   The key lemma is `scan_common_ns`: comparing characters up to the first difference and backing up to the last
   ':' lands on the boundary of the longest common *namespace* prefix, also when one identifier is a string
   prefix of the other.  Then `parse` of the rendering gives back the names (`parse_render`).

   Scanner.  `scan_name` / `scan_skip` say what one regex match does; `extract_sound` is an induction over the
   grammar of type descriptions with the continuation text as parameter. *)
From Coq Require Import List Ascii String Bool Arith Lia.
From Y2 Require Import Gen.GenFwdDeclConsts Model.FwdDecl Spec.FwdDeclSpec.
Import ListNotations.

Local Notation length := List.length.
Local Notation concat := List.concat.

Arguments declare_class : simpl never.
Arguments open_namespace : simpl never.
Arguments close_brace : simpl never.

(* ------------------------------------------------------------------------------------------------------------ *)
(* characters, identifiers                                                                                       *)

Lemma is_colon_true c : is_colon c = true -> c = ":"%char.
Proof. unfold is_colon. destruct (Ascii.eqb_spec c ":"%char); congruence. Qed.

Lemma word_not_colon c : is_word c = true -> is_colon c = false.
Proof.
  intros Hw. destruct (is_colon c) eqn:Hc; [|reflexivity].
  apply is_colon_true in Hc. subst c. vm_compute in Hw. discriminate.
Qed.

Lemma scope_op_eq : scope_op = [":"%char; ":"%char].
Proof. reflexivity. Qed.

Definition wordy (s : text) : Prop := forallb is_word s = true.

Lemma wordy_cons c s : wordy (c :: s) <-> is_word c = true /\ wordy s.
Proof. unfold wordy. simpl. rewrite andb_true_iff. tauto. Qed.

Lemma wordy_app a b : wordy (a ++ b) <-> wordy a /\ wordy b.
Proof. unfold wordy. rewrite forallb_app, andb_true_iff. tauto. Qed.

Lemma valid_ident_spec s : valid_ident s = true <-> s <> [] /\ wordy s.
Proof.
  unfold valid_ident, wordy. rewrite andb_true_iff. destruct s; simpl; split; intros [H1 H2]; split;
    try congruence; auto.
Qed.

Definition valid_path (p : list ident) : Prop := forallb valid_ident p = true.

Lemma valid_path_cons s p : valid_path (s :: p) <-> valid_ident s = true /\ valid_path p.
Proof. unfold valid_path. simpl. rewrite andb_true_iff. tauto. Qed.

Lemma valid_path_app a b : valid_path (a ++ b) <-> valid_path a /\ valid_path b.
Proof. unfold valid_path. rewrite forallb_app, andb_true_iff. tauto. Qed.

Lemma valid_qname_spec q : valid_qname q = true <-> valid_path (fst q) /\ valid_ident (snd q) = true.
Proof. unfold valid_qname, valid_path. rewrite andb_true_iff. tauto. Qed.

Lemma ns_text_cons s p : ns_text (s :: p) = s ++ scope_op ++ ns_text p.
Proof. unfold ns_text. simpl. rewrite <- app_assoc. reflexivity. Qed.

Lemma ns_text_app a b : ns_text (a ++ b) = ns_text a ++ ns_text b.
Proof. unfold ns_text. rewrite map_app, concat_app. reflexivity. Qed.

Lemma length_ns_text p : length p <= length (ns_text p).
Proof.
  induction p as [|s p IH]; [simpl; lia|]. rewrite ns_text_cons, !app_length. simpl. lia.
Qed.

(* longest common prefix of two texts *)
Lemma lcp_split (p m : text) :
  exists u p1 m1, p = u ++ p1 /\ m = u ++ m1 /\
                  match p1, m1 with e :: _, d :: _ => e <> d | _, _ => True end.
Proof.
  revert m. induction p as [|e p IH]; intros m.
  - exists [], [], m. auto.
  - destruct m as [|d m].
    + exists [], (e :: p), []. auto.
    + destruct (Ascii.eqb_spec e d) as [->|Hne].
      * destruct (IH m) as (u & p1 & m1 & -> & -> & H). exists (d :: u), p1, m1. auto.
      * exists [], (e :: p), (d :: m). auto.
Qed.

(* ------------------------------------------------------------------------------------------------------------ *)
(* writer: the character loops on valid names                                                                    *)

Definition closes (n : nat) : text := concat (repeat close_brace n).
Definition opens (segs : list ident) : text := concat (map open_namespace segs).

Lemma closes_S n : closes (S n) = close_brace ++ closes n.
Proof. reflexivity. Qed.

Lemma opens_cons x o : opens (x :: o) = open_namespace x ++ opens o.
Proof. reflexivity. Qed.

Lemma close_all_seg s rest :
  wordy s -> close_all (s ++ scope_op ++ rest) = option_map (app close_brace) (close_all rest).
Proof.
  induction s as [|c s IH]; intros Hw.
  - reflexivity.
  - apply wordy_cons in Hw. destruct Hw as [Hc Hs]. simpl. rewrite (word_not_colon c Hc). apply IH, Hs.
Qed.

Lemma close_all_ns p : valid_path p -> close_all (ns_text p) = Some (closes (length p)).
Proof.
  induction p as [|s p IH]; intros Hv; [reflexivity|].
  apply valid_path_cons in Hv. destruct Hv as [Hs Hp]. apply valid_ident_spec in Hs.
  rewrite ns_text_cons, close_all_seg by tauto. rewrite IH by assumption. reflexivity.
Qed.

Definition at_boundary (b : text) : Prop := match b with [] => True | c :: _ => is_colon c = true end.

Lemma back_up_seg x b a : wordy x -> at_boundary b -> back_up (rev x ++ b) a = (b, x ++ a).
Proof.
  revert a. induction x as [|c x IH] using rev_ind; intros a Hw Hb.
  - simpl. destruct b as [|c b]; [reflexivity|]. simpl in *. rewrite Hb. reflexivity.
  - apply wordy_app in Hw. destruct Hw as [Hx Hc]. apply wordy_cons in Hc. destruct Hc as [Hc _].
    rewrite rev_app_distr. simpl. rewrite (word_not_colon c Hc). rewrite IH by assumption.
    rewrite <- app_assoc. reflexivity.
Qed.

Lemma scan_common_prefix u span b a :
  scan_common (u ++ span) b (u ++ a) = scan_common span (rev u ++ b) a.
Proof.
  revert b. induction u as [|c u IH]; intros b; [reflexivity|].
  simpl. rewrite Ascii.eqb_refl, IH, <- app_assoc. reflexivity.
Qed.

Lemma scan_common_mismatch span b a :
  match span, a with
  | [], _ => False
  | _ :: _, [] => True
  | e :: _, d :: _ => e <> d
  end ->
  scan_common span b a = (close_all span, back_up b a).
Proof.
  destruct span as [|e span]; [tauto|]. destruct a as [|d a]; [reflexivity|].
  intros Hne. simpl. destruct (Ascii.eqb_spec e d); [contradiction|reflexivity].
Qed.

(* The heart of the matter.  `p` is a namespace of the previous name, followed by `::`; the next name continues
   with the identifier `m` followed by R (nothing, or `::...`).  Unless m is that very namespace (p = m and R
   begins with `::`), the scan stops inside or at the end of p / m, everything from p on is closed, and the cursor
   comes back to the start of m -- whichever of p, m is a string prefix of the other. *)
Lemma scan_common_diverge p S m R b :
  wordy p -> wordy m -> at_boundary b ->
  (R = [] \/ (p <> m /\ exists R', R = ":"%char :: R')) ->
  scan_common (p ++ scope_op ++ S) b (m ++ R) =
    (option_map (app close_brace) (close_all S), (b, m ++ R)).
Proof.
  intros Hp Hm Hb HR.
  destruct (lcp_split p m) as (u & p1 & m1 & -> & -> & Hd).
  apply wordy_app in Hp. destruct Hp as [Hu Hp1]. apply wordy_app in Hm. destruct Hm as [_ Hm1].
  rewrite <- !app_assoc, scan_common_prefix, scan_common_mismatch.
  - rewrite close_all_seg by assumption. rewrite back_up_seg by assumption. reflexivity.
  - destruct p1 as [|e p1].
    + (* p is a prefix of m: the scan is on the first ':' *)
      simpl. destruct m1 as [|d m1].
      * destruct HR as [->|[Hne _]]; [exact I|]. rewrite !app_nil_r in Hne. congruence.
      * simpl. apply wordy_cons in Hm1. destruct Hm1 as [Hd' _].
        intros <-. vm_compute in Hd'. discriminate.
    + simpl. apply wordy_cons in Hp1. destruct Hp1 as [He _]. destruct m1 as [|d m1].
      * simpl. destruct HR as [->|[_ [R' ->]]]; [exact I|].
        intros ->. vm_compute in He. discriminate.
      * exact Hd.
Qed.

(* segment level: how many namespaces of P are closed, which namespaces of N stay open, which are opened *)
Fixpoint common (P N : list ident) : nat * list ident * list ident :=
  match P, N with
  | [], _ => (0, [], N)
  | _ :: _, [] => (length P, [], [])
  | p :: P', n :: N' =>
      if text_eqb p n then let '(k, kept, o) := common P' N' in (k, n :: kept, o)
      else (length P, [], N)
  end.

Lemma text_eqb_spec a b : reflect (a = b) (text_eqb a b).
Proof.
  revert b. induction a as [|x a IH]; intros [|y b]; simpl; try (constructor; congruence).
  destruct (Ascii.eqb_spec x y) as [->|Hne]; simpl.
  - destruct (IH b) as [->|Hne]; constructor; congruence.
  - constructor. congruence.
Qed.

Lemma common_spec P N :
  let '(k, kept, o) := common P N in
  exists dropped, P = kept ++ dropped /\ length dropped = k /\ N = kept ++ o.
Proof.
  revert N. induction P as [|p P IH]; intros N.
  - simpl. exists []. auto.
  - destruct N as [|n N].
    + simpl. exists (p :: P). auto.
    + simpl. destruct (text_eqb_spec p n) as [->|Hne].
      * specialize (IH N). destruct (common P N) as [[k kept] o].
        destruct IH as (d & -> & <- & ->). exists d. auto.
      * exists (p :: P). auto.
Qed.

Lemma scan_common_ns P : forall N c b,
  valid_path P -> valid_path N -> valid_ident c = true -> at_boundary b ->
  scan_common (ns_text P) b (ns_text N ++ c) =
    let '(k, kept, o) := common P N in
    (Some (closes k), (rev (ns_text kept) ++ b, ns_text o ++ c)).
Proof.
  induction P as [|p P IH]; intros N c b HP HN Hc Hb.
  - reflexivity.
  - apply valid_path_cons in HP. destruct HP as [Hp HP]. apply valid_ident_spec in Hp. destruct Hp as [_ Hp].
    pose proof Hc as Hc'. apply valid_ident_spec in Hc'. destruct Hc' as [_ Hcw].
    rewrite ns_text_cons. destruct N as [|n N].
    + (* the next name has no namespace left: its class may well be named like p *)
      simpl (ns_text [] ++ c). rewrite <- (app_nil_r c) at 1.
      rewrite scan_common_diverge by auto. rewrite close_all_ns by assumption.
      simpl. rewrite app_nil_r. reflexivity.
    + apply valid_path_cons in HN. destruct HN as [Hn HN]. apply valid_ident_spec in Hn. destruct Hn as [_ Hn].
      rewrite ns_text_cons. simpl common. destruct (text_eqb_spec p n) as [->|Hne].
      * (* same namespace: go on after its `::` *)
        rewrite <- !app_assoc. rewrite (app_assoc n scope_op), (app_assoc n scope_op (ns_text N ++ c)).
        rewrite scan_common_prefix. rewrite IH; auto.
        -- destruct (common P N) as [[k kept] o]. rewrite ns_text_cons.
           rewrite !rev_app_distr, <- !app_assoc. reflexivity.
        -- rewrite rev_app_distr. reflexivity.
      * rewrite <- !app_assoc. rewrite scan_common_diverge; auto.
        -- rewrite close_all_ns by assumption. simpl. rewrite ns_text_cons, <- !app_assoc. reflexivity.
        -- right. split; [assumption|]. rewrite scope_op_eq. simpl. eauto.
Qed.

Lemma find_colon_seg s r : wordy s -> find_colon (s ++ ":"%char :: r) = (s, ":"%char :: r).
Proof.
  induction s as [|c s IH]; intros Hw; [reflexivity|].
  apply wordy_cons in Hw. destruct Hw as [Hc Hs]. simpl. rewrite (word_not_colon c Hc), IH by assumption.
  reflexivity.
Qed.

Lemma find_colon_last s : wordy s -> find_colon s = (s, []).
Proof.
  induction s as [|c s IH]; intros Hw; [reflexivity|].
  apply wordy_cons in Hw. destruct Hw as [Hc Hs]. simpl. rewrite (word_not_colon c Hc), IH by assumption.
  reflexivity.
Qed.

Lemma emit_S fuel before after :
  emit (S fuel) before after =
    let (seg, rest) := find_colon after in
    match rest with
    | [] => Some (declare_class seg, rev before)
    | _ :: [] => None
    | c1 :: c2 :: rest' =>
        match emit fuel (c2 :: c1 :: rev seg ++ before) rest' with
        | Some (o, span) => Some (open_namespace seg ++ o, span)
        | None => None
        end
    end.
Proof. reflexivity. Qed.

Lemma emit_ns O : forall c b fuel,
  valid_path O -> valid_ident c = true -> length O < fuel ->
  emit fuel b (ns_text O ++ c) = Some (opens O ++ declare_class c, rev b ++ ns_text O).
Proof.
  induction O as [|o O IH]; intros c b fuel HO Hc Hf.
  - destruct fuel as [|fuel]; [simpl in Hf; lia|]. apply valid_ident_spec in Hc. destruct Hc as [_ Hc].
    rewrite emit_S. change (ns_text [] ++ c) with c. rewrite find_colon_last by assumption.
    rewrite app_nil_r. reflexivity.
  - destruct fuel as [|fuel]; [simpl in Hf; lia|]. simpl in Hf.
    apply valid_path_cons in HO. destruct HO as [Ho HO]. apply valid_ident_spec in Ho. destruct Ho as [_ Ho].
    rewrite ns_text_cons, <- !app_assoc.
    change (scope_op ++ ns_text O ++ c) with (":"%char :: ":"%char :: ns_text O ++ c).
    rewrite emit_S, find_colon_seg by assumption. cbv beta iota.
    rewrite IH by (auto; lia).
    rewrite opens_cons, <- (app_assoc (open_namespace o)). f_equal. f_equal.
    change (":"%char :: ":"%char :: rev o ++ b) with ([":"%char; ":"%char] ++ rev o ++ b).
    rewrite !rev_app_distr, rev_involutive, <- !app_assoc. reflexivity.
Qed.

(* what the writer produces, at the level of segments; P: the namespaces open before qs *)
Fixpoint render_all (P : list ident) (qs : list qname) : text :=
  match qs with
  | [] => closes (length P)
  | q :: more =>
      let '(k, _, o) := common P (fst q) in
      closes k ++ opens o ++ declare_class (snd q) ++ render_all (fst q) more
  end.

Lemma write_loop_cons name more span :
  write_loop (name :: more) span =
    let '(closes, (before, after)) := scan_common span [] name in
    match closes, emit (S (length name)) before after with
    | Some o1, Some (o2, span') =>
        match write_loop more span' with
        | Some o => Some (o1 ++ o2 ++ o)
        | None => None
        end
    | _, _ => None
    end.
Proof. reflexivity. Qed.

Lemma write_loop_render qs : forall P,
  valid_path P -> forallb valid_qname qs = true ->
  write_loop (map qname_text qs) (ns_text P) = Some (render_all P qs).
Proof.
  induction qs as [|[N c] qs IH]; intros P HP Hqs.
  - simpl. apply close_all_ns, HP.
  - simpl in Hqs. apply andb_true_iff in Hqs. destruct Hqs as [Hq Hqs].
    apply valid_qname_spec in Hq. simpl in Hq. destruct Hq as [HN Hc].
    simpl map. rewrite write_loop_cons. change (qname_text (N, c)) with (ns_text N ++ c).
    rewrite (scan_common_ns P N c []) by (simpl; auto).
    pose proof (common_spec P N) as Hcs. simpl render_all.
    destruct (common P N) as [[k kept] o]. destruct Hcs as (d & HPd & Hk & HNo).
    assert (Ho : valid_path o). { rewrite HNo in HN. apply valid_path_app in HN. tauto. }
    rewrite app_nil_r. rewrite emit_ns; auto.
    + rewrite rev_involutive, <- ns_text_app, <- HNo. rewrite IH by assumption.
      rewrite <- (app_assoc (opens o)). reflexivity.
    + rewrite app_length. pose proof (length_ns_text N) as HL. rewrite HNo, app_length in *. lia.
Qed.

(* ------------------------------------------------------------------------------------------------------------ *)
(* writer: the recogniser reads the rendering back                                                               *)

Lemma lex_word w : forall s cur, wordy w -> lex (w ++ s) cur = lex s (rev w ++ cur).
Proof.
  induction w as [|c w IH]; intros s cur Hw; [reflexivity|].
  apply wordy_cons in Hw. destruct Hw as [Hc Hw]. simpl. rewrite Hc, IH by assumption.
  rewrite <- app_assoc. reflexivity.
Qed.

Definition ns_tokens (x : ident) : list token := [Word (T "namespace"); Word x; LBrace].
Definition class_tokens (x : ident) : list token := [Word (T "class"); Word x; Semi].

Lemma lex_close_brace rest ts :
  lex rest [] = Some ts -> lex (close_brace ++ rest) [] = Some (RBrace :: ts).
Proof. intros H. unfold close_brace. simpl. rewrite H. reflexivity. Qed.

Lemma flush_word x ts : x <> [] -> flush (rev x) ts = Word x :: ts.
Proof.
  intros Hx. unfold flush. destruct (rev x) eqn:Hr.
  - apply (f_equal (@rev ascii)) in Hr. rewrite rev_involutive in Hr. contradiction.
  - rewrite <- Hr, rev_involutive. reflexivity.
Qed.

Lemma lex_open_namespace x rest ts :
  valid_ident x = true -> lex rest [] = Some ts ->
  lex (open_namespace x ++ rest) [] = Some (ns_tokens x ++ ts).
Proof.
  intros Hx H. apply valid_ident_spec in Hx. destruct Hx as [Hne Hw].
  unfold open_namespace. rewrite <- !app_assoc.
  change (T "namespace ") with (T "namespace" ++ [" "%char]). rewrite <- !app_assoc.
  rewrite lex_word by reflexivity. simpl.
  rewrite lex_word by assumption. simpl. rewrite H. rewrite app_nil_r, flush_word by assumption.
  reflexivity.
Qed.

Lemma lex_declare_class x rest ts :
  valid_ident x = true -> lex rest [] = Some ts ->
  lex (declare_class x ++ rest) [] = Some (class_tokens x ++ ts).
Proof.
  intros Hx H. apply valid_ident_spec in Hx. destruct Hx as [Hne Hw].
  unfold declare_class. rewrite <- !app_assoc.
  change (T "class ") with (T "class" ++ [" "%char]). rewrite <- !app_assoc.
  rewrite lex_word by reflexivity. simpl.
  rewrite lex_word by assumption. simpl. rewrite H. rewrite app_nil_r, flush_word by assumption.
  reflexivity.
Qed.

Lemma lex_closes k rest ts :
  lex rest [] = Some ts -> lex (closes k ++ rest) [] = Some (repeat RBrace k ++ ts).
Proof.
  intros H. induction k as [|k IH]; [exact H|].
  rewrite closes_S, <- app_assoc. simpl repeat. apply lex_close_brace in IH. exact IH.
Qed.

Lemma lex_opens o rest ts :
  valid_path o -> lex rest [] = Some ts ->
  lex (opens o ++ rest) [] = Some (flat_map ns_tokens o ++ ts).
Proof.
  intros Ho H. induction o as [|x o IH]; [exact H|].
  apply valid_path_cons in Ho. destruct Ho as [Hx Ho]. specialize (IH Ho).
  rewrite opens_cons, <- app_assoc.
  rewrite (lex_open_namespace x _ _ Hx IH). reflexivity.
Qed.

Fixpoint tokens_all (P : list ident) (qs : list qname) : list token :=
  match qs with
  | [] => repeat RBrace (length P)
  | q :: more =>
      let '(k, _, o) := common P (fst q) in
      repeat RBrace k ++ flat_map ns_tokens o ++ class_tokens (snd q) ++ tokens_all (fst q) more
  end.

Lemma tokens_all_cons P N c more :
  tokens_all P ((N, c) :: more) =
    let '(k, _, o) := common P N in
    repeat RBrace k ++ flat_map ns_tokens o ++ class_tokens c ++ tokens_all N more.
Proof. reflexivity. Qed.

Lemma render_all_cons P N c more :
  render_all P ((N, c) :: more) =
    let '(k, _, o) := common P N in
    closes k ++ opens o ++ declare_class c ++ render_all N more.
Proof. reflexivity. Qed.

Lemma lex_render qs : forall P,
  forallb valid_qname qs = true -> lex (render_all P qs) [] = Some (tokens_all P qs).
Proof.
  induction qs as [|[N c] qs IH]; intros P Hqs.
  - simpl. rewrite <- (app_nil_r (closes _)), <- (app_nil_r (repeat _ _)). apply lex_closes. reflexivity.
  - simpl in Hqs. apply andb_true_iff in Hqs. destruct Hqs as [Hq Hqs].
    apply valid_qname_spec in Hq. simpl in Hq. destruct Hq as [HN Hc].
    rewrite render_all_cons, tokens_all_cons. pose proof (common_spec P N) as Hcs.
    destruct (common P N) as [[k kept] o]. destruct Hcs as (d & HPd & Hk & HNo).
    assert (Ho : valid_path o). { rewrite HNo in HN. apply valid_path_app in HN. tauto. }
    apply lex_closes, lex_opens; [assumption|]. apply lex_declare_class; [assumption|]. apply IH, Hqs.
Qed.

Lemma parse_closes d : forall ts st acc,
  parse_tokens (repeat RBrace (length d) ++ ts) (d ++ st) acc = parse_tokens ts st acc.
Proof. induction d as [|x d IH]; intros ts st acc; [reflexivity|]. simpl. apply IH. Qed.

Lemma parse_ns_tokens x ts st acc :
  parse_tokens (ns_tokens x ++ ts) st acc = parse_tokens ts (x :: st) acc.
Proof. reflexivity. Qed.

Lemma parse_class_tokens x ts st acc :
  parse_tokens (class_tokens x ++ ts) st acc = parse_tokens ts st ((rev st, x) :: acc).
Proof. reflexivity. Qed.

Lemma parse_opens o : forall ts st acc,
  parse_tokens (flat_map ns_tokens o ++ ts) st acc = parse_tokens ts (rev o ++ st) acc.
Proof.
  induction o as [|x o IH]; intros ts st acc; [reflexivity|].
  change (flat_map ns_tokens (x :: o)) with (ns_tokens x ++ flat_map ns_tokens o).
  rewrite <- app_assoc, parse_ns_tokens, IH. simpl. rewrite <- app_assoc. reflexivity.
Qed.

Lemma parse_render qs : forall P acc,
  parse_tokens (tokens_all P qs) (rev P) acc = Some (rev acc ++ qs).
Proof.
  induction qs as [|[N c] qs IH]; intros P acc.
  - pose proof (parse_closes (rev P) [] [] acc) as H. rewrite rev_length, !app_nil_r in H.
    simpl tokens_all. rewrite H, app_nil_r. reflexivity.
  - rewrite tokens_all_cons. pose proof (common_spec P N) as Hcs.
    destruct (common P N) as [[k kept] o]. destruct Hcs as (d & HPd & Hk & HNo).
    rewrite HPd, rev_app_distr, <- Hk, <- (rev_length d), parse_closes, parse_opens.
    rewrite parse_class_tokens. rewrite <- rev_app_distr, <- HNo, rev_involutive.
    rewrite IH. simpl. rewrite <- app_assoc. reflexivity.
Qed.

(* C19, writer *)
Theorem writer_correct (qs : list qname) :
  forallb valid_qname qs = true ->
  exists out, write_forward_declarations (map qname_text qs) = Some out /\ parse out = Some qs.
Proof.
  intros Hqs. exists (render_all [] qs). split.
  - apply (write_loop_render qs []); [reflexivity|assumption].
  - unfold parse. rewrite lex_render by assumption. apply (parse_render qs [] []).
Qed.

(* distinct texts (the content of a std::set) are declared once each *)
Theorem writer_each_once (qs : list qname) :
  forallb valid_qname qs = true -> NoDup (map qname_text qs) ->
  exists out, write_forward_declarations (map qname_text qs) = Some out /\
              exists declared, parse out = Some declared /\ NoDup declared /\
                               forall q, In q declared <-> In q qs.
Proof.
  intros Hv Hnd. destruct (writer_correct qs Hv) as (out & Hw & Hp).
  exists out. split; [exact Hw|]. exists qs. split; [exact Hp|]. split; [|tauto].
  exact (NoDup_map_inv _ _ Hnd).
Qed.

(* a text is the text of at most one valid qualified name *)
Lemma qname_text_inj q1 q2 :
  valid_qname q1 = true -> valid_qname q2 = true -> qname_text q1 = qname_text q2 -> q1 = q2.
Proof.
  destruct q1 as [N1 c1], q2 as [N2 c2]. unfold qname_text. simpl.
  intros H1 H2. apply valid_qname_spec in H1, H2. simpl in H1, H2.
  destruct H1 as [HN1 Hc1], H2 as [HN2 Hc2]. apply valid_ident_spec in Hc1, Hc2.
  destruct Hc1 as [_ Hc1], Hc2 as [_ Hc2].
  revert N2 HN2. induction N1 as [|n1 N1 IH]; intros [|n2 N2] HN2 He.
  - simpl in He. congruence.
  - exfalso. change (ns_text [] ++ c1) with c1 in He. rewrite ns_text_cons, scope_op_eq, <- !app_assoc in He.
    apply valid_path_cons in HN2. destruct HN2 as [Hn2 _]. apply valid_ident_spec in Hn2. destruct Hn2 as [_ Hn2].
    change ([":"%char; ":"%char] ++ ns_text N2 ++ c2) with (":"%char :: ":"%char :: ns_text N2 ++ c2) in He.
    apply (f_equal find_colon) in He.
    rewrite (find_colon_last c1), (find_colon_seg n2) in He by assumption. congruence.
  - exfalso. change (ns_text [] ++ c2) with c2 in He. rewrite ns_text_cons, scope_op_eq, <- !app_assoc in He.
    apply valid_path_cons in HN1. destruct HN1 as [Hn1 _]. apply valid_ident_spec in Hn1. destruct Hn1 as [_ Hn1].
    change ([":"%char; ":"%char] ++ ns_text N1 ++ c1) with (":"%char :: ":"%char :: ns_text N1 ++ c1) in He.
    apply (f_equal find_colon) in He.
    rewrite (find_colon_last c2), (find_colon_seg n1) in He by assumption. congruence.
  - rewrite !ns_text_cons, scope_op_eq, <- !app_assoc in He.
    change ([":"%char; ":"%char] ++ ns_text N1 ++ c1) with (":"%char :: ":"%char :: ns_text N1 ++ c1) in He.
    change ([":"%char; ":"%char] ++ ns_text N2 ++ c2) with (":"%char :: ":"%char :: ns_text N2 ++ c2) in He.
    apply valid_path_cons in HN1, HN2. destruct HN1 as [Hn1 HN1], HN2 as [Hn2 HN2].
    apply valid_ident_spec in Hn1, Hn2. destruct Hn1 as [_ Hn1], Hn2 as [_ Hn2].
    pose proof (f_equal find_colon He) as Hf.
    rewrite (find_colon_seg n1), (find_colon_seg n2) in Hf by assumption.
    injection Hf as -> Hr. specialize (IH HN1 N2 HN2 Hr). congruence.
Qed.

(* ------------------------------------------------------------------------------------------------------------ *)
(* scanner: one regex match                                                                                      *)

(* the text after a name: not a word character, not a ':' *)
Definition ends_name (k : text) : bool :=
  match k with [] => true | c :: _ => negb (is_word c) && negb (is_colon c) end.

(* a continuation after which nothing of what precedes is taken for a template name *)
Definition delim (k : text) : bool := ends_name k && negb (followed_by_lt k).

Lemma take_name_word w r :
  wordy w -> take_name (w ++ r) = let (n, rest) := take_name r in (w ++ n, rest).
Proof.
  induction w as [|c w IH]; intros Hw.
  - simpl. destruct (take_name r). reflexivity.
  - apply wordy_cons in Hw. destruct Hw as [Hc Hw]. simpl. rewrite Hc, IH by assumption.
    destruct (take_name r). reflexivity.
Qed.

Lemma take_name_end k : ends_name k = true -> take_name k = ([], k).
Proof.
  destruct k as [|c k]; [reflexivity|]. simpl. intros H. apply andb_true_iff in H. destruct H as [H1 H2].
  apply negb_true_iff in H1, H2. rewrite H1, H2. reflexivity.
Qed.

Lemma take_name_scope d r :
  is_word d = true ->
  take_name (":"%char :: ":"%char :: d :: r) =
    let (n, rest) := take_name (d :: r) in (":"%char :: ":"%char :: n, rest).
Proof.
  intros Hd. change (take_name (":"%char :: ":"%char :: d :: r))
    with (if is_colon ":"%char && is_word d
          then let (n, rest) := take_name (d :: r) in (":"%char :: ":"%char :: n, rest)
          else ([], ":"%char :: ":"%char :: d :: r)).
  rewrite Hd. reflexivity.
Qed.

Lemma qname_starts_with_word N c k :
  valid_path N -> valid_ident c = true ->
  exists d r, ns_text N ++ c ++ k = d :: r /\ is_word d = true.
Proof.
  intros HN Hc. destruct N as [|n N].
  - apply valid_ident_spec in Hc. destruct Hc as [Hne Hw]. destruct c as [|d c]; [congruence|].
    apply wordy_cons in Hw. exists d, (c ++ k). tauto.
  - apply valid_path_cons in HN. destruct HN as [Hn _]. apply valid_ident_spec in Hn.
    destruct Hn as [Hne Hw]. destruct n as [|d n]; [congruence|]. apply wordy_cons in Hw.
    rewrite ns_text_cons. simpl. eexists _, _. split; [reflexivity|tauto].
Qed.

Lemma take_name_qname N : forall c k,
  valid_path N -> valid_ident c = true -> ends_name k = true ->
  take_name (ns_text N ++ c ++ k) = (ns_text N ++ c, k).
Proof.
  induction N as [|n N IH]; intros c k HN Hc Hk.
  - apply valid_ident_spec in Hc. destruct Hc as [_ Hw]. simpl (ns_text []). simpl app at 1.
    rewrite take_name_word, take_name_end by assumption. rewrite app_nil_r. reflexivity.
  - apply valid_path_cons in HN. destruct HN as [Hn HN]. apply valid_ident_spec in Hn. destruct Hn as [_ Hn].
    rewrite ns_text_cons, <- !app_assoc. rewrite take_name_word by assumption.
    destruct (qname_starts_with_word N c k HN Hc) as (d & r & He & Hd).
    rewrite scope_op_eq. change ([":"%char; ":"%char] ++ ns_text N ++ c ++ k)
      with (":"%char :: ":"%char :: ns_text N ++ c ++ k).
    rewrite He, take_name_scope, <- He, IH by assumption.
    change ([":"%char; ":"%char] ++ ns_text N ++ c) with (":"%char :: ":"%char :: ns_text N ++ c).
    reflexivity.
Qed.

Lemma next_match_skip c r : is_word c = false -> next_match (c :: r) = next_match r.
Proof. intros H. simpl. rewrite H. reflexivity. Qed.

Lemma next_match_word d r :
  is_word d = true ->
  next_match (d :: r) = let (n, rest) := take_name (d :: r) in Some (n, followed_by_lt rest, rest).
Proof.
  intros H. change (next_match (d :: r))
    with (if is_word d then let (n, rest) := take_name (d :: r) in Some (n, followed_by_lt rest, rest)
          else next_match r).
  rewrite H. reflexivity.
Qed.

(* fuel *)
Lemma take_name_length n : forall s, length s <= n -> length (snd (take_name s)) <= length s.
Proof.
  induction n as [|n IH]; intros s Hn.
  - destruct s; [simpl; lia|simpl in Hn; lia].
  - destruct s as [|c r]; [simpl; lia|]. simpl in Hn.
    assert (Hr : length (snd (take_name r)) <= length r) by (apply IH; lia).
    simpl. destruct (is_word c).
    + destruct (take_name r). simpl in *. lia.
    + destruct (is_colon c); [|simpl; lia]. destruct r as [|c2 [|d r2]]; try (simpl; lia).
      destruct (is_colon c2 && is_word d); [|simpl; lia].
      assert (Hr2 : length (snd (take_name (d :: r2))) <= length (d :: r2)) by (apply IH; simpl in *; lia).
      destruct (take_name (d :: r2)). simpl in *. lia.
Qed.

Lemma next_match_length s : forall n g rest,
  next_match s = Some (n, g, rest) -> length rest < length s.
Proof.
  induction s as [|c r IH]; intros n g rest H; [discriminate|].
  destruct (is_word c) eqn:Hc.
  - rewrite next_match_word in H by assumption.
    pose proof (take_name_length (length (c :: r)) (c :: r) (le_n _)) as HL.
    assert (Hcr : take_name (c :: r) = let (m, rest') := take_name r in (c :: m, rest')).
    { simpl. rewrite Hc. reflexivity. }
    pose proof (take_name_length (length r) r (le_n _)) as HLr.
    rewrite Hcr in H. destruct (take_name r) as [m rest']. injection H as _ _ <-. simpl in *. lia.
  - rewrite next_match_skip in H by assumption. apply IH in H. simpl. lia.
Qed.

Lemma scan_fuel_irrel f1 : forall f2 s,
  length s < f1 -> length s < f2 -> scan_fuel f1 s = scan_fuel f2 s.
Proof.
  induction f1 as [|f1 IH]; intros f2 s H1 H2; [lia|].
  destruct f2 as [|f2]; [lia|]. simpl.
  destruct (next_match s) as [[[n g] rest]|] eqn:Hm; [|reflexivity].
  apply next_match_length in Hm. f_equal. apply IH; lia.
Qed.

Lemma scan_unfold s :
  scan s = match next_match s with
           | None => []
           | Some (name, group2, rest) => (if kept name group2 then [name] else []) ++ scan rest
           end.
Proof.
  unfold scan at 1. simpl scan_fuel.
  destruct (next_match s) as [[[n g] rest]|] eqn:Hm; [|reflexivity].
  apply next_match_length in Hm. f_equal. unfold scan. apply scan_fuel_irrel; lia.
Qed.

Lemma scan_nil : scan [] = [].
Proof. reflexivity. Qed.

Lemma scan_skip c s : is_word c = false -> scan (c :: s) = scan s.
Proof. intros H. rewrite (scan_unfold (c :: s)), (scan_unfold s), next_match_skip by assumption. reflexivity. Qed.

(* one match: a qualified name followed by something that ends it *)
Lemma scan_name N c k :
  valid_path N -> valid_ident c = true -> ends_name k = true ->
  scan (ns_text N ++ c ++ k) =
    (if kept (ns_text N ++ c) (followed_by_lt k) then [ns_text N ++ c] else []) ++ scan k.
Proof.
  intros HN Hc Hk. rewrite scan_unfold.
  destruct (qname_starts_with_word N c k HN Hc) as (d & r & He & Hd).
  rewrite He, next_match_word, <- He, take_name_qname by assumption. reflexivity.
Qed.

(* ------------------------------------------------------------------------------------------------------------ *)
(* scanner: the filters                                                                                          *)

Lemma kept_template name : kept name true = false.
Proof. reflexivity. Qed.

Lemma kept_keyword name g : In name keyword_texts -> kept name g = false.
Proof.
  intros Hin. unfold kept. destruct g; [reflexivity|].
  destruct (negb _); [reflexivity|].
  replace (existsb (text_eqb name) keyword_texts) with true; [reflexivity|].
  symmetry. apply existsb_exists. exists name. split; [assumption|].
  destruct (text_eqb_spec name name); congruence.
Qed.

Lemma kept_prefixed name g pre :
  In pre prefix_texts -> starts_with name pre = true -> kept name g = false.
Proof.
  intros Hin Hs. unfold kept. destruct g; [reflexivity|].
  destruct (negb _); [reflexivity|]. destruct (existsb (text_eqb name) keyword_texts); [reflexivity|].
  replace (existsb (starts_with name) prefix_texts) with true; [reflexivity|].
  symmetry. apply existsb_exists. exists pre. auto.
Qed.

Lemma kept_not_alpha c name g : is_alpha c = false -> kept (c :: name) g = false.
Proof. intros H. unfold kept. destruct g; [reflexivity|]. rewrite H. reflexivity. Qed.

Lemma starts_with_has_prefix name : forall pre, starts_with name pre = true -> has_prefix pre name = true.
Proof.
  induction name as [|c name IH]; intros [|p pre] H; try discriminate.
  simpl in *. destruct (Ascii.eqb_spec c p) as [->|]; [|discriminate].
  rewrite Ascii.eqb_refl. simpl. destruct pre as [|p' pre]; [reflexivity|]. apply IH, H.
Qed.

Lemma kept_user_class q : user_class q = true -> kept (qname_text q) false = true.
Proof.
  unfold user_class. rewrite !andb_true_iff, !negb_true_iff. intros [[[_ Ha] Hk] Hp].
  unfold kept. destruct (qname_text q) as [|c s] eqn:He; [discriminate|].
  rewrite Ha, Hk. simpl negb.
  destruct (existsb (starts_with (c :: s)) prefix_texts) eqn:Hs; [|reflexivity].
  apply existsb_exists in Hs. destruct Hs as (pre & Hin & Hs). apply starts_with_has_prefix in Hs.
  assert (Ht : existsb (fun p => has_prefix p (c :: s)) prefix_texts = true)
    by (apply existsb_exists; eauto).
  congruence.
Qed.

Lemma digit_not_alpha c : is_digit c = true -> is_alpha c = false.
Proof.
  destruct c as [[|] [|] [|] [|] [|] [|] [|] [|]]; vm_compute; intros H; first [reflexivity|discriminate].
Qed.

(* ------------------------------------------------------------------------------------------------------------ *)
(* scanner: the keywords of the grammar                                                                          *)

Definition keywords_cover : Prop := forall w, In w grammar_keywords -> In w keywords.

Lemma all_funds_complete f : In f all_funds.
Proof. destruct f; simpl; tauto. Qed.

Lemma fund_word_in_grammar f w : In w (fund_words f) -> In w grammar_keywords.
Proof.
  intros H. unfold grammar_keywords. apply in_or_app. left. apply in_flat_map.
  exists f. split; [apply all_funds_complete|assumption].
Qed.

Lemma grammar_keywords_valid w : In w grammar_keywords -> valid_ident (T w) = true.
Proof.
  assert (H : forallb (fun w => valid_ident (T w)) grammar_keywords = true) by (vm_compute; reflexivity).
  rewrite forallb_forall in H. apply H.
Qed.

Lemma scan_keyword w k :
  keywords_cover -> In w grammar_keywords -> ends_name k = true -> scan (T w ++ k) = scan k.
Proof.
  intros Hcov Hin Hk.
  pose proof (scan_name [] (T w) k eq_refl (grammar_keywords_valid w Hin) Hk) as H.
  simpl (ns_text [] ++ _) in H. rewrite H, kept_keyword; [reflexivity|].
  apply in_map, Hcov, Hin.
Qed.

Lemma delim_ends k : delim k = true -> ends_name k = true.
Proof. unfold delim. rewrite andb_true_iff. tauto. Qed.

Lemma delim_no_lt k : delim k = true -> followed_by_lt k = false.
Proof. unfold delim. rewrite andb_true_iff, negb_true_iff. tauto. Qed.

Lemma sep_by_single sep x : sep_by sep [x] = x.
Proof. simpl. apply app_nil_r. Qed.

Lemma sep_by_cons2 sep x y r : sep_by sep (x :: y :: r) = x ++ sep ++ sep_by sep (y :: r).
Proof. reflexivity. Qed.

(* blank-separated keywords, as in `unsigned long` *)
Lemma scan_keywords ws : forall k,
  keywords_cover -> (forall w, In w ws -> In w grammar_keywords) -> ends_name k = true ->
  scan (sep_by (T " ") (map T ws) ++ k) = scan k.
Proof.
  induction ws as [|w ws IH]; intros k Hcov Hin Hk; [reflexivity|].
  destruct ws as [|w2 ws].
  - change (map T [w]) with [T w]. rewrite sep_by_single. apply scan_keyword; auto. apply Hin. left. reflexivity.
  - change (map T (w :: w2 :: ws)) with (T w :: T w2 :: map T ws). rewrite sep_by_cons2, <- !app_assoc.
    rewrite scan_keyword; [|assumption|apply Hin; left; reflexivity|reflexivity].
    change (T " " ++ sep_by (T " ") (T w2 :: map T ws) ++ k)
      with (" "%char :: sep_by (T " ") (map T (w2 :: ws)) ++ k).
    rewrite scan_skip by reflexivity. apply IH; auto. intros w' Hw'. apply Hin. right. exact Hw'.
Qed.

(* ------------------------------------------------------------------------------------------------------------ *)
(* scanner: induction over the grammar of type descriptions                                                      *)

Section TyInd.
  Variable P : ty -> Prop.
  Hypothesis Hfund : forall f, P (TFund f).
  Hypothesis Hlit : forall d, P (TLit d).
  Hypothesis Hname : forall o q, P (TName o q).
  Hypothesis Happ : forall o q args, Forall P args -> P (TApp o q args).
  Hypothesis Hptr : forall t, P t -> P (TPtr t).
  Hypothesis Hlref : forall t, P t -> P (TLRef t).
  Hypothesis Hrref : forall t, P t -> P (TRRef t).
  Hypothesis Hconst : forall t, P t -> P (TConst t).
  Hypothesis Hvolatile : forall t, P t -> P (TVolatile t).
  Hypothesis Hfun : forall r ps, P r -> Forall P ps -> P (TFun r ps).
  Hypothesis Hfunptr : forall r ps, P r -> Forall P ps -> P (TFunPtr r ps).

  Fixpoint ty_ind' (t : ty) : P t :=
    let all := fix all (l : list ty) : Forall P l :=
                 match l with
                 | [] => Forall_nil P
                 | x :: r => Forall_cons x (ty_ind' x) (all r)
                 end in
    match t with
    | TFund f => Hfund f
    | TLit d => Hlit d
    | TName o q => Hname o q
    | TApp o q args => Happ o q args (all args)
    | TPtr t => Hptr t (ty_ind' t)
    | TLRef t => Hlref t (ty_ind' t)
    | TRRef t => Hrref t (ty_ind' t)
    | TConst t => Hconst t (ty_ind' t)
    | TVolatile t => Hvolatile t (ty_ind' t)
    | TFun r ps => Hfun r ps (ty_ind' r) (all ps)
    | TFunPtr r ps => Hfunptr r ps (ty_ind' r) (all ps)
    end.
End TyInd.

Lemma delim_punct c k :
  is_word c = false -> is_colon c = false -> is_space c = false -> Ascii.eqb c "<"%char = false ->
  delim (c :: k) = true.
Proof. intros H1 H2 H3 H4. unfold delim. simpl. rewrite H1, H2, H3, H4. reflexivity. Qed.

Lemma delim_blank c k :
  is_space c = false -> Ascii.eqb c "<"%char = false -> delim (" "%char :: c :: k) = true.
Proof. intros H3 H4. unfold delim. simpl. rewrite H3, H4. reflexivity. Qed.

Definition prefixes_cover : Prop :=
  In "std::"%string skipped_prefixes /\ In "yorel::"%string skipped_prefixes.

Definition names_of (t : ty) : list text := map qname_text (class_names t).

Definition sound (t : ty) : Prop :=
  wf_ty t = true -> forall k, delim k = true -> scan (show t ++ k) = names_of t ++ scan k.

Definition sound_list (l : list ty) : Prop :=
  forallb wf_ty l = true -> forall k, delim k = true ->
  scan (sep_by (T ", ") (map show l) ++ k) = map qname_text (flat_map class_names l) ++ scan k.

Lemma sound_args l : Forall sound l -> sound_list l.
Proof.
  induction 1 as [|a l Ha Hl IH]; intros Hwf k Hk; [reflexivity|].
  simpl in Hwf. apply andb_true_iff in Hwf. destruct Hwf as [Hwa Hwl].
  change (flat_map class_names (a :: l)) with (class_names a ++ flat_map class_names l).
  rewrite map_app, <- app_assoc. destruct l as [|b l].
  - change (map show [a]) with [show a]. rewrite sep_by_single. simpl. rewrite (Ha Hwa k Hk).
    unfold names_of. reflexivity.
  - change (map show (a :: b :: l)) with (show a :: show b :: map show l).
    rewrite sep_by_cons2, <- !app_assoc.
    rewrite (Ha Hwa); [|apply delim_punct; reflexivity].
    unfold names_of. f_equal.
    change (T ", " ++ sep_by (T ", ") (show b :: map show l) ++ k)
      with (","%char :: " "%char :: sep_by (T ", ") (map show (b :: l)) ++ k).
    rewrite !scan_skip by reflexivity. apply IH; assumption.
Qed.

Lemma valid_name_in o q : valid_qname q = true -> valid_qname (name_in o q) = true.
Proof.
  intros H. apply valid_qname_spec in H. destruct H as [Hp Hc]. apply valid_qname_spec. simpl. split; [|assumption].
  apply valid_path_app. split; [|assumption]. destruct o; reflexivity.
Qed.

(* a name that is not a user class, or is followed by `<`, is not kept *)
Lemma kept_foreign o q g :
  prefixes_cover -> o <> User -> kept (qname_text (name_in o q)) g = false.
Proof.
  intros [Hstd Hyorel] Ho. destruct o; [congruence| |].
  - apply (kept_prefixed _ _ (T "std::")); [apply in_map, Hstd|].
    unfold qname_text, name_in. simpl fst. simpl origin_prefix. simpl app at 2. rewrite ns_text_cons. reflexivity.
  - apply (kept_prefixed _ _ (T "yorel::")); [apply in_map, Hyorel|].
    unfold qname_text, name_in. simpl fst. simpl origin_prefix. simpl app at 2. rewrite ns_text_cons. reflexivity.
Qed.

Lemma scan_qname q k :
  valid_qname q = true -> ends_name k = true ->
  scan (qname_text q ++ k) = (if kept (qname_text q) (followed_by_lt k) then [qname_text q] else []) ++ scan k.
Proof.
  intros Hq Hk. apply valid_qname_spec in Hq. destruct Hq as [Hp Hc].
  unfold qname_text. rewrite <- app_assoc. apply scan_name; assumption.
Qed.

Lemma user_class_valid q : user_class q = true -> valid_qname q = true.
Proof. unfold user_class. rewrite !andb_true_iff. tauto. Qed.

Theorem extract_sound : keywords_cover -> prefixes_cover -> forall t, sound t.
Proof.
  intros Hkw Hpre. induction t using ty_ind'; intros Hwf k Hk; pose proof (delim_ends k Hk) as Hend.
  - (* fundamental type *)
    change (show (TFund f)) with (sep_by (T " ") (map T (fund_words f))).
    apply scan_keywords; auto. apply fund_word_in_grammar.
  - (* literal *)
    simpl in Hwf. apply andb_true_iff in Hwf. destruct Hwf as [Hv Hd].
    pose proof (scan_name [] d k eq_refl Hv Hend) as H. simpl (ns_text [] ++ _) in H.
    change (show (TLit d)) with d. rewrite H. destruct d as [|c d]; [discriminate|].
    rewrite kept_not_alpha by (apply digit_not_alpha, Hd). reflexivity.
  - (* name *)
    change (show (TName o q)) with (qname_text (name_in o q)). destruct o.
    + simpl in Hwf. change (name_in User q) with (fst q, snd q). rewrite <- surjective_pairing.
      rewrite scan_qname by (auto using user_class_valid).
      rewrite (delim_no_lt k Hk), kept_user_class by assumption. reflexivity.
    + simpl in Hwf. rewrite scan_qname by (auto using valid_name_in).
      rewrite kept_foreign by (auto; discriminate). reflexivity.
    + simpl in Hwf. rewrite scan_qname by (auto using valid_name_in).
      rewrite kept_foreign by (auto; discriminate). reflexivity.
  - (* template application: the name is followed by `<` *)
    simpl in Hwf. apply andb_true_iff in Hwf. destruct Hwf as [Hq Hargs].
    change (show (TApp o q args))
      with (qname_text (name_in o q) ++ T "<" ++ close_angle (sep_by (T ", ") (map show args))).
    unfold close_angle. rewrite <- !app_assoc.
    rewrite scan_qname by (auto using valid_name_in).
    change (followed_by_lt (T "<" ++ _)) with true. rewrite kept_template.
    change (T "<" ++ ?x) with ("<"%char :: x). simpl app at 1.
    rewrite scan_skip by reflexivity.
    apply sound_args in H. unfold names_of. simpl class_names.
    destruct (Ascii.eqb _ _).
    + rewrite (H Hargs); [|apply delim_blank; reflexivity]. f_equal.
      simpl (_ ++ k). rewrite !scan_skip by reflexivity. reflexivity.
    + rewrite (H Hargs); [|apply delim_punct; reflexivity]. f_equal.
      simpl (_ ++ k). rewrite !scan_skip by reflexivity. reflexivity.
  - (* pointer *)
    simpl in Hwf. change (show (TPtr t)) with (show t ++ T "*"). rewrite <- app_assoc.
    rewrite (IHt Hwf); [|apply delim_punct; reflexivity].
    change (T "*" ++ k) with ("*"%char :: k). rewrite scan_skip by reflexivity. reflexivity.
  - (* lvalue reference *)
    simpl in Hwf. change (show (TLRef t)) with (show t ++ T "&"). rewrite <- app_assoc.
    rewrite (IHt Hwf); [|apply delim_punct; reflexivity].
    change (T "&" ++ k) with ("&"%char :: k). rewrite scan_skip by reflexivity. reflexivity.
  - (* rvalue reference *)
    simpl in Hwf. change (show (TRRef t)) with (show t ++ T "&&"). rewrite <- app_assoc.
    rewrite (IHt Hwf); [|apply delim_punct; reflexivity].
    change (T "&&" ++ k) with ("&"%char :: "&"%char :: k). rewrite !scan_skip by reflexivity. reflexivity.
  - (* const *)
    simpl in Hwf. change (show (TConst t)) with (show t ++ T " const"). rewrite <- app_assoc.
    rewrite (IHt Hwf); [|apply delim_blank; reflexivity].
    change (T " const" ++ k) with (" "%char :: T "const" ++ k). rewrite scan_skip by reflexivity.
    rewrite scan_keyword; auto. unfold grammar_keywords. apply in_or_app. right. simpl. tauto.
  - (* volatile *)
    simpl in Hwf. change (show (TVolatile t)) with (show t ++ T " volatile"). rewrite <- app_assoc.
    rewrite (IHt Hwf); [|apply delim_blank; reflexivity].
    change (T " volatile" ++ k) with (" "%char :: T "volatile" ++ k). rewrite scan_skip by reflexivity.
    rewrite scan_keyword; auto. unfold grammar_keywords. apply in_or_app. right. simpl. tauto.
  - (* function type *)
    simpl in Hwf. apply andb_true_iff in Hwf. destruct Hwf as [Hr Hps].
    change (show (TFun t ps)) with (show t ++ T " (" ++ sep_by (T ", ") (map show ps) ++ T ")").
    rewrite <- !app_assoc. rewrite (IHt Hr); [|apply delim_blank; reflexivity].
    change (T " (" ++ ?x) with (" "%char :: "("%char :: x). rewrite !scan_skip by reflexivity.
    apply sound_args in H. rewrite (H Hps); [|apply delim_punct; reflexivity].
    change (T ")" ++ k) with (")"%char :: k). rewrite scan_skip by reflexivity.
    unfold names_of. simpl class_names. rewrite map_app, <- app_assoc. reflexivity.
  - (* pointer to function *)
    simpl in Hwf. apply andb_true_iff in Hwf. destruct Hwf as [Hr Hps].
    change (show (TFunPtr t ps))
      with (show t ++ T " (" ++ T "*)(" ++ sep_by (T ", ") (map show ps) ++ T ")").
    rewrite <- !app_assoc. rewrite (IHt Hr); [|apply delim_blank; reflexivity].
    change (T " (" ++ T "*)(" ++ ?x) with (" "%char :: "("%char :: "*"%char :: ")"%char :: "("%char :: x).
    rewrite !scan_skip by reflexivity.
    apply sound_args in H. rewrite (H Hps); [|apply delim_punct; reflexivity].
    change (T ")" ++ k) with (")"%char :: k). rewrite scan_skip by reflexivity.
    unfold names_of. simpl class_names. rewrite map_app, <- app_assoc. reflexivity.
Qed.

(* C19, extraction *)
Theorem extract_correct :
  keywords_cover -> prefixes_cover ->
  forall t, wf_ty t = true -> scan (show t) = map qname_text (class_names t).
Proof.
  intros Hkw Hpre t Hwf. pose proof (extract_sound Hkw Hpre t Hwf [] eq_refl) as H.
  rewrite app_nil_r, scan_nil, app_nil_r in H. exact H.
Qed.

(* ------------------------------------------------------------------------------------------------------------ *)
(* scanner to writer: whatever text is scanned, every name kept is the text of a valid qualified name            *)

Definition name_tail (x : text) : Prop :=
  x = [] \/ exists q, valid_qname q = true /\ x = scope_op ++ qname_text q.

Lemma shape_to_qname w x :
  wordy w -> w <> [] -> name_tail x -> exists q, valid_qname q = true /\ w ++ x = qname_text q.
Proof.
  intros Hw Hne [->|([N c] & Hq & ->)].
  - exists ([], w). split; [|rewrite app_nil_r; reflexivity].
    apply valid_qname_spec. simpl. split; [reflexivity|]. apply valid_ident_spec. auto.
  - exists (w :: N, c). apply valid_qname_spec in Hq. simpl in Hq. destruct Hq as [HN Hc]. split.
    + apply valid_qname_spec. simpl. split; [|assumption]. apply valid_path_cons. split; [|assumption].
      apply valid_ident_spec. auto.
    + unfold qname_text. simpl fst. simpl snd. rewrite ns_text_cons, <- !app_assoc. reflexivity.
Qed.

Lemma take_name_shape n : forall s, length s <= n ->
  exists w x, fst (take_name s) = w ++ x /\ wordy w /\ name_tail x /\
              (forall d r, s = d :: r -> is_word d = true -> w <> []).
Proof.
  induction n as [|n IH]; intros s Hn.
  - destruct s; [|simpl in Hn; lia]. exists [], []. repeat split; try (left; reflexivity). intros; discriminate.
  - destruct s as [|c r].
    { exists [], []. repeat split; try (left; reflexivity). intros; discriminate. }
    simpl in Hn. destruct (is_word c) eqn:Hc.
    + destruct (IH r ltac:(lia)) as (w & x & He & Hw & Hx & _).
      assert (Hcr : take_name (c :: r) = let (m, rest') := take_name r in (c :: m, rest')).
      { simpl. rewrite Hc. reflexivity. }
      rewrite Hcr. destruct (take_name r) as [m rest']. simpl in He. subst m.
      exists (c :: w), x. repeat split; auto.
      * apply wordy_cons. auto.
      * intros; discriminate.
    + assert (Hdefault : fst (take_name (c :: r)) = [] ->
                         exists w x, fst (take_name (c :: r)) = w ++ x /\ wordy w /\ name_tail x /\
                           (forall d r0, c :: r = d :: r0 -> is_word d = true -> w <> [])).
      { intros He. exists [], []. repeat split; try (left; reflexivity); auto.
        intros d r0 Heq Hd. injection Heq as <- _. congruence. }
      destruct (is_colon c) eqn:Hcol; [|apply Hdefault; simpl; rewrite Hc, Hcol; reflexivity].
      destruct r as [|c2 [|d r2]]; try (apply Hdefault; simpl; rewrite Hc, Hcol; reflexivity).
      destruct (is_colon c2 && is_word d) eqn:Hcd;
        [|apply Hdefault; simpl; rewrite Hc, Hcol, Hcd; reflexivity].
      apply andb_true_iff in Hcd. destruct Hcd as [Hc2 Hd].
      apply is_colon_true in Hcol, Hc2. subst c c2.
      rewrite take_name_scope by assumption.
      destruct (IH (d :: r2) ltac:(simpl in *; lia)) as (w & x & He & Hw & Hx & Hne).
      destruct (take_name (d :: r2)) as [m rest']. simpl in He. subst m.
      specialize (Hne d r2 eq_refl Hd).
      destruct (shape_to_qname w x Hw Hne Hx) as (q & Hq & Heq).
      exists [], (scope_op ++ qname_text q). repeat split.
      * simpl. rewrite Heq. reflexivity.
      * right. eauto.
      * intros d0 r0 Heq0 Hd0. injection Heq0 as <- _. vm_compute in Hd0. discriminate.
Qed.

Lemma next_match_valid s : forall n g rest,
  next_match s = Some (n, g, rest) -> exists q, valid_qname q = true /\ n = qname_text q.
Proof.
  induction s as [|c r IH]; intros n g rest H; [discriminate|].
  destruct (is_word c) eqn:Hc.
  - rewrite next_match_word in H by assumption.
    destruct (take_name_shape _ (c :: r) (le_n _)) as (w & x & He & Hw & Hx & Hne).
    destruct (take_name (c :: r)) as [m rest']. injection H as <- _ _. simpl in He. subst m.
    destruct (shape_to_qname w x Hw (Hne c r eq_refl Hc) Hx) as (q & Hq & Heq). eauto.
  - rewrite next_match_skip in H by assumption. eapply IH, H.
Qed.

Lemma scan_fuel_valid f : forall s n,
  In n (scan_fuel f s) -> exists q, valid_qname q = true /\ n = qname_text q.
Proof.
  induction f as [|f IH]; intros s n Hin; [contradiction|].
  simpl in Hin. destruct (next_match s) as [[[m g] rest]|] eqn:Hm; [|contradiction].
  apply in_app_or in Hin. destruct Hin as [Hin|Hin]; [|eapply IH, Hin].
  destruct (kept m g); [|contradiction]. destruct Hin as [<-|[]]. eapply next_match_valid, Hm.
Qed.

Theorem scan_valid s n : In n (scan s) -> exists q, valid_qname q = true /\ n = qname_text q.
Proof. apply scan_fuel_valid. Qed.

(* any list of names drawn from what was scanned (the real std::set: sorted, without duplicates) is written well *)
Theorem scan_then_write s names :
  (forall n, In n names -> In n (scan s)) ->
  exists qs out, names = map qname_text qs /\ forallb valid_qname qs = true /\
                 write_forward_declarations names = Some out /\ parse out = Some qs.
Proof.
  intros Hsub.
  assert (Hqs : exists qs, names = map qname_text qs /\ forallb valid_qname qs = true).
  { induction names as [|n names IH].
    - exists []. auto.
    - destruct IH as (qs & -> & Hv); [intros m Hm; apply Hsub; right; exact Hm|].
      destruct (scan_valid s n (Hsub n (or_introl eq_refl))) as (q & Hq & ->).
      exists (q :: qs). simpl. rewrite Hq, Hv. auto. }
  destruct Hqs as (qs & -> & Hv). destruct (writer_correct qs Hv) as (out & Hw & Hp).
  exists qs, out. auto.
Qed.
