(* Proofs for property C19 (Model/FwdDecl.v against Spec/FwdDeclSpec.v).

   Writer.  The character-level loops are shown equal to a segment-level rendering (`render_all`): close the
   namespaces of the previous name that the next one does not share, open the missing ones, declare the class.
   The key lemma is `scan_common_ns`: comparing characters up to the first difference and backing up to the last
   ':' lands on the boundary of the longest common *namespace* prefix, also when one identifier is a string
   prefix of the other.  Then `parse` of the rendering gives back the names (`parse_render`).

   Scanner.  `scan_name` / `scan_skip` say what one regex match does; `extract_sound` is an induction over the
   grammar of type descriptions with the continuation text as parameter. *)
From Coq Require Import List Ascii String Bool Arith Lia.
From Y2 Require Import Gen.GenFwdDeclConsts Model.FwdDecl Spec.FwdDeclSpec.
Import ListNotations.

Local Notation length := List.length.
Local Notation concat := List.concat.

Arguments declare_class : simpl never.
Arguments open_namespace : simpl never.
Arguments close_brace : simpl never.

(* ------------------------------------------------------------------------------------------------------------ *)
(* characters, identifiers                                                                                       *)

Lemma is_colon_true c : is_colon c = true -> c = ":"%char.
Proof. unfold is_colon. destruct (Ascii.eqb_spec c ":"%char); congruence. Qed.

Lemma word_not_colon c : is_word c = true -> is_colon c = false.
Proof.
  intros Hw. destruct (is_colon c) eqn:Hc; [|reflexivity].
  apply is_colon_true in Hc. subst c. vm_compute in Hw. discriminate.
Qed.

Lemma scope_op_eq : scope_op = [":"%char; ":"%char].
Proof. reflexivity. Qed.

Definition wordy (s : text) : Prop := forallb is_word s = true.

Lemma wordy_cons c s : wordy (c :: s) <-> is_word c = true /\ wordy s.
Proof. unfold wordy. simpl. rewrite andb_true_iff. tauto. Qed.

Lemma wordy_app a b : wordy (a ++ b) <-> wordy a /\ wordy b.
Proof. unfold wordy. rewrite forallb_app, andb_true_iff. tauto. Qed.

Lemma valid_ident_spec s : valid_ident s = true <-> s <> [] /\ wordy s.
Proof.
  unfold valid_ident, wordy. rewrite andb_true_iff. destruct s; simpl; split; intros [H1 H2]; split;
    try congruence; auto.
Qed.

Definition valid_path (p : list ident) : Prop := forallb valid_ident p = true.

Lemma valid_path_cons s p : valid_path (s :: p) <-> valid_ident s = true /\ valid_path p.
Proof. unfold valid_path. simpl. rewrite andb_true_iff. tauto. Qed.

Lemma valid_path_app a b : valid_path (a ++ b) <-> valid_path a /\ valid_path b.
Proof. unfold valid_path. rewrite forallb_app, andb_true_iff. tauto. Qed.

Lemma valid_qname_spec q : valid_qname q = true <-> valid_path (fst q) /\ valid_ident (snd q) = true.
Proof. unfold valid_qname, valid_path. rewrite andb_true_iff. tauto. Qed.

Lemma ns_text_cons s p : ns_text (s :: p) = s ++ scope_op ++ ns_text p.
Proof. unfold ns_text. simpl. rewrite <- app_assoc. reflexivity. Qed.

Lemma ns_text_app a b : ns_text (a ++ b) = ns_text a ++ ns_text b.
Proof. unfold ns_text. rewrite map_app, concat_app. reflexivity. Qed.

Lemma length_ns_text p : length p <= length (ns_text p).
Proof.
  induction p as [|s p IH]; [simpl; lia|]. rewrite ns_text_cons, !app_length. simpl. lia.
Qed.

(* longest common prefix of two texts *)
Lemma lcp_split (p m : text) :
  exists u p1 m1, p = u ++ p1 /\ m = u ++ m1 /\
                  match p1, m1 with e :: _, d :: _ => e <> d | _, _ => True end.
Proof.
  revert m. induction p as [|e p IH]; intros m.
  - exists [], [], m. auto.
  - destruct m as [|d m].
    + exists [], (e :: p), []. auto.
    + destruct (Ascii.eqb_spec e d) as [->|Hne].
      * destruct (IH m) as (u & p1 & m1 & -> & -> & H). exists (d :: u), p1, m1. auto.
      * exists [], (e :: p), (d :: m). auto.
Qed.

(* ------------------------------------------------------------------------------------------------------------ *)
(* writer: the character loops on valid names                                                                    *)

Definition closes (n : nat) : text := concat (repeat close_brace n).
Definition opens (segs : list ident) : text := concat (map open_namespace segs).

Lemma closes_S n : closes (S n) = close_brace ++ closes n.
Proof. reflexivity. Qed.

Lemma close_all_seg s rest :
  wordy s -> close_all (s ++ scope_op ++ rest) = option_map (app close_brace) (close_all rest).
Proof.
  induction s as [|c s IH]; intros Hw.
  - reflexivity.
  - apply wordy_cons in Hw. destruct Hw as [Hc Hs]. simpl. rewrite (word_not_colon c Hc). apply IH, Hs.
Qed.

Lemma close_all_ns p : valid_path p -> close_all (ns_text p) = Some (closes (length p)).
Proof.
  induction p as [|s p IH]; intros Hv; [reflexivity|].
  apply valid_path_cons in Hv. destruct Hv as [Hs Hp]. apply valid_ident_spec in Hs.
  rewrite ns_text_cons, close_all_seg by tauto. rewrite IH by assumption. reflexivity.
Qed.

Definition at_boundary (b : text) : Prop := match b with [] => True | c :: _ => is_colon c = true end.

Lemma back_up_seg x b a : wordy x -> at_boundary b -> back_up (rev x ++ b) a = (b, x ++ a).
Proof.
  revert a. induction x as [|c x IH] using rev_ind; intros a Hw Hb.
  - simpl. destruct b as [|c b]; [reflexivity|]. simpl in *. rewrite Hb. reflexivity.
  - apply wordy_app in Hw. destruct Hw as [Hx Hc]. apply wordy_cons in Hc. destruct Hc as [Hc _].
    rewrite rev_app_distr. simpl. rewrite (word_not_colon c Hc). rewrite IH by assumption.
    rewrite <- app_assoc. reflexivity.
Qed.

Lemma scan_common_prefix u span b a :
  scan_common (u ++ span) b (u ++ a) = scan_common span (rev u ++ b) a.
Proof.
  revert b. induction u as [|c u IH]; intros b; [reflexivity|].
  simpl. rewrite Ascii.eqb_refl, IH, <- app_assoc. reflexivity.
Qed.

Lemma scan_common_mismatch span b a :
  match span, a with
  | [], _ => False
  | _ :: _, [] => True
  | e :: _, d :: _ => e <> d
  end ->
  scan_common span b a = (close_all span, back_up b a).
Proof.
  destruct span as [|e span]; [tauto|]. destruct a as [|d a]; [reflexivity|].
  intros Hne. simpl. destruct (Ascii.eqb_spec e d); [contradiction|reflexivity].
Qed.

(* The heart of the matter.  `p` is a namespace of the previous name, followed by `::`; the next name continues
   with the identifier `m` followed by R (nothing, or `::...`).  Unless m is that very namespace (p = m and R
   begins with `::`), the scan stops inside or at the end of p / m, everything from p on is closed, and the cursor
   comes back to the start of m -- whichever of p, m is a string prefix of the other. *)
Lemma scan_common_diverge p S m R b :
  wordy p -> wordy m -> at_boundary b ->
  (R = [] \/ (p <> m /\ exists R', R = ":"%char :: R')) ->
  scan_common (p ++ scope_op ++ S) b (m ++ R) =
    (option_map (app close_brace) (close_all S), (b, m ++ R)).
Proof.
  intros Hp Hm Hb HR.
  destruct (lcp_split p m) as (u & p1 & m1 & -> & -> & Hd).
  apply wordy_app in Hp. destruct Hp as [Hu Hp1]. apply wordy_app in Hm. destruct Hm as [_ Hm1].
  rewrite <- !app_assoc, scan_common_prefix, scan_common_mismatch.
  - rewrite close_all_seg by assumption. rewrite back_up_seg by assumption. reflexivity.
  - destruct p1 as [|e p1].
    + (* p is a prefix of m: the scan is on the first ':' *)
      simpl. destruct m1 as [|d m1].
      * destruct HR as [->|[Hne _]]; [exact I|]. rewrite !app_nil_r in Hne. congruence.
      * simpl. apply wordy_cons in Hm1. destruct Hm1 as [Hd' _].
        intros <-. vm_compute in Hd'. discriminate.
    + simpl. apply wordy_cons in Hp1. destruct Hp1 as [He _]. destruct m1 as [|d m1].
      * simpl. destruct HR as [->|[_ [R' ->]]]; [exact I|].
        intros ->. vm_compute in He. discriminate.
      * exact Hd.
Qed.

(* segment level: how many namespaces of P are closed, which namespaces of N stay open, which are opened *)
Fixpoint common (P N : list ident) : nat * list ident * list ident :=
  match P, N with
  | [], _ => (0, [], N)
  | _ :: _, [] => (length P, [], [])
  | p :: P', n :: N' =>
      if text_eqb p n then let '(k, kept, o) := common P' N' in (k, n :: kept, o)
      else (length P, [], N)
  end.

Lemma text_eqb_spec a b : reflect (a = b) (text_eqb a b).
Proof.
  revert b. induction a as [|x a IH]; intros [|y b]; simpl; try (constructor; congruence).
  destruct (Ascii.eqb_spec x y) as [->|Hne]; simpl.
  - destruct (IH b) as [->|Hne]; constructor; congruence.
  - constructor. congruence.
Qed.

Lemma common_spec P N :
  let '(k, kept, o) := common P N in
  exists dropped, P = kept ++ dropped /\ length dropped = k /\ N = kept ++ o.
Proof.
  revert N. induction P as [|p P IH]; intros N.
  - simpl. exists []. auto.
  - destruct N as [|n N].
    + simpl. exists (p :: P). auto.
    + simpl. destruct (text_eqb_spec p n) as [->|Hne].
      * specialize (IH N). destruct (common P N) as [[k kept] o].
        destruct IH as (d & -> & <- & ->). exists d. auto.
      * exists (p :: P). auto.
Qed.

Lemma scan_common_ns P : forall N c b,
  valid_path P -> valid_path N -> valid_ident c = true -> at_boundary b ->
  scan_common (ns_text P) b (ns_text N ++ c) =
    let '(k, kept, o) := common P N in
    (Some (closes k), (rev (ns_text kept) ++ b, ns_text o ++ c)).
Proof.
  induction P as [|p P IH]; intros N c b HP HN Hc Hb.
  - reflexivity.
  - apply valid_path_cons in HP. destruct HP as [Hp HP]. apply valid_ident_spec in Hp. destruct Hp as [_ Hp].
    pose proof Hc as Hc'. apply valid_ident_spec in Hc'. destruct Hc' as [_ Hcw].
    rewrite ns_text_cons. destruct N as [|n N].
    + (* the next name has no namespace left: its class may well be named like p *)
      simpl (ns_text [] ++ c). rewrite <- (app_nil_r c) at 1.
      rewrite scan_common_diverge by auto. rewrite close_all_ns by assumption.
      simpl. rewrite app_nil_r. reflexivity.
    + apply valid_path_cons in HN. destruct HN as [Hn HN]. apply valid_ident_spec in Hn. destruct Hn as [_ Hn].
      rewrite ns_text_cons. simpl common. destruct (text_eqb_spec p n) as [->|Hne].
      * (* same namespace: go on after its `::` *)
        rewrite <- !app_assoc. rewrite (app_assoc n scope_op), (app_assoc n scope_op (ns_text N ++ c)).
        rewrite scan_common_prefix. rewrite IH; auto.
        -- destruct (common P N) as [[k kept] o]. rewrite ns_text_cons.
           rewrite !rev_app_distr, <- !app_assoc. reflexivity.
        -- rewrite rev_app_distr. reflexivity.
      * rewrite <- !app_assoc. rewrite scan_common_diverge; auto.
        -- rewrite close_all_ns by assumption. simpl. rewrite ns_text_cons, <- !app_assoc. reflexivity.
        -- right. split; [assumption|]. rewrite scope_op_eq. simpl. eauto.
Qed.

Lemma find_colon_seg s r : wordy s -> find_colon (s ++ ":"%char :: r) = (s, ":"%char :: r).
Proof.
  induction s as [|c s IH]; intros Hw; [reflexivity|].
  apply wordy_cons in Hw. destruct Hw as [Hc Hs]. simpl. rewrite (word_not_colon c Hc), IH by assumption.
  reflexivity.
Qed.

Lemma find_colon_last s : wordy s -> find_colon s = (s, []).
Proof.
  induction s as [|c s IH]; intros Hw; [reflexivity|].
  apply wordy_cons in Hw. destruct Hw as [Hc Hs]. simpl. rewrite (word_not_colon c Hc), IH by assumption.
  reflexivity.
Qed.

Lemma emit_ns O : forall c b fuel,
  valid_path O -> valid_ident c = true -> length O < fuel ->
  emit fuel b (ns_text O ++ c) = Some (opens O ++ declare_class c, rev b ++ ns_text O).
Proof.
  induction O as [|o O IH]; intros c b fuel HO Hc Hf.
  - destruct fuel as [|fuel]; [simpl in Hf; lia|]. apply valid_ident_spec in Hc. destruct Hc as [_ Hc].
    simpl. rewrite find_colon_last by assumption. rewrite app_nil_r. reflexivity.
  - destruct fuel as [|fuel]; [simpl in Hf; lia|]. simpl in Hf.
    apply valid_path_cons in HO. destruct HO as [Ho HO]. apply valid_ident_spec in Ho. destruct Ho as [_ Ho].
    rewrite ns_text_cons, scope_op_eq, <- !app_assoc. simpl.
    rewrite find_colon_seg by assumption. rewrite IH by (auto; lia).
    unfold opens. simpl. rewrite <- !app_assoc. f_equal. f_equal.
    rewrite rev_app_distr, rev_involutive, <- !app_assoc. reflexivity.
Qed.

(* what the writer produces, at the level of segments; P: the namespaces open before qs *)
Fixpoint render_all (P : list ident) (qs : list qname) : text :=
  match qs with
  | [] => closes (length P)
  | q :: more =>
      let '(k, _, o) := common P (fst q) in
      closes k ++ opens o ++ declare_class (snd q) ++ render_all (fst q) more
  end.

Lemma write_loop_cons name more span :
  write_loop (name :: more) span =
    let '(closes, (before, after)) := scan_common span [] name in
    match closes, emit (S (length name)) before after with
    | Some o1, Some (o2, span') =>
        match write_loop more span' with
        | Some o => Some (o1 ++ o2 ++ o)
        | None => None
        end
    | _, _ => None
    end.
Proof. reflexivity. Qed.

Lemma write_loop_render qs : forall P,
  valid_path P -> forallb valid_qname qs = true ->
  write_loop (map qname_text qs) (ns_text P) = Some (render_all P qs).
Proof.
  induction qs as [|[N c] qs IH]; intros P HP Hqs.
  - simpl. apply close_all_ns, HP.
  - simpl in Hqs. apply andb_true_iff in Hqs. destruct Hqs as [Hq Hqs].
    apply valid_qname_spec in Hq. simpl in Hq. destruct Hq as [HN Hc].
    simpl map. rewrite write_loop_cons. change (qname_text (N, c)) with (ns_text N ++ c).
    rewrite (scan_common_ns P N c []) by (simpl; auto).
    pose proof (common_spec P N) as Hcs. simpl render_all.
    destruct (common P N) as [[k kept] o]. destruct Hcs as (d & HPd & Hk & HNo).
    assert (Ho : valid_path o). { rewrite HNo in HN. apply valid_path_app in HN. tauto. }
    rewrite app_nil_r. rewrite emit_ns; auto.
    + rewrite rev_involutive, <- ns_text_app, <- HNo. rewrite IH by assumption.
      rewrite <- (app_assoc (opens o)). reflexivity.
    + rewrite app_length. pose proof (length_ns_text N) as HL. rewrite HNo, app_length in *. lia.
Qed.

(* ------------------------------------------------------------------------------------------------------------ *)
(* writer: the recogniser reads the rendering back                                                               *)

Lemma lex_word w : forall s cur, wordy w -> lex (w ++ s) cur = lex s (rev w ++ cur).
Proof.
  induction w as [|c w IH]; intros s cur Hw; [reflexivity|].
  apply wordy_cons in Hw. destruct Hw as [Hc Hw]. simpl. rewrite Hc, IH by assumption.
  rewrite <- app_assoc. reflexivity.
Qed.

Definition ns_tokens (x : ident) : list token := [Word (T "namespace"); Word x; LBrace].
Definition class_tokens (x : ident) : list token := [Word (T "class"); Word x; Semi].

Lemma lex_close_brace rest ts :
  lex rest [] = Some ts -> lex (close_brace ++ rest) [] = Some (RBrace :: ts).
Proof. intros H. unfold close_brace. simpl. rewrite H. reflexivity. Qed.

Lemma flush_word x ts : x <> [] -> flush (rev x) ts = Word x :: ts.
Proof.
  intros Hx. unfold flush. destruct (rev x) eqn:Hr.
  - apply (f_equal (@rev ascii)) in Hr. rewrite rev_involutive in Hr. contradiction.
  - rewrite <- Hr, rev_involutive. reflexivity.
Qed.

Lemma lex_open_namespace x rest ts :
  valid_ident x = true -> lex rest [] = Some ts ->
  lex (open_namespace x ++ rest) [] = Some (ns_tokens x ++ ts).
Proof.
  intros Hx H. apply valid_ident_spec in Hx. destruct Hx as [Hne Hw].
  unfold open_namespace. rewrite <- !app_assoc.
  change (T "namespace ") with (T "namespace" ++ [" "%char]). rewrite <- !app_assoc.
  rewrite lex_word by reflexivity. simpl.
  rewrite lex_word by assumption. simpl. rewrite H. rewrite app_nil_r, flush_word by assumption.
  reflexivity.
Qed.

Lemma lex_declare_class x rest ts :
  valid_ident x = true -> lex rest [] = Some ts ->
  lex (declare_class x ++ rest) [] = Some (class_tokens x ++ ts).
Proof.
  intros Hx H. apply valid_ident_spec in Hx. destruct Hx as [Hne Hw].
  unfold declare_class. rewrite <- !app_assoc.
  change (T "class ") with (T "class" ++ [" "%char]). rewrite <- !app_assoc.
  rewrite lex_word by reflexivity. simpl.
  rewrite lex_word by assumption. simpl. rewrite H. rewrite app_nil_r, flush_word by assumption.
  reflexivity.
Qed.

Lemma lex_closes k rest ts :
  lex rest [] = Some ts -> lex (closes k ++ rest) [] = Some (repeat RBrace k ++ ts).
Proof.
  intros H. induction k as [|k IH]; [exact H|].
  rewrite closes_S, <- app_assoc. simpl repeat. apply lex_close_brace in IH. exact IH.
Qed.

Lemma lex_opens o rest ts :
  valid_path o -> lex rest [] = Some ts ->
  lex (opens o ++ rest) [] = Some (flat_map ns_tokens o ++ ts).
Proof.
  intros Ho H. induction o as [|x o IH]; [exact H|].
  apply valid_path_cons in Ho. destruct Ho as [Hx Ho]. specialize (IH Ho).
  unfold opens in *. simpl concat. rewrite <- app_assoc.
  rewrite (lex_open_namespace x _ _ Hx IH). simpl flat_map. rewrite <- app_assoc. reflexivity.
Qed.

Fixpoint tokens_all (P : list ident) (qs : list qname) : list token :=
  match qs with
  | [] => repeat RBrace (length P)
  | q :: more =>
      let '(k, _, o) := common P (fst q) in
      repeat RBrace k ++ flat_map ns_tokens o ++ class_tokens (snd q) ++ tokens_all (fst q) more
  end.

Lemma lex_render qs : forall P,
  forallb valid_qname qs = true -> lex (render_all P qs) [] = Some (tokens_all P qs).
Proof.
  induction qs as [|[N c] qs IH]; intros P Hqs.
  - simpl. rewrite <- (app_nil_r (closes _)), <- (app_nil_r (repeat _ _)). apply lex_closes. reflexivity.
  - simpl in Hqs. apply andb_true_iff in Hqs. destruct Hqs as [Hq Hqs].
    apply valid_qname_spec in Hq. simpl in Hq. destruct Hq as [HN Hc].
    simpl. pose proof (common_spec P N) as Hcs.
    destruct (common P N) as [[k kept] o]. destruct Hcs as (d & HPd & Hk & HNo).
    assert (Ho : valid_path o). { rewrite HNo in HN. apply valid_path_app in HN. tauto. }
    apply lex_closes, lex_opens; [assumption|]. apply lex_declare_class; [assumption|]. apply IH, Hqs.
Qed.

Lemma parse_closes d : forall ts st acc,
  parse_tokens (repeat RBrace (length d) ++ ts) (d ++ st) acc = parse_tokens ts st acc.
Proof. induction d as [|x d IH]; intros ts st acc; [reflexivity|]. simpl. apply IH. Qed.

Lemma parse_ns_tokens x ts st acc :
  parse_tokens (ns_tokens x ++ ts) st acc = parse_tokens ts (x :: st) acc.
Proof. reflexivity. Qed.

Lemma parse_class_tokens x ts st acc :
  parse_tokens (class_tokens x ++ ts) st acc = parse_tokens ts st ((rev st, x) :: acc).
Proof. reflexivity. Qed.

Lemma parse_opens o : forall ts st acc,
  parse_tokens (flat_map ns_tokens o ++ ts) st acc = parse_tokens ts (rev o ++ st) acc.
Proof.
  induction o as [|x o IH]; intros ts st acc; [reflexivity|].
  simpl flat_map. rewrite <- app_assoc, parse_ns_tokens, IH. simpl. rewrite <- app_assoc. reflexivity.
Qed.

Lemma parse_render qs : forall P acc,
  parse_tokens (tokens_all P qs) (rev P) acc = Some (rev acc ++ qs).
Proof.
  induction qs as [|[N c] qs IH]; intros P acc.
  - simpl. rewrite <- (rev_length P), <- (app_nil_r (repeat _ _)), <- (app_nil_r (rev P)) at 2.
    rewrite parse_closes. simpl. rewrite app_nil_r. reflexivity.
  - simpl. pose proof (common_spec P N) as Hcs.
    destruct (common P N) as [[k kept] o]. destruct Hcs as (d & HPd & Hk & HNo).
    rewrite HPd, rev_app_distr, <- Hk, <- (rev_length d), parse_closes, parse_opens.
    rewrite parse_class_tokens. rewrite <- rev_app_distr, <- HNo, rev_involutive.
    rewrite IH. simpl. rewrite <- app_assoc. reflexivity.
Qed.

(* C19, writer *)
Theorem writer_correct (qs : list qname) :
  forallb valid_qname qs = true ->
  exists out, write_forward_declarations (map qname_text qs) = Some out /\ parse out = Some qs.
Proof.
  intros Hqs. exists (render_all [] qs). split.
  - apply (write_loop_render qs []); [reflexivity|assumption].
  - unfold parse. rewrite lex_render by assumption. apply (parse_render qs [] []).
Qed.
