(* ReportProofs.v — update's total report from the per-method reports (generic_compiler::accumulate). *)
From Y2 Require Import Model.Registry Model.Compile.
From Coq Require Import Lia.

Definition rep0 := mk_rep 0 0 0 0 0 0.

Lemma accumulate_fold_ni (reps : list mreport) : forall tot,
  rp_ni (fold_left accumulate reps tot) = rp_ni tot + length (filter (fun r => negb (rp_ni r =? 0)) reps).
Proof.
  induction reps as [|r reps IH]; intro tot; cbn [fold_left filter length]; [lia|].
  rewrite IH. unfold accumulate; cbn [rp_ni]. destruct (rp_ni r =? 0); cbn [negb length]; lia.
Qed.
Lemma accumulate_fold_amb (reps : list mreport) : forall tot,
  rp_amb (fold_left accumulate reps tot) = rp_amb tot + length (filter (fun r => negb (rp_amb r =? 0)) reps).
Proof.
  induction reps as [|r reps IH]; intro tot; cbn [fold_left filter length]; [lia|].
  rewrite IH. unfold accumulate; cbn [rp_amb]. destruct (rp_amb r =? 0); cbn [negb length]; lia.
Qed.
Lemma accumulate_fold_cni (reps : list mreport) : forall tot,
  rp_cni (fold_left accumulate reps tot) = rp_cni tot + length (filter (fun r => negb (rp_cni r =? 0)) reps).
Proof.
  induction reps as [|r reps IH]; intro tot; cbn [fold_left filter length]; [lia|].
  rewrite IH. unfold accumulate; cbn [rp_cni]. destruct (rp_cni r =? 0); cbn [negb length]; lia.
Qed.
Lemma accumulate_fold_camb (reps : list mreport) : forall tot,
  rp_camb (fold_left accumulate reps tot) = rp_camb tot + length (filter (fun r => negb (rp_camb r =? 0)) reps).
Proof.
  induction reps as [|r reps IH]; intro tot; cbn [fold_left filter length]; [lia|].
  rewrite IH. unfold accumulate; cbn [rp_camb]. destruct (rp_camb r =? 0); cbn [negb length]; lia.
Qed.
Lemma accumulate_fold_cells (reps : list mreport) : forall tot,
  rp_cells (fold_left accumulate reps tot) = rp_cells tot + fold_right (fun r s => rp_cells r + s) 0 reps.
Proof.
  induction reps as [|r reps IH]; intro tot; cbn [fold_left fold_right]; [lia|].
  rewrite IH. unfold accumulate; cbn [rp_cells]. lia.
Qed.

Lemma filter_nonempty_exists {A} (f : A -> bool) l : length (filter f l) <> 0 <-> exists x, In x l /\ f x = true.
Proof.
  split.
  - intro H. destruct (filter f l) as [|x xs] eqn:E; [contradiction|].
    assert (In x (filter f l)) by (rewrite E; now left). apply filter_In in H0. eauto.
  - intros [x [Hx Hf]] E. assert (In x (filter f l)) by (apply filter_In; auto).
    destruct (filter f l); [contradiction|discriminate].
Qed.

(* the total flags are raised exactly when some method's counter is non-zero; cells add up *)
Theorem total_report_flags (reps : list mreport) :
  let tot := fold_left accumulate reps rep0 in
  (rp_ni tot <> 0 <-> exists r, In r reps /\ rp_ni r <> 0) /\
  (rp_amb tot <> 0 <-> exists r, In r reps /\ rp_amb r <> 0) /\
  (rp_cni tot <> 0 <-> exists r, In r reps /\ rp_cni r <> 0) /\
  (rp_camb tot <> 0 <-> exists r, In r reps /\ rp_camb r <> 0) /\
  rp_cells tot = fold_right (fun r s => rp_cells r + s) 0 reps.
Proof.
  cbn zeta. rewrite accumulate_fold_ni, accumulate_fold_amb, accumulate_fold_cni, accumulate_fold_camb, accumulate_fold_cells.
  cbn [rep0 rp_ni rp_amb rp_cni rp_camb rp_cells Nat.add].
  repeat split; try (intro H; apply filter_nonempty_exists in H; destruct H as [r [Hr Hf]]; exists r; split; [exact Hr|];
    apply negb_true_iff in Hf; now apply Nat.eqb_neq in Hf);
  try (intros [r [Hr Hf]]; apply filter_nonempty_exists; exists r; split; [exact Hr|]; apply negb_true_iff; now apply Nat.eqb_neq).
Qed.
