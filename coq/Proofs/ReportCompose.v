(* ReportCompose.v — the report returned by update vs the specification's enumeration of legal tuples (C17). *)
From Y2 Require Import Model.Registry Model.Compile Spec.Dispatch.
From Y2 Require Import Proofs.Interfaces Proofs.LatListFacts Proofs.MethodsProofs Proofs.ResolveProofs Proofs.CompileProofs Proofs.ReportProofs.
From Y2 Require Import Proofs.SpecProofs Proofs.LatticeProofs Proofs.TablesProofs.
From Coq Require Import Lia.
Local Open Scope nat_scope.

Lemma install_report stale L ms st :
  o_report (install_with stale L ms st) = fold_left accumulate (map t_report (map (build_method L) ms)) rep0.
Proof. unfold install_with. destruct (place_tables _ _ _). destruct (place_vtbls _ _ _). reflexivity. Qed.

Section Report.
  Variables (R : registry) (L : lattice) (ms : list cmeth).
  Hypothesis Hwf : wf_registry R.
  Hypothesis Hlo : lattice_ok R L.
  Hypothesis Hms : Forall (meth_wf L) ms.
  Hypothesis Hlen : length ms = length (r_methods R).
  Hypothesis Hmok : forall i m, nth_error (r_methods R) i = Some m -> exists cm, nth_error ms i = Some cm /\ meth_ok R L m cm.

  Let Hacy : acyclic R := proj1 Hwf.

  (* index-level legality and key-level legality coincide *)
  Lemma cov_legal m cm cs : meth_wf L cm -> meth_ok R L m cm ->
    Forall2 (fun p z => In z (cov_of L p)) (cm_vp cm) cs ->
    Forall (fun c => c < ncls L) cs /\ legal R m (map (key L) cs).
  Proof.
    intros [_ [Hvp _]] [Evp _]. unfold legal. rewrite <- Evp. clear Evp.
    revert cs. induction (cm_vp cm) as [|p ps IH]; intros cs Hf; inversion Hf as [|? c ? cs' Hpc Hrest]; subst.
    - split; constructor.
    - inversion Hvp as [|? ? Hp Hps]; subst. destruct (IH Hps cs' Hrest) as [H1 H2].
      pose proof (proj1 (lw_cov L (lo_wf R L Hlo) p c Hp) Hpc) as [Hc _].
      split; [constructor; assumption|]. cbn [map]. constructor; [|exact H2]. split.
      + apply (lo_registered R L Hlo). unfold key. apply nth_In. exact Hc.
      + apply (cov_anc R L Hlo p c Hp Hc). apply tg_memn_In. exact Hpc.
  Qed.

  Lemma concrete_keys cs : Forall (fun c => c < ncls L) cs ->
    (Forall (fun c => k_abstract (nth c (l_info L) (mk_cls [] false)) = false) cs <->
     forall a, In a (map (key L) cs) -> is_abstract R a = false).
  Proof.
    intro Hcs. rewrite Forall_forall. split.
    - intros H a Ha. apply in_map_iff in Ha. destruct Ha as [c [<- Hc]].
      rewrite <- (lo_abstract R L Hlo c) by (apply (proj1 (Forall_forall _ _) Hcs); exact Hc). apply H. exact Hc.
    - intros H c Hc. rewrite (lo_abstract R L Hlo c) by (apply (proj1 (Forall_forall _ _) Hcs); exact Hc).
      apply H. apply in_map. exact Hc.
  Qed.

  (* one flag: `count` is the per-method counter, `cl` the cell it counts, `which` the outcome it stands for *)
  Section Flag.
    Variables (count : mreport -> nat) (cl : cell) (which : outcome -> bool) (conc : bool).
    Hypothesis Hwhich : forall o, which o = true <-> cell_of_outcome o = cl.
    Hypothesis Hcount : forall cm, meth_wf L cm ->
      (0 < count (t_report (build_method L cm)) <->
       exists cs, Forall2 (fun p z => In z (cov_of L p)) (cm_vp cm) cs /\
                  (conc = true -> Forall (fun c => k_abstract (nth c (l_info L) (mk_cls [] false)) = false) cs) /\
                  nth (table_index L cm (t_strides (build_method L cm)) 0 cs) (t_cells (build_method L cm)) CNi = cl).

    Lemma flag_correct :
      (exists r, In r (map t_report (map (build_method L) ms)) /\ count r <> 0) <-> spec_flag R which conc = true.
    Proof.
      rewrite (spec_flag_correct R which conc). split.
      - intros [r [Hr Hc]]. rewrite map_map in Hr. apply in_map_iff in Hr. destruct Hr as [cm [<- Hcm]].
        apply In_nth_error in Hcm. destruct Hcm as [mi Hcm].
        assert (Hmi : mi < length (r_methods R)) by (rewrite <- Hlen; apply nth_error_Some; congruence).
        destruct (nth_error (r_methods R) mi) as [m|] eqn:Em; [|apply nth_error_None in Em; lia].
        destruct (Hmok mi m Em) as [cm' [Hcm' Hok]]. rewrite Hcm in Hcm'. inversion Hcm'; subst cm'.
        assert (Hcmwf : meth_wf L cm) by (apply (proj1 (Forall_forall _ _) Hms); eapply nth_error_In; eassumption).
        destruct (proj1 (Hcount cm Hcmwf) ltac:(lia)) as [cs [Hf [Hconc Hcell]]].
        destruct (cov_legal m cm cs Hcmwf Hok Hf) as [Hcs Hlegal].
        destruct (table_cell_spec R L Hlo Hacy (ancb_correct R) cm m cs Hcmwf Hok Hf) as [_ Hspec].
        exists m, (map (key L) cs). split; [eapply nth_error_In; eassumption|]. split; [exact Hlegal|]. split.
        + apply Hwhich. rewrite <- Hspec. exact Hcell.
        + intro E. apply (concrete_keys cs Hcs). apply Hconc. exact E.
      - intros [m [args [Hm [Hlegal [Hw Hconc]]]]].
        apply In_nth_error in Hm. destruct Hm as [mi Hm].
        destruct (Hmok mi m Hm) as [cm [Hcm Hok]].
        assert (Hcmwf : meth_wf L cm) by (apply (proj1 (Forall_forall _ _) Hms); eapply nth_error_In; eassumption).
        destruct (legal_indexes R L m args Hlo Hlegal) as [cs [Hcs E]]. subst args.
        pose proof (legal_cov R L m cm cs Hlo Hcmwf Hok Hcs Hlegal) as Hf.
        destruct (table_cell_spec R L Hlo Hacy (ancb_correct R) cm m cs Hcmwf Hok Hf) as [_ Hspec].
        exists (t_report (build_method L cm)). split.
        + rewrite map_map. apply in_map_iff. exists cm. split; [reflexivity|eapply nth_error_In; eassumption].
        + assert (0 < count (t_report (build_method L cm))); [|lia].
          apply (Hcount cm Hcmwf). exists cs. split; [exact Hf|]. split.
          * intro Ec. apply (concrete_keys cs Hcs). apply Hconc. exact Ec.
          * rewrite Hspec. apply Hwhich. exact Hw.
    Qed.
  End Flag.

  Lemma which_nodef o : is_nodef o = true <-> cell_of_outcome o = CNi.
  Proof. destruct o; cbn; split; congruence. Qed.
  Lemma which_ambig o : is_ambig o = true <-> cell_of_outcome o = CAmb.
  Proof. destruct o; cbn; split; congruence. Qed.

  Theorem report_flags_correct :
    let rep := fold_left accumulate (map t_report (map (build_method L) ms)) rep0 in
    (rp_ni rep <> 0 <-> spec_flag R is_nodef false = true) /\
    (rp_amb rep <> 0 <-> spec_flag R is_ambig false = true) /\
    (rp_cni rep <> 0 <-> spec_flag R is_nodef true = true) /\
    (rp_camb rep <> 0 <-> spec_flag R is_ambig true = true) /\
    rp_cells rep = fold_right (fun cm s => (if 1 <? length (cm_vp cm) then length (t_cells (build_method L cm)) else 0) + s) 0 ms.
  Proof.
    cbv zeta.
    destruct (total_report_flags (map t_report (map (build_method L) ms))) as [Hni [Hamb [Hcni [Hcamb Hcells]]]].
    cbv zeta in Hni, Hamb, Hcni, Hcamb, Hcells.
    split; [rewrite Hni; apply (flag_correct rp_ni CNi is_nodef false which_nodef)|].
    2: split; [rewrite Hamb; apply (flag_correct rp_amb CAmb is_ambig false which_ambig)|].
    3: split; [rewrite Hcni; apply (flag_correct rp_cni CNi is_nodef true which_nodef)|].
    4: split; [rewrite Hcamb; apply (flag_correct rp_camb CAmb is_ambig true which_ambig)|].
    - intros cm Hcmwf. rewrite (report_ni L cm Hcmwf). split; intros [cs H]; exists cs; [destruct H as [H1 H2]|destruct H as [H1 [_ H2]]]; repeat split; try assumption; discriminate.
    - intros cm Hcmwf. rewrite (report_amb L cm Hcmwf). split; intros [cs H]; exists cs; [destruct H as [H1 H2]|destruct H as [H1 [_ H2]]]; repeat split; try assumption; discriminate.
    - intros cm Hcmwf. rewrite (report_cni L cm Hcmwf). split; intros [cs [H1 [H2 H3]]]; exists cs; repeat split; try assumption; [intros _; exact H2|apply H2; reflexivity].
    - intros cm Hcmwf. rewrite (report_camb L cm Hcmwf). split; intros [cs [H1 [H2 H3]]]; exists cs; repeat split; try assumption; [intros _; exact H2|apply H2; reflexivity].
    - rewrite Hcells. clear - Hms. induction ms as [|cm l IH]; [reflexivity|]. cbn [map fold_right].
      inversion Hms; subst. rewrite IH by assumption. f_equal. apply report_cells. assumption.
  Qed.
End Report.

Theorem report_correct R stale C : wf_registry R -> compile_with stale R = Ok C ->
  (rp_ni (o_report C) <> 0 <-> spec_flag R is_nodef false = true) /\
  (rp_amb (o_report C) <> 0 <-> spec_flag R is_ambig false = true) /\
  (rp_cni (o_report C) <> 0 <-> spec_flag R is_nodef true = true) /\
  (rp_camb (o_report C) <> 0 <-> spec_flag R is_ambig true = true) /\
  rp_cells (o_report C) = fold_right (fun t s => (if 1 <? length (t_groups t) then length (t_cells t) else 0) + s) 0 (o_tables C).
Proof.
  intros Hwf HC.
  destruct (compile_char R stale Hwf) as [L [ms [_ [_ [HC' [Hlo [Hms [Hlen Hok]]]]]]]].
  rewrite HC in HC'. inversion HC'; subst C. clear HC'.
  rewrite install_report.
  destruct (report_flags_correct R L ms Hwf Hlo Hms Hlen Hok) as [H1 [H2 [H3 [H4 H5]]]]. cbv zeta in *.
  repeat (split; [assumption|]).
  rewrite H5. unfold install_with. destruct (place_tables _ _ _). destruct (place_vtbls _ _ _). cbn [o_tables].
  pose proof (lo_wf R L Hlo) as Hlw. clear - Hms Hlw. induction ms as [|cm l IH]; [reflexivity|]. cbn [map fold_right]. inversion Hms as [|? ? Hcm Hl]; subst.
  rewrite IH by assumption. f_equal.
  rewrite (to_len_groups L cm _ (build_method_table_ok L cm Hlw Hcm)). reflexivity.
Qed.
