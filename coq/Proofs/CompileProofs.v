(* CompileProofs.v — the end-to-end theorems about the model of update + resolve. *)
From Y2 Require Import Model.Registry Model.Compile Spec.Dispatch.
From Y2 Require Import Proofs.Interfaces Proofs.LatListFacts Proofs.WalkProofs Proofs.BoundsProofs Proofs.InstallProofs Proofs.MethodsProofs Proofs.ResolveProofs.
From Y2 Require Import Proofs.SpecProofs Proofs.LatticeProofs Proofs.SlotsProofs Proofs.TablesProofs.
From Coq Require Import Lia.
Local Open Scope nat_scope.

(* what compile is made of, for a well-formed registry *)
Lemma compile_char R stale : wf_registry R ->
  exists L ms, augment_classes R = Ok L /\ augment_methods R (l_keys L) (r_methods R) = Ok ms /\
               compile_with stale R = Ok (install_with stale L ms (assign_slots L ms)) /\
               lattice_ok R L /\ Forall (meth_wf L) ms /\ length ms = length (r_methods R) /\
               forall i m, nth_error (r_methods R) i = Some m -> exists cm, nth_error ms i = Some cm /\ meth_ok R L m cm.
Proof.
  intro Hwf. destruct (augment_classes_total R Hwf) as [L HL].
  pose proof (augment_classes_lattice_ok R L Hwf HL) as Hlo.
  destruct Hwf as [Hacy [Hbr Hmo]].
  destruct (augment_methods_ok R L Hlo (r_methods R) (methods_ok_premise R Hmo)) as [ms [Hms [Hlen [Hwfm Hok]]]].
  exists L, ms. unfold compile_with. rewrite HL. cbn [bind]. rewrite Hms. cbn [bind].
  split; [reflexivity|]. split; [reflexivity|]. split; [reflexivity|]. split; [exact Hlo|]. split; [exact Hwfm|]. split; [exact Hlen|exact Hok].
Qed.

Theorem compile_total R stale : wf_registry R -> exists C, compile_with stale R = Ok C /\ o_fuel_ok C = true.
Proof.
  intro Hwf. destruct (compile_char R stale Hwf) as [L [ms [_ [_ [HC [Hlo [Hms _]]]]]]].
  eexists. split; [exact HC|].
  pose proof (assign_slots_ok L ms (lo_wf R L Hlo) Hms) as Hso.
  unfold install_with. destruct (place_tables _ _ _). destruct (place_vtbls _ _ _). cbn [o_fuel_ok]. apply (so_fuel L ms _ Hso).
Qed.

Lemma install_lat stale L ms st : o_lat (install_with stale L ms st) = L.
Proof. unfold install_with. destruct (place_tables _ _ _). destruct (place_vtbls _ _ _). reflexivity. Qed.
Lemma install_meths stale L ms st : o_meths (install_with stale L ms st) = ms.
Proof. unfold install_with. destruct (place_tables _ _ _). destruct (place_vtbls _ _ _). reflexivity. Qed.

(* a legal tuple of class keys is a tuple of covariant class indexes *)
Lemma legal_cov_gen R L : lattice_ok R L -> forall ps cs,
  Forall (fun c => c < ncls L) ps -> Forall (fun c => c < ncls L) cs ->
  Forall2 (fun p a => registered R a /\ anc R p a) (map (key L) ps) (map (key L) cs) ->
  Forall2 (fun p z => In z (cov_of L p)) ps cs.
Proof.
  intro Hlo. induction ps as [|p ps IH]; intros cs Hvp Hcs Hlegal.
  - destruct cs; [constructor|inversion Hlegal].
  - destruct cs as [|c cs]; [inversion Hlegal|]. cbn [map] in Hlegal.
    inversion Hlegal as [|? ? ? ? [_ Hanc] Hrest]; subst. inversion Hvp as [|? ? Hp Hps]; subst. inversion Hcs as [|? ? Hc Hcs']; subst.
    constructor; [|apply IH; assumption].
    apply (tg_memn_In). apply (cov_anc R L Hlo p c Hp Hc). exact Hanc.
Qed.

Lemma legal_cov R L m cm cs : lattice_ok R L -> meth_wf L cm -> meth_ok R L m cm ->
  Forall (fun c => c < ncls L) cs -> legal R m (map (key L) cs) ->
  Forall2 (fun p z => In z (cov_of L p)) (cm_vp cm) cs.
Proof.
  intros Hlo [_ [Hvp _]] [Evp _] Hcs Hlegal. unfold legal in Hlegal. rewrite <- Evp in Hlegal.
  apply (legal_cov_gen R L Hlo); assumption.
Qed.

(* THE theorem: the word method::resolve reads from update's tables is the one the specification designates *)
Theorem resolve_correct R stale C mi m cs :
  wf_registry R -> compile_with stale R = Ok C -> nth_error (r_methods R) mi = Some m ->
  Forall (fun c => c < ncls (o_lat C)) cs -> legal R m (map (key (o_lat C)) cs) ->
  resolve C mi (actuals_of C (m_shape m) cs)
  = Ok (word_of_outcome mi (spec_dispatch R (meth_defs R m) (map (key (o_lat C)) cs))).
Proof.
  intros Hwf HC Hm Hcs Hlegal.
  destruct (compile_char R stale Hwf) as [L [ms [_ [_ [HC' [Hlo [Hms [Hlen Hok]]]]]]]].
  rewrite HC in HC'. inversion HC'; subst C. clear HC'. rewrite install_lat in *.
  destruct (Hok mi m Hm) as [cm [Hcm Hmok]].
  assert (Hcmwf : meth_wf L cm) by (apply (proj1 (Forall_forall _ _) Hms); eapply nth_error_In; eassumption).
  pose proof (legal_cov R L m cm cs Hlo Hcmwf Hmok Hcs Hlegal) as Hf.
  assert (Hl : length cs = length (cm_vp cm)) by (symmetry; exact (tg_Forall2_length _ _ _ Hf)).
  unfold resolve. rewrite install_meths.
  rewrite (nth_error_nth _ _ (mk_cmeth [] [] [] []) Hcm).
  destruct Hmok as [Evp [Edefs [Enext Eshape]]]. rewrite Eshape.
  destruct Hcmwf as [Hne [Hvp [Hspecs [Hnx Hshape]]]]. rewrite Eshape in Hshape.
  assert (Hne' : cs <> []) by (intro; subst cs; destruct (cm_vp cm); [congruence|discriminate]).
  pose proof (walk_correct R L ms stale Hwf Hlo Hms mi m cm Hcm (conj Evp (conj Edefs (conj Enext Eshape))) cs Hf) as Hw.
  cbv zeta in Hw.
  destruct (Nat.eqb_spec (length (cm_vp cm)) 1) as [E1|NE1].
  - rewrite resolve_uni_walk by (unfold vcount; try lia; assumption). exact Hw.
  - rewrite resolve_multi_first_walk; [exact Hw|unfold vcount; lia|assumption|].
    destruct cs as [|? [|? ?]]; cbn [length] in *; try congruence; lia.
Qed.

(* every legal tuple of class keys has class indexes *)
Lemma legal_indexes R L m args : lattice_ok R L -> legal R m args ->
  exists cs, Forall (fun c => c < ncls L) cs /\ map (key L) cs = args.
Proof.
  intros Hlo Hlegal. unfold legal in Hlegal. induction Hlegal as [|p a ps args [Hreg _] _ IH].
  - exists []. split; constructor.
  - destruct IH as [cs [Hcs E]]. apply (lo_registered R L Hlo) in Hreg.
    destruct (index_ofN_In _ _ Hreg) as [i Hi]. apply index_ofN_Some in Hi. destruct Hi as [Hi Hk].
    exists (i :: cs). split; [constructor; assumption|]. cbn [map]. rewrite E. unfold key. rewrite Hk. reflexivity.
Qed.

Theorem dispatch_correct R stale C mi m args :
  wf_registry R -> compile_with stale R = Ok C -> nth_error (r_methods R) mi = Some m -> legal R m args ->
  exists cs, map (key (o_lat C)) cs = args /\
             resolve C mi (actuals_of C (m_shape m) cs) = Ok (word_of_outcome mi (spec_dispatch R (meth_defs R m) args)).
Proof.
  intros Hwf HC Hm Hlegal.
  destruct (compile_char R stale Hwf) as [L [ms [_ [_ [HC' [Hlo _]]]]]].
  assert (EL : o_lat C = L) by (rewrite HC in HC'; inversion HC'; apply install_lat).
  destruct (legal_indexes R L m args Hlo Hlegal) as [cs [Hcs E]].
  exists cs. rewrite EL. split; [exact E|].
  rewrite <- E. rewrite <- EL. apply (resolve_correct R stale); try assumption; rewrite EL; [exact Hcs|rewrite E; exact Hlegal].
Qed.

Print Assumptions resolve_correct.
Print Assumptions dispatch_correct.
Print Assumptions compile_total.
