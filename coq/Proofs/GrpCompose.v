(* GrpCompose.v — the hypotheses of GrpSource.src_groups_entries hold of everything `update` produces: for every lattice,
   methods and slot state that satisfy the interfaces of the earlier stages (lat_wf, meths_wf, slots_ok - proved of
   augment_classes / augment_methods / assign_slots elsewhere), running the translated grouping and the translated entry loop
   for every method in turn, in any enumeration order of the unordered sets, yields exactly Model.Compile.write_vtbls. *)
From Coq Require Import List Arith NArith Lia Bool.
From Y2 Require Import Model.Registry Model.Compile Model.MiniGrp Gen.GenGrp Proofs.LatListFacts Proofs.Interfaces
                       Proofs.TablesGeneric Proofs.TablesBuild Proofs.GrpSource.
Import ListNotations.
Local Open Scope nat_scope.

Definition vshape (L : lattice) (st : sstate) (s : vt) : Prop :=
  length s = ncls L /\ forall c, c < ncls L -> length (nth c s []) = nth c (s_vlen st) 0.

Lemma vshape_model_dim L m mi slots firsts st : forall ds s, vshape L st s -> vshape L st (fold_left (model_dim L m mi slots firsts) ds s).
Proof.
  induction ds as [|d ds IH]; intros s H; cbn [fold_left]; [exact H|]. apply IH. clear IH.
  unfold model_dim. generalize (cov_of L (nth d (cm_vp m) 0)). intro cs. revert s H.
  induction cs as [|c cs IHc]; intros s H; cbn [fold_left]; [exact H|]. apply IHc. cbv zeta.
  destruct (nth d slots 0 <? nth c firsts 0); [exact H|].
  destruct H as [H1 H2]. split; [now rewrite length_upd_nth|]. intros x Hx.
  destruct (Nat.eq_dec c x) as [->|Hne].
  - rewrite nth_upd_nth_eq by lia. rewrite length_set_nth. now apply H2.
  - rewrite nth_upd_nth_neq by exact Hne. now apply H2.
Qed.

Section Compose.
  Variables (L : lattice) (ms : list cmeth) (st : sstate) (enum : nat -> list nat).
  Hypothesis Hlw : lat_wf L.
  Hypothesis Hms : meths_wf L ms.
  Hypothesis Hso : slots_ok L ms st.
  Hypothesis Hen_mem : forall v x, In x (enum v) <-> In x (cov_of L v).
  Hypothesis Hen_nd : forall v, NoDup (enum v).

  (* one method: its groups, then its entries *)
  Definition run_method (s : vt) (im : nat * cmeth) : option vt :=
    match run_groups L (snd im) enum gen_groups with
    | Some gs => eexec (fst im) (nth (fst im) (s_slots st) []) (s_first st) gs gen_entries (mk_ecx None None None) s
    | None => None
    end.

  Fixpoint run_methods (ims : list (nat * cmeth)) (s : vt) : option vt :=
    match ims with
    | [] => Some s
    | im :: r => match run_method s im with Some s' => run_methods r s' | None => None end
    end.

  Lemma method_step mi m s : nth_error ms mi = Some m -> vshape L st s ->
    run_method s (mi, m) = Some (fold_left (model_dim L m mi (nth mi (s_slots st) []) (s_first st)) (seq 0 (length (cm_vp m))) s).
  Proof.
    intros Hm Hs. unfold run_method. cbn [fst snd].
    destruct (src_groups_entries L m enum mi (nth mi (s_slots st) []) (s_first st) s Hen_mem Hen_nd (lw_cov_nodup L Hlw)) as [gs [E [_ He]]].
    rewrite E. apply He.
    - apply (so_len_slots_m L ms st Hso mi m Hm).
    - intros d c Hd Hc.
      assert (Hv : nth_error (cm_vp m) d = Some (nth d (cm_vp m) 0)) by (apply nth_error_nth'; exact Hd).
      assert (Happ : applies L ms mi d c) by (exists m; split; [exact Hm|]; exists (nth d (cm_vp m) 0); split; [exact Hv|exact Hc]).
      pose proof (so_in_vtbl L ms st Hso mi d c Happ) as [H1 H2]. unfold slot_of, first_of, vlen_of in H1, H2.
      assert (Hvn : nth d (cm_vp m) 0 < ncls L).
      { assert (Hmw : meth_wf L m) by (apply (proj1 (Forall_forall _ _) Hms); eapply nth_error_In; eassumption).
        destruct Hmw as [_ [Hvp _]]. rewrite Forall_forall in Hvp. apply Hvp. apply nth_In. exact Hd. }
      assert (Hcn : c < ncls L) by (apply (lw_cov L Hlw _ c Hvn) in Hc; tauto).
      destruct Hs as [S1 S2]. unfold okw. rewrite S1, (S2 c Hcn). repeat split; lia.
  Qed.

  Lemma methods_loop : forall ims s, (forall im, In im ims -> nth_error ms (fst im) = Some (snd im)) -> vshape L st s ->
    run_methods ims s
    = Some (fold_left (fun vt im => fold_left (model_dim L (snd im) (fst im) (nth (fst im) (s_slots st) []) (s_first st))
                                              (seq 0 (length (cm_vp (snd im)))) vt) ims s).
  Proof.
    induction ims as [|[mi m] ims IH]; intros s Hin Hs; cbn [run_methods fold_left]; [reflexivity|].
    rewrite (method_step mi m s (Hin (mi, m) (or_introl eq_refl)) Hs). cbn [fst snd].
    apply IH; [intros im H; apply Hin; now right|]. now apply vshape_model_dim.
  Qed.

  Theorem src_write_vtbls_all :
    run_methods (combine (seq 0 (length ms)) ms) (map (fun c => repeat (0, 0, 0) (nth c (s_vlen st) 0)) (seq 0 (length (l_keys L))))
    = Some (write_vtbls L ms st).
  Proof.
    rewrite methods_loop.
    - f_equal. unfold write_vtbls.
      generalize (map (fun c => repeat (0, 0, 0) (nth c (s_vlen st) 0)) (seq 0 (length (l_keys L)))).
      generalize (combine (seq 0 (length ms)) ms). intro ims. induction ims as [|[mi m] ims IH]; intro s0; cbn [fold_left]; [reflexivity|].
      rewrite IH. reflexivity.
    - intros [mi m] Hin. cbn [fst snd].
      destruct (In_nth _ _ (0, mk_cmeth [] [] [] []) Hin) as [i [Hi Ei]].
      rewrite combine_length, seq_length, Nat.min_id in Hi. rewrite combine_nth in Ei by (now rewrite seq_length).
      rewrite seq_nth in Ei by exact Hi. inversion Ei as [[E1 E2]]. cbn [plus] in *. rewrite <- E1 in *. rewrite E2. rewrite <- E2. apply nth_error_nth'. exact Hi.
    - split; [now rewrite map_length, seq_length|]. intros c Hc.
      rewrite (nth_map_seq (fun c => repeat (0, 0, 0) (nth c (s_vlen st) 0)) (length (l_keys L)) c []) by exact Hc.
      apply repeat_length.
  Qed.
End Compose.

(* for every well-formed registry: the v-tables of compile R are what the translated loops write *)
From Y2 Require Import Spec.Dispatch Proofs.CompileProofs Proofs.CorollaryProofs Proofs.SlotsProofs.

Theorem src_vtbls_compile R C enum : wf_registry R -> compile R = Ok C ->
  (forall v x, In x (enum v) <-> In x (cov_of (o_lat C) v)) -> (forall v, NoDup (enum v)) ->
  exists st, slots_ok (o_lat C) (o_meths C) st /\ o_slots C = s_slots st /\ o_first C = s_first st /\
    run_methods (o_lat C) st enum (combine (seq 0 (length (o_meths C))) (o_meths C))
                (map (fun c => repeat (0, 0, 0) (nth c (s_vlen st) 0)) (seq 0 (length (l_keys (o_lat C)))))
    = Some (o_vtbl C).
Proof.
  intros Hwf HC Hmem Hnd.
  destruct (compile_char R [] Hwf) as [L [ms [_ [_ [HC' [Hlo [Hms _]]]]]]].
  unfold compile in HC. rewrite HC in HC'. inversion HC' as [EC].
  set (st := assign_slots L ms) in *.
  destruct (install_slots [] L ms st) as [E1 [E2 E3]]. pose proof (install_meths [] L ms st) as E5. pose proof (install_lat [] L ms st) as E6.
  subst C. rewrite E1, E2, E3, E5, E6 in *. exists st.
  pose proof (assign_slots_ok L ms (lo_wf R L Hlo) Hms) as Hso.
  split; [exact Hso|]. split; [reflexivity|]. split; [reflexivity|].
  apply (src_write_vtbls_all L ms st enum (lo_wf R L Hlo) Hms Hso Hmem Hnd).
Qed.
