(* InstallProofs.v — stages 5: write_vtbls and install_gv.
   Given the slot invariant (slots_ok) the v-table entry of every applicable (method, parameter) pair survives the
   later writes; the image holds the multi-method tables then the v-tables, and the biased static v-table pointers
   address them. *)
From Y2 Require Import Model.Registry Model.Compile Proofs.Interfaces Proofs.LatListFacts.
From Coq Require Import Lia.
Local Open Scope nat_scope.

Lemma fold_left_flat_map {A B C} (f : A -> C -> A) (g : B -> list C) l : forall a,
  fold_left f (flat_map g l) a = fold_left (fun a x => fold_left f (g x) a) l a.
Proof. induction l as [|x l IH]; intro a; cbn [flat_map fold_left]; [reflexivity|]. rewrite fold_left_app. apply IH. Qed.

Lemma fold_left_map {A B C} (f : A -> C -> A) (g : B -> C) l : forall a,
  fold_left f (map g l) a = fold_left (fun a x => f a (g x)) l a.
Proof. induction l as [|x l IH]; intro a; cbn [map fold_left]; [reflexivity|]. apply IH. Qed.

Lemma fold_left_ext {A B} (f g : A -> B -> A) l : (forall a b, f a b = g a b) -> forall a, fold_left f l a = fold_left g l a.
Proof. intro H. induction l as [|x l IH]; intro a; cbn [fold_left]; [reflexivity|]. rewrite H. apply IH. Qed.

(* ------------------------------------------------------------------ write_vtbls as one fold over a list of writes *)

Definition vwrite := (nat * cmeth * nat * nat)%type.     (* method index, method, dimension, class *)

Definition vt_write (L : lattice) (st : sstate) (vt : list (list (nat * nat * nat))) (w : vwrite) :=
  let '(mi, m, dim, c) := w in
  let slot := nth dim (nth mi (s_slots st) []) 0 in
  let fs := nth c (s_first st) 0 in
  if slot <? fs then vt
  else upd_nth c vt [] (fun l => set_nth (slot - fs) l (mi, dim, group_index L m dim c)).

Definition vt_writes (L : lattice) (ms : list cmeth) : list vwrite :=
  flat_map (fun mim : nat * cmeth =>
              flat_map (fun dim => map (fun c => (fst mim, snd mim, dim, c)) (nth (nth dim (cm_vp (snd mim)) 0) (l_cov L) []))
                       (seq 0 (length (cm_vp (snd mim)))))
           (combine (seq 0 (length ms)) ms).

Definition vt0 (L : lattice) (st : sstate) : list (list (nat * nat * nat)) :=
  map (fun c => repeat (0, 0, 0) (nth c (s_vlen st) 0)) (seq 0 (length (l_keys L))).

Lemma write_vtbls_eq L ms st : write_vtbls L ms st = fold_left (vt_write L st) (vt_writes L ms) (vt0 L st).
Proof.
  unfold write_vtbls, vt_writes. fold (vt0 L st). rewrite fold_left_flat_map.
  apply fold_left_ext. intros vt [mi m]. cbn [fst snd]. rewrite fold_left_flat_map.
  apply fold_left_ext. intros vt' dim. rewrite fold_left_map. reflexivity.
Qed.

Lemma in_combine_seq {A} (l : list A) i x : In (i, x) (combine (seq 0 (length l)) l) <-> nth_error l i = Some x.
Proof.
  assert (G : forall (l : list A) s i x, In (i, x) (combine (seq s (length l)) l) <-> (s <= i /\ nth_error l (i - s) = Some x)).
  { clear. induction l as [|y l IH]; intros s i x; cbn [length seq combine In].
    - split; [tauto|]. intros [_ H]. destruct (i - s); discriminate.
    - rewrite IH. split.
      + intros [E|[H1 H2]].
        * inversion E; subst. rewrite Nat.sub_diag. auto.
        * split; [lia|]. replace (i - s) with (S (i - S s)) by lia. exact H2.
      + intros [H1 H2]. destruct (Nat.eq_dec i s) as [->|Hne].
        * rewrite Nat.sub_diag in H2. inversion H2. now left.
        * right. split; [lia|]. replace (i - s) with (S (i - S s)) in H2 by lia. exact H2. }
  rewrite G. rewrite Nat.sub_0_r. split; [tauto|]. intro; split; [lia|assumption].
Qed.

Lemma in_vt_writes L ms mi m dim c :
  In (mi, m, dim, c) (vt_writes L ms) <->
  nth_error ms mi = Some m /\ dim < length (cm_vp m) /\ In c (cov_of L (nth dim (cm_vp m) 0)).
Proof.
  unfold vt_writes. rewrite in_flat_map. split.
  - intros [[mi' m'] [Hin H]]. cbn [fst snd] in H. apply in_flat_map in H. destruct H as [dim' [Hd H]].
    apply in_map_iff in H. destruct H as [c' [E Hc]]. inversion E; subst.
    apply in_combine_seq in Hin. apply in_seq in Hd. repeat split; [assumption|lia|exact Hc].
  - intros [Hm [Hd Hc]]. exists (mi, m). split; [now apply in_combine_seq|]. cbn [fst snd].
    apply in_flat_map. exists dim. split; [apply in_seq; lia|]. apply in_map_iff. exists c. split; [reflexivity|exact Hc].
Qed.

Section VTables.
  Variables (L : lattice) (ms : list cmeth) (st : sstate).
  Hypothesis Hso : slots_ok L ms st.

  Let n := ncls L.

  Definition valid_write (w : vwrite) : Prop :=
    let '(mi, m, dim, c) := w in
    nth_error ms mi = Some m /\ dim < length (cm_vp m) /\ In c (cov_of L (nth dim (cm_vp m) 0)).

  Lemma valid_applies mi m dim c : valid_write (mi, m, dim, c) -> applies L ms mi dim c.
  Proof.
    intros [Hm [Hd Hc]]. exists m. split; [assumption|]. exists (nth dim (cm_vp m) 0). split; [|assumption].
    apply nth_error_nth'. assumption.
  Qed.

  Definition entry_ok (vt : list (list (nat * nat * nat))) (w : vwrite) : Prop :=
    let '(mi, m, dim, c) := w in
    nth (slot_of st mi dim - first_of st c) (nth c vt []) (0, 0, 0) = (mi, dim, group_index L m dim c).

  Definition vt_shape (vt : list (list (nat * nat * nat))) : Prop :=
    length vt = n /\ forall z, z < n -> length (nth z vt []) = vlen_of st z.

  Lemma vt0_shape : vt_shape (vt0 L st).
  Proof.
    unfold vt_shape, vt0. rewrite map_length, seq_length. split; [reflexivity|].
    intros z Hz. rewrite (nth_map_seq _ _ _ _ Hz). apply repeat_length.
  Qed.


  Lemma vt_write_shape vt w : vt_shape vt -> vt_shape (vt_write L st vt w).
  Proof.
    intros [Hl Hz]. destruct w as [[[mi m] dim] c]. unfold vt_write.
    destruct (_ <? _); [split; assumption|]. split.
    - rewrite length_upd_nth. exact Hl.
    - intros z Hzn. destruct (Nat.eq_dec c z) as [->|Hne].
      + rewrite nth_upd_nth_eq by lia. rewrite length_set_nth. apply Hz. exact Hzn.
      + rewrite nth_upd_nth_neq by assumption. apply Hz. exact Hzn.
  Qed.

  (* one write establishes its own entry and preserves the entries of the earlier valid writes *)
  Lemma vt_write_entry vt w : vt_shape vt -> valid_write w ->
    entry_ok (vt_write L st vt w) w /\
    forall w', valid_write w' -> entry_ok vt w' -> entry_ok (vt_write L st vt w) w'.
  Proof.
    intros [Hl Hz] Hv. destruct w as [[[mi m] dim] c].
    pose proof (valid_applies _ _ _ _ Hv) as Ha.
    pose proof (so_in_vtbl L ms st Hso mi dim c Ha) as Hin. unfold slot_of, first_of, vlen_of in Hin.
    assert (Hc : c < n).
    { destruct (Nat.lt_ge_cases c n) as [H|H]; [assumption|].
      exfalso. unfold vlen_of in *. rewrite (nth_overflow (s_vlen st)) in Hin by (rewrite (so_len_vlen L ms st Hso); exact H). lia. }
    unfold vt_write.
    destruct (Nat.ltb_spec (nth dim (nth mi (s_slots st) []) 0) (nth c (s_first st) 0)) as [Hlt|Hge]; [lia|].
    split.
    - unfold entry_ok, slot_of, first_of. rewrite nth_upd_nth_eq by lia.
      apply nth_set_nth_eq. rewrite (Hz c Hc). unfold vlen_of. lia.
    - intros [[[mi' m'] dim'] c'] Hv' He. unfold entry_ok in *.
      destruct (Nat.eq_dec c c') as [<-|Hne].
      + rewrite nth_upd_nth_eq by lia.
        destruct (Nat.eq_dec (slot_of st mi dim - first_of st c) (slot_of st mi' dim' - first_of st c)) as [E|NE].
        * (* same cell: same pair by the slot invariant *)
          pose proof (valid_applies _ _ _ _ Hv') as Ha'.
          pose proof (so_in_vtbl L ms st Hso mi' dim' c Ha') as Hin'.
          assert (Es : slot_of st mi dim = slot_of st mi' dim') by (unfold slot_of, first_of in *; lia).
          destruct (so_disjoint L ms st Hso mi dim mi' dim' c Ha Ha' Es) as [-> ->].
          destruct Hv as [Hm _]. destruct Hv' as [Hm' _]. rewrite Hm in Hm'. inversion Hm'; subst m'.
          unfold slot_of, first_of. apply nth_set_nth_eq. rewrite (Hz c Hc). unfold vlen_of. lia.
        * unfold slot_of, first_of in NE. rewrite nth_set_nth_neq by exact NE. exact He.
      + rewrite nth_upd_nth_neq by assumption. exact He.
  Qed.

  Lemma fold_writes_inv : forall ws done vt,
    vt_shape vt -> Forall valid_write done -> Forall valid_write ws -> Forall (entry_ok vt) done ->
    vt_shape (fold_left (vt_write L st) ws vt) /\ Forall (entry_ok (fold_left (vt_write L st) ws vt)) (done ++ ws).
  Proof.
    induction ws as [|w ws IH]; intros done vt Hs Hvd Hvw He; cbn [fold_left].
    - rewrite app_nil_r. auto.
    - inversion Hvw as [|? ? Hw Hws]; subst.
      destruct (vt_write_entry vt w Hs Hw) as [E1 E2].
      specialize (IH (done ++ [w]) (vt_write L st vt w) (vt_write_shape vt w Hs)).
      rewrite <- app_assoc in IH. cbn [app] in IH. apply IH.
      + apply Forall_app. split; [assumption|constructor; [assumption|constructor]].
      + assumption.
      + apply Forall_app. split; [|constructor; [assumption|constructor]].
        rewrite Forall_forall in *. intros w' Hw'. apply E2; auto.
  Qed.

  Theorem write_vtbls_spec :
    vt_shape (write_vtbls L ms st) /\
    forall mi m dim c, nth_error ms mi = Some m -> dim < length (cm_vp m) -> In c (cov_of L (nth dim (cm_vp m) 0)) ->
      nth (slot_of st mi dim - first_of st c) (nth c (write_vtbls L ms st) []) (0, 0, 0) = (mi, dim, group_index L m dim c).
  Proof.
    rewrite write_vtbls_eq.
    assert (Hv : Forall valid_write (vt_writes L ms)).
    { apply Forall_forall. intros [[[mi m] dim] c] H. apply in_vt_writes in H. exact H. }
    destruct (fold_writes_inv (vt_writes L ms) [] (vt0 L st) vt0_shape (Forall_nil _) Hv (Forall_nil _)) as [Hs He].
    split; [exact Hs|]. intros mi m dim c Hm Hd Hc. cbn [app] in He. rewrite Forall_forall in He.
    apply (He (mi, m, dim, c)). apply in_vt_writes. auto.
  Qed.
End VTables.

(* ------------------------------------------------------------------ the image *)

Lemma place_tables_spec : forall mts mi0 off offs img, place_tables mi0 off mts = (offs, img) ->
  length offs = length mts /\
  forall k m t, nth_error mts k = Some (m, t) -> length (cm_vp m) <> 1 ->
    exists pre, nth k offs 0 = off + pre /\ pre + length (t_cells t) <= length img /\
                forall j, j < length (t_cells t) -> nth_error img (pre + j) = Some (word_of_cell (mi0 + k) (nth j (t_cells t) CNi)).
Proof.
  induction mts as [|[m t] mts IH]; intros mi0 off offs img H; cbn [place_tables] in H.
  - inversion H; subst. split; [reflexivity|]. intros [|k] ? ? Hk; discriminate.
  - destruct (Nat.eqb_spec (length (cm_vp m)) 1) as [E1|NE1].
    + destruct (place_tables (S mi0) off mts) as [offs' img'] eqn:E. inversion H; subst. clear H.
      destruct (IH _ _ _ _ E) as [Hl Hk]. split; [cbn [length]; lia|].
      intros [|k] m' t' Hn Hne; cbn [nth_error] in Hn.
      * inversion Hn; subst. contradiction.
      * destruct (Hk k m' t' Hn Hne) as [pre [H1 [H2 H3]]]. exists pre. cbn [nth]. repeat split; [assumption|assumption|].
        intros j Hj. rewrite (H3 j Hj). do 2 f_equal. lia.
    + destruct (place_tables (S mi0) (off + length (map (word_of_cell mi0) (t_cells t))) mts) as [offs' img'] eqn:E.
      inversion H; subst. clear H. rewrite map_length in E.
      destruct (IH _ _ _ _ E) as [Hl Hk]. split; [cbn [length]; lia|].
      intros [|k] m' t' Hn Hne; cbn [nth_error] in Hn.
      * inversion Hn; subst m' t'. exists 0. cbn [nth]. rewrite app_length, map_length. repeat split; [lia|lia|].
        intros j Hj. cbn [Nat.add]. rewrite nth_error_app1 by (rewrite map_length; exact Hj).
        rewrite Nat.add_0_r. rewrite (nth_error_nth' _ (word_of_cell mi0 CNi)) by (rewrite map_length; exact Hj).
        f_equal. apply (nth_map_lt (word_of_cell mi0)). exact Hj.
      * destruct (Hk k m' t' Hn Hne) as [pre [H1 [H2 H3]]]. exists (length (t_cells t) + pre). cbn [nth].
        rewrite app_length, map_length. repeat split; [lia|lia|].
        intros j Hj. rewrite nth_error_app2 by (rewrite map_length; lia). rewrite map_length.
        replace (length (t_cells t) + pre + j - length (t_cells t)) with (pre + j) by lia.
        rewrite (H3 j Hj). do 2 f_equal. lia.
Qed.

Lemma place_vtbls_spec : forall firsts vts off vps img, place_vtbls off firsts vts = (vps, img) -> length firsts = length vts ->
  length vps = length vts /\
  forall z ws, nth_error vts z = Some ws ->
    exists pre, nth z vps 0%Z = (Z.of_nat (off + pre) - Z.of_nat (nth z firsts 0%nat))%Z /\ pre + length ws <= length img /\
                forall j, j < length ws -> nth_error img (pre + j) = Some (nth j ws WJunk).
Proof.
  induction firsts as [|fs firsts IH]; intros vts off vps img H Hlen; destruct vts as [|ws vts]; cbn [length] in Hlen; try discriminate.
  - cbn [place_vtbls] in H. inversion H; subst. split; [reflexivity|]. intros [|z] ? Hz; discriminate.
  - cbn [place_vtbls] in H. destruct (place_vtbls (off + length ws) firsts vts) as [vps' img'] eqn:E. inversion H; subst. clear H.
    destruct (IH vts _ _ _ E ltac:(lia)) as [Hl Hk]. split; [cbn [length]; lia|].
    intros [|z] ws' Hz; cbn [nth_error] in Hz.
    + inversion Hz; subst ws'. exists 0. cbn [nth]. rewrite app_length. repeat split; [f_equal; f_equal; lia|lia|].
      intros j Hj. cbn [Nat.add]. rewrite nth_error_app1 by exact Hj. apply nth_error_nth'. exact Hj.
    + destruct (Hk z ws' Hz) as [pre [H1 [H2 H3]]]. exists (length ws + pre). cbn [nth]. rewrite app_length.
      repeat split; [rewrite H1; f_equal; f_equal; lia|lia|].
      intros j Hj. rewrite nth_error_app2 by lia. replace (length ws + pre + j - length ws) with (pre + j) by lia. apply H3. exact Hj.
Qed.
