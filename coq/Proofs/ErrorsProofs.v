(* ErrorsProofs.v — the resolution_error record of an unresolvable call (C02). *)
From Y2 Require Import Model.Registry Model.Compile Model.Errors Gen.GenCoreConsts Spec.Dispatch.
From Y2 Require Import Proofs.Interfaces Proofs.ResolveProofs Proofs.CompileProofs Proofs.CorollaryProofs.
From Coq Require Import Lia.
Local Open Scope nat_scope.

Lemma make_error_fields status acts :
  re_status (make_error status acts) = status /\
  re_arity (make_error status acts) = length (virtual_ids acts) /\
  re_types (make_error status acts) = firstn max_types (virtual_ids acts).
Proof.
  unfold make_error. cbn [re_status re_arity re_types]. repeat split.
  destruct (Nat.le_ge_cases (length (virtual_ids acts)) max_types) as [H|H].
  - rewrite Nat.min_l by exact H. rewrite !firstn_all2 by lia. reflexivity.
  - rewrite Nat.min_r by exact H. reflexivity.
Qed.

(* the ids of the virtual actuals, in order, whatever non-virtual parameters sit before, between and after *)
Fixpoint acts_of_ids (shape : list bool) (ids : list tid) : list (option tid) :=
  match shape with
  | [] => []
  | true :: shape' => match ids with t :: ids' => Some t :: acts_of_ids shape' ids' | [] => [] end
  | false :: shape' => None :: acts_of_ids shape' ids
  end.

Lemma virtual_ids_acts shape : forall ids, length (filter (fun b : bool => b) shape) = length ids ->
  virtual_ids (acts_of_ids shape ids) = ids.
Proof.
  induction shape as [|b shape IH]; intros ids H; cbn [acts_of_ids].
  - destruct ids; [reflexivity|discriminate].
  - destruct b; cbn [filter] in H.
    + destruct ids as [|t ids]; [discriminate|]. cbn [virtual_ids flat_map app]. f_equal. apply IH. cbn [length] in H. lia.
    + cbn [virtual_ids flat_map app]. apply IH. exact H.
Qed.

(* an unresolvable legal call: no definition runs; the handler receives the status telling the two cases apart, the
   number of virtual parameters as arity, and the dynamic type ids of exactly the virtual arguments, in order
   (truncated at max_types as the record's array is); a throwing handler's exception reaches the caller, a
   returning handler is followed by abort *)
Theorem error_record R stale C mi m args h ids :
  wf_registry R -> compile_with stale R = Ok C -> nth_error (r_methods R) mi = Some m -> legal R m args ->
  length ids = length (m_vp m) ->
  exists cs, map (key (o_lat C)) cs = args /\
    let r := resolve C mi (actuals_of C (m_shape m) cs) in
    let acts := acts_of_ids (m_shape m) ids in
    let o := finish_call h acts r in
    match spec_dispatch R (meth_defs R m) args with
    | Run i => o = Ran mi i
    | NoDefinition =>
        (exists e, (o = Exception e /\ h = Throws \/ o = Abort e /\ h = Returns) /\
                   re_status e = status_no_definition /\ re_arity e = length (m_vp m) /\ re_types e = firstn max_types ids)
    | Ambiguous =>
        (exists e, (o = Exception e /\ h = Throws \/ o = Abort e /\ h = Returns) /\
                   re_status e = status_ambiguous /\ re_arity e = length (m_vp m) /\ re_types e = firstn max_types ids)
    end.
Proof.
  intros Hwf HC Hm Hl Hids.
  destruct (dispatch_correct R stale C mi m args Hwf HC Hm Hl) as [cs [E Hr]].
  exists cs. split; [exact E|]. cbv zeta. rewrite Hr. unfold word_of_outcome.
  assert (Hshape : length (filter (fun b : bool => b) (m_shape m)) = length ids).
  { destruct Hwf as [_ [_ Hmo]]. destruct (Hmo m (nth_error_In _ _ Hm)) as [_ [_ [Hs _]]]. lia. }
  destruct (spec_dispatch R (meth_defs R m) args) as [i| |]; cbn [cell_of_outcome word_of_cell finish_call].
  - reflexivity.
  - destruct (make_error_fields status_no_definition (acts_of_ids (m_shape m) ids)) as [H1 [H2 H3]].
    rewrite (virtual_ids_acts _ _ Hshape) in H2, H3.
    exists (make_error status_no_definition (acts_of_ids (m_shape m) ids)). split; [destruct h; auto|]. repeat split; try assumption. lia.
  - destruct (make_error_fields status_ambiguous (acts_of_ids (m_shape m) ids)) as [H1 [H2 H3]].
    rewrite (virtual_ids_acts _ _ Hshape) in H2, H3.
    exists (make_error status_ambiguous (acts_of_ids (m_shape m) ids)). split; [destruct h; auto|]. repeat split; try assumption. lia.
Qed.

Print Assumptions error_record.
