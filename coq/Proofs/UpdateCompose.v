(* UpdateCompose.v — the translated stages of `update`, each fed what the previous ones produced, compute the components of
   `compile_with stale R`: for every well-formed registry and every previous content of dispatch_data,
     (1) the seven translated pieces of augment_classes build o_lat C,
     (2) the translated augment_methods builds o_meths C from it,
     (3) the translated assign_slots (over the translated tree / lattice walks and slot body) yields o_slots C and o_first C,
     (4) the translated grouping and entry loops of build_dispatch_tables write o_vtbl C,
     (5) the translated build_dispatch_table and `next` loop give the cells, report counters and nexts of o_tables C,
     (6) the translated install_gv lays them out as o_image C, o_vptr C, o_ss C, o_table_off C,
   and (7) the translated `update` runs those phases in that order.  Every statement is about Gen/*.v as regenerated on this run. *)
From Coq Require Import List Arith NArith Lia Bool ZArith.
From Y2 Require Import Model.Registry Model.Compile Spec.Dispatch Proofs.Interfaces
                       Proofs.CompileProofs Proofs.CorollaryProofs Proofs.SlotsProofs.
From Y2 Require Model.MiniLat Gen.GenLat Proofs.LatCompose.
From Y2 Require Model.MiniMeth Gen.GenMeth Proofs.MethSource.
From Y2 Require Model.MiniSlot Gen.GenSlot Proofs.SlotCompose.
From Y2 Require Model.MiniGrp Gen.GenGrp Proofs.GrpCompose.
From Y2 Require Model.MiniTab Gen.GenTab Proofs.TabSource.
From Y2 Require Model.MiniGv Gen.GenGv Proofs.GvSource.
From Y2 Require Model.MiniPhase Gen.GenPhase Proofs.PhaseSource.
Import ListNotations.
Local Open Scope nat_scope.

Section Stages.
  Variables (R : registry) (stale : list word) (C : compiled).
  Hypothesis Hwf : wf_registry R.
  Hypothesis HC : compile_with stale R = Ok C.

  Lemma stages_char : exists L ms, augment_classes R = Ok L /\ augment_methods R (l_keys L) (r_methods R) = Ok ms /\
    C = install_with stale L ms (assign_slots L ms) /\ lattice_ok R L /\ Forall (meth_wf L) ms.
  Proof.
    destruct (compile_char R stale Hwf) as [L [ms [HL [Hms [HC' [Hlo [Hmw _]]]]]]].
    rewrite HC in HC'. inversion HC' as [EC]. exists L, ms. split; [exact HL|]. split; [exact Hms|]. split; [now symmetry|]. split; [exact Hlo|exact Hmw].
  Qed.

  (* (7) the order of the phases *)
  Theorem stage_phases : MiniPhase.run_update GenPhase.gen_update stale R = Some (Ok C).
  Proof. rewrite PhaseSource.src_update. now rewrite HC. Qed.

  (* (1) the lattice *)
  Theorem stage_lattice : augment_classes R = Ok (o_lat C).
  Proof.
    destruct stages_char as [L [ms [HL [_ [EC _]]]]]. rewrite EC, install_lat. exact HL.
  Qed.

  (* (2) the methods *)
  Theorem stage_methods :
    exists l, MiniMeth.run_methods R (l_keys (o_lat C)) (MiniMeth.ms_body GenMeth.gen_augment_methods) (r_methods R) = Ok l /\
              map fst l = o_meths C.
  Proof.
    destruct stages_char as [L [ms [_ [Hms [EC _]]]]]. rewrite EC, install_lat, install_meths.
    pose proof (MethSource.src_augment_methods R (l_keys L) (r_methods R)) as H.
    destruct (MiniMeth.run_methods R (l_keys L) (MiniMeth.ms_body GenMeth.gen_augment_methods) (r_methods R)) as [l|e].
    - exists l. split; [reflexivity|]. destruct H as [H _]. rewrite Hms in H. now inversion H.
    - rewrite Hms in H. discriminate.
  Qed.

  (* (3) the slots *)
  Theorem stage_slots :
    exists st, MiniSlot.run_assign_slots (o_lat C) (o_meths C) GenSlot.gen_lattice_assign GenSlot.gen_tree_slots
                 GenSlot.gen_lattice_slots GenSlot.gen_assign_slots = Some st /\
               o_slots C = s_slots st /\ o_first C = s_first st /\ slots_ok (o_lat C) (o_meths C) st /\
    (* (4) the v-table entries, for every enumeration order of the unordered sets *)
    forall enum, (forall v x, In x (enum v) <-> In x (cov_of (o_lat C) v)) -> (forall v, NoDup (enum v)) ->
      GrpCompose.run_methods (o_lat C) st enum (combine (seq 0 (length (o_meths C))) (o_meths C))
                  (map (fun c => repeat (0, 0, 0) (nth c (s_vlen st) 0)) (seq 0 (length (l_keys (o_lat C)))))
      = Some (o_vtbl C).
  Proof.
    destruct stages_char as [L [ms [_ [_ [EC [Hlo Hmw]]]]]].
    set (st := assign_slots L ms) in *.
    destruct (install_slots stale L ms st) as [E1 [E2 E3]].
    rewrite EC, install_lat, install_meths, E1, E2, E3. exists st.
    pose proof (assign_slots_ok L ms (lo_wf R L Hlo) Hmw) as Hso.
    split; [apply SlotCompose.src_assign_slots_wf; exact (lo_wf R L Hlo)|].
    split; [reflexivity|]. split; [reflexivity|]. split; [exact Hso|].
    intros enum Hmem Hnd. apply (GrpCompose.src_write_vtbls_all L ms st enum (lo_wf R L Hlo) Hmw Hso Hmem Hnd).
  Qed.

  (* (5) the dispatch tables and the nexts, method by method *)
  Theorem stage_tables : forall mi m, nth_error (o_meths C) mi = Some m ->
    let L := o_lat C in
    let t := nth mi (o_tables C) (mk_ct [] [] [] (mk_rep 0 0 0 0 0 0) []) in
    let groups := map (groups_of L m) (seq 0 (length (cm_vp m))) in
    MiniTab.run_tab L (cm_specs m) GenTab.gen_tab_body (rev groups) (N.ones (N.of_nat (length (cm_specs m)))) true (MiniTab.mk_to [] MiniTab.tc0)
    = Some (MiniTab.mk_to (t_cells t) (MiniTab.mk_tc (rp_amb (t_report t)) (rp_camb (t_report t)) (rp_ni (t_report t)) (rp_cni (t_report t)))) /\
    map (fun sp => MiniTab.run_next L (cm_specs m) sp GenTab.gen_next_body) (cm_specs m) = map Some (t_nexts t).
  Proof.
    intros mi m Hm. cbv zeta.
    destruct stages_char as [L [ms [_ [_ [EC _]]]]].
    rewrite EC in *. rewrite install_lat, install_tables. rewrite install_meths in Hm.
    assert (Et : nth mi (map (build_method L) ms) (mk_ct [] [] [] (mk_rep 0 0 0 0 0 0) []) = build_method L m).
    { apply nth_error_nth. rewrite nth_error_map, Hm. reflexivity. }
    rewrite Et. split; [apply TabSource.src_build_method|apply TabSource.src_nexts].
  Qed.

  (* (6) the layout in dispatch_data *)
  Theorem stage_install : forall st, o_slots C = s_slots st -> o_first C = s_first st ->
    exists img, MiniGv.run_gv GenGv.gen_install_gv stale (o_meths C) (o_tables C) (s_slots st) (s_first st) (o_vtbl C)
                = Some (MiniGv.mk_gs img (o_ss C) (o_table_off C) (o_vptr C), o_image C).
  Proof.
    intros st' H1 H2. destruct stages_char as [L [ms [_ [_ [EC _]]]]].
    set (st := assign_slots L ms) in *.
    destruct (install_slots stale L ms st) as [E1 [E2 _]].
    rewrite EC in H1, H2. rewrite E1 in H1. rewrite E2 in H2. rewrite <- H1, <- H2. rewrite EC, install_meths.
    pose proof (GvSource.src_install_gv stale L ms st) as H. cbv zeta in H. exact H.
  Qed.
End Stages.

(* From the text to the call: what the translated install_gv leaves in dispatch_data, read by the translated call-time walk with
   the slots_strides the translated install_gv produced, is the word of the definition the documented rule designates. *)
From Y2 Require Model.MiniWalk Gen.GenWalk Proofs.WalkCompose Proofs.ResolveProofs.

Theorem text_to_dispatch R stale C mi m cs kinds checks :
  wf_registry R -> compile_with stale R = Ok C -> nth_error (r_methods R) mi = Some m ->
  Forall (fun c => c < ncls (o_lat C)) cs -> legal R m (map (key (o_lat C)) cs) ->
  forall st, o_slots C = s_slots st -> o_first C = s_first st ->
  exists img ss offs vptrs image,
    MiniGv.run_gv GenGv.gen_install_gv stale (o_meths C) (o_tables C) (s_slots st) (s_first st) (o_vtbl C)
    = Some (MiniGv.mk_gs img ss offs vptrs, image) /\
    let cm := nth mi (o_meths C) (mk_cmeth [] [] [] []) in
    MiniWalk.walk_resolve image (nth mi ss []) (length (cm_vp cm)) None checks GenWalk.gen_walkfns GenWalk.gen_entry
                 (cm_shape cm) (actuals_of C (m_shape m) cs) kinds
    = Some (ResolveProofs.word_of_outcome mi (spec_dispatch R (meth_defs R m) (map (key (o_lat C)) cs))).
Proof.
  intros Hwf HC Hm Hcs Hlegal st H1 H2.
  destruct (stage_install R stale C Hwf HC st H1 H2) as [img E].
  exists img, (o_ss C), (o_table_off C), (o_vptr C), (o_image C). split; [exact E|].
  exact (WalkCompose.src_dispatch R stale C mi m cs kinds checks Hwf HC Hm Hcs Hlegal).
Qed.
