(* CorollaryProofs.v — corollaries of the end-to-end theorems used by the property files:
   error words (C02), next (C03), v-table cells and bounds (C04), the report (C17). *)
From Y2 Require Import Model.Registry Model.Compile Spec.Dispatch.
From Y2 Require Import Proofs.Interfaces Proofs.LatListFacts Proofs.WalkProofs Proofs.BoundsProofs Proofs.InstallProofs Proofs.MethodsProofs Proofs.ResolveProofs Proofs.CompileProofs Proofs.ReportProofs.
From Y2 Require Import Proofs.SpecProofs Proofs.LatticeProofs Proofs.SlotsProofs Proofs.TablesProofs.
From Coq Require Import Lia.
Local Open Scope nat_scope.

(* ---- C02: an unresolvable call reads the method's own error stub, never a definition *)
Theorem error_words R stale C mi m args :
  wf_registry R -> compile_with stale R = Ok C -> nth_error (r_methods R) mi = Some m -> legal R m args ->
  exists cs, map (key (o_lat C)) cs = args /\
    (spec_dispatch R (meth_defs R m) args = NoDefinition -> resolve C mi (actuals_of C (m_shape m) cs) = Ok (WNi mi)) /\
    (spec_dispatch R (meth_defs R m) args = Ambiguous -> resolve C mi (actuals_of C (m_shape m) cs) = Ok (WAmb mi)) /\
    (forall i, resolve C mi (actuals_of C (m_shape m) cs) = Ok (WFn mi i) -> spec_dispatch R (meth_defs R m) args = Run i).
Proof.
  intros Hwf HC Hm Hl. destruct (dispatch_correct R stale C mi m args Hwf HC Hm Hl) as [cs [E Hr]].
  exists cs. split; [exact E|]. rewrite Hr. unfold word_of_outcome.
  repeat split.
  - intros ->. reflexivity.
  - intros ->. reflexivity.
  - intros i H. destruct (spec_dispatch R (meth_defs R m) args); cbn in H; inversion H; reflexivity.
Qed.

(* ---- C03: the next computed by update *)
Lemma install_tables stale L ms st : o_tables (install_with stale L ms st) = map (build_method L) ms.
Proof. unfold install_with. destruct (place_tables _ _ _). destruct (place_vtbls _ _ _). reflexivity. Qed.

Theorem next_correct R stale C mi m i :
  wf_registry R -> compile_with stale R = Ok C -> nth_error (r_methods R) mi = Some m -> i < length (m_defs m) ->
  nth i (t_nexts (nth mi (o_tables C) (mk_ct [] [] [] (mk_rep 0 0 0 0 0 0) []))) CNi
  = cell_of_outcome (spec_next R (meth_defs R m) i).
Proof.
  intros Hwf HC Hm Hi.
  destruct (compile_char R stale Hwf) as [L [ms [_ [_ [HC' [Hlo [Hms [Hlen Hok]]]]]]]].
  rewrite HC in HC'. inversion HC'; subst C. clear HC'. rewrite install_tables.
  destruct (Hok mi m Hm) as [cm [Hcm Hmok]].
  assert (Hcmwf : meth_wf L cm) by (apply (proj1 (Forall_forall _ _) Hms); eapply nth_error_In; eassumption).
  assert (En : nth_error (map (build_method L) ms) mi = Some (build_method L cm)) by (rewrite nth_error_map, Hcm; reflexivity).
  rewrite (nth_error_nth _ _ _ En).
  apply (next_spec R L Hlo (proj1 Hwf) (ancb_correct R) cm m i Hcmwf Hmok).
  destruct Hmok as [_ [Ed _]]. rewrite <- (map_length (map (key L))), Ed. unfold meth_defs. rewrite map_length. exact Hi.
Qed.

(* ---- C04: no two applicable (method, parameter) pairs share a cell in a class; every cell is inside the v-table *)
Lemma install_slots stale L ms st : o_slots (install_with stale L ms st) = s_slots st /\ o_first (install_with stale L ms st) = s_first st /\ o_vtbl (install_with stale L ms st) = write_vtbls L ms st.
Proof. unfold install_with. destruct (place_tables _ _ _). destruct (place_vtbls _ _ _). repeat split. Qed.

Definition c_slot (C : compiled) (mi p : nat) : nat := nth p (nth mi (o_slots C) []) 0.
Definition c_first (C : compiled) (z : nat) : nat := nth z (o_first C) 0.
Definition c_vlen (C : compiled) (z : nat) : nat := length (nth z (o_vtbl C) []).

Theorem cells_disjoint R stale C :
  wf_registry R -> compile_with stale R = Ok C ->
  forall mi p mi' p' z,
    applies (o_lat C) (o_meths C) mi p z -> applies (o_lat C) (o_meths C) mi' p' z ->
    (c_first C z <= c_slot C mi p < c_first C z + c_vlen C z) /\
    (c_slot C mi p = c_slot C mi' p' -> mi = mi' /\ p = p').
Proof.
  intros Hwf HC mi p mi' p' z Ha Ha'.
  destruct (compile_char R stale Hwf) as [L [ms [_ [_ [HC' [Hlo [Hms _]]]]]]].
  rewrite HC in HC'. inversion HC'; subst C. clear HC'. rewrite install_lat, install_meths in *.
  pose proof (assign_slots_ok L ms (lo_wf R L Hlo) Hms) as Hso.
  destruct (install_slots stale L ms (assign_slots L ms)) as [E1 [E2 E3]].
  unfold c_slot, c_first, c_vlen. rewrite E1, E2, E3.
  destruct (write_vtbls_spec L ms _ Hso) as [[Hvl Hvz] _].
  pose proof (so_in_vtbl L ms _ Hso mi p z Ha) as Hin. unfold slot_of, first_of in Hin.
  assert (Hz : z < ncls L).
  { destruct (Nat.lt_ge_cases z (ncls L)) as [H|H]; [assumption|]. exfalso.
    unfold vlen_of in Hin. rewrite (nth_overflow (s_vlen _)) in Hin by (rewrite (so_len_vlen L ms _ Hso); exact H). lia. }
  rewrite (Hvz z Hz). split; [exact Hin|].
  apply (so_disjoint L ms _ Hso mi p mi' p' z Ha Ha').
Qed.

(* every address a legal call reads lies inside dispatch_data *)
Theorem legal_call_reads_in_bounds R stale C mi m cs :
  wf_registry R -> compile_with stale R = Ok C -> nth_error (r_methods R) mi = Some m ->
  Forall (fun c => c < ncls (o_lat C)) cs -> legal R m (map (key (o_lat C)) cs) ->
  let cm := nth mi (o_meths C) (mk_cmeth [] [] [] []) in
  let ss := nth mi (o_ss C) [] in
  if length (cm_vp cm) =? 1
  then exists vp rest, vptrs_of C cs = vp :: rest /\ in_image C (vp + Z.of_nat (nth 0%nat ss 0%nat))%Z
  else Forall (in_image C) (first_reads C (length (cm_vp cm)) ss (vptrs_of C cs)).
Proof.
  intros Hwf HC Hm Hcs Hlegal cm ss.
  pose proof (resolve_correct R stale C mi m cs Hwf HC Hm Hcs Hlegal) as Hr.
  destruct (compile_char R stale Hwf) as [L [ms [_ [_ [HC' [Hlo [Hms [Hlen Hok]]]]]]]].
  assert (EC : C = install_with stale L ms (assign_slots L ms)) by (rewrite HC in HC'; inversion HC'; reflexivity).
  destruct (Hok mi m Hm) as [cm' [Hcm Hmok]].
  assert (Ecm : cm = cm').
  { unfold cm. rewrite EC, install_meths. apply nth_error_nth. exact Hcm. }
  assert (Hcmwf : meth_wf L cm') by (apply (proj1 (Forall_forall _ _) Hms); eapply nth_error_In; eassumption).
  assert (EL : o_lat C = L) by (rewrite EC; apply install_lat).
  rewrite EL in *.
  pose proof (legal_cov R L m cm' cs Hlo Hcmwf Hmok Hcs Hlegal) as Hf.
  assert (Hl : length cs = length (cm_vp cm')) by (symmetry; exact (tg_Forall2_length _ _ _ Hf)).
  destruct Hmok as [Evp [Edefs [Enext Eshape]]]. destruct Hcmwf as [Hne [Hvp [Hspecs [Hnx Hshape]]]].
  assert (Hne' : cs <> []) by (intro; subst cs; destruct (cm_vp cm'); [congruence|discriminate]).
  unfold resolve in Hr. fold cm in Hr. fold ss in Hr. rewrite Ecm in *. rewrite <- Eshape in Hr.
  destruct (Nat.eqb_spec (length (cm_vp cm')) 1) as [E1|NE1].
  - rewrite resolve_uni_walk in Hr by (unfold vcount; try lia; assumption).
    eapply walk_uni_in_bounds. exact Hr.
  - rewrite resolve_multi_first_walk in Hr; [|unfold vcount; lia|assumption|destruct cs as [|? [|? ?]]; cbn [length] in *; try congruence; lia].
    eapply walk_first_in_bounds. exact Hr.
Qed.

Print Assumptions error_words.
Print Assumptions next_correct.
Print Assumptions cells_disjoint.
Print Assumptions legal_call_reads_in_bounds.
