(* TablesSem.v — (T2) the semantic link: what build_method computes on class indexes is what
   Spec/Dispatch.v says on class keys. *)
From Coq Require Import List Arith NArith Lia Bool Relations.
From Y2 Require Import Model.Registry Model.Compile Spec.Dispatch Proofs.Interfaces Proofs.TablesGeneric.
Import ListNotations.
Local Open Scope nat_scope.

Section Sem.
  Variable R : registry.
  Variable L : lattice.
  Hypothesis Hlo : lattice_ok R L.
  Hypothesis Hacy : acyclic R.
  Hypothesis Hancb : forall b d, ancb R b d = true <-> anc R b d.

  Let lt_ncls := fun c => c < ncls L.

  (* d is covariant with c iff c's class is d's class or one of its ancestors *)
  Lemma cov_anc c d : c < ncls L -> d < ncls L ->
    (memn d (cov_of L c) = true <-> anc R (key L c) (key L d)).
  Proof.
    intros Hc Hd. rewrite tg_memn_In, (lw_cov L (lo_wf R L Hlo) c d Hc). split.
    - intros [_ [->|H]]; [apply rt_refl|].
      apply (lo_tb R L Hlo d c Hd Hc) in H. tauto.
    - intro H. split; [assumption|]. destruct (Nat.eq_dec d c) as [->|Hne]; [now left|right].
      apply (lo_tb R L Hlo d c Hd Hc). split; [congruence|assumption].
  Qed.

  Lemma key_inj a b : a < ncls L -> b < ncls L -> key L a = key L b -> a = b.
  Proof.
    intros Ha Hb E.
    apply (proj1 (NoDup_nth (l_keys L) 0%N) (lo_keys_nodup R L Hlo)); assumption.
  Qed.

  Lemma key_eqb a b : a < ncls L -> b < ncls L -> N.eqb (key L a) (key L b) = Nat.eqb a b.
  Proof.
    intros Ha Hb. destruct (Nat.eqb_spec a b) as [->|Hne]; [apply N.eqb_refl|].
    apply N.eqb_neq. intro E. apply Hne. now apply key_inj.
  Qed.

  Lemma ancb_cov p c : p < ncls L -> c < ncls L -> ancb R (key L p) (key L c) = memn c (cov_of L p).
  Proof. intros Hp Hc. apply tg_bool_eq_iff. rewrite Hancb, cov_anc by assumption. tauto. Qed.

  Lemma cov_refl c : c < ncls L -> memn c (cov_of L c) = true.
  Proof. intro Hc. apply cov_anc; [assumption|assumption|apply rt_refl]. Qed.

  Lemma cov_antisym x y : x < ncls L -> y < ncls L ->
    memn x (cov_of L y) = true -> memn y (cov_of L x) = true -> x = y.
  Proof.
    intros Hx Hy H1 H2. apply cov_anc in H1; [|assumption|assumption]. apply cov_anc in H2; [|assumption|assumption].
    apply key_inj; [assumption|assumption|]. now apply Hacy.
  Qed.

  (* ---------------------------------------------------------------- applicability *)

  Lemma applicable_ix_spec_gen sp : forall cs, Forall lt_ncls sp -> Forall lt_ncls cs ->
    applicable_ix L sp cs = applicableb R (map (key L) sp) (map (key L) cs).
  Proof.
    unfold applicable_ix.
    induction sp as [|p sp IH]; intros [|c cs] Hsp Hcs; try reflexivity.
    inversion Hsp as [|? ? Hp Hsp']; subst. inversion Hcs as [|? ? Hc Hcs']; subst.
    cbn [combine forallb length map applicableb]. change (Nat.eqb (S (length sp)) (S (length cs))) with (Nat.eqb (length sp) (length cs)).
    rewrite <- IH by assumption. rewrite ancb_cov by assumption. now rewrite andb_assoc.
  Qed.

  Theorem applicable_ix_spec sp cs : Forall (fun c => c < ncls L) sp -> Forall (fun c => c < ncls L) cs ->
    length sp = length cs ->
    applicable_ix L sp cs = applicableb R (map (key L) sp) (map (key L) cs).
  Proof. intros Hsp Hcs _. now apply applicable_ix_spec_gen. Qed.

  (* ---------------------------------------------------------------- the ordering of definitions *)

  Lemma is_more_specific_loop a : forall b r, Forall lt_ncls a -> Forall lt_ncls b -> length a = length b ->
    is_more_specific L a b r
    = nowhere_base R (map (key L) a) (map (key L) b) && (r || somewhere_derived R (map (key L) a) (map (key L) b)).
  Proof.
    induction a as [|x a IH]; intros [|y b] r Ha Hb Hl; cbn in Hl; try discriminate.
    - cbn. now rewrite orb_false_r.
    - inversion Ha as [|? ? Hx Ha']; subst. inversion Hb as [|? ? Hy Hb']; subst.
      cbn [is_more_specific map nowhere_base somewhere_derived]. unfold proper_baseb.
      change (nth y (l_cov L) []) with (cov_of L y). change (nth x (l_cov L) []) with (cov_of L x).
      rewrite !key_eqb, !ancb_cov by assumption.
      destruct (Nat.eqb_spec x y) as [->|Hne].
      + rewrite Nat.eqb_refl. cbn [negb andb orb]. apply IH; [assumption|assumption|lia].
      + assert (Nat.eqb y x = false) as -> by (apply Nat.eqb_neq; congruence).
        cbn [negb andb]. destruct (memn x (cov_of L y)) eqn:Eyx.
        * rewrite IH by (assumption || lia). destruct (memn y (cov_of L x)) eqn:Exy.
          -- exfalso. apply Hne. now apply cov_antisym.
          -- cbn. now rewrite orb_true_r.
        * destruct (memn y (cov_of L x)) eqn:Exy; cbn; [reflexivity|].
          apply IH; [assumption|assumption|lia].
  Qed.

  (* compiler::is_more_specific is the documented ordering *)
  Theorem is_more_specific_spec a b : Forall (fun c => c < ncls L) a -> Forall (fun c => c < ncls L) b ->
    length a = length b ->
    is_more_specific L a b false = more_specificb R (map (key L) a) (map (key L) b).
  Proof. intros Ha Hb Hl. rewrite is_more_specific_loop by assumption. reflexivity. Qed.

  Lemma is_base_loop a : forall b r, Forall lt_ncls a -> Forall lt_ncls b -> length a = length b ->
    is_base L a b r
    = applicableb R (map (key L) a) (map (key L) b) && (r || negb (defn_eqb (map (key L) a) (map (key L) b))).
  Proof.
    induction a as [|x a IH]; intros [|y b] r Ha Hb Hl; cbn in Hl; try discriminate.
    - cbn. now rewrite orb_false_r.
    - inversion Ha as [|? ? Hx Ha']; subst. inversion Hb as [|? ? Hy Hb']; subst.
      cbn [is_base map applicableb defn_eqb].
      change (nth x (l_cov L) []) with (cov_of L x).
      rewrite key_eqb, ancb_cov by assumption.
      destruct (Nat.eqb_spec x y) as [->|Hne].
      + rewrite cov_refl by assumption. cbn [andb]. apply IH; [assumption|assumption|lia].
      + destruct (memn y (cov_of L x)) eqn:Exy; [|reflexivity].
        rewrite IH by (assumption || lia). cbn. now rewrite orb_true_r.
  Qed.

  (* compiler::is_base: at every position the same class or an ancestor, and different somewhere *)
  Theorem is_base_spec a b : Forall (fun c => c < ncls L) a -> Forall (fun c => c < ncls L) b ->
    length a = length b ->
    is_base L a b false = strictly_more_generalb R (map (key L) a) (map (key L) b).
  Proof. intros Ha Hb Hl. rewrite is_base_loop by assumption. reflexivity. Qed.

  (* ---------------------------------------------------------------- best *)

  Lemma tables_spec_wf cm i : meth_wf L cm -> i < length (cm_specs cm) ->
    length (nth i (cm_specs cm) []) = length (cm_vp cm) /\ Forall lt_ncls (nth i (cm_specs cm) []).
  Proof.
    intros (_ & _ & Hspecs & _) Hi. rewrite Forall_forall in Hspecs.
    apply Hspecs. apply nth_In. exact Hi.
  Qed.

  Lemma tables_nth_defs specs i : nth i (map (map (key L)) specs) [] = map (key L) (nth i specs []).
  Proof. exact (map_nth (map (key L)) specs [] i). Qed.

  Theorem best_spec : forall cm m cand, meth_wf L cm -> meth_ok R L m cm ->
    (forall i, In i cand -> i < length (cm_specs cm)) ->
    cell_of (best L (cm_specs cm) cand) = cell_of_outcome (spec_dispatch_among R (meth_defs R m) cand).
  Proof.
    intros cm m cand Hwf (_ & Hdefs & _) Hc. rewrite <- Hdefs.
    unfold best, spec_dispatch_among.
    rewrite (tg_find_ext_in _ (dominatesb R (map (map (key L)) (cm_specs cm)) cand)).
    2:{ intros s Hs. unfold dominatesb. apply tg_forallb_ext_in. intros o Ho. f_equal.
        destruct (tables_spec_wf cm s Hwf (Hc _ Hs)) as [Hls Hs'].
        destruct (tables_spec_wf cm o Hwf (Hc _ Ho)) as [Hlo' Ho'].
        rewrite is_more_specific_spec by (assumption || congruence).
        now rewrite !tables_nth_defs. }
    destruct cand as [|c0 cand']; [reflexivity|].
    destruct (find _ (c0 :: cand')) as [i|] eqn:F; [reflexivity|].
    destruct cand' as [|c1 cand']; [|reflexivity].
    exfalso. pose proof (find_none _ _ F c0 (or_introl eq_refl)) as H.
    unfold dominatesb in H. cbn in H. now rewrite Nat.eqb_refl in H.
  Qed.

  Lemma applicable_set_spec cm m cs : meth_wf L cm -> meth_ok R L m cm ->
    length cs = length (cm_vp cm) -> Forall (fun c => c < ncls L) cs ->
    applicable_set L cm cs = applicable_idx R (meth_defs R m) (map (key L) cs).
  Proof.
    intros Hwf (_ & Hdefs & _) Hl Hcs. rewrite <- Hdefs. unfold applicable_set, applicable_idx.
    rewrite map_length. apply filter_ext_in. intros i Hi. apply in_seq in Hi.
    destruct (tables_spec_wf cm i Hwf) as [Hli Hi']; [lia|].
    rewrite tables_nth_defs. apply applicable_ix_spec; [assumption|assumption|congruence].
  Qed.

  (* the cell of a tuple of classes is the specified outcome of the call *)
  Theorem dispatch_cell_spec : forall cm m cs, meth_wf L cm -> meth_ok R L m cm ->
    length cs = length (cm_vp cm) -> Forall (fun c => c < ncls L) cs ->
    cell_of (best L (cm_specs cm) (applicable_set L cm cs))
    = cell_of_outcome (spec_dispatch R (meth_defs R m) (map (key L) cs)).
  Proof.
    intros cm m cs Hwf Hok Hl Hcs. unfold spec_dispatch.
    rewrite <- (applicable_set_spec cm m cs Hwf Hok Hl Hcs).
    apply best_spec; [assumption|assumption|].
    intros i Hi. unfold applicable_set in Hi. apply filter_In in Hi. destruct Hi as [Hi _].
    apply in_seq in Hi. lia.
  Qed.

  (* the next of definition i *)
  Theorem next_spec : forall cm m i, meth_wf L cm -> meth_ok R L m cm -> i < length (cm_specs cm) ->
    nth i (t_nexts (build_method L cm)) CNi = cell_of_outcome (spec_next R (meth_defs R m) i).
  Proof.
    intros cm m i Hwf Hok Hi.
    change (t_nexts (build_method L cm))
      with (map (fun sp => cell_of (best L (cm_specs cm)
                                      (filter (fun o => is_base L (nth o (cm_specs cm) []) sp false)
                                              (seq 0 (length (cm_specs cm))))))
                (cm_specs cm)).
    rewrite (nth_indep _ CNi ((fun sp => cell_of (best L (cm_specs cm)
                                      (filter (fun o => is_base L (nth o (cm_specs cm) []) sp false)
                                              (seq 0 (length (cm_specs cm)))))) []))
      by (now rewrite map_length).
    rewrite (map_nth (fun sp => cell_of (best L (cm_specs cm)
                                      (filter (fun o => is_base L (nth o (cm_specs cm) []) sp false)
                                              (seq 0 (length (cm_specs cm))))))).
    unfold spec_next. pose proof Hok as (_ & Hdefs & _).
    assert (filter (fun j => strictly_more_generalb R (nth j (meth_defs R m) []) (nth i (meth_defs R m) []))
                   (seq 0 (length (meth_defs R m)))
            = filter (fun o => is_base L (nth o (cm_specs cm) []) (nth i (cm_specs cm) []) false)
                     (seq 0 (length (cm_specs cm)))) as ->.
    { rewrite <- Hdefs, map_length. apply filter_ext_in. intros o Ho. apply in_seq in Ho.
      destruct (tables_spec_wf cm i Hwf Hi) as [Hli Hi'].
      destruct (tables_spec_wf cm o Hwf) as [Hlo' Ho']; [lia|].
      rewrite !tables_nth_defs. symmetry. apply is_base_spec; [assumption|assumption|congruence]. }
    apply best_spec; [assumption|assumption|].
    intros o Ho. apply filter_In in Ho. destruct Ho as [Ho _]. apply in_seq in Ho. lia.
  Qed.
End Sem.
