(** Extraction of the C11 model for ocaml/thunk_driver.ml *)
From Coq Require Import List NArith.
From Y2 Require Import Model.Subobject Model.Thunk.
Require Import ExtrOcamlBasic.

Extraction "../build/extract/extractthunk.ml"
  default_fuel wf_hier subobjects count_class
  kind_of_nat expr_of_nat ncat_of_nat route_of_nat rkind_of_nat
  predict_varg thunk_narg narg_same_object thunk_return
  intrinsic_moves intrinsic_copies fwd_steps by_value.
