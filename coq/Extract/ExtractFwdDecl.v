(* Extraction of the C19 model and spec functions for ocaml/fwddecl_driver.ml (ExtrOcamlBasic only: characters
   stay the 8-bit constructor `Ascii`, the driver converts by hand). *)
From Coq Require Import List Ascii String.
From Y2 Require Import Model.FwdDecl Spec.FwdDeclSpec.
Require Import ExtrOcamlBasic.
Extraction "../build/extract/extractfwddecl.ml"
  write_forward_declarations scan parse show class_names wf_ty qname_text valid_qname.
