(* Extraction of the executable model and of the computable specification (ExtrOcamlBasic only). *)
From Coq Require Import ExtrOcamlBasic.
From Y2 Require Import Model.Registry Model.Compile Spec.Dispatch.
Extraction Language OCaml.
Extraction "../build/extract/extractcore.ml"
  compile resolve actuals_of class_of
  spec_dispatch spec_next meth_defs meth_vp ancb registeredb legalb tuples all_classes spec_flag
  is_nodef is_ambig is_abstract proj.
