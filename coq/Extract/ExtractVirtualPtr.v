(** Extraction of the C09 / C15-routes model for ocaml/virtualptr_driver.ml *)
From Coq Require Import List NArith.
From Y2 Require Import Model.VirtualPtr.
Require Import ExtrOcamlBasic.

Extraction "../build/extract/extractvirtualptr.ml"
  mk_config mk_arg supported runtime_checks init_state update
  ctor final_ make_virtual_shared conv copy move cast moved_from owners_added
  deref get dynamic_vptr outcome reads build.
