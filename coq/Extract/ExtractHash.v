(* Extraction of the executable model of the type-id hash (property C05).
   ExtrOcamlBasic only: N, positive, nat stay Coq's inductive types. *)
From Coq Require Import NArith List.
From Coq Require Import ExtrOcamlBasic.
From Y2 Require Import Model.Hash.

Extraction "../build/extract/extracthash.ml"
  init_state hash_st first_M hash_initialize publish_vptrs dynamic_vptr checked_lookup lookup
  run_history mk_update sentinel passes N.of_nat N.to_nat.
