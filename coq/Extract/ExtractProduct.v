(* C20 — extraction of the product / use_definitions / aggregate model for ocaml/product_driver.ml *)
From Coq Require Import List Arith.
Require Import ExtrOcamlBasic.
From Y2 Require Import Gen.GenProductConsts Model.Product.

Extraction "../build/extract/extractproduct.ml"
  product product_rec apply_product scenario_first scenario_member defined_by_table
  aggregate leaves shape width_leb depth rank select
  aggregate_threshold aggregate_split_den.
