(* C18 — extraction of the static_list model (concrete pointer machine) and of the abstract list
   semantics. ExtrOcamlBasic only; nat stays Coq's own datatype. *)
From Coq Require Import List Arith.
Require Import ExtrOcamlBasic.
From Y2 Require Import Model.Catalog.

Extraction "../build/extract/extractcatalog.ml"
  empty_st push_pre push_back remove clear iterate size empty step run_from run
  mem remove_elt abs_step legal legal_seq abs_run survives live_pushes remove_case.
