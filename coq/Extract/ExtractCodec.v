(* Extraction of the models of the static-offset generator and of the dispatch-data codec, with the model of
   update they are functions of (ExtrOcamlBasic only). *)
From Coq Require Import ExtrOcamlBasic.
From Y2 Require Import Model.Registry Model.Compile Model.Offsets Model.Codec.
Extraction Language OCaml.
Extraction "../build/extract/extractcodec.ml"
  compile class_of proj
  printed_offsets printed_offsets_legacy debug_check arity_of
  encode decode ctx_of dd_image smallb written tables_len.
