(* C19 — the writer of forward declarations, on the code as TRANSLATED from /repo/include/yorel/yomm2/generator.hpp on this run.

   translators/fwdwrite.py parses generator::write_forward_declarations and lowers it, statement by statement, into the cursor
   language of Model/MiniFwd.v (Gen/GenFwd.v): the scan of the characters the new name shares with the namespaces still open
   (`name_iter == name.end() || *prev_ns_iter != *name_iter`, the right operand evaluated only when the left one is false),
   the loop that closes a brace per `:` left in the old range (two increments on a colon), the rewind to the start of the
   component the names part in (`name_iter[-1] != ':'`), the re-seating of the range on the new name, the loop that opens a
   namespace per component (`std::find` of the next colon, `scope_iter + 2`) and declares the class, and the closing loop after
   the last name.  An iterator dereferenced at, or moved past, the end of what it ranges over is a fault, and so is a loop that
   outlives its fuel.  Here: for EVERY list of names the translated function writes what Model.FwdDecl.write_forward_declarations
   writes - and faults exactly where the model is undefined; composed with C19_writer: for any list of valid qualified names the
   code generator.hpp contains now writes balanced text that parses back to exactly those names.

   Trusted in this tie: the parser and lowering of translators/fwdwrite.py + _minicpp.py (a local that is written and never read
   - ns_last - is dropped); the reading of std::string iterators as cursors; std::set order and uniqueness stay with the
   drivers. *)
From Coq Require Import List String.
Import ListNotations.
From Y2 Require Import Model.FwdDecl Spec.FwdDeclSpec Proofs.FwdDeclProofs Model.MiniFwd Gen.GenFwd Proofs.FwdSource.

Theorem C19_source_writer_is_model : forall names,
  frun gen_fwd_body gen_fwd_final names = write_forward_declarations names.
Proof. exact src_write_forward_declarations. Qed.
Print Assumptions C19_source_writer_is_model.

Theorem C19_source_writer : forall qs : list qname,
  forallb valid_qname qs = true ->
  exists out, frun gen_fwd_body gen_fwd_final (map qname_text qs) = Some out /\ parse out = Some qs.
Proof. intros qs H. rewrite src_write_forward_declarations. now apply writer_correct. Qed.
Print Assumptions C19_source_writer.

(* non-vacuity: namespaces whose names share leading characters at different depths; an ill-formed name makes both undefined *)
Example C19_source_example :
  let ns := map T ["a::b::X"; "a::bc::Y"; "ab::X"; "q"]%string in
  frun gen_fwd_body gen_fwd_final ns
  = Some (T "namespace a {
namespace b {
class X;
}
namespace bc {
class Y;
}
}
namespace ab {
class X;
}
class q;
")
  /\ frun gen_fwd_body gen_fwd_final (map T ["a:"; "a:b"]%string) = None.
Proof. vm_compute. split; reflexivity. Qed.
