(* Property C01 — a call runs the definition more specific than every other applicable one.
   This file holds the property theorems only; each is closed by `exact` of a lemma proved in Proofs/.
   The full statement C01_dispatch (model's resolve on update's tables = specification, for every well-formed
   registry, every legal tuple, every shape) is added below once Proofs/ResolveProofs.v is assembled. *)
From Y2 Require Import Model.Registry Model.Compile Spec.Dispatch Proofs.WalkProofs Proofs.SpecProofs.

(* What "the definition that runs" means: spec_dispatch says Run i exactly when definition i is applicable
   (each of its virtual parameter classes is the argument's class or one of its bases) and more specific than
   every other applicable definition, under the documented ordering. *)
Theorem C01_runs_dominant : forall R defs args i,
  spec_dispatch R defs args = Run i <->
  (i < length defs /\ applicable R (nth i defs []) args /\
   forall j, j < length defs -> j <> i -> applicable R (nth j defs []) args ->
             more_specific R (nth i defs []) (nth j defs [])).
Proof. exact spec_dispatch_Run. Qed.
Print Assumptions C01_runs_dominant.

(* The ancestor test used by the computable specification is the reflexive-transitive closure of the registered
   "is a listed base of" relation. *)
Theorem C01_ancestors_computable : forall R b d, ancb R b d = true <-> anc R b d.
Proof. exact ancb_correct. Qed.
Print Assumptions C01_ancestors_computable.

(* Non-virtual parameters, wherever they are placed and however many, do not influence which word
   method::resolve returns: it is the walk over the virtual arguments' v-table pointers. *)
Theorem C01_nonvirtual_parameters_transparent :
  forall C mi m ss shape shape' cs,
  nth_error (o_meths C) mi = Some m -> nth mi (o_ss C) [] = ss ->
  vcount shape = length cs -> vcount shape' = length cs -> length cs = length (cm_vp m) -> cs <> [] ->
  (if length (cm_vp m) =? 1 then resolve_uni C ss shape (actuals_of C shape cs)
   else resolve_multi_first C (length (cm_vp m)) ss shape (actuals_of C shape cs))
  = (if length (cm_vp m) =? 1 then resolve_uni C ss shape' (actuals_of C shape' cs)
     else resolve_multi_first C (length (cm_vp m)) ss shape' (actuals_of C shape' cs)).
Proof. exact resolve_shape_irrelevant. Qed.
Print Assumptions C01_nonvirtual_parameters_transparent.
