(* Property C01 — a call runs the definition more specific than every other applicable one.
   This file holds the property theorems only; each is closed by `exact` of a lemma proved in Proofs/.

   Reading guide.  R : registry is what the three catalogs hold when update runs (Model/Registry.v).  compile R
   models update (Model/Compile.v, mirrored on detail/compiler.hpp); resolve C mi acts models method::resolve
   (core.hpp) on the installed dispatch data, acts giving for each formal parameter either the v-table pointer of the
   argument's dynamic class (virtual) or nothing (non-virtual).  spec_dispatch (Spec/Dispatch.v) is the documented
   rule.  word_of_outcome mi (Run i) is definition i's thunk, the two error outcomes are the method's two stubs. *)
From Y2 Require Import Model.Registry Model.Compile Spec.Dispatch.
From Y2 Require Import Model.VptrPolicy.
From Y2 Require Import Proofs.Interfaces Proofs.WalkProofs Proofs.SpecProofs Proofs.ResolveProofs Proofs.CompileProofs.
From Y2 Require Import Proofs.LatBases Proofs.VptrPolicyProofs Proofs.PolicyCompose.

(* C01_dispatch: for EVERY well-formed registry (any inheritance graph, any split of the registrations, any methods
   and definitions), every method of it, every placement of virtual and non-virtual parameters (m_shape) and every
   legal tuple of dynamic classes, the word the call path reads from update's tables is the one the documented rule
   designates.  No bound on classes, methods, definitions or arity.  `stale` is whatever Policy::dispatch_data held before
   this update (any earlier history): it has no influence (see C07). `compile R` is `compile_with [] R`. *)
Theorem C01_dispatch : forall R stale C mi m args,
  wf_registry R -> compile_with stale R = Ok C -> nth_error (r_methods R) mi = Some m -> legal R m args ->
  exists cs, map (key (o_lat C)) cs = args /\
             resolve C mi (actuals_of C (m_shape m) cs) = Ok (word_of_outcome mi (spec_dispatch R (meth_defs R m) args)).
Proof. exact dispatch_correct. Qed.
Print Assumptions C01_dispatch.

(* update itself never fails, and never runs out of the model's fuel, on a well-formed registry *)
Theorem C01_update_total : forall R stale, wf_registry R -> exists C, compile_with stale R = Ok C /\ o_fuel_ok C = true.
Proof. exact compile_total. Qed.
Print Assumptions C01_update_total.

(* What "the definition that runs" means: spec_dispatch says Run i exactly when definition i is applicable
   (each of its virtual parameter classes is the argument's class or one of its bases) and more specific than
   every other applicable definition, under the documented ordering. *)
Theorem C01_runs_dominant : forall R defs args i,
  spec_dispatch R defs args = Run i <->
  (i < length defs /\ applicable R (nth i defs []) args /\
   forall j, j < length defs -> j <> i -> applicable R (nth j defs []) args ->
             more_specific R (nth i defs []) (nth j defs [])).
Proof. exact spec_dispatch_Run. Qed.
Print Assumptions C01_runs_dominant.

(* The ancestor test used by the computable specification is the reflexive-transitive closure of the registered
   "is a listed base of" relation. *)
Theorem C01_ancestors_computable : forall R b d, ancb R b d = true <-> anc R b d.
Proof. exact ancb_correct. Qed.
Print Assumptions C01_ancestors_computable.

(* Non-virtual parameters, wherever they are placed and however many, do not influence which word
   method::resolve returns: it is the walk over the virtual arguments' v-table pointers. *)
Theorem C01_nonvirtual_parameters_transparent :
  forall C mi m ss shape shape' cs,
  nth_error (o_meths C) mi = Some m -> nth mi (o_ss C) [] = ss ->
  vcount shape = length cs -> vcount shape' = length cs -> length cs = length (cm_vp m) -> cs <> [] ->
  (if length (cm_vp m) =? 1 then resolve_uni C ss shape (actuals_of C shape cs)
   else resolve_multi_first C (length (cm_vp m)) ss shape (actuals_of C shape cs))
  = (if length (cm_vp m) =? 1 then resolve_uni C ss shape' (actuals_of C shape' cs)
     else resolve_multi_first C (length (cm_vp m)) ss shape' (actuals_of C shape' cs)).
Proof. exact resolve_shape_irrelevant. Qed.
Print Assumptions C01_nonvirtual_parameters_transparent.

(* ---- policy configurations: how an argument's dynamic type id becomes the v-table pointer C01_dispatch starts from.
   The classes update publishes (published_classes: class index with the ids collected for it) never share an id; hence
   with an unhashed v-table pointer vector and with a v-table pointer map every registered id is mapped to its own
   class's v-table pointer, whatever the containers held before.  The hashed vector (fast / checked perfect hash) is
   property C05 (C05_dynamic_vptr); direct / indirect v-table pointers inside a virtual_ptr are property C09. *)
Theorem C01_published_ids_disjoint : forall R stale C, compile_with stale R = Ok C -> NoDup (class_keys R) ->
  ids_disjoint (published_classes C).
Proof. exact published_ids_disjoint. Qed.
Print Assumptions C01_published_ids_disjoint.

Theorem C01_class_keys_nodup : forall R, NoDup (class_keys R).
Proof. exact class_keys_NoDup. Qed.
Print Assumptions C01_class_keys_nodup.

Theorem C01_lookup_vector : forall cs old, ids_disjoint cs ->
  forall c t, In c cs -> In t (pc_ids c) -> vec_lookup (vec_publish cs old) t = Some (pc_vptr c).
Proof. exact vec_lookup_registered. Qed.
Print Assumptions C01_lookup_vector.

Theorem C01_lookup_map : forall cs old, ids_disjoint cs ->
  forall c t, In c cs -> In t (pc_ids c) -> map_lookup (map_publish cs old) t = Some (pc_vptr c).
Proof. exact map_lookup_registered. Qed.
Print Assumptions C01_lookup_map.

(* Non-vacuity: the registry of probe P1 (a diamond-with-a-tail lattice, a two-parameter method with a non-virtual
   parameter between the virtual ones, three definitions) is compiled, and calls resolve as the rule says
   (classes are designated by their index in update's class table: id 3 is index 2, and so on). *)
Definition ex_R : registry :=
  mk_reg [mk_class 1 [1] false; mk_class 2 [2;1] false; mk_class 3 [3;2;1] false; mk_class 4 [4;1] false;
          mk_class 5 [5;3;4;2;1] false; mk_class 6 [6] false; mk_class 7 [7;6] false; mk_class 8 [8;7;6] false]%N
         [mk_meth [1;6]%N [mk_def [2;8]%N true; mk_def [4;7]%N true; mk_def [3;6]%N true] [true; false; true]] [].
Example C01_example :
  match compile ex_R with
  | Ok C => resolve C 0 (actuals_of C [true; false; true] [2; 6]) = Ok (WFn 0 2) /\
            resolve C 0 (actuals_of C [true; false; true] [3; 6]) = Ok (WFn 0 1) /\
            resolve C 0 (actuals_of C [true; false; true] [3; 5]) = Ok (WNi 0) /\
            resolve C 0 (actuals_of C [true; false; true] [4; 7]) = Ok (WAmb 0)
  | Err _ => False
  end.
Proof. vm_compute. repeat split. Qed.
