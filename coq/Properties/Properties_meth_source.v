(* C01 / C15 — augment_methods, on the code as TRANSLATED from /repo/include/yorel/yomm2/detail/compiler.hpp on this run.

   translators/augmeth.py parses compiler<Policy>::augment_methods and lowers it into the language of Model/MiniMeth.v
   (Gen/GenMeth.v): the loop over Policy::methods with meth_iter in lockstep, for the method and then for each of its
   definitions (spec_iter in lockstep) the loop over the type ids of the virtual parameters - lookup of the class, the
   unknown_class_error and abort when there is none (inline, or through a local lambda with that body), push of the class -,
   the indexes of the two pseudo-definitions, the position index of every definition, and the loop that fills used_by_vp
   (both spellings).  Statements that only copy a pointer or a size are dropped from an explicit list.  Here: the translation
   computes Model.Compile.augment_methods - the classes C01's tables are built over - and, when an id is not registered,
   reports exactly the first such id in the code's order (C15: update-time diagnosis); the pseudo-definitions get the
   indexes nspecs (ambiguous) and nspecs + 1 (not implemented) that the codec of C13 relies on; used_by_vp is the model's.

   Trusted in this tie: the parser and lowering of translators/augmeth.py + _minicpp.py (in particular the list of dropped
   statements); class_map[Policy::type_index(id)] is read as Model.Registry.class_of. *)
From Coq Require Import List NArith.
Import ListNotations.
From Y2 Require Import Model.Registry Model.Compile Model.MiniMeth Gen.GenMeth Proofs.MethSource.

Theorem C01_source_augment_methods : forall R keys ms,
  match run_methods R keys (ms_body gen_augment_methods) ms with
  | Ok l => augment_methods R keys ms = Ok (map fst l) /\
            Forall2 (fun m x => snd x = (Some (length (m_defs m)), Some (length (m_defs m) + 1), seq 0 (length (m_defs m)))) ms l
  | Err e => augment_methods R keys ms = Err e
  end.
Proof. exact src_augment_methods. Qed.
Print Assumptions C01_source_augment_methods.

Theorem C01_source_used_by_vp : forall ms c, run_used_by (ms_used_by gen_augment_methods) ms c = used_by_vp ms c.
Proof. exact src_used_by. Qed.
Print Assumptions C01_source_used_by_vp.

(* non-vacuity: a method with two definitions resolves; with an unregistered id in the second definition the translated code
   reports that id *)
Example ex_meth :
  let R := mk_reg [mk_class 1 [1] false; mk_class 2 [2; 1] false]%N [] [] in
  let keys := class_keys R in
  run_methods R keys (ms_body gen_augment_methods) [mk_meth [1]%N [mk_def [2]%N true; mk_def [1]%N false] [true]]
  = Ok [(mk_cmeth [0] [[1]; [0]] [true; false] [true], (Some 2, Some 3, [0; 1]))] /\
  run_methods R keys (ms_body gen_augment_methods) [mk_meth [1]%N [mk_def [2]%N true; mk_def [7]%N false] [true]] = Err (UnknownClass 7%N).
Proof. vm_compute. split; reflexivity. Qed.
