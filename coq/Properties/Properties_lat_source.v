(* C06 / C08 — the first three loops of augment_classes, on the code as TRANSLATED from
   /repo/include/yorel/yomm2/detail/compiler.hpp on this run.

   translators/lattice.py parses compiler<Policy>::augment_classes and lowers its loops into the language of
   Model/MiniLat.v (Gen/GenLat.v):
     gen_collect : the body of the first loop over Policy::classes - the class_ of the record's type_index is looked up in
                   class_map, created (emplace_back, is_abstract copied) when there is none, and the record's id is added
                   to its type_ids unless it is there already;
     gen_bases   : the body of the second loop - for every listed base the class_ is looked up, an id no class has is
                   reported as unknown_class_error and update aborts, the class itself is dropped, the others are appended
                   to transitive_bases;
     gen_closure : the body of `for (bool changed = true; changed;) { changed = false; ... }` - bases of bases are added
                   until a round learns nothing.
   Here: run on any registry, the translation builds exactly Model.Compile's class table (class_keys / class_infos /
   class_of), the same base lists or the same error as collect_bases, and the same closed table as closure - the `changed`
   flag is set exactly when the model's comparison of two successive tables differs.  These are the inputs of everything
   C06 (registration order) and C08 (split registrations) prove about the lattice.

     gen_dedup   : `std::size_t mark = ++class_mark;` and the loop that, with a fresh mark per class, keeps the first
                   occurrence of every base and records the weight (the number of proper bases);
     gen_direct  : the loop that sorts the bases by decreasing weight and finds the direct ones with a marking pass (a base
                   already marked by an earlier, heavier base is an indirect one);
     gen_derived : the loop that appends every class to direct_derived of each of its direct bases.
   C06_source_lattice_back: from any table whose entries are class indexes, the three loops leave exactly Model.Compile's
   transitive_bases (deduplicated, sorted), direct_bases and direct_derived - the marks are shown to stand for the model's
   `seen` / `marked` lists because every class draws a mark larger than any stored one.  std::sort is read as the model's
   stable insertion sort (its comparison `a->weight > b->weight` is matched by the translator); calculate_covariant_classes
   is translated too (gen_covariant): the C++ function is a depth-first walk over direct_derived that does not revisit a class
   whose set is already non-empty, the model recomputes on fuel; C04_source_covariant: they agree, and the walk terminates
   within depth n + 1, whenever direct_derived has no cycle (a rank decreases along it: for the lattices update builds, the
   number of bases grows from a class to its derived classes).

   Trusted in this tie: the parser and lowering of translators/lattice.py + _minicpp.py (the one dropped statement is the copy
   of static_vptr); class_map is an association list read through Policy::type_index = Model.Registry.proj. *)
From Coq Require Import List NArith.
Import ListNotations.
From Y2 Require Import Model.Registry Model.Compile Spec.Dispatch Model.MiniLat Gen.GenLat Proofs.LatSource Proofs.CovSource
                       Proofs.LatticeProofs Proofs.LatCompose.

Theorem C08_source_lattice_front : forall R,
  let keys := class_keys R in
  let n := length keys in
  (exists m, run_collect (proj R) gen_collect (r_classes R) [] [] = Some (m, class_infos R keys)
             /\ forall t, assocN (proj R t) m = class_of R keys t) /\
  match run_bases (class_of R keys) gen_bases (r_classes R) (repeat [] n) with
  | Ok tb0 => collect_bases R keys (r_classes R) (repeat [] n) = Ok tb0 /\
              run_closure (S (n * n)) gen_closure tb0 = closure (S (n * n)) tb0
  | Err e => collect_bases R keys (r_classes R) (repeat [] n) = Err e
  end.
Proof. exact src_lattice_front. Qed.
Print Assumptions C08_source_lattice_front.

(* the closure loop alone, on any table in which no class lists itself *)
Theorem C06_source_closure : forall fuel tb, (forall c, ~ In c (nth c tb [])) ->
  run_closure fuel gen_closure tb = closure fuel tb.
Proof. exact src_closure. Qed.
Print Assumptions C06_source_closure.

Theorem C06_source_lattice_back : forall tb1 n marks W0 cm M loc,
  length tb1 = n -> length W0 = n -> (length marks = n /\ forall k, nth k marks 0 <= cm) ->
  (forall c y, In y (nth c tb1 []) -> y < n) ->
  let tb2 := map (fun l => dedupn l []) tb1 in
  let w := fun c => length (nth c tb2 []) in
  let tb3 := map (sort_by_weight w) tb2 in
  let direct := map (direct_of tb2) tb3 in
  let derived := map (derived_of direct) (seq 0 n) in
  exists s1 s2 s3,
    mk_exec gen_dedup env0 (mk_mk tb1 (repeat [] n) (repeat [] n) marks W0 cm M loc) = Some s1 /\
    mk_exec gen_direct env0 s1 = Some s2 /\
    mk_exec gen_derived env0 s2 = Some s3 /\
    m_tb s3 = tb3 /\ m_dir s3 = direct /\ m_der s3 = derived.
Proof. exact src_lattice_back. Qed.
Print Assumptions C06_source_lattice_back.

Theorem C04_source_covariant : forall derived n rank,
  (forall c d, In d (nth c derived []) -> rank d < rank c) -> (forall c d, In d (nth c derived []) -> d < n) -> (forall c, rank c <= n) ->
  cv_all (S n) gen_covariant derived (seq 0 n) (repeat [] n) = Some (map (covariant n derived) (seq 0 n)).
Proof. exact src_covariant. Qed.
Print Assumptions C04_source_covariant.

(* all of it, on every registry whose inheritance graph is acyclic and whose listed bases are registered: the seven translated
   pieces, run one after the other as augment_classes runs them, build the lattice Model.Compile.augment_classes returns -
   the side conditions of the theorems above (no class lists itself; entries are class indexes; direct_derived has no cycle)
   are discharged from the lattice proofs *)
Theorem C06_source_augment_classes : forall R, acyclic R -> bases_registered R ->
  let keys := class_keys R in
  let n := length keys in
  exists tb0 tb1,
    let L := lattice_from R (map (fun l => dedupn l []) tb1) in
    augment_classes R = Ok L /\
    (exists m, run_collect (proj R) gen_collect (r_classes R) [] [] = Some (m, l_info L)
               /\ forall t, assocN (proj R t) m = class_of R keys t) /\
    run_bases (class_of R keys) gen_bases (r_classes R) (repeat [] n) = Ok tb0 /\
    run_closure (S (n * n)) gen_closure tb0 = Ok tb1 /\
    forall marks W0 cm M loc, length W0 = n -> (length marks = n /\ forall k, nth k marks 0 <= cm) ->
      exists s1 s2 s3,
        mk_exec gen_dedup env0 (mk_mk tb1 (repeat [] n) (repeat [] n) marks W0 cm M loc) = Some s1 /\
        mk_exec gen_direct env0 s1 = Some s2 /\
        mk_exec gen_derived env0 s2 = Some s3 /\
        m_tb s3 = l_tb L /\ m_dir s3 = l_direct L /\ m_der s3 = l_derived L /\
        cv_all (S n) gen_covariant (m_der s3) (seq 0 n) (repeat [] n) = Some (l_cov L).
Proof. exact src_augment_classes. Qed.
Print Assumptions C06_source_augment_classes.

(* non-vacuity: the diamond's direct_derived table; rank = longest path downwards *)
Example ex_cov :
  let derived := [[]; [0]; [0]; [1; 2]] in
  cv_all 5 gen_covariant derived (seq 0 4) (repeat [] 4) = Some [[0]; [0; 1]; [0; 2]; [0; 1; 2; 3]] /\
  (forall c d, In d (nth c derived []) -> nth d [0; 1; 1; 2] 0 < nth c [0; 1; 1; 2] 0).
Proof.
  split; [vm_compute; reflexivity|].
  intros [|[|[|[|c]]]] d H; cbn in H; try contradiction; repeat (destruct H as [<-|H]; [cbn; auto with arith|]); try contradiction.
  destruct c; contradiction.
Qed.

(* non-vacuity of the second half: the closed table of the diamond below, with a duplicate, goes through the three loops *)
Example ex_lat_back :
  let s0 := mk_mk [[1; 2; 3; 2]; [3]; [3]; []] (repeat [] 4) (repeat [] 4) [0; 0; 0; 0] [0; 0; 0; 0] 0 0 [] in
  match mk_exec gen_dedup env0 s0 with
  | Some s1 => match mk_exec gen_direct env0 s1 with
               | Some s2 => match mk_exec gen_derived env0 s2 with
                            | Some s3 => m_tb s3 = [[1; 2; 3]; [3]; [3]; []] /\ m_weight s3 = [3; 1; 1; 0]
                                         /\ m_dir s3 = [[1; 2]; [3]; [3]; []] /\ m_der s3 = [[]; [0]; [0]; [1; 2]]
                            | None => False
                            end
               | None => False
               end
  | None => False
  end.
Proof. vm_compute. repeat split. Qed.

(* non-vacuity: D : B, C; B : A; C : A registered with direct bases only, derived first, one class through two records with
   two ids (alias 9 -> 4); the translated loops find A among the bases of D; an unregistered base is reported *)
Example ex_lat :
  let R := mk_reg [mk_class 4 [4; 2; 3] false; mk_class 2 [2; 1] false; mk_class 3 [3; 1] false; mk_class 1 [1] true;
                   mk_class 9 [9] false]%N [] [(9, 4)]%N in
  let keys := class_keys R in
  keys = [4; 2; 3; 1]%N /\
  (exists m, run_collect (proj R) gen_collect (r_classes R) [] []
             = Some (m, [mk_cls [4; 9]%N false; mk_cls [2]%N false; mk_cls [3]%N false; mk_cls [1]%N true])) /\
  run_bases (class_of R keys) gen_bases (r_classes R) (repeat [] 4) = Ok [[1; 2]; [3]; [3]; []] /\
  run_closure 17 gen_closure [[1; 2]; [3]; [3]; []] = Ok [[1; 2; 3]; [3]; [3]; []] /\
  run_bases (class_of R keys) gen_bases [mk_class 2 [2; 7] false]%N (repeat [] 4) = Err (UnknownClass 7%N).
Proof. vm_compute. repeat split; try reflexivity. eexists. reflexivity. Qed.
