(* C06 / C08 — the first three loops of augment_classes, on the code as TRANSLATED from
   /repo/include/yorel/yomm2/detail/compiler.hpp on this run.

   translators/lattice.py parses compiler<Policy>::augment_classes and lowers its loops into the language of
   Model/MiniLat.v (Gen/GenLat.v):
     gen_collect : the body of the first loop over Policy::classes - the class_ of the record's type_index is looked up in
                   class_map, created (emplace_back, is_abstract copied) when there is none, and the record's id is added
                   to its type_ids unless it is there already;
     gen_bases   : the body of the second loop - for every listed base the class_ is looked up, an id no class has is
                   reported as unknown_class_error and update aborts, the class itself is dropped, the others are appended
                   to transitive_bases;
     gen_closure : the body of `for (bool changed = true; changed;) { changed = false; ... }` - bases of bases are added
                   until a round learns nothing.
   Here: run on any registry, the translation builds exactly Model.Compile's class table (class_keys / class_infos /
   class_of), the same base lists or the same error as collect_bases, and the same closed table as closure - the `changed`
   flag is set exactly when the model's comparison of two successive tables differs.  These are the inputs of everything
   C06 (registration order) and C08 (split registrations) prove about the lattice.

   Trusted in this tie: the parser and lowering of translators/lattice.py + _minicpp.py (the one dropped statement is the copy
   of static_vptr); class_map is an association list read through Policy::type_index = Model.Registry.proj. *)
From Coq Require Import List NArith.
Import ListNotations.
From Y2 Require Import Model.Registry Model.Compile Model.MiniLat Gen.GenLat Proofs.LatSource.

Theorem C08_source_lattice_front : forall R,
  let keys := class_keys R in
  let n := length keys in
  (exists m, run_collect (proj R) gen_collect (r_classes R) [] [] = Some (m, class_infos R keys)
             /\ forall t, assocN (proj R t) m = class_of R keys t) /\
  match run_bases (class_of R keys) gen_bases (r_classes R) (repeat [] n) with
  | Ok tb0 => collect_bases R keys (r_classes R) (repeat [] n) = Ok tb0 /\
              run_closure (S (n * n)) gen_closure tb0 = closure (S (n * n)) tb0
  | Err e => collect_bases R keys (r_classes R) (repeat [] n) = Err e
  end.
Proof. exact src_lattice_front. Qed.
Print Assumptions C08_source_lattice_front.

(* the closure loop alone, on any table in which no class lists itself *)
Theorem C06_source_closure : forall fuel tb, (forall c, ~ In c (nth c tb [])) ->
  run_closure fuel gen_closure tb = closure fuel tb.
Proof. exact src_closure. Qed.
Print Assumptions C06_source_closure.

(* non-vacuity: D : B, C; B : A; C : A registered with direct bases only, derived first, one class through two records with
   two ids (alias 9 -> 4); the translated loops find A among the bases of D; an unregistered base is reported *)
Example ex_lat :
  let R := mk_reg [mk_class 4 [4; 2; 3] false; mk_class 2 [2; 1] false; mk_class 3 [3; 1] false; mk_class 1 [1] true;
                   mk_class 9 [9] false]%N [] [(9, 4)]%N in
  let keys := class_keys R in
  keys = [4; 2; 3; 1]%N /\
  (exists m, run_collect (proj R) gen_collect (r_classes R) [] []
             = Some (m, [mk_cls [4; 9]%N false; mk_cls [2]%N false; mk_cls [3]%N false; mk_cls [1]%N true])) /\
  run_bases (class_of R keys) gen_bases (r_classes R) (repeat [] 4) = Ok [[1; 2]; [3]; [3]; []] /\
  run_closure 17 gen_closure [[1; 2]; [3]; [3]; []] = Ok [[1; 2; 3]; [3]; [3]; []] /\
  run_bases (class_of R keys) gen_bases [mk_class 2 [2; 7] false]%N (repeat [] 4) = Err (UnknownClass 7%N).
Proof. vm_compute. repeat split; try reflexivity. eexists. reflexivity. Qed.
