(* The call-time table walk, as TRANSLATED from /repo/include/yorel/yomm2/core.hpp on this run
   (serves C01: what a call runs; C04: what a call reads; C12: static offsets).
   translators/walk.py parses method::resolve_uni / resolve_multi_first / resolve_multi_next<VirtualArg> and the entry
   of method::resolve out of /repo/include/yorel/yomm2/core.hpp on every run and lowers them into the language of
   Model/MiniWalk.v (Gen/GenWalk.v).  The interpreter is stuck on every read outside dispatch_data, every read of
   slots_strides outside the array, and every word used at the wrong type (a group index where a row pointer is
   expected ...), so "returns Some w" also says that every read was in bounds and well typed (C04).

   Trusted in this tie: the parser / lowering of translators/walk.py + _minicpp.py (they refuse what they do not
   understand) and the reading of the C++ templates given by MiniWalk.v's interpreter (one instantiation per formal
   parameter; `if constexpr` conditions as static facts of the instantiation). *)
From Coq Require Import List Bool Arith NArith ZArith.
Import ListNotations.
From Y2 Require Import Model.Registry Model.Compile Spec.Dispatch Proofs.Interfaces Proofs.ResolveProofs.
From Y2 Require Import Model.MiniWalk Gen.GenWalk Proofs.WalkSource Proofs.WalkCompose.



(* the translated walk returns a word exactly when the model's resolve does, and the same one: any image, any
   slots_strides array of the installed length, any placement of non-virtual parameters, any mix of virtual_ptr and
   plain arguments (kinds), with or without runtime checks; programs without static offsets *)
Theorem C01_source_walk : forall C mi acts kinds checks,
  let m := nth mi (o_meths C) (mk_cmeth [] [] [] []) in
  let ss := nth mi (o_ss C) [] in
  let arity := length (cm_vp m) in
  1 <= arity -> length ss = 2 * arity - 1 ->
  walk_resolve (o_image C) ss arity None checks gen_walkfns gen_entry (cm_shape m) acts kinds
  = to_opt (resolve C mi acts).
Proof. exact src_resolve. Qed.
Print Assumptions C01_source_walk.

(* end to end on the translated walk: for every well-formed registry, every previous content of dispatch_data, every
   method and every legal tuple of classes, the walk core.hpp contains now, run on the tables update builds, returns
   the thunk of the definition the documented rule designates (or the method's own error stub) *)
Theorem C01_source_dispatch : forall R stale C mi m cs kinds checks,
  wf_registry R -> compile_with stale R = Ok C -> nth_error (r_methods R) mi = Some m ->
  Forall (fun c => c < ncls (o_lat C)) cs -> legal R m (map (key (o_lat C)) cs) ->
  let cm := nth mi (o_meths C) (mk_cmeth [] [] [] []) in
  walk_resolve (o_image C) (nth mi (o_ss C) []) (length (cm_vp cm)) None checks gen_walkfns gen_entry
               (cm_shape cm) (actuals_of C (m_shape m) cs) kinds
  = Some (word_of_outcome mi (spec_dispatch R (meth_defs R m) (map (key (o_lat C)) cs))).
Proof. exact src_dispatch. Qed.
Print Assumptions C01_source_dispatch.


(* C12: a program compiled with static offsets (has_static_offsets<method>) walks exactly like one that reads
   slots_strides at run time, provided the static arrays hold the installed slots and strides; under runtime_checks the
   consistency checks on the path all pass.  (The check rejecting any OTHER static arrays is C12_check, on the model
   of check_static_offset.) *)
Theorem C12_source_static_walk : forall C mi acts kinds checks statics,
  let m := nth mi (o_meths C) (mk_cmeth [] [] [] []) in
  let ss := nth mi (o_ss C) [] in
  let arity := length (cm_vp m) in
  1 <= arity -> length ss = 2 * arity - 1 -> statics_agree arity ss statics ->
  walk_resolve (o_image C) ss arity statics checks gen_walkfns gen_entry (cm_shape m) acts kinds
  = to_opt (resolve C mi acts).
Proof. exact src_resolve_static. Qed.
Print Assumptions C12_source_static_walk.

(* ------------------------------------------------------------------ non-vacuity *)

(* the translated walk run inside Coq on the compiled registry of probe P1 (method (virtual, int, virtual)):
   the four calls of C01_example, once with plain arguments and once with virtual_ptr arguments *)
Definition ex_R : registry :=
  mk_reg [mk_class 1 [1] false; mk_class 2 [2;1] false; mk_class 3 [3;2;1] false; mk_class 4 [4;1] false;
          mk_class 5 [5;3;4;2;1] false; mk_class 6 [6] false; mk_class 7 [7;6] false; mk_class 8 [8;7;6] false]%N
         [mk_meth [1;6]%N [mk_def [2;8]%N true; mk_def [4;7]%N true; mk_def [3;6]%N true] [true; false; true]] [].

Example ex_src_walk :
  match compile ex_R with
  | Ok C =>
      map (fun '(cs, kinds) =>
             walk_resolve (o_image C) (nth 0 (o_ss C) []) 2 None true gen_walkfns gen_entry [true; false; true]
                          (actuals_of C [true; false; true] cs) kinds)
          [([2; 6], [false; false; false]); ([3; 6], [true; false; true]); ([3; 5], [false; false; true]);
           ([4; 7], [true; true; true])]
      = [Some (WFn 0 2); Some (WFn 0 1); Some (WNi 0); Some (WAmb 0)]
  | Err _ => False
  end.
Proof. vm_compute. reflexivity. Qed.

(* ... and with static offsets equal to the installed ones, runtime checks on *)
Example ex_src_walk_static :
  match compile ex_R with
  | Ok C =>
      let ss := nth 0 (o_ss C) [] in
      map (fun cs => walk_resolve (o_image C) ss 2 (Some (firstn 2 ss, skipn 2 ss)) true gen_walkfns gen_entry
                                  [true; false; true] (actuals_of C [true; false; true] cs) [false; false; true])
          [[2; 6]; [3; 6]; [3; 5]; [4; 7]]
      = [Some (WFn 0 2); Some (WFn 0 1); Some (WNi 0); Some (WAmb 0)]
  | Err _ => False
  end.
Proof. vm_compute. reflexivity. Qed.

(* a wrong static stride is caught by the translated check when the policy has runtime_checks: the walk is stuck
   (static_stride_error), it does not return a word *)
Example ex_src_walk_static_wrong :
  match compile ex_R with
  | Ok C =>
      let ss := nth 0 (o_ss C) [] in
      walk_resolve (o_image C) ss 2 (Some (firstn 2 ss, [S (nth 2 ss 0)])) true gen_walkfns gen_entry
                   [true; false; true] (actuals_of C [true; false; true] [2; 6]) [false; false; false] = None
  | Err _ => False
  end.
Proof. vm_compute. reflexivity. Qed.

