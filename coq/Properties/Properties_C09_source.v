(* C09 / C15, second part — how a virtual_ptr gets its v-table pointer from an object, on the code as TRANSLATED from
   /repo/include/yorel/yomm2/core.hpp on this run.

   translators/vptrctor.py parses  template<class Other> virtual_ptr(Other&& other)  and  virtual_ptr::final(Other&& obj)
   out of core.hpp and lowers them statement by statement into the language of Model/MiniVptr.v (Gen/GenVptr.v): which
   virtual_traits specialisation the function consults (traits_mode), the ids it names, every `if` / `if constexpr` on
   has_facet<Policy, runtime_checks | type_hash | indirect_vptr> and on comparisons of ids, the calls of
   Policy::hash_type_id made for their check, and the five ways `vptr` is assigned (address / content of
   static_vptr<polymorphic_type>, indirect_vptrs[index], Policy::dynamic_vptr, with or without hashing the index).
   Here: interpreting the translated bodies IS Model.VirtualPtr.ctor / final_ — same result and same log of what is read
   before the answer — for every policy configuration, state and argument; hence the C09 and C15 theorems about the
   constructor and final hold of the code core.hpp contains now.

   Trusted in this tie: the parser / lowering of translators/vptrctor.py + _minicpp.py (they refuse what they do not
   understand), the mapping from the spelling of the traits to traits_mode, and the reading of Policy::hash_type_id,
   Policy::dynamic_vptr, indirect_vptrs[...] given by Model/VirtualPtr.v. *)
From Coq Require Import List NArith Bool.
Import ListNotations.
From Y2 Require Import Model.VirtualPtr Proofs.VirtualPtrProofs.
From Y2 Require Import Model.MiniVptr Gen.GenVptr Proofs.VptrSource.

Theorem C09_source_ctor : forall cfg st a, run_ctor gen_ctor cfg st a = ctor cfg st a.
Proof. exact src_ctor. Qed.
Print Assumptions C09_source_ctor.

(* final: the same result; it reads nothing final_ does not read; and when final_ succeeds, everything final_ reads.
   (The order in which the static v-table pointer is read and the run-time checks are made is not part of any property:
   a `final` that stores the pointer after its checks is the same function.) *)
Theorem C09_source_final : forall cfg st a,
  snd (run_final gen_final cfg st a) = snd (final_ cfg st a) /\
  incl (fst (run_final gen_final cfg st a)) (fst (final_ cfg st a)) /\
  (forall p, snd (final_ cfg st a) = Ok p -> incl (fst (final_ cfg st a)) (fst (run_final gen_final cfg st a))).
Proof. intros cfg st a. split; [apply src_final_result|]. split; [apply src_final_reads|apply src_final_ok]. Qed.
Print Assumptions C09_source_final.

(* C09 on the translated constructor / final: under a supported configuration, for an object whose dynamic class was
   compiled by the last update (final: exactly the static class), the pointer made has the CURRENT table of the dynamic
   class — what a call with a plain reference finds *)
Theorem C09_source_ctor_same_table : forall cfg st a,
  supported cfg = true -> reachable cfg st -> In (a_dyn a) (classes st) ->
  exists log p, run_ctor gen_ctor cfg st a = (log, Ok p) /\
    deref st p = Some (current st (a_dyn a)) /\
    outcome (dynamic_vptr cfg st (a_dyn a)) = Ok (current st (a_dyn a)).
Proof.
  intros cfg st a Hs Hr Hin. rewrite src_ctor.
  exact (route_same_table cfg st (MCtor a) Hs Hr Hin).
Qed.
Print Assumptions C09_source_ctor_same_table.

Theorem C09_source_final_same_table : forall cfg st a,
  supported cfg = true -> reachable cfg st -> In (a_dyn a) (classes st) -> a_dyn a = a_stat a ->
  exists log p, run_final gen_final cfg st a = (log, Ok p) /\
    deref st p = Some (current st (a_dyn a)) /\
    outcome (dynamic_vptr cfg st (a_dyn a)) = Ok (current st (a_dyn a)).
Proof.
  intros cfg st a Hs Hr Hin He.
  destruct (route_same_table cfg st (MFinal a) Hs Hr (conj Hin He)) as [log [p [E H]]].
  exists (fst (run_final gen_final cfg st a)), p. split; [|exact H].
  rewrite (surjective_pairing (run_final gen_final cfg st a)) at 1. rewrite src_final_result.
  change (build cfg st (MFinal a)) with (final_ cfg st a) in E. now rewrite E.
Qed.
Print Assumptions C09_source_final_same_table.

(* C15 on the translated constructor / final: an unregistered dynamic class is diagnosed as unknown_class with that id,
   after nothing but the control-vector comparison; final on an object of another dynamic type is a method-table error *)
Theorem C15_source_ctor_unregistered : forall cfg st a,
  checked_vector cfg -> reachable cfg st -> ~ In (a_dyn a) (classes st) ->
  run_ctor gen_ctor cfg st a = ([AHash (a_dyn a)], Error (UnknownClass (a_dyn a))).
Proof. intros. rewrite src_ctor. now apply ctor_unregistered. Qed.
Print Assumptions C15_source_ctor_unregistered.

Theorem C15_source_final_wrong_type : forall cfg st a,
  runtime_checks cfg = true -> a_dyn a <> a_stat a ->
  snd (run_final gen_final cfg st a) = Error (MethodTable (a_dyn a)) /\
  incl (fst (run_final gen_final cfg st a)) [ASvp (a_stat a)].
Proof.
  intros cfg st a H1 H2. pose proof (final_wrong_type cfg st a H1 H2) as E.
  split; [rewrite src_final_result; now rewrite E|].
  pose proof (src_final_reads cfg st a) as I. now rewrite E in I.
Qed.
Print Assumptions C15_source_final_wrong_type.

Theorem C15_source_final_unregistered : forall cfg st a,
  checked_vector cfg -> reachable cfg st -> a_dyn a = a_stat a -> ~ In (a_dyn a) (classes st) ->
  snd (run_final gen_final cfg st a) = Error (UnknownClass (a_stat a)) /\
  incl (fst (run_final gen_final cfg st a)) [ASvp (a_stat a); AHash (a_stat a)].
Proof.
  intros cfg st a H1 H2 H3 H4. pose proof (final_unregistered cfg st a H1 H2 H3 H4) as E.
  split; [rewrite src_final_result; now rewrite E|].
  pose proof (src_final_reads cfg st a) as I. now rewrite E in I.
Qed.
Print Assumptions C15_source_final_unregistered.

(* ------------------------------------------------------------------ non-vacuity: the translated code runs *)
Definition ex_cfg : config := {| hash := HChecked; placement := PVector; indirect := false |}.
Definition ex_st : state := updates ex_cfg [[1; 2; 3]; [1; 2]]%N init_state.

Example ex_source_ctor :
  (* a registered derived object through a base reference; an object of class 3, unregistered by the second update *)
  outcome (run_ctor gen_ctor ex_cfg ex_st (mk_arg 7 2 1 0 0 99)%N)
  = Ok {| obj := 7%N; dyn := 2%N; stat := 1%N; vp := Direct (Some (2%N, 2%nat)); smart := false; owner := None |}
  /\ run_ctor gen_ctor ex_cfg ex_st (mk_arg 8 3 3 0 0 99)%N = ([AHash 3%N], Error (UnknownClass 3%N)).
Proof. vm_compute. split; reflexivity. Qed.
