(* Property C14 -- policies are isolated from one another.

   Classes, methods, definitions, dispatch tables, hash parameters and error handlers belong to one policy:
   registering, unregistering or updating in one policy never changes the outcome of calls, the validity of
   virtual_ptrs or the error handler of another policy, even when the same classes are registered in both.

   Model: Model/Policies.v -- a FLAT store whose locations are (owner template, template arguments, member);
   which locations a policy owns, and which an operation reads and writes, is computed from its facet list and from
   the declarations that translators/policies.py reads from the headers on every run (Gen/GenPolicies.v):
   template parameters, base classes and static data members of every class of namespace policy, of basic_domain
   and method_tables; the facet lists of release / debug / debug_shared / release_shared; the definitions of
   rebind_facet / rebind / replace / remove (compared token by token with what the model implements).

   Trusted: that C++ gives each distinct template argument list its own static members, and a non-template class
   one set for everybody -- that is exactly what [locs_of_inst] encodes.

   Every Theorem below is an obligation of ./check C14.  The ones that can BREAK when the library changes are the
   computed ones: C14_keyed_stock, C14_keyed_all_facets, C14_stock_pairwise_disjoint, C14_model_names_exist.     *)
From Coq Require Import String List Bool.
From Y2 Require Import Gen.GenPolicies Model.Policies Proofs.PoliciesProofs.
Import ListNotations.
Open Scope string_scope.

Notation locs := locs_of_policy.

(* ================================================================================================ translated facts *)

(* every static object of every stock policy follows the policy: each facet with static data is a class template
   that rebind re-keys, its statics and those of its bases sit in instances whose FIRST argument is the policy;
   basic_domain / method_tables likewise.  Breaks when a static data member (or a function-local static) appears in
   a non-template facet, in a base that is not given the policy first, or in detail::domain.                      *)
Theorem C14_keyed_stock : forallb keyed stock_policies = true.
Proof. vm_compute. reflexivity. Qed.
Print Assumptions C14_keyed_stock.

(* the same for EVERY class of namespace policy, used by a stock policy or not (throw_error, vptr_map,
   basic_indirect_vptr, minimal_rtti, ...): used as a facet, all its static objects follow the policy *)
Theorem C14_keyed_all_facets : forallb decl_keyed facet_decls = true.
Proof. vm_compute. reflexivity. Qed.
Print Assumptions C14_keyed_all_facets.

(* the registration objects that hang off the catalogs (method<Key, Signature, Policy>::fn, class_declaration_aux<Policy, ...>,
   type_id_list<Policy, ...>) are templates with a Policy parameter *)
Theorem C14_registration_objects_keyed :
  forallb (fun r => match snd (fst r) with Some _ => true | None => false end) registration_objects = true.
Proof. vm_compute. reflexivity. Qed.
Print Assumptions C14_registration_objects_keyed.

(* the names the model's write sets select by exist in the translated declarations (the model is about this code) *)
Theorem C14_model_names_exist :
  forall P, In P stock_policies ->
    writes RegisterClass P = [("basic_domain", [TPolicy (p_key P)], "classes")] /\
    writes RegisterDefinition P = [("basic_domain", [TPolicy (p_key P)], "methods")] /\
    In ("basic_domain", [TPolicy (p_key P)], "dispatch_data") (writes Update P) /\
    In ("method_tables", [TPolicy (p_key P)], "static_vptr<Class>") (writes Update P) /\
    In ("fast_perfect_hash", [TPolicy (p_key P)], "hash_mult") (writes Update P) /\
    In ("vptr_vector", [TPolicy (p_key P)], "vptrs") (writes Update P) /\
    writes SetErrorHandler P =
      [("backward_compatible_error_handler", [TPolicy (p_key P)], "call_error");
       ("vectored_error", [TPolicy (p_key P); TApp "backward_compatible_error_handler" [TPolicy (p_key P)]], "error")].
Proof.
  intros P H. vm_compute in H.
  repeat (destruct H as [H|H]; [subst P; vm_compute; repeat split; auto 12|]); destruct H.
Qed.
Print Assumptions C14_model_names_exist.

(* ================================================================================================ disjointness *)

(* for every stock policy P and keys k <> k': rebind P k and rebind P k' have no static object in common *)
Theorem C14_disjoint : forall P, In P stock_policies -> forall k k', k <> k' ->
  disjoint (locs (rebind P k)) (locs (rebind P k')).
Proof. exact (stock_keyed_disjoint C14_keyed_stock). Qed.
Print Assumptions C14_disjoint.

(* GENERAL: any two facet lists that are keyed (a boolean computed on the translated declarations), rebound to
   different keys, then modified by any sequence of remove<Base> / replace<Base, F> where F is itself keyed by the
   new policy (or holds no static object): no common static object.  Classes may be registered in both. *)
Theorem C14_disjoint_general : forall p p' k k' ms ms',
  keyed p = true -> keyed p' = true -> k <> k' ->
  forallb (mod_ok k) ms = true -> forallb (mod_ok k') ms' = true ->
  disjoint (locs (apply_mods (rebind p k) ms)) (locs (apply_mods (rebind p' k') ms')).
Proof. exact rebind_mods_disjoint. Qed.
Print Assumptions C14_disjoint_general.

(* the stock policies as written: release, debug, debug_shared are pairwise disjoint
   (release_shared derives from debug_shared: it IS that policy, see C14_release_shared_is_debug_shared) *)
Fixpoint pairwise {A} (r : A -> A -> bool) (l : list A) : bool :=
  match l with [] => true | x :: t => forallb (r x) t && pairwise r t end.

Theorem C14_stock_pairwise_disjoint :
  pairwise (fun a b => disjointb (locs a) (locs b)) stock_policies_own_key = true.
Proof. vm_compute. reflexivity. Qed.
Print Assumptions C14_stock_pairwise_disjoint.

(* ================================================================================================ frame *)

Theorem C14_writes_within : forall k p, incl (writes k p) (locs p) /\ incl (reads k p) (locs p).
Proof. intros k p. split; [apply writes_within | apply reads_within]. Qed.
Print Assumptions C14_writes_within.

(* one operation of ANY kind on p (register / unregister a class, a method, a definition; update; set the error
   handler; a call), computing ANY function of what it reads, after ANY history of operations on any policies:
   every location of q holds what it held *)
Theorem C14_frame : forall p q, disjoint (locs p) (locs q) ->
  forall (h : list op) (o : op) (st : store), op_pol o = p ->
  proj q (run (h ++ [o]) st) = proj q (run h st).
Proof. exact frame. Qed.
Print Assumptions C14_frame.

(* all interleavings: when every operation of a history is on q or on a policy disjoint from q, q's locations end
   up as if the other policies' operations had never happened *)
Theorem C14_interleaving : forall q (h : list op) (st : store),
  Forall (fun o => op_pol o = q \/ disjoint (locs (op_pol o)) (locs q)) h ->
  proj q (run h st) = proj q (run (filter (on q) h) st).
Proof. exact interleaving. Qed.
Print Assumptions C14_interleaving.

(* hence: outcomes of calls through q (any function of what a call reads), the v-table pointers a virtual_ptr of q
   holds or would be given (static_vptr<Class>, vptrs, indirect_vptrs, hash parameters, control) together with the
   dispatch_data they point into, and q's error handler *)
Theorem C14_calls_vptrs_handler_unchanged : forall p q, disjoint (locs p) (locs q) ->
  forall (h : list op) (o : op) (st : store), op_pol o = p ->
    (forall f, call_outcome f q (run (h ++ [o]) st) = call_outcome f q (run h st)) /\
    vptr_state q (run (h ++ [o]) st) = vptr_state q (run h st) /\
    handler_of q (run (h ++ [o]) st) = handler_of q (run h st).
Proof.
  intros p q D h o st Hp. repeat split.
  - intros f. pose proof (frame_obs p q _ D (call_local q f) h o st Hp) as E. now injection E.
  - exact (frame_obs p q _ D (vptr_local q) h o st Hp).
  - exact (frame_obs p q _ D (handler_local q) h o st Hp).
Qed.
Print Assumptions C14_calls_vptrs_handler_unchanged.

(* end to end for the stock policies *)
Theorem C14_stock_isolated : forall P, In P stock_policies -> forall k k', k <> k' ->
  forall (h : list op) (o : op) (st : store), op_pol o = rebind P k ->
  proj (rebind P k') (run (h ++ [o]) st) = proj (rebind P k') (run h st).
Proof. intros P HP k k' N. apply C14_frame. now apply C14_disjoint. Qed.
Print Assumptions C14_stock_isolated.

(* ================================================================================================ by design *)

(* DESIGN.md section 2: a policy made with replace / remove WITHOUT rebind keeps its parent's key: it shares
   basic_domain<Key> (catalogs, dispatch_data), the static v-table pointers and every keyed facet it keeps with
   its parent.  This is what the definitions say (`mp_push_front<..., Policy>`), stated, not a violation. *)
Theorem C14_rebind_needed : forall p base f,
  (p_key (remove p base) = p_key p /\ incl (locs (remove p base)) (locs p)) /\
  (p_key (replace p base f) = p_key p /\ domain_locs (replace p base f) = domain_locs p /\
   incl (domain_locs p) (locs (replace p base f))).
Proof. intros p base f. split; [apply remove_shares | apply replace_shares]. Qed.
Print Assumptions C14_rebind_needed.

(* ================================================================================================ non-vacuity *)

Definition debug : policy := policy_of_decl stock_debug.
Definition release : policy := policy_of_decl stock_release.

(* the static objects of policy::debug, as computed from the translated declarations *)
Example ex_locs_debug : locs debug =
  [("basic_domain", [TPolicy "debug"], "classes"); ("basic_domain", [TPolicy "debug"], "methods");
   ("basic_domain", [TPolicy "debug"], "dispatch_data"); ("method_tables", [TPolicy "debug"], "static_vptr<Class>");
   ("checked_perfect_hash", [TPolicy "debug"], "control");
   ("fast_perfect_hash", [TPolicy "debug"], "hash_mult"); ("fast_perfect_hash", [TPolicy "debug"], "hash_shift");
   ("fast_perfect_hash", [TPolicy "debug"], "hash_length"); ("fast_perfect_hash", [TPolicy "debug"], "hash_min");
   ("fast_perfect_hash", [TPolicy "debug"], "hash_max");
   ("vptr_vector", [TPolicy "debug"], "vptrs");
   ("basic_error_output", [TPolicy "debug"; TOther "ostderr"], "error_stream");
   ("basic_trace_output", [TPolicy "debug"; TOther "ostderr"], "trace_stream");
   ("basic_trace_output", [TPolicy "debug"; TOther "ostderr"], "trace_enabled");
   ("backward_compatible_error_handler", [TPolicy "debug"], "call_error");
   ("vectored_error", [TPolicy "debug"; TApp "backward_compatible_error_handler" [TPolicy "debug"]], "error")].
Proof. vm_compute. reflexivity. Qed.

(* update writes the tables, the static v-table pointers, the hash parameters, vptrs, control (and the streams);
   not the error handler *)
Example ex_update_writes_debug :
  map (fun l => (l_owner l, l_member l)) (writes Update debug) =
  [("basic_domain", "classes"); ("basic_domain", "methods"); ("basic_domain", "dispatch_data");
   ("method_tables", "static_vptr<Class>"); ("checked_perfect_hash", "control");
   ("fast_perfect_hash", "hash_mult"); ("fast_perfect_hash", "hash_shift"); ("fast_perfect_hash", "hash_length");
   ("fast_perfect_hash", "hash_min"); ("fast_perfect_hash", "hash_max"); ("vptr_vector", "vptrs");
   ("basic_error_output", "error_stream"); ("basic_trace_output", "trace_stream"); ("basic_trace_output", "trace_enabled")].
Proof. vm_compute. reflexivity. Qed.

(* rebind: the default argument of vectored_error / the argument of the base of backward_compatible_error_handler follow *)
Example ex_rebind_debug : locs (rebind debug "mine") =
  map (fun l => (l_owner l,
                 map (fun a => match a with
                               | TPolicy _ => TPolicy "mine"
                               | TApp g [TPolicy _] => TApp g [TPolicy "mine"]
                               | a => a end) (l_args l),
                 l_member l)) (locs debug).
Proof. vm_compute. reflexivity. Qed.

Example ex_disjoint_concrete :
  forallb (fun P => disjointb (locs (rebind P "k1")) (locs (rebind P "k2"))) stock_policies = true.
Proof. vm_compute. reflexivity. Qed.

(* the hypotheses of C14_frame are met by a history that registers in both, updates and sets a handler, then
   updates the first again; that operation really changes the first policy's store
   (short history: the store is a function, every read re-runs the history) *)
Definition k1 := rebind release "k1".
Definition k2 := rebind release "k2".
Definition bump (k : op_kind) (p : policy) : op := mk_op k p (fun vs _ => S (list_sum vs)).
Definition ex_history : list op := [bump RegisterClass k1; bump Update k2; bump SetErrorHandler k2].
Example ex_frame_nonvacuous :
  proj k2 (run (ex_history ++ [bump Update k1]) (fun _ => 0)) = proj k2 (run ex_history (fun _ => 0)) /\
  proj k1 (run (ex_history ++ [bump Update k1]) (fun _ => 0)) <> proj k1 (run ex_history (fun _ => 0)) /\
  proj k2 (run ex_history (fun _ => 0)) <> proj k2 (fun _ => 0).
Proof. vm_compute. repeat split; discriminate. Qed.

Example ex_interleaving_hypothesis :
  forallb (fun o => same_policy (op_pol o) k2 || disjointb (locs (op_pol o)) (locs k2)) ex_history = true /\
  length (filter (on k2) ex_history) = 2.
Proof. vm_compute. split; reflexivity. Qed.

(* the driver's policies (harness/h1/policies.inc), built the same way *)
Definition chk : policy :=
  policy_of "pol_chk" [TApp "RttiIdent" []; TApp "checked_perfect_hash" [TPolicy "pol_chk"];
                       TApp "vptr_vector" [TPolicy "pol_chk"]; TApp "vectored_error" [TPolicy "pol_chk"]].
Definition chk2 : policy := rebind chk "pol_chk2".
Definition vec2 : policy := remove (rebind chk "pol_vec2") "type_hash".
Definition map2 : policy :=
  replace (remove (rebind chk "pol_map2") "type_hash") "vptr_placement" (TApp "vptr_map" [TPolicy "pol_map2"]).

Example ex_driver_policies_keyed : keyed chk = true /\
  forallb (mod_ok "pol_map2") [MRemove "type_hash"; MReplace "vptr_placement" (TApp "vptr_map" [TPolicy "pol_map2"])] = true.
Proof. vm_compute. split; reflexivity. Qed.

Example ex_driver_policies_disjoint :
  pairwise (fun a b => disjointb (locs a) (locs b)) [chk; chk2; vec2; map2] = true.
Proof. vm_compute. reflexivity. Qed.

Example ex_map2 : locs map2 =
  [("basic_domain", [TPolicy "pol_map2"], "classes"); ("basic_domain", [TPolicy "pol_map2"], "methods");
   ("basic_domain", [TPolicy "pol_map2"], "dispatch_data"); ("method_tables", [TPolicy "pol_map2"], "static_vptr<Class>");
   ("vptr_map", [TPolicy "pol_map2"; TApp "std::unordered_map" [TOther "type_id"; TOther "const std :: uintptr_t *"]], "vptrs");
   ("vectored_error", [TPolicy "pol_map2"; TOther "void"], "error")].
Proof. vm_compute. reflexivity. Qed.

(* C14_rebind_needed, concretely: remove WITHOUT rebind shares everything it keeps with its parent ... *)
Example ex_no_rebind_shares :
  inclb (locs (remove chk "type_hash")) (locs chk) = true /\
  length (locs (remove chk "type_hash")) = 6 /\
  disjointb (locs (remove chk "type_hash")) (locs chk) = false.
Proof. vm_compute. repeat split. Qed.

(* ... and a replacement facet keyed by ANOTHER policy is not accepted by mod_ok, for a reason *)
Example ex_replace_foreign_key :
  mod_ok "pol_map2" (MReplace "vptr_placement" (TApp "vptr_map" [TPolicy "pol_chk"])) = false /\
  disjointb (locs (replace (rebind chk "pol_map2") "vptr_placement" (TApp "vptr_vector" [TPolicy "pol_chk"]))) (locs chk) = false.
Proof. vm_compute. split; reflexivity. Qed.

(* release_shared derives from debug_shared: same key, same facets, every static object in common (by design: the
   shared-library pair) *)
Example C14_release_shared_is_debug_shared :
  same_policy (policy_of_decl stock_release_shared) (policy_of_decl stock_debug_shared) = true /\
  pd_derived_from stock_release_shared = Some "debug_shared".
Proof. vm_compute. split; reflexivity. Qed.

(* minimal_rtti::static_type<T>() has a function-local `static char id`, one per T, shared by every policy using
   minimal_rtti: only its ADDRESS is used (it is the type id; ids are meant to be shared), it holds no state *)
Example ex_minimal_rtti :
  match find_decl "minimal_rtti" with
  | Some d => f_addr_only d = ["static_type()::id"] /\ f_statics d = [] /\ decl_keyed d = true
  | None => False
  end.
Proof. vm_compute. repeat split. Qed.

(* what the computed obligations reject: a non-template facet with a static, a facet keyed by its second parameter *)
Example ex_keyed_rejects :
  let bad1 := mk_facet_decl "counter_rtti" 0 None ["count"] [] [] [PApp "rtti" []] [] "" in
  let bad2 := mk_facet_decl "store" 1 None ["vptrs"] [KType] [None] [] [] "" in
  let bad3 := mk_facet_decl "tagged_vector" 2 (Some 0) [] [KType; KType] [None; Some (POther "void")]
                            [PApp "external_vptr" []; PApp "store" [PParam 1]] [] "" in
  (is_nil (f_statics bad1) || negb (Nat.eqb (f_nparams bad1) 0)) = false /\
  forallb (fun b => match b with PApp h (PParam 0 :: _) => true | PApp h _ => is_nil (f_statics bad2) | _ => true end) (f_bases bad3) = false.
Proof. vm_compute. split; reflexivity. Qed.
