(* Property C13 — encoded dispatch data decodes to the tables update built.
   Property theorems only.  encode / decode are the models of generator::encode_dispatch_data and of
   decode_dispatch_data (Model/Codec.v): the decoder is a step function over one buffer laid out like the emitted
   struct (16-bit cells overlaid by the decoded 64-bit words, a read cursor and a write cursor); stop_bit, index_bit
   and the two cell sizes are the ones translators/consts_codec.py reads from decode.hpp / generator.hpp on every run.
   `small C`: every number the encoder emits (slots, strides, first slots, method indexes, group indexes, spec indexes
   with the two pseudo-indexes of the error stubs) is below index_bit = 2^14 — the bound the 16-bit encoding imposes. *)
From Y2 Require Import Model.Registry Model.Compile Model.Codec Spec.Dispatch Proofs.CodecProofs.

(* For every well-formed registry whose update result is small: decoding the emitted data in a process that holds the
   same registrations (ctx_of C: arity and number of definitions of every method, number of classes) succeeds, and
     - the decoded arrays (dispatch tables, then v-tables) are, word for word, the cells of Policy::dispatch_data that
       update wrote (a row pointer WRow a designates cell a of the image in both): the rest of dispatch_data (junk) is
       what update never writes;
     - every method gets the slots_strides update installed;
     - every class gets the static v-table pointer update installed, relative to the start of the v-tables.
   Hence every call walks the same words as after update (C01's resolve is a function of exactly these three). *)
Theorem C13_roundtrip : forall R C, wf_registry R -> compile R = Ok C -> small C ->
  exists d, decode (ctx_of C) (encode C) = COk d /\
    (exists junk, o_image C = dd_image d ++ junk) /\ length (dd_image d) = written C /\
    dd_ss d = o_ss C /\
    o_vptr C = map (fun z => (Z.of_nat (tables_len C) + z)%Z) (dd_vptr d).
Proof. exact codec_roundtrip. Qed.
Print Assumptions C13_roundtrip.

(* Decoding reads and writes only inside the emitted struct, in place.  The log holds one entry (w, r) per decoded word:
   w is the index written in `std::uintptr_t vtbls[D]`, r the union cell index of the read cursor at that moment.
     - w < D: the write is inside the declared array;
     - 4 * (w + 1) <= r: the four 16-bit cells the word overlays are all below the read cursor, i.e. already read
       (with the headroom the encoder computed);
     - r <= H + S + E and the final read cursor is exactly E: every read is inside `encoded`, every encoded cell is
       consumed, none beyond.
   (A read of an overwritten cell, a read or write past an array, a bad method or spec index make the model's decode
   return CErr: the theorem excludes them all.) *)
Theorem C13_in_place : forall R C, wf_registry R -> compile R = Ok C -> small C ->
  exists d, decode (ctx_of C) (encode C) = COk d /\
    let E := encode C in
    Forall (fun wr => 4 * S (fst wr) <= snd wr /\ fst wr < e_D E /\ snd wr <= e_H E + e_S E + e_E E) (dd_log d) /\
    length (dd_log d) = vtbls_len C /\ dd_rd d = e_E E.
Proof. exact codec_in_place. Qed.
Print Assumptions C13_in_place.

(* Array bounds of the emitted struct.  headroom, the decoded v-table array and the dispatch-table array are never
   zero or negative, for ANY update result; on a well-formed registry every initializer list fits its array exactly
   (dtbls: up to the clamp to 1), `slots` has at least one cell per method and the encoded v-tables at least one cell
   per class (so they are empty only for a registry without methods, resp. without classes). *)
Theorem C13_sizes : forall C, 1 <= e_H (encode C) /\ 1 <= e_D (encode C) /\ 1 <= e_T (encode C).
Proof. exact codec_sizes. Qed.
Print Assumptions C13_sizes.

Theorem C13_sizes_fit : forall R C, wf_registry R -> compile R = Ok C -> small C ->
  e_S (encode C) = length (e_slots (encode C)) /\ e_E (encode C) = length (e_vtbls (encode C)) /\
  length (e_dtbls (encode C)) <= e_T (encode C) /\
  length (o_meths C) <= e_S (encode C) /\ length (o_vtbl C) <= e_E (encode C).
Proof. exact codec_sizes_wf. Qed.
Print Assumptions C13_sizes_fit.

(* The three behaviours before fix b477860, on concrete registries (legacy_dsize, legacy_headroom, enc_vtbls_legacy in
   Model/Codec.v): a decoded array of 6 words for 10 decoded entries when a class's first slot is 4; `headroom[-6]`
   when eight classes without v-table entries are registered last; a first slot without stop bit for an empty v-table
   makes the decoder write past `vtbls[1]`. *)
Theorem C13_legacy_refuted :
  (exists C, compile first4_R = Ok C /\ nth 1 (o_first C) 0 = 4 /\ legacy_dsize C = 6%Z /\ vtbls_len C = 10 /\ e_D (encode C) = 10) /\
  (exists C, compile tail_R = Ok C /\ legacy_headroom C = (-6)%Z /\ e_H (encode C) = 1) /\
  (exists C, compile tail_R = Ok C /\
     let E := encode C in
     decode (ctx_of C) (mk_enc (e_H E) (e_S E) (e_E E) (e_D E) (e_T E) (e_slots E) (enc_vtbls_legacy C) (e_dtbls E))
     = CErr (WriteOutside 1) /\
     exists d, decode (ctx_of C) E = COk d /\ dd_image d = [WFn 0 0]).
Proof. exact codec_legacy_refuted. Qed.
Print Assumptions C13_legacy_refuted.

(* Non-vacuity: a lattice where class 2's first used slot is 4, a class (4) no method uses registered last, a
   uni-method, a 2-method and a 3-method with cells without definition.  The update result is small; the emitted data
   has headroom 12; decoding succeeds, gives the 13 words update wrote, and the tightest step leaves no spare cell
   (the 10th word is written when the read cursor is exactly at cell 40). *)
Example C13_example :
  match compile first4_R with
  | Ok C =>
      smallb C = true /\
      let E := encode C in
      (e_H E, e_S E, e_E E, e_D E, e_T E) = (12, 9, 20, 10, 3) /\
      match decode (ctx_of C) E with
      | COk d =>
          dd_image d = firstn 13 (o_image C) /\ length (o_image C) = 14 /\ dd_ss d = o_ss C /\
          dd_vptr d = [0; -2; 4; 10]%Z /\ o_vptr C = [3; 1; 7; 13]%Z /\
          nth 9 (dd_log d) (0, 0) = (9, 40) /\ dd_rd d = 20
      | CErr _ => False
      end
  | Err _ => False
  end.
Proof. vm_compute. repeat split. Qed.
