(* C02, second part — the resolution_error record, on the code as TRANSLATED from /repo/include/yorel/yomm2/core.hpp and
   detail.hpp on this run.

   translators/errhandlers.py parses method::not_implemented_handler, method::ambiguous_handler and detail::get_tip, matches
   the stubs' skeleton on the AST (a LOCAL record; status; arity; a local array filled by folding get_tip over the
   arguments; copy_n of the first k ids; Policy::error; abort) and lowers status, arity, array size, k and the body of
   get_tip into the language of Model/MiniErr.v (Gen/GenErr.v).  Here: for every list of arguments — virtual_ptr,
   virtual_<...> or plain, in any order — the record the translated stubs build IS Model.Errors.make_error: the status
   tells the two cases apart, arity = the number of virtual arguments, types = the dynamic ids of exactly the virtual
   arguments in order (truncated at max_types), and the local array never overflows.  C02_error_record (Properties_C02.v)
   says when which stub is reached.

   Trusted in this tie: the parser / skeleton matching / lowering of translators/errhandlers.py + _minicpp.py, and the
   reading of Policy::dynamic_type( *arg) / Policy::dynamic_type(virtual_traits<Policy, ArgType>::rarg(arg)) as "the dynamic
   type id of the object the argument designates" (what the traits do for each parameter kind is observed by the
   generated programs of checks/C02_kinds.py). *)
From Coq Require Import List Arith.
Import ListNotations.
From Y2 Require Import Model.Registry Gen.GenCoreConsts Model.Errors Model.MiniErr Gen.GenErr Proofs.ErrSource.

Theorem C02_source_not_implemented_record : forall args,
  run_stub gen_not_implemented gen_get_tip args = Some (make_error status_no_definition (acts_of args)).
Proof. exact src_not_implemented. Qed.
Print Assumptions C02_source_not_implemented_record.

Theorem C02_source_ambiguous_record : forall args,
  run_stub gen_ambiguous gen_get_tip args = Some (make_error status_ambiguous (acts_of args)).
Proof. exact src_ambiguous. Qed.
Print Assumptions C02_source_ambiguous_record.

(* the two statuses differ (the codes are read from policies/core.hpp by translators/consts_core.py) *)
Theorem C02_source_status_distinct : status_no_definition <> status_ambiguous.
Proof. discriminate. Qed.
Print Assumptions C02_source_status_distinct.

(* ------------------------------------------------------------------ non-vacuity: the translated stubs run *)
Example ex_source_record :
  (* f(double, virtual_<A&>, int, virtual_ptr<B>): ids 11 and 22 are reported, the plain arguments are not *)
  run_stub gen_ambiguous gen_get_tip [(AKPlain, 5%N); (AKVirtual, 11%N); (AKPlain, 6%N); (AKVirtualPtr, 22%N)]
  = Some (mk_rerr status_ambiguous 2 [11%N; 22%N]).
Proof. vm_compute. reflexivity. Qed.
