(* Property C05 -- the type-id hash is perfect on registered ids; the checked variant rejects the rest.

   Model: Model/Hash.v (fast_perfect_hash / checked_perfect_hash::hash_initialize, hash_type_id,
   vptr_vector::publish_vptrs, dynamic_vptr), constants from Gen/GenHashConsts.v (read from /repo on every run).
   Every theorem below is an obligation of ./check C05 and quantifies over
     - every list of classes (each a v-table pointer tag and a list of type ids), of any size,
     - every stream of candidate multipliers (the real one is recorded and replayed by the check),
     - every budget per pass, every previous state of the static members (hash_min/hash_max persist),
     - every previous contents of the v-table pointer vector.
   The only hypothesis on the ids is that none is type_id(-1) (`sentinel`, the "empty bucket" mark of the
   search, = invalid_type): see C05_sentinel_is_excluded_for_a_reason at the end.
   Distinctness of the ids is NOT assumed: it follows from success (C05_duplicates_never_installed). *)
From Coq Require Import NArith List Bool.
From Y2 Require Import Gen.GenHashConsts Model.Hash Proofs.HashProofs.
Import ListNotations.
Open Scope N_scope.

(* ------------------------------------------------------------------------------------------------ search *)

(* hash_initialize either installs parameters under which every registered id has its own index below
   hash_length (= hash_max + 1, hash_max persisting from earlier searches) -- and, checked variant, control has
   exactly hash_length entries, holds each registered id at its index, and at every index the hash can produce
   below hash_length holds a registered id or the empty mark -- or reports hash_search_error with
   attempts = passes * budget and buckets = 2^(first M + passes).  The supplied stream running out is a third,
   distinct outcome, which cannot happen when the stream has passes * budget elements. *)
Theorem C05_search : forall checked stream budget st classes,
  ~ In sentinel (all_ids classes) ->
  match hash_initialize checked stream budget st classes with
  | Found st' n =>
      ((forall t, In t (all_ids classes) -> hash_st st' t < h_length st') /\
       NoDup (map (hash_st st') (all_ids classes)) /\
       h_length st' = h_max st' + 1 /\
       (checked = true ->
          length (h_control st') = N.to_nat (h_length st') /\
          (forall t, In t (all_ids classes) -> vget (h_control st') (hash_st st' t) = t) /\
          (forall t, hash_st st' t < h_length st' ->
                     vget (h_control st') (hash_st st' t) = sentinel \/
                     In (vget (h_control st') (hash_st st' t)) (all_ids classes)))) /\
      h_max st <= h_max st' /\ h_min st' <= h_min st /\
      1 <= n /\ n <= N.of_nat passes * budget /\
      (exists k, k < N.of_nat passes /\
                 h_shift st' = word_bits - (first_M (N.of_nat (length classes)) + k) /\
                 k * budget < n /\ n <= (k + 1) * budget)
  | SearchError n b st' =>
      n = N.of_nat passes * budget /\
      b = 2 ^ (first_M (N.of_nat (length classes)) + N.of_nat passes) /\
      h_max st <= h_max st' /\ h_min st' <= h_min st /\
      h_length st' = (match passes with O => h_length st | S _ => 0 end)
  | StreamExhausted => N.of_nat (length stream) < N.of_nat passes * budget
  end.
Proof. exact hash_initialize_spec. Qed.
Print Assumptions C05_search.

Theorem C05_stream_long_enough : forall checked stream budget st classes,
  ~ In sentinel (all_ids classes) ->
  N.of_nat passes * budget <= N.of_nat (length stream) ->
  hash_initialize checked stream budget st classes <> StreamExhausted.
Proof. exact hash_initialize_stream. Qed.
Print Assumptions C05_stream_long_enough.

Theorem C05_duplicates_never_installed : forall checked stream budget st classes st' n,
  ~ In sentinel (all_ids classes) ->
  hash_initialize checked stream budget st classes = Found st' n ->
  NoDup (all_ids classes).
Proof. exact found_ids_distinct. Qed.
Print Assumptions C05_duplicates_never_installed.

(* supporting facts: the index is inside the table of the pass; the first table is larger than N*5/4 *)
Theorem C05_hash_in_table : forall mult M t, hash mult (word_bits - M) t < 2 ^ M.
Proof. exact hash_lt. Qed.
Print Assumptions C05_hash_in_table.

Theorem C05_hash_is_multiply_shift : forall mult shift t,
  hash mult shift t = ((mult * t) mod 2 ^ word_bits) / 2 ^ shift.
Proof. exact hash_spec. Qed.
Print Assumptions C05_hash_is_multiply_shift.

Theorem C05_first_M : forall n,
  first_M n = M_initial + N.log2 (n * growth_num / growth_den) /\
  (1 <= M_initial -> n * growth_num / growth_den < 2 ^ first_M n).
Proof. intro n. split; [apply first_M_log2|apply first_M_buckets]. Qed.
Print Assumptions C05_first_M.

(* ------------------------------------------------------------------------------------------------ publish *)

(* publish_vptrs, for ANY previous contents v of the vector: the vector has exactly hash_length entries, the
   entry at the index of every id of every class is that class's v-table pointer, every other entry is what
   resize left there (stale entries of earlier updates survive, new ones are null); the checked hash never
   rejects an id while publishing; on a search error the vector is not touched. *)
Theorem C05_publish : forall checked stream budget st v classes,
  ~ In sentinel (all_ids classes) ->
  match publish_vptrs checked stream budget st v classes with
  | Published st' n v' =>
      hash_initialize checked stream budget st classes = Found st' n /\
      length v' = N.to_nat (h_length st') /\
      (forall c t, In c classes -> In t (cls_ids c) ->
                   nth (N.to_nat (hash_st st' t)) v' None = Some (cls_vptr c)) /\
      (forall i, (forall t, In t (all_ids classes) -> hash_st st' t <> N.of_nat i) ->
                 nth i v' None = nth i (resize (N.to_nat (h_length st')) v None) None)
  | PubSearchError n b st' => hash_initialize checked stream budget st classes = SearchError n b st'
  | PubUnknown _ _ => False
  | PubStreamExhausted => hash_initialize checked stream budget st classes = StreamExhausted
  end.
Proof. exact publish_vptrs_spec. Qed.
Print Assumptions C05_publish.

(* the call side: dynamic_vptr of an object of a registered class *)
Theorem C05_dynamic_vptr : forall checked stream budget st v classes st' n v' c t,
  ~ In sentinel (all_ids classes) ->
  publish_vptrs checked stream budget st v classes = Published st' n v' ->
  In c classes -> In t (cls_ids c) ->
  dynamic_vptr checked st' v' t = Ok (hash_st st' t, Some (cls_vptr c)).
Proof. exact dynamic_vptr_registered. Qed.
Print Assumptions C05_dynamic_vptr.

(* ------------------------------------------------------------------------------------------------ checked *)

(* with the checked hash every id that is not registered (and is not type_id(-1)) is reported as an unknown
   class, never mapped to a registered class's entry; registered ids are accepted at their index *)
Theorem C05_checked : forall stream budget st classes st' n t,
  ~ In sentinel (all_ids classes) ->
  hash_initialize true stream budget st classes = Found st' n ->
  ~ In t (all_ids classes) -> t <> sentinel ->
  checked_lookup st' t = Error (UnknownClass t).
Proof. exact checked_rejects_unregistered. Qed.
Print Assumptions C05_checked.

Theorem C05_checked_accepts_registered : forall stream budget st classes st' n t,
  ~ In sentinel (all_ids classes) ->
  hash_initialize true stream budget st classes = Found st' n ->
  In t (all_ids classes) ->
  checked_lookup st' t = Ok (hash_st st' t).
Proof. exact checked_accepts_registered. Qed.
Print Assumptions C05_checked_accepts_registered.

(* after a reported hash_search_error (handler that throws) hash_length is 0: the checked hash accepts nothing *)
Theorem C05_checked_after_error : forall st t,
  h_length st = 0 -> checked_lookup st t = Error (UnknownClass t).
Proof. exact checked_after_error. Qed.
Print Assumptions C05_checked_after_error.

(* ------------------------------------------------------------------------------------------------ history *)

(* All of the above for the k-th update of ANY history of updates on the same policy, starting from the
   zero-initialised statics and the empty vector; an update whose search error is thrown by the handler leaves the
   statics as they are and the history goes on from them.  st_k is the state before the k-th update:
   hash_min is still 0, hash_max never decreases. *)
Theorem C05_history : forall checked us k u o,
  (forall u', In u' us -> ~ In sentinel (all_ids (u_classes u'))) ->
  nth_error us k = Some u ->
  nth_error (run_history checked us init_state []) k = Some o ->
  exists st_k v_k,
    state_before checked us init_state [] k = Some (st_k, v_k) /\
    h_min st_k = 0 /\
    match o with
    | Published st' n v' =>
        ((forall t, In t (all_ids (u_classes u)) -> hash_st st' t < h_length st') /\
         NoDup (map (hash_st st') (all_ids (u_classes u))) /\
         h_length st' = h_max st' + 1 /\
         (checked = true ->
            length (h_control st') = N.to_nat (h_length st') /\
            (forall t, In t (all_ids (u_classes u)) -> vget (h_control st') (hash_st st' t) = t) /\
            (forall t, hash_st st' t < h_length st' ->
                       vget (h_control st') (hash_st st' t) = sentinel \/
                       In (vget (h_control st') (hash_st st' t)) (all_ids (u_classes u))))) /\
        h_max st_k <= h_max st' /\
        1 <= n /\ n <= N.of_nat passes * u_budget u /\
        length v' = N.to_nat (h_length st') /\
        (forall c t, In c (u_classes u) -> In t (cls_ids c) ->
                     dynamic_vptr checked st' v' t = Ok (hash_st st' t, Some (cls_vptr c))) /\
        (checked = true -> forall t, ~ In t (all_ids (u_classes u)) -> t <> sentinel ->
                                     dynamic_vptr checked st' v' t = Error (UnknownClass t))
    | PubSearchError n b st' =>
        n = N.of_nat passes * u_budget u /\
        b = 2 ^ (first_M (N.of_nat (length (u_classes u))) + N.of_nat passes) /\
        h_max st_k <= h_max st'
    | PubUnknown _ _ => False
    | PubStreamExhausted => N.of_nat (length (u_stream u)) < N.of_nat passes * u_budget u
    end.
Proof. exact history_spec. Qed.
Print Assumptions C05_history.

(* ================================================================================================ non-vacuity *)
(* Streams below were recorded from the real engine (std::default_random_engine(13081963) through
   uniform_int_distribution<uintptr_t>, after `| 1`) by harness/h3/hash_driver.cpp. *)

Definition ex_stream : list N :=
  [6814184542283810107; 1325574788421796283; 13286547589121858161; 18041488256021655593; 1523255767835814935;
   6257119239630716579; 980027787714946823; 18232107886723179021; 7700556461514484419; 11172247379178223921;
   4667656000612354603; 1556341826277101183; 13710089759718525621; 12103421406352324745; 4251327198137732977;
   6196872690683453567; 161726869692552449; 8047413242075206687; 8493318436558056823; 2783890977932584413;
   10946779605783580613; 17007390699750263535; 10989980236739102873; 7752027509707579953; 17803431323865645395;
   9294567659812491875; 4839592465419170601; 16680607059047554689; 387997260644052661; 9746572799267451901;
   8180772060281971911; 3775190697023454313; 7443458634985772893; 2960306349141962869; 15086715225267243141].

(* three classes, one of them with two type ids: 4 buckets for 4 ids, found at the 35th attempt of the first pass *)
Definition ex_classes : list cls := [(1, [4096; 4104]); (2, [4112]); (3, [4136])].

Example ex_hypothesis : ~ In sentinel (all_ids ex_classes).
Proof. cbv. intuition discriminate. Qed.

Example ex_search_found_late :
  hash_initialize true ex_stream 100000 init_state ex_classes
  = Found (mk_hstate 15086715225267243141 62 4 0 3 [4112; 4104; 4136; 4096]) 35.
Proof. vm_compute. reflexivity. Qed.

Example ex_search_found_indices :
  map (hash 15086715225267243141 62) (all_ids ex_classes) = [3; 1; 0; 2].
Proof. vm_compute. reflexivity. Qed.

(* same ids, 34 attempts allowed per pass: the first pass (4 buckets) exhausts its budget, the second finds *)
Example ex_search_second_pass :
  match hash_initialize true ex_stream 34 init_state ex_classes with
  | Found st' n => h_shift st' = 61 /\ n = 35 /\ h_length st' = h_max st' + 1
  | _ => False
  end.
Proof. vm_compute. repeat split. Qed.

(* nine clustered pointers, one attempt per pass: every pass exhausts its budget -> hash_search_error{4, 256}
   (written relative to `passes` so that the example survives a change of the number of passes) *)
Definition ex_classes_err : list cls :=
  [(1, [139637976732016]); (2, [139637976732096]); (3, [139637976733200]); (4, [139637976733048]);
   (5, [139637976732936]); (6, [139637976733112]); (7, [139637976731728]); (8, [139637976732608]);
   (9, [139637976732104])].

Example ex_search_error :
  match hash_initialize true ex_stream 1 init_state ex_classes_err with
  | SearchError n b st' =>
      n = N.of_nat passes * 1 /\ b = 2 ^ (4 + N.of_nat passes) /\ h_length st' = 0 /\
      length (h_control st') = N.to_nat (2 ^ (4 + N.of_nat passes - 1))
  | _ => False
  end.
Proof. vm_compute. repeat split. Qed.

Example ex_search_error_today :
  passes = 4%nat ->
  match hash_initialize true ex_stream 1 init_state ex_classes_err with
  | SearchError n b _ => n = 4 /\ b = 256
  | _ => False
  end.
Proof. intros H; vm_compute in H; try discriminate H; vm_compute; repeat split. Qed.

Example ex_search_error_budget_0 :
  match hash_initialize false ex_stream 0 init_state ex_classes with
  | SearchError n b _ => n = 0 /\ b = 2 ^ (2 + N.of_nat passes)
  | _ => False
  end.
Proof. vm_compute. repeat split. Qed.

Example ex_stream_exhausted :
  hash_initialize true (firstn 10 ex_stream) 100000 init_state ex_classes = StreamExhausted.
Proof. vm_compute. reflexivity. Qed.

Example ex_first_M : map first_M [0; 1; 2; 3; 4; 7; 13; 100; 400] = [1; 1; 2; 2; 3; 4; 5; 7; 9].
Proof. vm_compute. reflexivity. Qed.

Example ex_publish :
  publish_vptrs true ex_stream 100000 init_state [] ex_classes
  = Published (mk_hstate 15086715225267243141 62 4 0 3 [4112; 4104; 4136; 4096]) 35
              [Some 2; Some 1; Some 3; Some 1].
Proof. vm_compute. reflexivity. Qed.

Example ex_checked_rejects :
  map (checked_lookup (mk_hstate 15086715225267243141 62 4 0 3 [4112; 4104; 4136; 4096])) [0; 1; 4097; 4120; 4112]
  = [Error (UnknownClass 0); Error (UnknownClass 1); Error (UnknownClass 4097); Error (UnknownClass 4120); Ok 0].
Proof. vm_compute. reflexivity. Qed.

(* a history: 4 ids; then 5 other ids found at the second pass (16 buckets, hash_max = 13); then a single id:
   2 buckets, but hash_length stays 14, control is padded with 0 and the vector keeps the stale entries *)
Definition ex_history : list update :=
  [mk_update ex_classes 100000 ex_stream;
   mk_update [(1, [10]); (2, [20]); (3, [30]); (4, [40]); (5, [50])] 1 (firstn 2 ex_stream);
   mk_update [(7, [4112])] 100000 (firstn 1 ex_stream)].

Example ex_history_runs :
  nth_error (run_history true ex_history init_state []) 2
  = Some (Published
            (mk_hstate 6814184542283810107 63 14 0 13 [sentinel; 4112; 0; 0; 0; 0; 0; 0; 0; 0; 0; 0; 0; 0]) 1
            [Some 2; Some 7; Some 3; Some 1; None; None; Some 2; None; None; Some 5; None; Some 1; None; Some 4]).
Proof. vm_compute. reflexivity. Qed.

(* type_id(-1) itself is NOT rejected by the checked hash when it lands on an empty bucket: ids 1..7, 16 buckets,
   hash_length 14; type_id(-1) hashes to the empty bucket 10.  (Replayed on the real code:
   corpus/C05/sentinel_lookup.case prints `lookup 18446744073709551615 idx 10 cls -`.) *)
Example C05_sentinel_is_excluded_for_a_reason :
  match hash_initialize true ex_stream 100000 init_state
                        [(1, [1]); (2, [2]); (3, [3]); (4, [4]); (5, [5]); (6, [6]); (7, [7])] with
  | Found st' _ => checked_lookup st' sentinel = Ok 10 /\ h_length st' = 14
  | _ => False
  end.
Proof. vm_compute. split; reflexivity. Qed.
