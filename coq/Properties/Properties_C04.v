(* Property C04 — dispatch only reads table cells that update wrote for that class and parameter.
   Property theorems only. C04_disjoint / C04_in_vtbl (from Proofs/SlotsProofs.v: assign_slots_ok) are added below
   once that proof is assembled. *)
From Y2 Require Import Model.Registry Model.Compile Proofs.WalkProofs Proofs.BoundsProofs.

(* every address read by a multi-method walk that returns a word lies inside dispatch_data *)
Theorem C04_walk_reads_in_bounds : forall C arity ss vps w,
  walk_first C arity ss vps = Ok w -> Forall (in_image C) (first_reads C arity ss vps).
Proof. exact walk_first_in_bounds. Qed.
Print Assumptions C04_walk_reads_in_bounds.

Theorem C04_uni_read_in_bounds : forall C ss vps w,
  walk_uni C ss vps = Ok w -> exists vp rest, vps = vp :: rest /\ in_image C (vp + Z.of_nat (nth 0%nat ss 0%nat))%Z.
Proof. exact walk_uni_in_bounds. Qed.
Print Assumptions C04_uni_read_in_bounds.
