(* Property C04 — dispatch only reads table cells that update wrote for that class and parameter.
   Property theorems only. *)
From Y2 Require Import Model.Registry Model.Compile Spec.Dispatch Proofs.Interfaces Proofs.WalkProofs Proofs.BoundsProofs Proofs.SlotsProofs Proofs.CorollaryProofs.

(* every address read by a multi-method walk that returns a word lies inside dispatch_data *)
Theorem C04_walk_reads_in_bounds : forall C arity ss vps w,
  walk_first C arity ss vps = Ok w -> Forall (in_image C) (first_reads C arity ss vps).
Proof. exact walk_first_in_bounds. Qed.
Print Assumptions C04_walk_reads_in_bounds.

Theorem C04_uni_read_in_bounds : forall C ss vps w,
  walk_uni C ss vps = Ok w -> exists vp rest, vps = vp :: rest /\ in_image C (vp + Z.of_nat (nth 0%nat ss 0%nat))%Z.
Proof. exact walk_uni_in_bounds. Qed.
Print Assumptions C04_uni_read_in_bounds.

(* After update, for every class z and every (method, virtual parameter) pair that accepts objects of class z
   (applies: z is among the covariant classes of the parameter's class), the pair's cell lies inside z's v-table,
   and no other pair applicable to z shares it — whatever the shape of the inheritance lattice. *)
Theorem C04_cells : forall R stale C,
  wf_registry R -> compile_with stale R = Ok C ->
  forall mi p mi' p' z,
    applies (o_lat C) (o_meths C) mi p z -> applies (o_lat C) (o_meths C) mi' p' z ->
    (c_first C z <= c_slot C mi p < c_first C z + c_vlen C z) /\
    (c_slot C mi p = c_slot C mi' p' -> mi = mi' /\ p = p').
Proof. exact cells_disjoint. Qed.
Print Assumptions C04_cells.

(* The slot allocator alone, for ANY lattice satisfying the order axioms lat_wf (trees, diamonds, several roots,
   classes with many bases) and any methods: the invariant holds for every visiting order the traversal takes. *)
Theorem C04_slot_allocation : forall L ms, lat_wf L -> meths_wf L ms -> slots_ok L ms (assign_slots L ms).
Proof. exact assign_slots_ok. Qed.
Print Assumptions C04_slot_allocation.

(* Every address a legal call reads lies inside the policy's dispatch data as sized by that update. *)
Theorem C04_legal_call_reads_in_bounds : forall R stale C mi m cs,
  wf_registry R -> compile_with stale R = Ok C -> nth_error (r_methods R) mi = Some m ->
  Forall (fun c => c < ncls (o_lat C)) cs -> legal R m (map (key (o_lat C)) cs) ->
  let cm := nth mi (o_meths C) (mk_cmeth [] [] [] []) in
  let ss := nth mi (o_ss C) [] in
  if length (cm_vp cm) =? 1
  then exists vp rest, vptrs_of C cs = vp :: rest /\ in_image C (vp + Z.of_nat (nth 0%nat ss 0%nat))%Z
  else Forall (in_image C) (first_reads C (length (cm_vp cm)) ss (vptrs_of C cs)).
Proof. exact legal_call_reads_in_bounds. Qed.
Print Assumptions C04_legal_call_reads_in_bounds.
