(* Property C19 -- forward declarations are well formed and name exactly the requested classes.

   Model:  Model/FwdDecl.v   (write_forward_declarations, scan: the two text functions of yorel::yomm2::generator)
   Spec:   Spec/FwdDeclSpec.v (parse: recogniser of `namespace X {` / `}` / `class Y;`;  ty, show, class_names)
   Gen:    Gen/GenFwdDeclConsts.v, regenerated from include/yorel/yomm2/generator.hpp on every run
           (keyword set, skipped prefixes, regex literal)

   Every Theorem below is an obligation of ./check C19. *)
From Coq Require Import List Ascii String Bool.
From Y2 Require Import Gen.GenFwdDeclConsts Model.FwdDecl Spec.FwdDeclSpec Proofs.FwdDeclProofs.
Import ListNotations.

(* ------------------------------------------------------------------------------------------------------------ *)
(* Translated constants (first: when the source changes, the first obligation that fails names the cause).
   These three are computations over Gen/GenFwdDeclConsts.v, proved here so that Proofs/ does not depend on the
   values of the translated constants. *)

(* the regex in the source is the one the hand-written scanner `next_match` implements *)
Theorem C19_regex_unchanged : regex_is_expected = true /\ name_regex = expected_regex.
Proof. split; reflexivity. Qed.
Print Assumptions C19_regex_unchanged.

(* every keyword the printer of type descriptions can emit (words of the fundamental types incl. wchar_t, char8_t,
   char16_t, char32_t; const; volatile) is in the keyword set of the source *)
Theorem C19_keywords_cover : forall w, In w grammar_keywords -> In w keywords.
Proof.
  assert (H : forallb (fun w => existsb (String.eqb w) keywords) grammar_keywords = true)
    by (vm_compute; reflexivity).
  intros w Hin. rewrite forallb_forall in H. specialize (H w Hin).
  apply existsb_exists in H. destruct H as (x & Hx & He). apply String.eqb_eq in He. subst x. exact Hx.
Qed.
Print Assumptions C19_keywords_cover.

(* names under std:: and yorel:: are skipped *)
Theorem C19_prefixes_cover : In "std::"%string skipped_prefixes /\ In "yorel::"%string skipped_prefixes.
Proof. split; vm_compute; tauto. Qed.
Print Assumptions C19_prefixes_cover.

Example C19_keywords_example :
  In "const"%string grammar_keywords /\ In "wchar_t"%string grammar_keywords /\
  In "char16_t"%string grammar_keywords /\ In "unsigned"%string grammar_keywords /\
  List.length grammar_keywords = 31.
Proof. vm_compute. intuition. Qed.

(* ------------------------------------------------------------------------------------------------------------ *)
(* Writer.  For ANY list of valid qualified names -- no bound on their number, on the nesting depth or on the
   length of identifiers; sorted or not; identifiers that are string prefixes of one another; a class named like a
   namespace -- the text written is balanced, leaves no namespace open, and declares exactly the requested
   classes, each in exactly its namespaces, in the order given.  No cursor ever leaves its string (the result is
   `Some`).  Sortedness (which std::set provides) is NOT needed; neither is absence of duplicates: a name given
   twice would be declared twice, so "each class once" is the statement below with the duplicate-free list that
   a std::set holds (C19_writer_each_once). *)
Theorem C19_writer :
  forall qs : list qname,
    forallb valid_qname qs = true ->
    exists out, write_forward_declarations (map qname_text qs) = Some out /\ parse out = Some qs.
Proof. exact writer_correct. Qed.
Print Assumptions C19_writer.

(* the requested names are given as texts: a text names at most one valid qualified name ... *)
Theorem C19_name_text_injective :
  forall q1 q2, valid_qname q1 = true -> valid_qname q2 = true -> qname_text q1 = qname_text q2 -> q1 = q2.
Proof. exact qname_text_inj. Qed.
Print Assumptions C19_name_text_injective.

(* ... and distinct texts (the content of a std::set) are declared once each *)
Theorem C19_writer_each_once :
  forall qs : list qname,
    forallb valid_qname qs = true -> NoDup (map qname_text qs) ->
    exists out, write_forward_declarations (map qname_text qs) = Some out /\
                exists declared, parse out = Some declared /\ NoDup declared /\
                                 forall q, In q declared <-> In q qs.
Proof. exact writer_each_once. Qed.
Print Assumptions C19_writer_each_once.

(* non-vacuity: prefixes colliding at character level, a class named like a namespace, unsorted input *)
Example C19_writer_example :
  let qs := [ ([T "ab"], T "X"); ([T "abc"], T "Y"); ([T "a"; T "b"], T "X"); ([T "a"; T "bc"], T "Y");
              ([T "a"], T "b"); ([T "a"; T "b"], T "c"); ([], T "a") ] in
  forallb valid_qname qs = true /\ NoDup (map qname_text qs) /\
  write_forward_declarations (map qname_text qs) =
    Some (T "namespace ab {" ++ ["010"%char] ++ T "class X;" ++ ["010"%char] ++ T "}" ++ ["010"%char] ++
          T "namespace abc {" ++ ["010"%char] ++ T "class Y;" ++ ["010"%char] ++ T "}" ++ ["010"%char] ++
          T "namespace a {" ++ ["010"%char] ++ T "namespace b {" ++ ["010"%char] ++ T "class X;" ++ ["010"%char] ++
          T "}" ++ ["010"%char] ++ T "namespace bc {" ++ ["010"%char] ++ T "class Y;" ++ ["010"%char] ++
          T "}" ++ ["010"%char] ++ T "class b;" ++ ["010"%char] ++
          T "namespace b {" ++ ["010"%char] ++ T "class c;" ++ ["010"%char] ++ T "}" ++ ["010"%char] ++
          T "}" ++ ["010"%char] ++ T "class a;" ++ ["010"%char]).
Proof.
  split; [reflexivity|]. split; [|vm_compute; reflexivity].
  repeat constructor; simpl; intuition discriminate.
Qed.

(* the recogniser rejects unbalanced text, text that leaves a namespace open, and anything else *)
Example C19_parse_rejects :
  parse (T "namespace a { class X;") = None /\ parse (T "class X; }") = None /\
  parse (T "namespace a { int x; }") = None /\ parse (T "class a::X;") = None /\
  parse (T "namespace a{class X;}class Y;") = Some [([T "a"], T "X"); ([], T "Y")].
Proof. vm_compute. repeat split. Qed.

(* ------------------------------------------------------------------------------------------------------------ *)
(* Extraction.  FULL statement: for every type description the library can be given, the names kept are the class
   names that are not template names and not under std:: / yorel::.
   Proved here (`_partial`): for every description `show t` of the grammar `ty` (fundamental types, integer
   literals, names under any of the three origins, template applications with any arguments, pointers, references,
   cv-qualifiers, function types, pointers to functions -- arbitrarily nested, no bound on depth, arity or
   identifier lengths), as an equality of LISTS: the names are kept in print order, with repetitions (the real
   container then sorts and de-duplicates).
   What is missing from the full statement:
     - the regex engine itself: `scan` is a hand-written scanner for the regex of C19_regex_unchanged; it is tied
       to std::regex only by differential runs (./check C19);
     - descriptions outside the grammar: anonymous namespaces, decltype(nullptr), identifiers starting with `_`,
       members of class templates (Q<R>::S), arrays, pointers to members, negative or character literals;
     - `show` is tied to boost::core::demangle by the check (compiled sample), not by proof. *)
Theorem C19_extract_partial :
  forall t : ty, wf_ty t = true -> scan (show t) = map qname_text (class_names t).
Proof. exact (extract_correct C19_keywords_cover C19_prefixes_cover). Qed.
Print Assumptions C19_extract_partial.

(* non-vacuity: the description of a method, with cv-qualifiers, character types, a template under a user
   namespace, std:: and yorel:: entities; this is the case of the defect fixed in /repo commit dae33ac *)
Example C19_extract_example :
  let animal := TName User ([], T "Animal") in
  let t := TApp Yorel ([T "yomm2"], T "method")
             [ TName User ([], T "key");
               TFun (TFund FVoid)
                 [ TApp Yorel ([T "yomm2"], T "virtual_") [TLRef (TConst animal)];
                   TLRef (TVolatile (TName User ([T "ns"], T "X")));
                   TFund FWChar; TFund FChar16; TFund FULongLong;
                   TApp Std ([], T "shared_ptr") [TConst animal];
                   TPtr (TApp User ([T "ns"], T "tp") [TName User ([], T "Q"); TLit (T "1")]);
                   TFunPtr (TFund FInt) [TLRef (TName Std ([], T "ostream"))] ];
               TName Yorel ([T "yomm2"; T "policy"], T "debug") ] in
  wf_ty t = true /\
  show t = T ("yorel::yomm2::method<key, void (yorel::yomm2::virtual_<Animal const&>, ns::X volatile&, wchar_t, "
              ++ "char16_t, unsigned long long, std::shared_ptr<Animal const>, ns::tp<Q, 1>*, "
              ++ "int (" ++ "*)(std::ostream&)), yorel::yomm2::policy::debug>") /\
  scan (show t) = [T "key"; T "Animal"; T "ns::X"; T "Animal"; T "Q"].
Proof. vm_compute. repeat split. Qed.

(* ------------------------------------------------------------------------------------------------------------ *)
(* The writer's hypothesis is what the scanner guarantees: whatever text is scanned (ANY text, in or out of the
   grammar below), every name kept is the text of a valid qualified name, so any list drawn from the scanned names
   -- in particular the sorted duplicate-free content of the std::set -- is written as balanced text declaring
   exactly those classes. *)
Theorem C19_scanned_names_are_written_well :
  forall (s : text) (names : list text),
    (forall n, In n names -> In n (scan s)) ->
    exists qs out, names = map qname_text qs /\ forallb valid_qname qs = true /\
                   write_forward_declarations names = Some out /\ parse out = Some qs.
Proof. exact scan_then_write. Qed.
Print Assumptions C19_scanned_names_are_written_well.

Example C19_scanned_example :
  scan (T "a::b::C const* (x::::y, _u::v, 3rd::w)") = [T "a::b::C"; T "x"; T "y"].
Proof. vm_compute. reflexivity. Qed.

