(* C18 / C14 / C03 — the registration objects, on the code as TRANSLATED from /repo/include/yorel/yomm2/core.hpp and detail.hpp
   on this run.

   translators/registration.py parses the constructors and destructors of method<...>::add_function<Function>, method<...> and
   detail::class_declaration_aux<Policy, types<Class, Bases...>> and lowers them into the language of Model/MiniReg.v
   (Gen/GenReg.v): assignments of record fields from a fixed vocabulary of expressions (recognised only when the C++
   right-hand side, with the local type aliases expanded, is literally the listed one), tests of a field, BOOST_ASSERT, return,
   push_back / remove on fn.specs, Policy::classes, Policy::methods.  Here:
   - C18: for ANY well-formed sequence of constructions and destructions of class registration objects (resp. methods) the
     catalog operations the translated bodies perform are legal operations of Model.Catalog, and the intrusive list then
     represents and enumerates exactly the objects alive, in construction order (composition with C18_reachable);
     add_function<F> objects constructed in any order, any number of times, register each function's record exactly once,
     in order of first construction.
   - C14: every record goes to the catalog of ITS policy / ITS method (Policy::classes, Policy::methods, fn.specs of this
     method<Key, Signature, Policy>), and carries ids and v-table pointer variable computed through that Policy
     (expected_class / expected_method / expected_definition name each field's value); the definition record is one static
     per (method, Function).
   - C03: the record's `next` is the constructor's argument, and add_definition passes &Container::next exactly when the
     container declares a `next` of the method's next_type.

   Trusted in this tie: the parser and lowering of translators/registration.py + _minicpp.py (in particular the table that
   names the right-hand sides), and that a function-local static is one zero-initialised object per instantiation. *)
From Coq Require Import List Bool Arith.
Import ListNotations.
From Y2 Require Import Model.Catalog Proofs.CatalogProofs Model.MiniReg Gen.GenReg Proofs.RegSource.

Theorem C18_source_class_lifetimes : forall evs fuel, lifetimes_ok [] evs = true -> length evs <= fuel ->
  exists ops, events_ops KPolicyClasses gen_class_ctor gen_class_dtor evs = Some ops /\
              repr (live_after [] evs) (run fuel ops) /\ iterate fuel (run fuel ops) = Some (live_after [] evs) /\
              fault (run fuel ops) = false.
Proof. exact src_class_catalog. Qed.
Print Assumptions C18_source_class_lifetimes.

Theorem C18_source_method_lifetimes : forall evs fuel, lifetimes_ok [] evs = true -> length evs <= fuel ->
  exists ops, events_ops KPolicyMethods gen_method_ctor gen_method_dtor evs = Some ops /\
              repr (live_after [] evs) (run fuel ops) /\ iterate fuel (run fuel ops) = Some (live_after [] evs) /\
              fault (run fuel ops) = false.
Proof. exact src_method_catalog. Qed.
Print Assumptions C18_source_method_lifetimes.

Theorem C18_source_definitions_once : forall fs fuel, length fs <= fuel ->
  exists ops st', addfn_ops gen_add_function [] fs = Some (ops, st') /\
                  repr (first_occurrences [] fs) (run fuel ops) /\ iterate fuel (run fuel ops) = Some (first_occurrences [] fs).
Proof. exact src_add_function_catalog. Qed.
Print Assumptions C18_source_definitions_once.

Theorem C14_source_class_record : exists this',
  run_rfun gen_class_ctor [] [] = Some ([], this', [RPush KPolicyClasses OThis]) /\ rrec_equiv this' expected_class.
Proof. exact src_class_ctor. Qed.
Print Assumptions C14_source_class_record.

Theorem C14_source_class_unregisters : forall this,
  run_rfun gen_class_dtor [] this = Some ([], this, [RRemove KPolicyClasses OThis]).
Proof. exact src_class_dtor. Qed.
Print Assumptions C14_source_class_unregisters.

Theorem C14_source_method_record : exists this',
  run_rfun gen_method_ctor [] [] = Some ([], this', [RPush KPolicyMethods OThis]) /\ rrec_equiv this' expected_method.
Proof. exact src_method_ctor. Qed.
Print Assumptions C14_source_method_record.

Theorem C14_source_method_unregisters : forall this,
  run_rfun gen_method_dtor [] this = Some ([], this, [RRemove KPolicyMethods OThis]).
Proof. exact src_method_dtor. Qed.
Print Assumptions C14_source_method_unregisters.

Theorem C14_source_definition_record : exists info',
  run_rfun gen_add_function [] [] = Some (info', [], [RPush KFnSpecs OInfo]) /\ rrec_equiv info' expected_definition.
Proof. exact src_add_function_first. Qed.
Print Assumptions C14_source_definition_record.

Theorem C14_source_definition_record_again : forall info, rrec_equiv info expected_definition ->
  run_rfun gen_add_function info [] = Some (info, [], []).
Proof. exact src_add_function_again. Qed.
Print Assumptions C14_source_definition_record_again.

Theorem C14_source_definition_record_is_static : rf_static_info gen_add_function = true.
Proof. exact src_add_function_static. Qed.
Print Assumptions C14_source_definition_record_is_static.

(* the `next` slot registered for a definition is the constructor's argument; add_definition passes the container's *)
Theorem C03_source_next_registered :
  rget expected_definition FNext = Some VNextArg /\
  forall container_has_next, gen_add_definition_passes_next container_has_next = container_has_next.
Proof. split; reflexivity. Qed.
Print Assumptions C03_source_next_registered.

(* ------------------------------------------------------------------ non-vacuity *)
(* three class objects; the first constructed is destroyed first (a module unloaded out of order), then constructed again *)
Example ex_class_lifetimes :
  let evs := [Ctor 1; Ctor 2; Ctor 3; Dtor 1; Ctor 1; Dtor 3] in
  lifetimes_ok [] evs = true /\ live_after [] evs = [2; 1] /\
  events_ops KPolicyClasses gen_class_ctor gen_class_dtor evs = Some [Push 1; Push 2; Push 3; Remove 1; Push 1; Remove 3].
Proof. vm_compute. repeat split; reflexivity. Qed.

Example ex_definitions_once :
  match addfn_ops gen_add_function [] [5; 7; 5; 9; 7] with
  | Some (ops, _) => ops = [Push 5; Push 7; Push 9]
  | None => False
  end.
Proof. vm_compute. reflexivity. Qed.
