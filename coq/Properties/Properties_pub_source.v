(* C01 / C05 / C07 / C09 — how v-table pointers are published and found again by type id, on the code as TRANSLATED from
   /repo/include/yorel/yomm2/policies/vptr_vector.hpp and vptr_map.hpp on this run.

   translators/publish.py parses vptr_vector<Policy>::publish_vptrs / dynamic_vptr and vptr_map<Policy>::publish_vptrs /
   dynamic_vptr and lowers them statement by statement into the language of Model/MiniPub.v (Gen/GenPub.v).  Here: running
   the translated bodies IS the hand model (Model.VptrPolicy for the map and the unhashed vector, Model.Hash for the hashed
   vector, fast or checked, with or without indirect_vptr), for every class list, prior container content and hash state;
   and, composed with the model theorems (C01_lookup_vector, C01_lookup_map, C05_dynamic_vptr), a lookup after publishing
   finds, for every registered id, the v-table pointer of its own class — whatever the containers held before (C07).

   Trusted in this tie: the parser and lowering of translators/publish.py + _minicpp.py; std::vector::resize / operator[],
   the associative container's operator[] (insert or overwrite) and find are read as the list functions of the model. *)
From Coq Require Import NArith List Bool.
Import ListNotations.
From Y2 Require Import Model.Registry Model.Hash Model.VptrPolicy Model.MiniPub Gen.GenPub Proofs.PubSource Proofs.VptrPolicyProofs.
Open Scope N_scope.

Theorem C01_source_map_publish : forall checked stream budget classes dyn hh ii s,
  qexec hh ii checked stream budget classes dyn gen_map_publish s = POk (with_map s (map_publish classes (q_map s))).
Proof. exact src_map_publish. Qed.
Print Assumptions C01_source_map_publish.

Theorem C01_source_map_lookup : forall checked stream budget classes dyn hh ii s,
  run_lookup hh ii checked stream budget classes dyn gen_map_lookup s = POk (map_lookup (q_map s) dyn).
Proof. exact src_map_lookup. Qed.
Print Assumptions C01_source_map_lookup.

Theorem C01_source_vector_publish : forall checked stream budget classes dyn ii s, exists sz ix,
  qexec false ii checked stream budget classes dyn gen_vector_publish s
  = POk (mk_pstate sz ix (q_hst s) (q_attempts s) (vec_publish classes (q_vptrs s))
                   (if ii then vec_publish classes (q_ivptrs s) else q_ivptrs s) (q_map s)).
Proof. exact src_vector_publish_nohash. Qed.
Print Assumptions C01_source_vector_publish.

Theorem C01_source_vector_lookup : forall checked stream budget classes dyn ii s,
  run_lookup false ii checked stream budget classes dyn gen_vector_lookup s = POk (vec_lookup (q_vptrs s) dyn).
Proof. exact src_vector_lookup_nohash. Qed.
Print Assumptions C01_source_vector_lookup.

Theorem C05_source_vector_publish : forall checked stream budget classes dyn ii st v iv m,
  to_pub (qexec true ii checked stream budget classes dyn gen_vector_publish (pstate_of st v iv m))
  = publish_vptrs checked stream budget st v classes.
Proof. exact src_vector_publish_hash. Qed.
Print Assumptions C05_source_vector_publish.

Theorem C05_source_vector_lookup : forall checked stream budget classes dyn ii s,
  run_lookup true ii checked stream budget classes dyn gen_vector_lookup s
  = match dynamic_vptr checked (q_hst s) (q_vptrs s) dyn with
    | Ok (_, p) => POk p
    | Error (UnknownClass u) => PUnknown u (q_hst s)
    end.
Proof. exact src_vector_lookup_hash. Qed.
Print Assumptions C05_source_vector_lookup.

(* composed: publish with the translated code, then look up with the translated code *)
Theorem C01_source_map_roundtrip : forall checked stream budget classes hh ii s, ids_disjoint classes ->
  forall c t, In c classes -> In t (pc_ids c) ->
  exists s', qexec hh ii checked stream budget classes 0 gen_map_publish s = POk s' /\
             run_lookup hh ii checked stream budget classes t gen_map_lookup s' = POk (Some (pc_vptr c)).
Proof. exact src_map_roundtrip. Qed.
Print Assumptions C01_source_map_roundtrip.

Theorem C01_source_vector_roundtrip : forall checked stream budget classes ii s, ids_disjoint classes ->
  forall c t, In c classes -> In t (pc_ids c) ->
  exists s', qexec false ii checked stream budget classes 0 gen_vector_publish s = POk s' /\
             run_lookup false ii checked stream budget classes t gen_vector_lookup s' = POk (Some (pc_vptr c)).
Proof. exact src_vector_roundtrip. Qed.
Print Assumptions C01_source_vector_roundtrip.

(* ------------------------------------------------------------------ non-vacuity: the translated bodies run *)
Example ex_map : 
  match qexec false false false [] 0 [(100, [7; 9]); (200, [8])] 0 gen_map_publish (pstate_of (mk_hstate 0 0 0 0 0 []) [] [] [(7, 555)]) with
  | POk s' => run_lookup false false false [] 0 [] 7 gen_map_lookup s' = POk (Some 100) /\
              run_lookup false false false [] 0 [] 8 gen_map_lookup s' = POk (Some 200)
  | _ => False
  end.
Proof. vm_compute. split; reflexivity. Qed.

Example ex_vector :
  match qexec false true false [] 0 [(100, [7; 9]); (200, [8])] 0 gen_vector_publish (pstate_of (mk_hstate 0 0 0 0 0 []) [Some 1] [Some 1] []) with
  | POk s' => run_lookup false true false [] 0 [] 9 gen_vector_lookup s' = POk (Some 100) /\
              length (q_vptrs s') = 10%nat /\ q_ivptrs s' = q_vptrs s'
  | _ => False
  end.
Proof. vm_compute. repeat split; reflexivity. Qed.
