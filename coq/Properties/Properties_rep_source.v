(* C17 / C01 / C12 — the arithmetic around the dispatch tables, on the code as TRANSLATED from
   /repo/include/yorel/yomm2/detail/compiler.hpp on this run.

   translators/reportarith.py parses the block of build_dispatch_tables that fills m.strides, the `if (m.arity() > 1)` that
   computes m.report.cells and m.report.concrete_cells, and generic_compiler::accumulate, and lowers them statement by
   statement into the language of Model/MiniRep.v (Gen/GenRep.v); it also checks that every method's report is accumulated
   into the update's.  Here: the translated code computes, for every method, the strides the model installs (the numbers
   C01's walk multiplies group indexes by, and C12's generated offsets), the cells / concrete_cells of the method report, and
   Model.Compile.accumulate — what the update report (C17) is made of, together with the four counters of
   Properties_tab_source.v.

   Trusted in this tie: the parser and lowering of translators/reportarith.py + _minicpp.py; std::count_if and
   container.size() are read as the list functions of Model/MiniRep.v; std::size_t arithmetic is read as nat (no overflow:
   the products are bounded by the number of cells actually allocated). *)
From Coq Require Import List NArith Bool.
Import ListNotations.
From Y2 Require Import Model.Registry Model.Compile Model.MiniRep Gen.GenRep Proofs.RepSource.

Theorem C01_source_strides : forall L m p rep tot,
  let groups := map (groups_of L m) (seq 0 (length (cm_vp m))) in
  exists env', aexec groups (length (cm_vp m)) p gen_strides None (as0 rep tot)
               = Some (mk_as env' rep tot (t_strides (build_method L m))).
Proof. exact src_method_strides. Qed.
Print Assumptions C01_source_strides.

Theorem C17_source_cells : forall L m p tot ni amb cni camb,
  let groups := map (groups_of L m) (seq 0 (length (cm_vp m))) in
  let r := t_report (build_method L m) in
  exists env', aexec groups (length (cm_vp m)) p gen_cells None (as0 (mk_rep 0 0 ni amb cni camb) tot)
               = Some (mk_as env' (mk_rep (rp_cells r) (rp_ccells r) ni amb cni camb) tot []).
Proof. exact src_method_cells. Qed.
Print Assumptions C17_source_cells.

Theorem C17_source_accumulate : forall groups arity rep tot p,
  aexec groups arity p gen_accumulate None (as0 rep tot) = Some (mk_as [] rep (accumulate tot p) []).
Proof. exact src_accumulate. Qed.
Print Assumptions C17_source_accumulate.

(* non-vacuity: three dimensions with 2, 3 and 2 groups (one of them without concrete class): strides 2 and 6, 12 cells,
   8 concrete; a partial report with gaps adds 1, not the count, to the update's *)
Example ex_rep :
  let groups := [[(1%N, true); (2%N, true)]; [(1%N, true); (2%N, false); (3%N, true)]; [(1%N, true); (3%N, true)]] in
  (exists env, aexec groups 3 (mk_rep 0 0 0 0 0 0) gen_strides None (as0 (mk_rep 0 0 0 0 0 0) (mk_rep 0 0 0 0 0 0))
               = Some (mk_as env (mk_rep 0 0 0 0 0 0) (mk_rep 0 0 0 0 0 0) [2; 6])) /\
  (exists env, aexec groups 3 (mk_rep 0 0 0 0 0 0) gen_cells None (as0 (mk_rep 0 0 5 0 2 0) (mk_rep 0 0 0 0 0 0))
               = Some (mk_as env (mk_rep 12 8 5 0 2 0) (mk_rep 0 0 0 0 0 0) [])) /\
  aexec groups 3 (mk_rep 12 8 5 0 2 0) gen_accumulate None (as0 (mk_rep 0 0 0 0 0 0) (mk_rep 10 10 1 1 0 0))
  = Some (mk_as [] (mk_rep 0 0 0 0 0 0) (mk_rep 22 18 2 1 1 0) []).
Proof. vm_compute. repeat split; eexists; reflexivity. Qed.
