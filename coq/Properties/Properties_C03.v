(* Property C03 — next refers to the most specific strictly more general definition. Property theorems only. *)
From Y2 Require Import Model.Registry Model.Compile Spec.Dispatch Proofs.Interfaces Proofs.SpecProofs Proofs.CorollaryProofs.

Theorem C03_next_runs : forall R defs k i,
  spec_next R defs k = Run i <->
  (i < length defs /\ strictly_more_general R (nth i defs []) (nth k defs []) /\
   forall j, j < length defs -> j <> i -> strictly_more_general R (nth j defs []) (nth k defs []) ->
             more_specific R (nth i defs []) (nth j defs [])).
Proof. exact spec_next_Run. Qed.
Print Assumptions C03_next_runs.

Theorem C03_next_not_implemented : forall R defs k,
  spec_next R defs k = NoDefinition <->
  forall j, j < length defs -> ~ strictly_more_general R (nth j defs []) (nth k defs []).
Proof. exact spec_next_NoDefinition. Qed.
Print Assumptions C03_next_not_implemented.

Theorem C03_next_ambiguous : forall R defs k,
  spec_next R defs k = Ambiguous <->
  (exists j, j < length defs /\ strictly_more_general R (nth j defs []) (nth k defs [])) /\
  forall i, ~ best_next R defs k i.
Proof. exact spec_next_Ambiguous. Qed.
Print Assumptions C03_next_ambiguous.

(* The next that update computes for definition i of method mi (model of build_dispatch_tables' "assigning next")
   is the specification's, for every well-formed registry: a definition, the not-implemented stub or the ambiguity stub.
   compile is a function of the catalogs only, so every update recomputes it (see C07). *)
Theorem C03_next_correct : forall R stale C mi m i,
  wf_registry R -> compile_with stale R = Ok C -> nth_error (r_methods R) mi = Some m -> i < length (m_defs m) ->
  nth i (t_nexts (nth mi (o_tables C) (mk_ct [] [] [] (mk_rep 0 0 0 0 0 0) []))) CNi
  = cell_of_outcome (spec_next R (meth_defs R m) i).
Proof. exact next_correct. Qed.
Print Assumptions C03_next_correct.
