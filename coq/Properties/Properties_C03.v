(* Property C03 — next refers to the most specific strictly more general definition. Property theorems only. *)
From Y2 Require Import Model.Registry Spec.Dispatch Proofs.SpecProofs.

Theorem C03_next_runs : forall R defs k i,
  spec_next R defs k = Run i <->
  (i < length defs /\ strictly_more_general R (nth i defs []) (nth k defs []) /\
   forall j, j < length defs -> j <> i -> strictly_more_general R (nth j defs []) (nth k defs []) ->
             more_specific R (nth i defs []) (nth j defs [])).
Proof. exact spec_next_Run. Qed.
Print Assumptions C03_next_runs.

Theorem C03_next_not_implemented : forall R defs k,
  spec_next R defs k = NoDefinition <->
  forall j, j < length defs -> ~ strictly_more_general R (nth j defs []) (nth k defs []).
Proof. exact spec_next_NoDefinition. Qed.
Print Assumptions C03_next_not_implemented.

Theorem C03_next_ambiguous : forall R defs k,
  spec_next R defs k = Ambiguous <->
  (exists j, j < length defs /\ strictly_more_general R (nth j defs []) (nth k defs [])) /\
  forall i, ~ best_next R defs k i.
Proof. exact spec_next_Ambiguous. Qed.
Print Assumptions C03_next_ambiguous.
