(* C13 — the cells the encoder writes, on the code as TRANSLATED from /repo/include/yorel/yomm2/generator.hpp on this run.

   translators/encwrite.py parses the part of generator::encode_dispatch_data that follows the prelude and lowers the three
   loops that write the cells into the language of Model/MiniWr.v (Gen/GenWr.v): per method its slots then its strides; per
   class its first slot (with the stop bit when the v-table is empty) and, per v-table entry, one cell (group | index_bit |
   stop) for a second or later virtual parameter, else the method index followed by the definition index of the cell the
   group designates (uni-methods) or by the group (multi-methods), the stop bit on the LAST entry of the class (`&entry ==
   &cls.vtbl.back()`); per multi-method its dispatch table as definition indexes, the stop bit on the last cell only.
   Every number goes through uint16_t.  Text (indentation, comments) carries no cell; the three separators that close one
   array and open the next are checked to be printed between the loops, and `methods[i]` to be `&compiler.methods[i]`.
   Here: the cells emitted are e_slots, e_vtbls, e_dtbls of Model.Codec.encode - with C13_source_encode_sizes
   (Properties_C13_enc_source.v: the five array bounds) the whole of `encode`, and with C13_source_roundtrip
   (Properties_C13_source.v) the round trip, are statements about the text of generator.hpp and decode.hpp as they are now.

   Hypotheses, true of everything update produces: an entry of a first virtual parameter names an existing method and, for a
   uni-method, an existing cell (`methods[i]`, `dispatch_table[g]` in range - anything else is a fault of the interpreter);
   the dispatch table of a multi-method is not empty (`end() - 1`, `back()`).

   Trusted in this tie: the parser and lowering of translators/encwrite.py + _minicpp.py; that `os << uint16_t(x)` under
   std::hex / std::showbase prints x so that the C++ compiler reads x back (checked by the H3 harness, which compiles the text). *)
From Coq Require Import List NArith.
Import ListNotations.
From Coq Require Import ZArith.
From Y2 Require Import Model.Registry Model.Compile Model.Codec Spec.Dispatch Model.MiniWr Gen.GenWr Proofs.WrSource Proofs.CodecProofs
                       Model.MiniDec Gen.GenDec Proofs.DecSource Proofs.WrCompose.
Local Open Scope nat_scope.

Theorem C13_source_encode_cells : forall C,
  length (o_meths C) = length (o_slots C) -> length (o_meths C) = length (o_tables C) ->
  (forall es e, In es (o_vtbl C) -> In e es ->
     let '(mi, vpi, g) := e in
     vpi = 0 -> mi < length (o_meths C) /\
                (meth_arity (nth mi (o_meths C) dummy_meth) = 1 -> g < length (t_cells (nth mi (o_tables C) dummy_tab)))) ->
  (forall m t, In (m, t) (combine (o_meths C) (o_tables C)) -> 2 <= meth_arity m -> t_cells t <> []) ->
  wrun C gen_write_slots = Some (e_slots (encode C)) /\
  wrun C gen_write_vtbls = Some (e_vtbls (encode C)) /\
  wrun C gen_write_tables = Some (e_dtbls (encode C)).
Proof. exact src_encode_cells. Qed.
Print Assumptions C13_source_encode_cells.

(* the hypotheses hold of everything update produces: for every well-formed registry ... *)
Theorem C13_source_encode_compile : forall R C, wf_registry R -> compile R = Ok C -> small C ->
  wrun C gen_write_slots = Some (e_slots (encode C)) /\
  wrun C gen_write_vtbls = Some (e_vtbls (encode C)) /\
  wrun C gen_write_tables = Some (e_dtbls (encode C)).
Proof. exact src_encode_compile. Qed.
Print Assumptions C13_source_encode_compile.

(* ... and both halves together: the cells written by the encoder as generator.hpp has it now, laid out with the array bounds
   of Codec.encode (which C13_source_encode_sizes shows to be the ones the same function prints), are turned back by the decoder
   as decode.hpp has it now into the tables, slots and strides and v-table pointers update installed *)
Theorem C13_source_roundtrip_both : forall R C, wf_registry R -> compile R = Ok C -> small C ->
  exists slots vtbls dtbls,
    wrun C gen_write_slots = Some slots /\ wrun C gen_write_vtbls = Some vtbls /\ wrun C gen_write_tables = Some dtbls /\
    let E := encode C in
    exists d, decode_src gen_dec (ctx_of C) (mk_enc (e_H E) (e_S E) (e_E E) (e_D E) (e_T E) slots vtbls dtbls) = COk d /\
      (exists junk, o_image C = dd_image d ++ junk) /\ length (dd_image d) = written C /\
      dd_ss d = o_ss C /\
      o_vptr C = map (fun z => (Z.of_nat (tables_len C) + z)%Z) (dd_vptr d).
Proof. exact src_roundtrip_both. Qed.
Print Assumptions C13_source_roundtrip_both.

(* non-vacuity: on the compiled example registries of Properties_C13.v the translated loops run and emit the model's cells *)
Example C13_source_write_example :
  match compile first4_R with
  | Ok C => wrun C gen_write_slots = Some (e_slots (encode C)) /\ wrun C gen_write_vtbls = Some (e_vtbls (encode C)) /\
            wrun C gen_write_tables = Some (e_dtbls (encode C)) /\ length (e_vtbls (encode C)) = 20
  | Err _ => False
  end.
Proof. vm_compute. repeat split. Qed.
