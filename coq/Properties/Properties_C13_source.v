(* C13 — decoding, on the code as TRANSLATED from /repo/include/yorel/yomm2/decode.hpp on this run.

   translators/decoder.py parses the whole of decode_dispatch_data, matches the skeleton around its three loops on the AST
   (which catalog each loop walks, where each cursor starts, that a class which already has a v-table is skipped, that
   method_defs[mi] is <the definitions in catalog order, ambiguous, not_implemented>, 2 * arity - 1 slots and strides per
   method) and lowers the dispatch-table loop, the lambda `fetch` and the body of the class loop statement by statement into
   the language of Model/MiniDec.v (Gen/GenDec.v).  Here: the decoder assembled from those pieces IS Model.Codec.decode, on
   every input (malformed data included: same error), hence the round-trip and in-place theorems of Properties_C13.v hold
   of the code decode.hpp contains now.

   Trusted in this tie: the parser, skeleton matching and lowering of translators/decoder.py + _minicpp.py; the meaning
   Model/MiniDec.v gives the primitives that touch the buffers (they are the model's own def_word / put and the bounds and
   overlap checks of its fetch); the encoder side (generator.hpp) stays tied by the differential runs and the constants
   read by translators/consts_codec.py. *)
From Coq Require Import List ZArith.
Import ListNotations.
From Y2 Require Import Model.Registry Model.Compile Model.Codec Spec.Dispatch Proofs.CodecProofs Model.MiniDec Gen.GenDec Proofs.DecSource.
Local Open Scope nat_scope.

Theorem C13_source_decode_is_model : forall ctx E, decode_src gen_dec ctx E = decode ctx E.
Proof. exact src_decode. Qed.
Print Assumptions C13_source_decode_is_model.

Theorem C13_source_roundtrip : forall R C, wf_registry R -> compile R = Ok C -> small C ->
  exists d, decode_src gen_dec (ctx_of C) (encode C) = COk d /\
    (exists junk, o_image C = dd_image d ++ junk) /\ length (dd_image d) = written C /\
    dd_ss d = o_ss C /\
    o_vptr C = map (fun z => (Z.of_nat (tables_len C) + z)%Z) (dd_vptr d).
Proof. exact src_roundtrip. Qed.
Print Assumptions C13_source_roundtrip.

Theorem C13_source_in_place : forall R C, wf_registry R -> compile R = Ok C -> small C ->
  exists d, decode_src gen_dec (ctx_of C) (encode C) = COk d /\
    let E := encode C in
    Forall (fun wr => 4 * S (fst wr) <= snd wr /\ fst wr < e_D E /\ snd wr <= e_H E + e_S E + e_E E) (dd_log d) /\
    length (dd_log d) = vtbls_len C /\ dd_rd d = e_E E.
Proof. exact src_in_place. Qed.
Print Assumptions C13_source_in_place.

(* non-vacuity: the translated decoder runs on the example of Properties_C13.v, and rejects the pre-fix encoding *)
Example C13_source_example :
  match compile first4_R with
  | Ok C =>
      match decode_src gen_dec (ctx_of C) (encode C) with
      | COk d => dd_image d = firstn 13 (o_image C) /\ dd_vptr d = [0; -2; 4; 10]%Z /\ dd_rd d = 20
      | CErr _ => False
      end
  | Err _ => False
  end.
Proof. vm_compute. repeat split. Qed.

Example C13_source_rejects_legacy :
  match compile tail_R with
  | Ok C =>
      let E := encode C in
      decode_src gen_dec (ctx_of C) (mk_enc (e_H E) (e_S E) (e_E E) (e_D E) (e_T E) (e_slots E) (enc_vtbls_legacy C) (e_dtbls E))
      = CErr (WriteOutside 1)
  | Err _ => False
  end.
Proof. vm_compute. reflexivity. Qed.
