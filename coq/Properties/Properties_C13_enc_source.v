(* C13 — the array bounds of the emitted struct, on the code as TRANSLATED from /repo/include/yorel/yomm2/generator.hpp on this
   run.

   translators/encsizes.py parses the statements of generator::encode_dispatch_data that precede `os << prelude;` ("Calculate
   data sizes"), checks that the emitted struct declares, in order, headroom / slots / encoded v-tables / decoded v-tables /
   dispatch tables with the five %d of the format, and lowers the computation (both spellings: two std::accumulate, or one
   loop over the methods) and the five arguments of std::snprintf into the language of Model/MiniEnc.v (Gen/GenEnc.v).  Here:
   for every update result, the five printed numbers are e_H, e_S, e_E, e_D, e_T of Model.Codec.encode — the bounds about
   which C13_sizes, C13_sizes_fit and C13_in_place (the headroom that keeps every in-place write below the read cursor) are
   proved.

   Trusted in this tie: the parser and lowering of translators/encsizes.py + _minicpp.py; std::size_t arithmetic is read as nat
   (`2 * arity - 1` with arity >= 1: stated as a hypothesis; the subtractions of the headroom computation are guarded by the
   comparisons the code makes). *)
From Coq Require Import List.
Import ListNotations.
From Y2 Require Import Model.Registry Model.Compile Model.Codec Model.MiniEnc Gen.GenEnc Proofs.EncSource.

Theorem C13_source_sizes : forall C, length (o_tables C) = length (o_meths C) -> Forall (fun m => 1 <= meth_arity m) (o_meths C) ->
  let E := encode C in
  run_sizes (methods_of C) (o_vtbl C) gen_sizes gen_printed = Some [e_H E; e_S E; e_E E; e_D E; e_T E].
Proof. exact src_encode_sizes. Qed.
Print Assumptions C13_source_sizes.

(* non-vacuity: a uni-method, a 2-method with 3 cells and a 3-method with 8; four classes: the bounds of the example of
   Properties_C13.v (12, 9, 20, 10, max) come out of the translated computation *)
Example ex_sizes :
  run_sizes [(1, 1); (2, 1); (3, 2)] [[(0, 0, 0)]; [(1, 0, 0); (2, 0, 0); (2, 1, 0)]; [(0, 0, 0); (1, 1, 0); (2, 2, 0); (1, 0, 0); (2, 0, 0); (2, 1, 0)]; []]
            gen_sizes gen_printed
  = Some [12; 9; 20; 10; 3].
Proof. vm_compute. reflexivity. Qed.
