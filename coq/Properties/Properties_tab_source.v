(* C01 / C02 / C17 — the dispatch-table builder, on the code as TRANSLATED from /repo/include/yorel/yomm2/detail/compiler.hpp
   on this run.

   translators/tablebuild.py parses compiler<Policy>::build_dispatch_table, checks that it is one loop over the groups of the
   dimension `group_iter` designates, and lowers the body of that loop statement by statement into the language of
   Model/MiniTab.v (Gen/GenTab.v): the mask `candidates & group_mask`, `if (dim == 0)`, the filter loop that collects the
   applicable definitions (one construct), best(applicable), which cell is pushed on m.dispatch_table in each of the three
   cases, which counters of m.report are incremented under which condition, and the five arguments of the recursive call; it
   also checks the first call in build_dispatch_tables (every definition a candidate, last dimension first, concrete = true).
   Here: running the translated function yields, in order, exactly the cells of Model.Compile.build_table (C01: the cell of a
   tuple of groups is the best applicable definition; C02: the ambiguity / not-implemented cells), and the counters it
   increments are the counts the model's report is made of (C17), for every lattice, definitions, groups and masks.

   Trusted in this tie: the parser, skeleton matching and lowering of translators/tablebuild.py + _minicpp.py; `best` is the
   translated function of Properties_core_source.v (its equality with Model.Compile.best is proved there); bitvec & and
   operator[] are read as N.land / N.testbit; std::vector::push_back as append. *)
From Coq Require Import List NArith Bool.
Import ListNotations.
From Y2 Require Import Model.Registry Model.Compile Model.MiniTab Gen.GenTab Proofs.TabSource.

Theorem C01_source_build_table : forall L specs gss cand concrete o,
  run_tab L specs gen_tab_body gss cand concrete o = Some (extend o (build_table L specs gss cand concrete)).
Proof. exact src_build_table. Qed.
Print Assumptions C01_source_build_table.

Theorem C17_source_method_report : forall L m,
  let groups := map (groups_of L m) (seq 0 (length (cm_vp m))) in
  let rep := t_report (build_method L m) in
  run_tab L (cm_specs m) gen_tab_body (rev groups) (N.ones (N.of_nat (length (cm_specs m)))) true (mk_to [] tc0)
  = Some (mk_to (t_cells (build_method L m)) (mk_tc (rp_amb rep) (rp_camb rep) (rp_ni rep) (rp_cni rep))).
Proof. exact src_build_method. Qed.
Print Assumptions C17_source_method_report.

(* non-vacuity: classes 1 <- 2, 1 <- 3; a method over (1, 1) with definitions (2,1), (1,3), (3,2): nine cells, of which three
   without definition and one ambiguous ((2,3)): the translated builder runs and gives the cells and counters of the model's table, which are not trivial *)
Definition ex_R : registry :=
  mk_reg [mk_class 1 [1] false; mk_class 2 [2; 1] false; mk_class 3 [3; 1] false]%N
         [mk_meth [1; 1]%N [mk_def [2; 1]%N true; mk_def [1; 3]%N true; mk_def [3; 2]%N true] [true; true]] [].

Example ex_tab :
  match compile ex_R with
  | Ok C =>
      let L := o_lat C in
      let m := nth 0 (o_meths C) (mk_cmeth [] [] [] []) in
      let groups := map (groups_of L m) (seq 0 (length (cm_vp m))) in
      match run_tab L (cm_specs m) gen_tab_body (rev groups) (N.ones (N.of_nat (length (cm_specs m)))) true (mk_to [] tc0) with
      | Some o => o_cells o = t_cells (nth 0 (o_tables C) (mk_ct [] [] [] (mk_rep 0 0 0 0 0 0) [])) /\
                  length (o_cells o) = 9 /\ k_ni (o_counts o) = 3 /\ k_amb (o_counts o) = 1 /\ k_camb (o_counts o) = 1
      | None => False
      end
  | Err _ => False
  end.
Proof. vm_compute. repeat split. Qed.

(* C03 / C07: the part of build_dispatch_tables that assigns `next` (run by every update, for every definition): what the
   translated loop body stores through a definition's next pointer is, for every definition, the cell the model computes —
   the single best of the strictly more general definitions, else the not-implemented stub when there is none, else the
   ambiguity stub (is_base and best are the translated functions of Properties_core_source.v) *)
Theorem C03_source_next : forall L specs sp,
  run_next L specs sp gen_next_body
  = Some (cell_of (best L specs (filter (fun o => is_base L (nth o specs []) sp false) (seq 0 (length specs))))).
Proof. exact src_next. Qed.
Print Assumptions C03_source_next.

Theorem C03_source_nexts : forall L m,
  map (fun sp => run_next L (cm_specs m) sp gen_next_body) (cm_specs m) = map Some (t_nexts (build_method L m)).
Proof. exact src_nexts. Qed.
Print Assumptions C03_source_nexts.
