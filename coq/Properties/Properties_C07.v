(* Property C07 — update after any load / unload history behaves like a fresh update. Property theorems only.
   A history is any finite sequence of registrations and unregistrations of classes, methods and definitions (by
   position in the live catalog: C18 proves static_list implements exactly these list operations) and updates.
   What persists between updates in the model: Policy::dispatch_data (resized, not cleared) and, for the deferred RTTI
   flavour, the shared type-id arrays with their "resolved" flags.  The v-table pointer vector and the hash parameters,
   which also persist, are the subject of C05_history. *)
From Y2 Require Import Model.Registry Model.Compile Model.History Model.Deferred Spec.Dispatch.
From Y2 Require Import Proofs.Interfaces Proofs.ResolveProofs Proofs.HistoryProofs Proofs.DeferredProofs.

(* after ANY history, every legal call through the tables the latest update installed reads the very word a fresh
   process holding the current registrations would read — the thunk of the definition the rule designates among the
   definitions registered NOW (removed ones are never reached, added ones are), or the method's error stub *)
Theorem C07_fresh : forall ops alias C Cf mi m args,
  let R := h_reg (hrun alias ops) in
  wf_registry R -> h_inst (hrun alias (ops ++ [HUpdate])) = Some C -> compile R = Ok Cf ->
  nth_error (r_methods R) mi = Some m -> legal R m args ->
  exists cs cs' w,
    map (key (o_lat C)) cs = args /\ map (key (o_lat Cf)) cs' = args /\
    resolve C mi (actuals_of C (m_shape m) cs) = Ok w /\
    resolve Cf mi (actuals_of Cf (m_shape m) cs') = Ok w /\
    w = word_of_outcome mi (spec_dispatch R (meth_defs R m) args).
Proof. exact history_like_fresh. Qed.
Print Assumptions C07_fresh.

Theorem C07_fresh_next : forall ops alias C Cf mi m i,
  let R := h_reg (hrun alias ops) in
  wf_registry R -> h_inst (hrun alias (ops ++ [HUpdate])) = Some C -> compile R = Ok Cf ->
  nth_error (r_methods R) mi = Some m -> i < length (m_defs m) ->
  nth i (t_nexts (nth mi (o_tables C) (mk_ct [] [] [] (mk_rep 0 0 0 0 0 0) []))) CNi
  = nth i (t_nexts (nth mi (o_tables Cf) (mk_ct [] [] [] (mk_rep 0 0 0 0 0 0) []))) CNi.
Proof. exact history_next_like_fresh. Qed.
Print Assumptions C07_fresh_next.

(* the update after a history of well-formed registrations always succeeds *)
Theorem C07_update_succeeds : forall ops alias, wf_registry (h_reg (hrun alias ops)) ->
  exists C, h_inst (hrun alias (ops ++ [HUpdate])) = Some C.
Proof. exact update_succeeds. Qed.
Print Assumptions C07_update_succeeds.

(* running update again with no change alters nothing: same catalogs, same installed state, same dispatch_data *)
Theorem C07_idempotent : forall ops alias,
  let s1 := hrun alias (ops ++ [HUpdate]) in
  let s2 := hrun alias (ops ++ [HUpdate; HUpdate]) in
  h_reg s2 = h_reg s1 /\ h_inst s2 = h_inst s1 /\ (h_inst s1 <> None -> h_data s2 = h_data s1).
Proof. exact update_idempotent. Qed.
Print Assumptions C07_idempotent.

(* deferred type ids: whatever id arrays the registrations share and whatever earlier updates resolved, update never
   calls an id as a function, every id list keeps denoting the same ids, afterwards everything the catalogs refer to
   holds ids; and an update with nothing new to resolve leaves the arrays exactly as they are *)
Theorem C07_deferred_ids : forall idf s k, store_ok s ->
  exists s', resolve_static_type_ids idf s k = DOk s' /\ store_ok s' /\ extends idf s s' /\ catalog_resolved s' k.
Proof. exact resolve_static_type_ids_ok. Qed.
Print Assumptions C07_deferred_ids.

Theorem C07_deferred_idempotent : forall idf s k, store_ok s -> catalog_resolved s k ->
  resolve_static_type_ids idf s k = DOk s.
Proof. exact resolve_static_type_ids_idempotent. Qed.
Print Assumptions C07_deferred_idempotent.

(* non-vacuity: register, update, remove the most specific definition, update: the call now runs the other one *)
Example C07_example :
  let ops := [HAddClass (mk_class 1 [1] false)%N; HAddClass (mk_class 2 [2;1] false)%N;
              HAddMethod (mk_meth [1]%N [] [true]); HAddDef 0 (mk_def [1]%N true); HAddDef 0 (mk_def [2]%N true);
              HUpdate; HDelDef 0 1; HAddClass (mk_class 3 [3;2] false)%N] in
  match h_inst (hrun [] (ops ++ [HUpdate])), h_inst (hrun [] (firstn 6 ops)) with
  | Some C, Some C0 => resolve C0 0 (actuals_of C0 [true] [1]) = Ok (WFn 0 1) /\
                      resolve C 0 (actuals_of C [true] [1]) = Ok (WFn 0 0) /\ resolve C 0 (actuals_of C [true] [2]) = Ok (WFn 0 0)
  | _, _ => False
  end.
Proof. vm_compute. repeat split. Qed.
(* two methods sharing one id array, a class without bases, resolved across two updates *)
Example C07_deferred_example :
  let idf := fun f => (f + 100)%N in
  let s0 := mk_ds [mk_arr [Unres 1; Unres 2] false; mk_arr [] false; mk_arr [Unres 1] false]%N [(Unres 1, false); (Unres 2, false)]%N in
  let k := mk_dcat [mk_dclass 0 1; mk_dclass 1 2] [mk_dmeth 0 [0; 0]; mk_dmeth 0 []] in
  match resolve_static_type_ids idf s0 k with
  | DOk s1 => resolve_static_type_ids idf s1 k = DOk s1 /\ array_ids idf s1 0 = [101; 102]%N
  | DCrash => False
  end.
Proof. vm_compute. repeat split. Qed.
