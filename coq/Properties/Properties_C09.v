(** * C09 - virtual_ptr dispatches like its pointee, however it was created

    Property (properties.jsonl): "virtual_ptr dispatches like its pointee,
    however it was created. A call made through a virtual_ptr runs the same
    definition as the same call made with a plain reference to the pointee,
    whether the virtual_ptr was built from an object of exactly its static
    type, from a base reference to a derived object, with final, by converting,
    copying or moving another virtual_ptr, or as a virtual_shared_ptr or
    make_virtual_shared result; get, * and -> give back the original object.
    With an indirect-vptr policy a virtual_ptr created before a later update
    remains valid after it; otherwise it is valid until the next update."

    The theorems are about [Model/VirtualPtr.v]: a state holding, per class,
    the static v-table pointer variable, the published lookup structures and
    the control set of the checked hash; one function per construction route
    ([ctor], [final_], [make_virtual_shared], [conv] / [copy] / [move], [cast]),
    [deref] (= _vptr()) and [get].  A method call reads the v-table
    [deref st p] for a virtual_ptr argument and [dynamic_vptr cfg st (dyn p)]
    for a plain reference (method::vptr, core.hpp:481-491); C09_route says the
    two are the same table - the class's table of the current update - so by
    C01 (Properties_C01.v: the definition a table row designates) the same
    definition runs.

    Domain restriction (stated, not hidden): [supported cfg].  vptr_map's
    publish_vptrs has no code for indirect_vptrs and initialises no hash, so
    vptr_map x basic_indirect_vptr and vptr_map x checked_perfect_hash compile
    but are not configurations the library offers (a virtual_ptr built from a
    base reference reads an empty indirect_vptrs vector).  9 of the 12
    configurations are supported: vptr_vector with any hash, direct or
    indirect; vptr_map without checked hash, direct.

    NOT modelled: which constructor C++ overload resolution selects for a given
    expression (e.g. that [virtual_ptr<A> q(p)] with a non-const lvalue [p]
    picks virtual_ptr(virtual_ptr<Other>&) and not the forwarding constructor).
    That is covered only by the generated programs of checks/C09.py, whose
    traces are compared with this model's. *)

From Coq Require Import List NArith Bool Arith Lia.
From Y2 Require Import Model.VirtualPtr Proofs.VirtualPtrProofs.
Import ListNotations.

(** ** Same v-table as a plain reference, for every route *)

(** For every supported configuration, reachable state (any history of
    updates), and construction expression [m] - constructor from an object of
    exactly the static type or from a base reference, final, make_virtual_shared,
    from a const / non-const lvalue / rvalue shared_ptr, and any nesting of
    converting copies, copies, moves and casts - whose root object's class was
    compiled by the last update (for final: and is exactly the static class):
    the expression yields a pointer, _vptr() of it is the current table of the
    dynamic class, and that is what dynamic_vptr gives for a plain reference. *)
Theorem C09_route : forall cfg st m,
  supported cfg = true -> reachable cfg st -> pre st m ->
  exists log p, build cfg st m = (log, Ok p) /\
    deref st p = Some (current st (a_dyn (root m))) /\
    outcome (dynamic_vptr cfg st (a_dyn (root m))) = Ok (current st (a_dyn (root m))).
Proof. exact route_same_table. Qed.
Print Assumptions C09_route.

(** get / * / -> give back the object the pointer was made from.  (Converting
    routes keep the identity; the address adjustment to the [stat] subobject is
    C11's subject, Properties_C11.v.) *)
Theorem C09_get : forall cfg st m,
  supported cfg = true -> reachable cfg st -> pre st m ->
  exists log p, build cfg st m = (log, Ok p) /\ get p = a_obj (root m) /\ dyn p = a_dyn (root m).
Proof. exact route_get. Qed.
Print Assumptions C09_get.

(** smart flavours keep the control block of the shared_ptr they were made
    from, through any chain of conversions; plain ones carry none *)
Theorem C09_shared_owner : forall cfg st m,
  supported cfg = true -> reachable cfg st -> pre st m ->
  exists log p, build cfg st m = (log, Ok p) /\
    smart p = src_smart (a_src (root m)) /\
    (src_smart (a_src (root m)) = true -> owner p = Some (a_ctrl (root m))) /\
    (src_smart (a_src (root m)) = false -> owner p = None).
Proof. exact route_owner. Qed.
Print Assumptions C09_shared_owner.

(** ** Updates during the lifetime of the pointer *)

(** indirect policy: after any number of later updates, if the class is
    compiled by the last of them, the old pointer dereferences to the class's
    CURRENT table *)
Theorem C09_indirect_survives_update : forall cfg st m later,
  supported cfg = true -> indirect cfg = true -> reachable cfg st -> pre st m ->
  In (a_dyn (root m)) (classes (updates cfg later st)) ->
  exists log p, build cfg st m = (log, Ok p) /\
    deref (updates cfg later st) p = Some (current (updates cfg later st) (a_dyn (root m))).
Proof. exact indirect_survives. Qed.
Print Assumptions C09_indirect_survives_update.

(** direct policy: in every later state the pointer still designates the table
    of the update it was created under ... *)
Theorem C09_direct_until_update : forall cfg st m st',
  supported cfg = true -> indirect cfg = false -> reachable cfg st -> pre st m ->
  exists log p, build cfg st m = (log, Ok p) /\
    deref st' p = Some (current st (a_dyn (root m))).
Proof. exact direct_keeps_creation_table. Qed.
Print Assumptions C09_direct_until_update.

(** ... which, as soon as one update has happened, is not the current table
    any more (the memory it designates has been released or rewritten): valid
    exactly until the next update *)
Theorem C09_direct_stale_after_update : forall cfg st m later,
  supported cfg = true -> indirect cfg = false -> reachable cfg st -> pre st m -> later <> [] ->
  exists log p, build cfg st m = (log, Ok p) /\
    deref (updates cfg later st) p <> Some (current (updates cfg later st) (a_dyn (root m))).
Proof. exact direct_stale_after_update. Qed.
Print Assumptions C09_direct_stale_after_update.

(** ** Copies, moves, conversions and casts do not look anything up *)

(** in EVERY state (also one later than the creation): same table, same object,
    same control block as the source ... *)
Theorem C09_copy_no_lookup : forall st p s,
  deref st (conv p s) = deref st p /\ deref st (copy p) = deref st p /\
  deref st (move p) = deref st p /\ deref st (cast p s) = deref st p /\
  get (conv p s) = get p /\ get (copy p) = get p /\ get (move p) = get p /\ get (cast p s) = get p /\
  owner (conv p s) = owner p /\ owner (copy p) = owner p /\ owner (move p) = owner p /\ owner (cast p s) = owner p.
Proof. exact conv_deref. Qed.
Print Assumptions C09_copy_no_lookup.

(** ... and they read nothing: the accesses of the whole expression are those
    of the expression that made the source *)
Theorem C09_copy_reads_nothing : forall cfg st m s,
  reads (build cfg st (MConv m s)) = reads (build cfg st m) /\
  reads (build cfg st (MCopy m)) = reads (build cfg st m) /\
  reads (build cfg st (MMove m)) = reads (build cfg st m) /\
  reads (build cfg st (MCast m s)) = reads (build cfg st m).
Proof. exact conv_no_reads. Qed.
Print Assumptions C09_copy_reads_nothing.

(** ** Non-vacuity *)

(** classes 0 <- 1 <- 2 (ids), class 7 never registered; 100+c is the id of
    std::shared_ptr<class c> *)
Definition ex_cfgs : list config :=
  [ {| hash := HChecked; placement := PVector; indirect := false |};    (* stock debug *)
    {| hash := HFast; placement := PVector; indirect := false |};       (* stock release *)
    {| hash := HChecked; placement := PVector; indirect := true |};     (* debug + basic_indirect_vptr *)
    {| hash := HFast; placement := PVector; indirect := true |};
    {| hash := HNone; placement := PVector; indirect := false |};       (* custom integer rtti, no hash *)
    {| hash := HNone; placement := PVector; indirect := true |};
    {| hash := HNone; placement := PMap; indirect := false |} ].        (* vptr_map *)

Definition ex_st (cfg : config) : state := update cfg [0; 1; 2]%N init_state.

Example ex_reachable : forall cfg, reachable cfg (ex_st cfg).
Proof. intros cfg. apply reach_update. apply reach_init. Qed.

Example ex_supported : forallb supported ex_cfgs = true.
Proof. vm_compute. reflexivity. Qed.

(** an object (identity 5) of class 2 *)
Definition ex_exact : arg := mk_arg 5 2%N 2%N 0 0 102%N.       (* virtual_ptr<K2>(k2) *)
Definition ex_base : arg := mk_arg 5 2%N 0%N 0 0 100%N.        (* K0& r = k2; virtual_ptr<K0>(r) *)
Definition ex_sp_lvalue : arg := mk_arg 5 2%N 0%N 2 77 100%N.  (* shared_ptr<K0> sp (holds a K2); virtual_shared_ptr<K0>(sp) *)
Definition ex_sp_final_lvalue : arg := mk_arg 5 2%N 2%N 2 77 102%N. (* shared_ptr<K2> sp; virtual_shared_ptr<K2>::final(sp) *)

Definition ex_routes : list mk :=
  [ MCtor ex_exact; MCtor ex_base; MFinal ex_exact; MCopy (MCtor ex_base); MMove (MFinal ex_exact);
    MConv (MCtor ex_exact) 0%N; MCast (MCtor ex_base) 2%N; MCtor ex_sp_lvalue;
    MFinal ex_sp_final_lvalue; MMakeShared 9 2%N 78 102%N; MCast (MConv (MMakeShared 9 2%N 78 102%N) 0%N) 1%N ].

Example ex_pre : forall cfg, Forall (pre (ex_st cfg)) ex_routes.
Proof.
  intros cfg. assert (H : classes (ex_st cfg) = [0; 1; 2]%N).
  { unfold ex_st. destruct (update_fields cfg [0; 1; 2]%N init_state) as [_ H]. exact H. }
  unfold ex_routes. repeat constructor; cbn; rewrite ?H; cbn; auto 10.
Qed.

(** every route, in every configuration: table (2, 1) - class 2 after the
    first update *)
Example ex_all_routes :
  forallb (fun cfg => forallb (fun m =>
     match outcome (build cfg (ex_st cfg) m) with
     | Ok p => match deref (ex_st cfg) p with
               | Some (c, e) => N.eqb c 2 && Nat.eqb e 1
               | None => false end
     | _ => false end) ex_routes) ex_cfgs = true.
Proof. vm_compute. reflexivity. Qed.

(** after two more updates (class 3 added, then the same list again): the old
    pointer gives (2, 3) under the indirect configurations, and still (2, 1)
    under the direct ones - which is no longer the current table *)
Definition ex_later : list (list cls) := [[0; 1; 2; 3]%N; [0; 1; 2; 3]%N].

Example ex_after_updates :
  map (fun cfg =>
     match outcome (build cfg (ex_st cfg) (MConv (MCtor ex_base) 0%N)) with
     | Ok p => deref (updates cfg ex_later (ex_st cfg)) p
     | _ => None end) ex_cfgs
  = [ Some (2%N, 1); Some (2%N, 1); Some (2%N, 3); Some (2%N, 3); Some (2%N, 1); Some (2%N, 3); Some (2%N, 1) ].
Proof. vm_compute. reflexivity. Qed.

Example ex_direct_differs_from_current :
  let cfg := {| hash := HFast; placement := PVector; indirect := false |} in
  let st' := updates cfg ex_later (ex_st cfg) in
  match outcome (build cfg (ex_st cfg) (MCtor ex_base)) with
  | Ok p => deref st' p = Some (2%N, 1) /\ current st' 2%N = (2%N, 3) /\
            outcome (dynamic_vptr cfg st' 2%N) = Ok (2%N, 3)
  | _ => False end.
Proof. vm_compute. repeat split; reflexivity. Qed.

(** the domain restriction is needed: vptr_map x basic_indirect_vptr reads an
    indirect_vptrs entry nobody wrote *)
Example ex_map_indirect_is_ub :
  let cfg := {| hash := HNone; placement := PMap; indirect := true |} in
  build cfg (ex_st cfg) (MCtor ex_base) = ([AIvptrs 2%N], UB).
Proof. vm_compute. reflexivity. Qed.

(** ** The code before the repairs does not have the property (witnesses) *)

(** before 7e1a3d5 (D12): the constructor saw a non-const shared_ptr through the
    generic T& traits: shortcut on the id of shared_ptr<K0> itself, null v-table
    pointer under the release policy *)
Example C09_ctor_legacy_D12_refuted :
  let cfg := {| hash := HFast; placement := PVector; indirect := false |} in
  match outcome (ctor_with TOther CkAlways cfg (ex_st cfg) ex_sp_lvalue) with
  | Ok p => deref (ex_st cfg) p = None
  | _ => False end.
Proof. vm_compute. reflexivity. Qed.

(** before 1053a61: final on a non-const lvalue shared_ptr: null v-table
    pointer (release), "unknown class shared_ptr<K2>" (debug) *)
Example C09_final_legacy_refuted :
  (let cfg := {| hash := HFast; placement := PVector; indirect := false |} in
   match outcome (final_with TOther CkAlways cfg (ex_st cfg) ex_sp_final_lvalue) with
   | Ok p => deref (ex_st cfg) p = None
   | _ => False end) /\
  (let cfg := {| hash := HChecked; placement := PVector; indirect := false |} in
   outcome (final_with TOther CkAlways cfg (ex_st cfg) ex_sp_final_lvalue) = Error (UnknownClass 102%N)).
Proof. vm_compute. split; reflexivity. Qed.
