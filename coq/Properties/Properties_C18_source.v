(* C18, second part — the theorems of Properties_C18.v carried over to the code as TRANSLATED from
   /repo/include/yorel/yomm2/detail/static_list.hpp on this run.

   translators/staticlist.py parses the bodies of static_list<T>::push_back, remove, clear, of both iterators'
   operator++ / operator!= / begin / end, and of empty() / size(), and lowers them statement by statement to the
   deep-embedded pointer language of Model/MiniPtr.v (Gen/GenStaticList.v, regenerated on every run, never
   committed).  Model/MiniPtr.v gives that language its semantics (null dereference, failed BOOST_ASSERT and a
   loop outliving its fuel are faults).  Here: interpreting the translated bodies is Model/Catalog.v's functions,
   and the reachability theorem holds of the translated code itself.  A change to static_list.hpp changes
   Gen/GenStaticList.v, and these theorems are re-checked against it.

   Trusted in this tie: the parser / lowering of translators/staticlist.py + _minicpp.py (it refuses what it
   does not understand), and the reading of C++ given by MiniPtr.v's interpreter. *)
From Coq Require Import List Arith Lia Bool String.
Import ListNotations.
From Y2 Require Import Model.Catalog Proofs.CatalogProofs.
From Y2 Require Import Model.MiniPtr Gen.GenStaticList Proofs.StaticListSource.
From Y2 Require Import Properties.Properties_C18.

(* ------------------------------------------------------------------ the translated source *)

(* the translated bodies, interpreted, agree with the model on every heap (same fault flag; same first / prev_ptr /
   next_ptr whenever there is no fault): push_back under its two BOOST_ASSERTs, remove and clear unconditionally *)
Theorem C18_source_push_back : forall s n, push_pre s n = true ->
  agree (run_body 0 push_back_body s n) (push_back s n).
Proof. exact src_push_back. Qed.
Print Assumptions C18_source_push_back.

Theorem C18_source_remove : forall s n, agree (run_body 0 remove_body s n) (remove s n).
Proof. exact src_remove. Qed.
Print Assumptions C18_source_remove.

Theorem C18_source_clear : forall fuel s n, agree (run_body fuel clear_body s n) (clear fuel s).
Proof. exact src_clear. Qed.
Print Assumptions C18_source_clear.

(* for (it = begin(); it != end(); ++it) with the translated begin / end / operator++ is the model's iterate;
   the translated empty() is the model's *)
Theorem C18_source_iterate : forall fuel s,
  iterate_src iter_incr_body iter_begin iter_end fuel s = iterate fuel s.
Proof. exact src_iterate_all. Qed.
Print Assumptions C18_source_iterate.

Theorem C18_source_empty : forall s n, eval_b n [] s empty_cond = Some (empty s).
Proof. exact src_empty. Qed.
Print Assumptions C18_source_empty.

(* C18_reachable, on the translated code itself: after ANY legal history executed by interpreting the translated
   bodies, the heap represents exactly the live registrations in order, the translated iteration enumerates them,
   the translated empty() answers correctly, nothing faulted, and every unregistered node can be registered *)
Theorem C18_source_reachable : forall ops fuel,
  legal_seq [] ops = true -> List.length ops <= fuel ->
  let l := abs_run [] ops in
  let s := src_run fuel ops in
  repr l s
  /\ l = live_pushes ops
  /\ NoDup l
  /\ iterate_src iter_incr_body iter_begin iter_end fuel s = Some l
  /\ (forall n, eval_b n [] s empty_cond = Some true <-> l = [])
  /\ fault s = false
  /\ (forall n, ~ In n l -> push_pre s n = true).
Proof. exact src_reachable. Qed.
Print Assumptions C18_source_reachable.

(* ------------------------------------------------------------------ non-vacuity *)

(* the translated code, run inside Coq on the 14-step history: same answers as the model *)
Example ex_source_run :
  let s := src_run 14 ex_ops in
  iterate_src iter_incr_body iter_begin iter_end 14 s = Some [3; 1] /\ fault s = false
  /\ first s = Some 3 /\ prv s 3 = Some 1 /\ nxt s 3 = Some 1 /\ prv s 1 = Some 3 /\ nxt s 1 = None
  /\ prv s 4 = None /\ nxt s 4 = None.
Proof. vm_compute. repeat split; reflexivity. Qed.

(* ... and it faults where the C++ has undefined behaviour: remove on an empty list *)
Example ex_source_remove_empty : fault (run_body 0 remove_body empty_st 7) = true.
Proof. vm_compute. reflexivity. Qed.
