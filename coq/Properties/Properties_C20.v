(* C20 — use_definitions registers exactly the defined combinations.

   "Given a definition template and lists of types, the template helpers enumerate the full
    Cartesian product in order and register one method definition for each combination whose
    instantiation is not marked not_defined, and none for the others; this holds for products of
    any size, including those large enough to be split to stay under compiler limits on base
    classes."

   Model: Model/Product.v (list model of product / apply_product / is_defined / use_definition /
   aggregate of include/yorel/yomm2/templates.hpp); constants: Gen/GenProductConsts.v, translated
   from the current templates.hpp on every run.  Every theorem quantifies over every number and
   length of lists (no bound).  That the run-time catalog of a method holds exactly the leaves of
   the aggregate (in the construction order of std::tuple, which the standard leaves unspecified)
   is observed on generated programs by checks/C20.py, not proved here. *)
From Coq Require Import List Arith Bool.
Import ListNotations.
From Y2 Require Import Gen.GenProductConsts Model.Product Proofs.ProductProofs.

(* product<L1, ..., Ln>:
   1. contains exactly the combinations taking one element of each list, position by position;
   2. contains none twice when no list has a duplicate;
   3. has |L1| * ... * |Ln| elements;
   4. order, as an explicit index formula: the combination made of the elements at positions
      ds = (d1..dn) is at index rank ds = ((d1 * |L2| + d2) * |L3| + d3) ... (last list fastest);
   5. rank is strictly monotone for the lexicographic order on position tuples, and
   6. onto the indexes: so the enumeration order IS the lexicographic order of positions. *)
Theorem C20_product : forall (A : Type) (ls : list (list A)),
  (forall c, In c (product ls) <-> Forall2 (fun x l => In x l) c ls) /\
  (Forall (@NoDup A) ls -> NoDup (product ls)) /\
  length (product ls) = fold_right Nat.mul 1 (map (@length A) ls) /\
  (forall ds c, select ds ls = Some c ->
                nth_error (product ls) (rank ds (map (@length A) ls)) = Some c) /\
  (forall ds ds', Forall2 lt ds (map (@length A) ls) -> Forall2 lt ds' (map (@length A) ls) ->
                  lex_lt ds ds' -> rank ds (map (@length A) ls) < rank ds' (map (@length A) ls)) /\
  (forall i, i < length (product ls) ->
             exists ds, Forall2 lt ds (map (@length A) ls) /\ rank ds (map (@length A) ls) = i).
Proof. exact product_correct. Qed.
Print Assumptions C20_product.

(* the accumulator recursion of boost::mp11::mp_product (Model.product) is the plain nested loop *)
Theorem C20_product_nested_loop : forall (A : Type) (ls : list (list A)), product ls = product_rec ls.
Proof. exact product_is_product_rec. Qed.
Print Assumptions C20_product_nested_loop.

(* apply_product<templates<T1..Tk>, L1..Ln>: every template applied to every combination, once,
   templates slowest: instantiation Tj<c...> is at index j * |product| + rank of c *)
Theorem C20_apply_product : forall (A T : Type) (ts : list T) (ls : list (list A)),
  (forall t c, In (t, c) (apply_product ts ls) <-> In t ts /\ Forall2 (fun x l => In x l) c ls) /\
  length (apply_product ts ls) = length ts * fold_right Nat.mul 1 (map (@length A) ls) /\
  (NoDup ts -> Forall (@NoDup A) ls -> NoDup (apply_product ts ls)) /\
  (forall k t ds c, nth_error ts k = Some t -> select ds ls = Some c ->
     nth_error (apply_product ts ls)
               (k * fold_right Nat.mul 1 (map (@length A) ls) + rank ds (map (@length A) ls)) = Some (t, c)).
Proof. exact apply_product_correct. Qed.
Print Assumptions C20_apply_product.

(* use_definitions<Definition, product<L1..Ln>>: the registrations (method, container) are
   1. the defined combinations of the product, in product order, each paired with its method;
   2. (m, c) is registered iff c is a combination of the product, Definition<c...> is not marked
      not_defined, and m is the method use_definition extracts from it: none for the others;
   3. no combination is registered twice (lists without duplicates);
   4. they are exactly the leaves, in order, of the aggregate that use_definitions builds (which
      exists for every size), and no node of it is wider than the threshold. *)
Theorem C20_filter :
  forall (A M : Type) (defined : list A -> bool) (method_of : list A -> M) (ls : list (list A)),
    let reg := registrations defined method_of (product ls) in
    reg = map (fun c => (method_of c, c)) (filter defined (product ls)) /\
    map snd reg = filter defined (product ls) /\
    (forall m c, In (m, c) reg <->
                 Forall2 (fun x l => In x l) c ls /\ defined c = true /\ m = method_of c) /\
    (Forall (@NoDup A) ls -> NoDup reg /\ NoDup (map snd reg)) /\
    (exists t, use_definitions defined method_of (product ls) = Some t /\
               leaves t = reg /\ width_le aggregate_threshold t).
Proof. exact registrations_correct. Qed.
Print Assumptions C20_filter.

(* aggregate<T...>, for EVERY pack size (no bound): the divide-and-conquer terminates (the fuelled
   model returns a tree; any fuel above the size gives the same tree), the leaves of the tree in
   order are the pack, every node has at most aggregate_threshold (translated: 512) direct
   sub-objects, and a pack within the threshold is one std::tuple. *)
Theorem C20_aggregate : forall (X : Type) (l : list X),
  exists t, aggregate l = Some t /\
            leaves t = l /\
            width_le aggregate_threshold t /\
            (length l <= aggregate_threshold -> t = Tuple l) /\
            (forall fuel, length l < fuel ->
                          aggregate_fuel aggregate_threshold aggregate_split_den fuel l = Some t).
Proof. exact aggregate_correct. Qed.
Print Assumptions C20_aggregate.

(* the translated constants are what C20_aggregate needs: the cut n / den leaves two non-empty,
   strictly smaller parts whenever n > threshold, and a Split node (2 parts) is within the bound *)
Theorem C20_consts :
  2 <= aggregate_split_den /\ aggregate_split_den <= S aggregate_threshold /\
  aggregate_split_parts <= aggregate_threshold.
Proof. exact product_consts_ok. Qed.
Print Assumptions C20_consts.

(* ------------------------------------------------------------------ non-vacuity *)

(* tests/test_templates.cpp: product<types<n1,n2>, types<n3,n4,n5>> *)
Example ex_product_2x3 :
  product [[1; 2]; [3; 4; 5]] = [[1; 3]; [1; 4]; [1; 5]; [2; 3]; [2; 4]; [2; 5]].
Proof. reflexivity. Qed.

Example ex_product_2x2x2x2 : length (product [[0; 1]; [2; 3]; [4; 5]; [6; 7]]) = 16
  /\ nth_error (product [[0; 1]; [2; 3]; [4; 5]; [6; 7]]) (rank [1; 0; 1; 1] [2; 2; 2; 2]) = Some [1; 2; 5; 7]
  /\ select [1; 0; 1; 1] [[0; 1]; [2; 3]; [4; 5]; [6; 7]] = Some [1; 2; 5; 7].
Proof. repeat split; reflexivity. Qed.

Example ex_product_empty_factor : product [[1; 2]; []; [3]] = [].
Proof. reflexivity. Qed.

Example ex_lex : lex_lt [0; 2] [1; 0] /\ rank [0; 2] [2; 3] = 2 /\ rank [1; 0] [2; 3] = 3.
Proof. repeat split; try reflexivity. apply lex_head; [constructor | reflexivity]. Qed.

(* tests/test_templates.cpp: apply_product<templates<bin1, bin2>, types<n1,n2>, types<n3,n4,n5>> *)
Example ex_apply_product :
  apply_product [10; 20] [[1; 2]; [3; 4; 5]] =
  [(10, [1; 3]); (10, [1; 4]); (10, [1; 5]); (10, [2; 3]); (10, [2; 4]); (10, [2; 5]);
   (20, [1; 3]); (20, [1; 4]); (20, [1; 5]); (20, [2; 3]); (20, [2; 4]); (20, [2; 5])].
Proof. reflexivity. Qed.

(* docs.in/reference/use_definitions.cpp shape: product<types<method 7>, 2 classes, 3 classes>,
   two combinations marked not_defined *)
Example ex_filter :
  scenario_first [[7; 1; 4]; [7; 2; 3]] [[7]; [1; 2]; [3; 4; 5]] =
  [(7, [7; 1; 3]); (7, [7; 1; 5]); (7, [7; 2; 4]); (7, [7; 2; 5])].
Proof. reflexivity. Qed.

Example ex_filter_all_undefined :
  scenario_member [[1; 3]; [2; 3]] 0 [[1; 2]; [3]] = [].
Proof. reflexivity. Qed.

(* The aggregate examples are stated relative to the translated constants, so that they keep
   checking when templates.hpp changes its threshold (with 512 and 2: 512 elements -> one tuple;
   513 -> 256 + 257; 2*512+34 = 1058 = 2 methods x 23 x 23 -> (264 + 265) + (264 + 265)). *)
Example ex_aggregate_at_threshold :
  aggregate (seq 0 aggregate_threshold) = Some (Tuple (seq 0 aggregate_threshold)).
Proof. vm_compute. reflexivity. Qed.

Example ex_aggregate_above_threshold :
  let n := S aggregate_threshold in
  let k := n / aggregate_split_den in
  aggregate (seq 0 n) = Some (Split (Tuple (seq 0 k)) (Tuple (seq k (n - k)))).
Proof. vm_compute. reflexivity. Qed.

Example ex_aggregate_two_levels :
  let n := 2 * aggregate_threshold + 34 in
  option_map leaves (aggregate (seq 0 n)) = Some (seq 0 n)
  /\ option_map (width_leb aggregate_threshold) (aggregate (seq 0 n)) = Some true
  /\ option_map (fun t => 2 <=? depth t) (aggregate (seq 0 n)) = Some true
  /\ option_map (fun t => length (shape t)) (aggregate (seq 0 n)) = Some 7.
Proof. vm_compute. repeat split; reflexivity. Qed.

(* the fuel bound matters: with too little fuel the model says so *)
Example ex_out_of_fuel :
  aggregate_fuel aggregate_threshold aggregate_split_den 1 (seq 0 (S aggregate_threshold)) = None.
Proof. vm_compute. reflexivity. Qed.
