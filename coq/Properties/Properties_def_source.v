(* C10 / C07 — deferred static type ids, on the code as TRANSLATED from /repo/include/yorel/yomm2/detail/compiler.hpp on this
   run.

   translators/deferred.py parses compiler<Policy>::resolve_static_type_ids: the lambda `resolve` (must be: read the function
   pointer the cell holds, call it, store the returned id in the same cell), the lambda `resolve_list(first, last)` (both the
   `if (first != last && *last == 0) {...}` and the early-return spelling) and the body under
   `if constexpr (std::is_base_of_v<policy::deferred_static_rtti, Policy>)`, lowered into the language of Model/MiniDef.v
   (Gen/GenDef.v).  Here: running the translation is Model.Deferred.resolve_static_type_ids on every store and catalog, hence
   C10_deferred (every id list and every class type of the catalog is resolved, each cell exactly once, nothing else is
   touched) and C10_deferred_repeat (a second update - C07 - finds everything resolved and changes nothing; in particular it
   never calls an id as if it were a function) hold of the code the header contains now.

   Trusted in this tie: the parser and lowering of translators/deferred.py + _minicpp.py; `range{first, last}` is read as the
   cells between the two pointers; the flag cell is the element that follows the list. *)
From Coq Require Import List NArith.
Import ListNotations.
From Y2 Require Import Model.Registry Model.Deferred Model.MiniDef Gen.GenDef Proofs.DefSource Proofs.DeferredProofs.

Theorem C10_source_resolve_is_model : forall idf k s, run_resolve idf k gen_resolve s = resolve_static_type_ids idf s k.
Proof. exact src_resolve. Qed.
Print Assumptions C10_source_resolve_is_model.

Theorem C10_source_deferred : forall idf s k, store_ok s ->
  exists s', run_resolve idf k gen_resolve s = DOk s' /\ store_ok s' /\ extends idf s s' /\ catalog_resolved s' k.
Proof. exact src_deferred. Qed.
Print Assumptions C10_source_deferred.

Theorem C07_source_deferred_repeat : forall idf s k, store_ok s -> catalog_resolved s k ->
  run_resolve idf k gen_resolve s = DOk s.
Proof. exact src_deferred_repeat. Qed.
Print Assumptions C07_source_deferred_repeat.

(* non-vacuity: two classes sharing a base list, one method with a definition: the first run resolves, the second changes nothing *)
Example ex_deferred :
  let idf := fun f => (f + 100)%N in
  let s := mk_ds [mk_arr [Unres 1; Unres 2] false; mk_arr [Unres 1] false; mk_arr [] false] [(Unres 1, false); (Unres 2, false)] in
  let k := mk_dcat [mk_dclass 0 2; mk_dclass 1 0] [mk_dmeth 1 [0; 1]] in
  match run_resolve idf k gen_resolve s with
  | DOk s' => d_arrays s' = [mk_arr [Res 101; Res 102] true; mk_arr [Res 101] true; mk_arr [] false]%N /\
              d_types s' = [(Res 101, true); (Res 102, true)]%N /\ run_resolve idf k gen_resolve s' = DOk s'
  | DCrash => False
  end.
Proof. vm_compute. repeat split. Qed.
