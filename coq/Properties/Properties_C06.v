(* Property C06 — dispatch does not depend on the order of registration. Property theorems only.
   Stated on the specification: registering the same class records in another order (Permutation of the class
   catalog), and the same definitions in another order (sigma: position in the new catalog -> position in the old one),
   changes neither which definition a call runs, nor whether it is an error and which one, nor what next refers to.
   Methods are independent of each other in the specification (each has its own definition list), so their order is
   immaterial by construction.  C01-C03 tie the specification to update's tables; once C01_dispatch is assembled the
   same statement holds of `resolve (compile R)`. *)
From Y2 Require Import Model.Registry Spec.Dispatch Proofs.SpecProofs.
From Coq Require Import Permutation.

Theorem C06_dispatch_perm : forall R R',
  Permutation (r_classes R) (r_classes R') -> r_alias R = r_alias R' ->
  forall defs sigma, Permutation sigma (seq 0 (length defs)) -> forall args,
  spec_dispatch R defs args =
  map_outcome (fun i' => nth i' sigma 0) (spec_dispatch R' (permute_defs defs sigma) args).
Proof. exact spec_dispatch_perm. Qed.
Print Assumptions C06_dispatch_perm.

Theorem C06_next_perm : forall R R',
  Permutation (r_classes R) (r_classes R') -> r_alias R = r_alias R' ->
  forall defs sigma, Permutation sigma (seq 0 (length defs)) -> forall k', k' < length defs ->
  spec_next R defs (nth k' sigma 0) =
  map_outcome (fun i' => nth i' sigma 0) (spec_next R' (permute_defs defs sigma) k').
Proof. exact spec_next_perm. Qed.
Print Assumptions C06_next_perm.

(* the inheritance relation itself does not depend on the order of the class catalog *)
Theorem C06_anc_perm : forall R R',
  Permutation (r_classes R) (r_classes R') -> r_alias R = r_alias R' -> forall b d, anc R b d <-> anc R' b d.
Proof. exact anc_perm. Qed.
Print Assumptions C06_anc_perm.

(* non-vacuity: the probe P1 definitions in their two orders *)
Example C06_example :
  let R := mk_reg [mk_class 1 [1] false; mk_class 2 [2;1] false; mk_class 3 [3;2;1] false; mk_class 4 [4;1] false;
                   mk_class 5 [5;3;4;2;1] false; mk_class 6 [6] false; mk_class 7 [7;6] false; mk_class 8 [8;7;6] false]%N [] [] in
  let defs := [[2;8]; [4;7]; [3;6]]%N in
  spec_dispatch R defs [5;8]%N = Ambiguous /\ spec_dispatch R (permute_defs defs [2;1;0]) [5;8]%N = Ambiguous /\
  spec_dispatch R defs [4;8]%N = Run 1 /\ spec_dispatch R (permute_defs defs [2;1;0]) [4;8]%N = Run 1.
Proof. vm_compute. repeat split. Qed.
