(* Property C06 — dispatch does not depend on the order of registration. Property theorems only.
   Stated on the specification: registering the same class records in another order (Permutation of the class
   catalog), and the same definitions in another order (sigma: position in the new catalog -> position in the old one),
   changes neither which definition a call runs, nor whether it is an error and which one, nor what next refers to.
   Methods are independent of each other in the specification (each has its own definition list), so their order is
   immaterial by construction.  C01-C03 tie the specification to update's tables; once C01_dispatch is assembled the
   same statement holds of `resolve (compile R)`. *)
From Y2 Require Import Model.Registry Model.Compile Spec.Dispatch Proofs.Interfaces Proofs.SpecProofs Proofs.ResolveProofs Proofs.PermCompose.
From Coq Require Import Permutation.

Theorem C06_dispatch_perm : forall R R',
  Permutation (r_classes R) (r_classes R') -> r_alias R = r_alias R' ->
  forall defs sigma, Permutation sigma (seq 0 (length defs)) -> forall args,
  spec_dispatch R defs args =
  map_outcome (fun i' => nth i' sigma 0) (spec_dispatch R' (permute_defs defs sigma) args).
Proof. exact spec_dispatch_perm. Qed.
Print Assumptions C06_dispatch_perm.

Theorem C06_next_perm : forall R R',
  Permutation (r_classes R) (r_classes R') -> r_alias R = r_alias R' ->
  forall defs sigma, Permutation sigma (seq 0 (length defs)) -> forall k', k' < length defs ->
  spec_next R defs (nth k' sigma 0) =
  map_outcome (fun i' => nth i' sigma 0) (spec_next R' (permute_defs defs sigma) k').
Proof. exact spec_next_perm. Qed.
Print Assumptions C06_next_perm.

(* the inheritance relation itself does not depend on the order of the class catalog *)
Theorem C06_anc_perm : forall R R',
  Permutation (r_classes R) (r_classes R') -> r_alias R = r_alias R' -> forall b d, anc R b d <-> anc R' b d.
Proof. exact anc_perm. Qed.
Print Assumptions C06_anc_perm.

(* On what update installs: R' holds the same class registrations in another order; method m' of R' (at any position
   mi' of the method catalog) is method m of R with its definitions registered in another order sigma.  Then every legal
   call reads, from the tables of the two updates, words that designate the same definition (through sigma) or the same
   error — whether a call is an error, and which one, does not depend on the order either. *)
Theorem C06_update_order_independent : forall R R' C C' mi mi' m m' sigma args,
  wf_registry R -> wf_registry R' -> compile R = Ok C -> compile R' = Ok C' ->
  Permutation (r_classes R) (r_classes R') -> r_alias R = r_alias R' ->
  nth_error (r_methods R) mi = Some m -> nth_error (r_methods R') mi' = Some m' ->
  meth_vp R' m' = meth_vp R m -> m_shape m' = m_shape m ->
  meth_defs R' m' = permute_defs (meth_defs R m) sigma -> Permutation sigma (seq 0 (length (meth_defs R m))) ->
  legal R m args ->
  exists cs cs' o o',
    map (key (o_lat C)) cs = args /\ map (key (o_lat C')) cs' = args /\
    resolve C mi (actuals_of C (m_shape m) cs) = Ok (word_of_outcome mi o) /\
    resolve C' mi' (actuals_of C' (m_shape m') cs') = Ok (word_of_outcome mi' o') /\
    o = map_outcome (fun i' => nth i' sigma 0) o'.
Proof. exact dispatch_order_independent. Qed.
Print Assumptions C06_update_order_independent.

Theorem C06_next_order_independent : forall R R' C C' mi mi' m m' sigma k',
  wf_registry R -> wf_registry R' -> compile R = Ok C -> compile R' = Ok C' ->
  Permutation (r_classes R) (r_classes R') -> r_alias R = r_alias R' ->
  nth_error (r_methods R) mi = Some m -> nth_error (r_methods R') mi' = Some m' ->
  meth_defs R' m' = permute_defs (meth_defs R m) sigma -> Permutation sigma (seq 0 (length (meth_defs R m))) ->
  k' < length (m_defs m) -> length (m_defs m') = length (m_defs m) -> nth k' sigma 0 < length (m_defs m) ->
  exists o o',
    nth (nth k' sigma 0) (t_nexts (nth mi (o_tables C) (mk_ct [] [] [] (mk_rep 0 0 0 0 0 0) []))) CNi = cell_of_outcome o /\
    nth k' (t_nexts (nth mi' (o_tables C') (mk_ct [] [] [] (mk_rep 0 0 0 0 0 0) []))) CNi = cell_of_outcome o' /\
    o = map_outcome (fun i' => nth i' sigma 0) o'.
Proof. exact next_order_independent. Qed.
Print Assumptions C06_next_order_independent.

(* non-vacuity: the probe P1 definitions in their two orders *)
Example C06_example :
  let R := mk_reg [mk_class 1 [1] false; mk_class 2 [2;1] false; mk_class 3 [3;2;1] false; mk_class 4 [4;1] false;
                   mk_class 5 [5;3;4;2;1] false; mk_class 6 [6] false; mk_class 7 [7;6] false; mk_class 8 [8;7;6] false]%N [] [] in
  let defs := [[2;8]; [4;7]; [3;6]]%N in
  spec_dispatch R defs [5;8]%N = Ambiguous /\ spec_dispatch R (permute_defs defs [2;1;0]) [5;8]%N = Ambiguous /\
  spec_dispatch R defs [4;8]%N = Run 1 /\ spec_dispatch R (permute_defs defs [2;1;0]) [4;8]%N = Run 1.
Proof. vm_compute. repeat split. Qed.
