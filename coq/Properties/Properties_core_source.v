(* Core ordering, second part — the functions of detail/compiler.hpp that decide which definition wins, as
   TRANSLATED from the header on this run (serves C01, C02, C03, C06, C17: all of them rest on this ordering).

   translators/ordering.py parses compiler<Policy>::is_more_specific, is_base and best out of
   /repo/include/yorel/yomm2/detail/compiler.hpp on every run and lowers them to the deep embedding of
   Model/MiniOrd.v (Gen/GenOrdering.v, regenerated, never committed).  The theorems here: the interpreted
   translations are Model.Compile's functions on EVERY input (no well-formedness needed), hence — composed with
   the stage proofs of Proofs/TablesSem.v — the translated is_more_specific is the documented ordering, the
   translated is_base is "strictly more general", and the translated best returns the one candidate that
   dominates, none for no candidate, and several otherwise.  The end-to-end theorems (Properties_C01 ...) are
   stated on Model.Compile; these equalities carry them to the code the header contains now.

   Trusted in this tie: the parser / skeleton matching / lowering of translators/ordering.py + _minicpp.py (they
   refuse what they do not understand) and the reading of the C++ loop given by MiniOrd.v's interpreter
   (std::unordered_set::find, range-for, std::all_of as their documented meaning). *)
From Coq Require Import List Bool Arith NArith.
Import ListNotations.
From Y2 Require Import Model.Registry Model.Compile Spec.Dispatch Proofs.Interfaces Proofs.TablesSem.
From Y2 Require Import Model.MiniOrd Gen.GenOrdering Proofs.OrderingSource.

Theorem C01_source_is_more_specific : forall L a b,
  run_pairfn (cov_rel L) gen_is_more_specific a b = is_more_specific L a b false.
Proof. exact src_is_more_specific. Qed.
Print Assumptions C01_source_is_more_specific.

Theorem C03_source_is_base : forall L a b,
  run_pairfn (cov_rel L) gen_is_base a b = is_base L a b false.
Proof. exact src_is_base. Qed.
Print Assumptions C03_source_is_base.

Theorem C01_source_best : forall L specs cand,
  run_best (src_more_specific L specs) (src_is_base_ix L specs) gen_best_pred cand = best L specs cand.
Proof. exact src_best. Qed.
Print Assumptions C01_source_best.

(* the translated is_more_specific is the documented ordering: at no position a proper base, at one position at
   least a proper derived class *)
Theorem C01_source_ordering_is_documented : forall R L,
  lattice_ok R L -> acyclic R -> (forall b d, ancb R b d = true <-> anc R b d) ->
  forall a b, Forall (fun c => c < ncls L) a -> Forall (fun c => c < ncls L) b -> length a = length b ->
  run_pairfn (cov_rel L) gen_is_more_specific a b = more_specificb R (map (key L) a) (map (key L) b).
Proof.
  intros R L H1 H2 H3 a b Ha Hb Hl. rewrite src_is_more_specific. now apply is_more_specific_spec.
Qed.
Print Assumptions C01_source_ordering_is_documented.

(* the translated is_base: same class or an ancestor at every position, different somewhere *)
Theorem C03_source_is_base_is_strictly_more_general : forall R L,
  lattice_ok R L -> (forall b d, ancb R b d = true <-> anc R b d) ->
  forall a b, Forall (fun c => c < ncls L) a -> Forall (fun c => c < ncls L) b -> length a = length b ->
  run_pairfn (cov_rel L) gen_is_base a b = strictly_more_generalb R (map (key L) a) (map (key L) b).
Proof.
  intros R L H1 H3 a b Ha Hb Hl. rewrite src_is_base. now apply is_base_spec.
Qed.
Print Assumptions C03_source_is_base_is_strictly_more_general.

(* the translated best, on the candidates of a well-formed method: the cell it yields is the specification's
   outcome among those candidates (Run i iff i dominates; not-implemented iff no candidate; else ambiguous) *)
Theorem C02_source_best_is_dominant : forall R L,
  lattice_ok R L -> acyclic R -> (forall b d, ancb R b d = true <-> anc R b d) ->
  forall cm m cand, meth_wf L cm -> meth_ok R L m cm ->
  (forall i, In i cand -> i < length (cm_specs cm)) ->
  cell_of (run_best (src_more_specific L (cm_specs cm)) (src_is_base_ix L (cm_specs cm)) gen_best_pred cand)
  = cell_of_outcome (spec_dispatch_among R (meth_defs R m) cand).
Proof.
  intros R L H1 H2 H3 cm m cand Hw Ho Hc. rewrite src_best. now apply best_spec.
Qed.
Print Assumptions C02_source_best_is_dominant.

(* ------------------------------------------------------------------ non-vacuity: the translated code runs *)

(* classes 0 <- 1 <- 2 (a chain) and 3 unrelated; cov x = descendants-or-self of x *)
Definition ex_L : lattice :=
  mk_lat [] [] [] [] [] [[0; 1; 2]; [1; 2]; [2]; [3]].

Example ex_src_more_specific :
  map (fun '(a, b) => run_pairfn (cov_rel ex_L) gen_is_more_specific a b)
      [([1; 0], [0; 0]); ([0; 0], [1; 0]); ([1; 0], [0; 1]); ([2; 2], [1; 0]); ([1], [1]); ([3], [0])]
  = [true; false; false; true; false; false].
Proof. vm_compute. reflexivity. Qed.

Example ex_src_is_base :
  map (fun '(a, b) => run_pairfn (cov_rel ex_L) gen_is_base a b)
      [([0; 0], [1; 0]); ([1; 0], [0; 0]); ([0; 1], [1; 0]); ([1], [1]); ([0; 0], [2; 2])]
  = [true; false; false; false; true].
Proof. vm_compute. reflexivity. Qed.

(* definitions (0,0) (1,0) (0,1) (1,1): candidates {0,1,2} are ambiguous (all returned), {0,1,2,3} has the winner 3 *)
Example ex_src_best :
  let specs := [[0; 0]; [1; 0]; [0; 1]; [1; 1]] in
  run_best (src_more_specific ex_L specs) (src_is_base_ix ex_L specs) gen_best_pred [0; 1; 2] = [0; 1; 2]
  /\ run_best (src_more_specific ex_L specs) (src_is_base_ix ex_L specs) gen_best_pred [0; 1; 2; 3] = [3]
  /\ run_best (src_more_specific ex_L specs) (src_is_base_ix ex_L specs) gen_best_pred [] = [].
Proof. vm_compute. repeat split; reflexivity. Qed.
