(* Property C15 — checked policies diagnose every use of an unregistered class. Property theorems only.
   Update time is policy independent in the model (every policy with an error handler reports it); call time is stated
   for the checked hash, whose behaviour on unregistered ids is C05_checked.  The virtual_ptr construction routes and
   final are in Properties_C15_routes.v (model of virtual_ptr, with the generated programs of C09). *)
From Y2 Require Import Model.Registry Model.Compile Spec.Dispatch Proofs.UnknownProofs.

(* the only error update reports on an acyclic set of registrations is an unknown class; the id it carries is an id
   that is not registered and that the catalogs use as a listed base, a method parameter or a definition parameter;
   nothing is installed (compile returns no tables) *)
Theorem C15_update_sound : forall R stale e, acyclic R -> compile_with stale R = Err e ->
  exists t, e = UnknownClass t /\ unregistered R t /\ used R t.
Proof. exact update_error_sound. Qed.
Print Assumptions C15_update_sound.

(* and it does report one whenever such an id exists, at any of the three places *)
Theorem C15_update_complete : forall R stale t, acyclic R -> used R t -> unregistered R t ->
  exists t', compile_with stale R = Err (UnknownClass t') /\ unregistered R t' /\ used R t'.
Proof. exact update_error_complete. Qed.
Print Assumptions C15_update_complete.

(* call time, checked policy: if the dynamic class of the virtual argument at position k is not registered (and the
   earlier ones are), the call is an unknown-class error carrying that id: resolve is not entered with a pointer
   obtained from it, no word is returned, hence no definition runs *)
Theorem C15_call : forall R stale C mi shape ids k t,
  compile_with stale R = Ok C ->
  nth_error ids k = Some t -> unregistered R t -> (forall j t', j < k -> nth_error ids j = Some t' -> ~ unregistered R t') ->
  checked_call R C mi shape ids = Err (UnknownClass t).
Proof. exact checked_call_unregistered. Qed.
Print Assumptions C15_call.

(* non-vacuity: class 3 is used as a base, as a method parameter and as a definition parameter but not registered *)
Example C15_example :
  let R1 := mk_reg [mk_class 1 [] false; mk_class 2 [1; 3] false]%N [] [] in
  let R2 := mk_reg [mk_class 1 [] false]%N [mk_meth [3]%N [] [true]] [] in
  let R3 := mk_reg [mk_class 1 [] false]%N [mk_meth [1]%N [mk_def [3]%N true] [true]] [] in
  compile R1 = Err (UnknownClass 3%N) /\ compile R2 = Err (UnknownClass 3%N) /\ compile R3 = Err (UnknownClass 3%N) /\
  match compile (mk_reg [mk_class 1 [] false]%N [mk_meth [1]%N [mk_def [1]%N true] [true]] []) with
  | Ok C => checked_call (mk_reg [mk_class 1 [] false]%N [mk_meth [1]%N [mk_def [1]%N true] [true]] []) C 0 [true] [7%N] = Err (UnknownClass 7%N)
  | Err _ => False
  end.
Proof. vm_compute. repeat split. Qed.
