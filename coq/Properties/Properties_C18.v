(* C18 — registration catalogs hold exactly the live registrations, in order.

   "After any sequence of registrations and unregistrations — constructors and destructors of
   class, method and definition registration objects, or clearing — each catalog enumerates
   exactly the currently registered items, each once, in registration order, reports the right
   size and emptiness, and an unregistered item can be registered again."

   Model: Model/Catalog.v mirrors static_list<T>::{push_back, remove, clear, begin/++/end, size,
   empty} of /repo/include/yorel/yomm2/detail/static_list.hpp branch by branch (prev of the first
   node is the last node; four branches of remove). `repr l s` (Proofs/CatalogProofs.v) says that
   the pointer structure s holds the list l. Precondition of push_back (the two BOOST_ASSERTs):
   `push_pre`; the theorems are stated under it, i.e. for a node that is not in the list.
   The model is tied to the C++ in two ways.  (1) TRANSLATION: translators/staticlist.py parses the bodies of
   push_back / remove / clear, both iterators and empty() out of static_list.hpp on every run and lowers them,
   statement by statement, to the pointer language of Model/MiniPtr.v (Gen/GenStaticList.v); the C18_source_*
   theorems of Properties_C18_source.v prove that the interpreted translated code IS the model, and restate the reachability
   theorem directly on the translated code.  (2) CORRESPONDENCE: checks/C18.py runs harness/h3 (the real
   static_list and the real registration objects) against the extracted model, with an independent oracle. *)
From Coq Require Import List Arith Lia Bool.
Import ListNotations.
From Y2 Require Import Model.Catalog Proofs.CatalogProofs.

(* an empty static list with static storage duration represents [] *)
Theorem C18_init : repr [] empty_st.
Proof. exact repr_empty. Qed.
Print Assumptions C18_init.

(* the assertion in push_back holds exactly for the nodes that are not registered *)
Theorem C18_push_pre : forall l s n, repr l s -> (push_pre s n = true <-> ~ In n l).
Proof. exact repr_push_pre_iff. Qed.
Print Assumptions C18_push_pre.

(* registration appends *)
Theorem C18_push : forall l s n, repr l s -> ~ In n l -> repr (l ++ [n]) (push_back s n).
Proof. exact push_back_refines. Qed.
Print Assumptions C18_push.

(* unregistration removes that node and keeps the others in order: only / first / last / middle *)
Theorem C18_remove : forall l s n, repr l s -> In n l -> repr (remove_elt n l) (remove s n).
Proof. exact remove_refines. Qed.
Print Assumptions C18_remove.

(* the removed node is unlinked ... *)
Theorem C18_remove_unlinks : forall l s n, repr l s -> In n l ->
  prv (remove s n) n = None /\ nxt (remove s n) n = None.
Proof. exact remove_unlinks. Qed.
Print Assumptions C18_remove_unlinks.

(* ... so it can be registered again, and then comes last *)
Theorem C18_reregister : forall l s n, repr l s -> In n l ->
  push_pre (remove s n) n = true /\ repr (remove_elt n l ++ [n]) (push_back (remove s n) n).
Proof. exact reregister. Qed.
Print Assumptions C18_reregister.

(* clear empties the catalog and unlinks every node *)
Theorem C18_clear : forall l s fuel, repr l s -> length l <= fuel -> repr [] (clear fuel s).
Proof. exact clear_refines. Qed.
Print Assumptions C18_clear.

Theorem C18_clear_unlinks : forall l s fuel, repr l s -> length l <= fuel ->
  forall a, push_pre (clear fuel s) a = true.
Proof. exact clear_push_pre. Qed.
Print Assumptions C18_clear_unlinks.

(* ... so after clear every node, wherever it stood before, can be registered again and is then the only element (no stale
   link of the old list survives to pull former neighbours back in) *)
Theorem C18_clear_then_push : forall l s fuel n, repr l s -> length l <= fuel ->
  push_pre (clear fuel s) n = true /\ repr [n] (push_back (clear fuel s) n).
Proof. exact clear_then_push. Qed.
Print Assumptions C18_clear_then_push.

(* enumeration with begin / ++ / end yields exactly the list, in order (fuel: any bound on the
   number of iterator increments that is at least the length) *)
Theorem C18_iter : forall l s fuel, repr l s -> length l <= fuel -> iterate fuel s = Some l.
Proof. exact iterate_repr. Qed.
Print Assumptions C18_iter.

Theorem C18_size : forall l s fuel, repr l s -> length l <= fuel -> size fuel s = Some (length l).
Proof. exact size_repr. Qed.
Print Assumptions C18_size.

Theorem C18_empty : forall l s, repr l s -> (empty s = true <-> l = []).
Proof. exact empty_repr. Qed.
Print Assumptions C18_empty.

(* the specification is the intended one: after a legal history the abstract list is the list of
   pushes that no later Remove of the same node and no later Clear undid, in push order *)
Theorem C18_spec_closed_form : forall ops, legal_seq [] ops = true -> abs_run [] ops = live_pushes ops.
Proof. exact abs_run_live. Qed.
Print Assumptions C18_spec_closed_form.

(* reachability: after ANY sequence of operations, each legal when it is made (Push n: n is not
   registered; Remove n: n is registered; Clear), of any length, the catalog
   - represents the abstract list, which is exactly the live registrations, each once, in order,
   - enumerates it, reports its length and emptiness,
   - never dereferenced a null pointer and terminated,
   - and every node that is not registered can be registered. *)
Theorem C18_reachable : forall ops fuel,
  legal_seq [] ops = true -> length ops <= fuel ->
  let l := abs_run [] ops in
  let s := run fuel ops in
  repr l s
  /\ l = live_pushes ops
  /\ NoDup l
  /\ iterate fuel s = Some l
  /\ size fuel s = Some (length l)
  /\ (empty s = true <-> l = [])
  /\ fault s = false
  /\ (forall n, ~ In n l -> push_pre s n = true).
Proof. exact reachable. Qed.
Print Assumptions C18_reachable.

(* ------------------------------------------------------------------ non-vacuity *)

(* a history of length 14 that takes every branch: push on empty, push on non-empty, remove
   middle (r1 of 3 1 4), remove first (r3 of 3 4 5), remove last (r5 of 4 5), remove only (r4),
   re-push of removed nodes, clear on non-empty, push after clear, clear on empty *)
Definition ex_ops : list op :=
  [Push 3; Push 1; Push 4; Remove 1; Push 5; Remove 3; Remove 5; Remove 4;
   Push 1; Push 3; Clear; Clear; Push 3; Push 1].

Example ex_legal : legal_seq [] ex_ops = true.
Proof. vm_compute. reflexivity. Qed.

Example ex_cases :
  map (fun k => remove_case (match nth k ex_ops Clear with Remove n => n | _ => 0 end)
                            (abs_run [] (firstn k ex_ops))) [3; 5; 6; 7]
  = [RMiddle; RFirst; RLast; ROnly].
Proof. vm_compute. reflexivity. Qed.

Example ex_abs : abs_run [] ex_ops = [3; 1] /\ live_pushes ex_ops = [3; 1].
Proof. vm_compute. split; reflexivity. Qed.

Example ex_run :
  let s := run 14 ex_ops in
  iterate 14 s = Some [3; 1] /\ size 14 s = Some 2 /\ empty s = false /\ fault s = false
  /\ first s = Some 3 /\ prv s 3 = Some 1 /\ nxt s 3 = Some 1 /\ prv s 1 = Some 3 /\ nxt s 1 = None
  /\ prv s 4 = None /\ nxt s 4 = None /\ prv s 5 = None /\ nxt s 5 = None.
Proof. vm_compute. repeat split; reflexivity. Qed.

(* intermediate states: after every prefix the iteration is the abstract list *)
Example ex_prefixes :
  forallb (fun k => match iterate 14 (run 14 (firstn k ex_ops)) with
                    | Some l => if list_eq_dec Nat.eq_dec l (abs_run [] (firstn k ex_ops)) then true else false
                    | None => false end) (seq 0 15) = true.
Proof. vm_compute. reflexivity. Qed.

(* the hypotheses of C18_remove / C18_reregister are met by a non-trivial state *)
Example ex_repr : repr [3; 4; 5] (run 5 (firstn 5 ex_ops)).
Proof. exact (run_refines (firstn 5 ex_ops) 5 eq_refl (le_n 5)). Qed.

(* the precondition matters: pushing a registered node (what BOOST_ASSERT rejects) corrupts the
   list — here next of the last node points to itself, iteration never ends *)
Example ex_double_push_loops :
  let s := push_back (run 2 [Push 0; Push 1]) 1 in
  push_pre (run 2 [Push 0; Push 1]) 1 = false /\ iterate 100 s = None.
Proof. vm_compute. split; reflexivity. Qed.

(* clear on three nodes, then the former MIDDLE node registered again: it is alone, and its former neighbours are unlinked *)
Example ex_clear_then_push_middle :
  let s := run 5 [Push 0; Push 1; Push 2; Clear; Push 1] in
  iterate 5 s = Some [1] /\ size 5 s = Some 1 /\ fault s = false
  /\ nxt s 1 = None /\ prv s 1 = Some 1 /\ prv s 0 = None /\ nxt s 0 = None /\ prv s 2 = None /\ nxt s 2 = None.
Proof. vm_compute. repeat split; reflexivity. Qed.
