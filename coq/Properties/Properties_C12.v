(* Property C12 — generated static offsets equal the offsets installed by update.
   Property theorems only.  printed_offsets / debug_check / resolve_static are the models of
   generator::write_static_offsets, of the check_static_offset calls made by one call under runtime_checks, and of
   method::resolve for a method that has static_offsets (Model/Offsets.v); their index expressions are the ones
   translators/consts_codec.py reads from generator.hpp and core.hpp on every run (Gen/GenCodecConsts.v). *)
From Y2 Require Import Model.Registry Model.Compile Model.Offsets Spec.Dispatch Proofs.OffsetsProofs.

(* For every well-formed registry and every method of it, of any arity: the numbers printed in `slots[] = {...}`
   are the slots update assigned to the method's virtual parameters, in order, and the numbers printed in
   `strides[] = {...}` are the strides of its dispatch table, in order (none for a uni-method). *)
Theorem C12_offsets : forall R C,
  wf_registry R -> compile R = Ok C -> forall mi, mi < length (r_methods R) ->
  printed_offsets C mi = (nth mi (o_slots C) [], t_strides (nth mi (o_tables C) (mk_ct [] [] [] (mk_rep 0 0 0 0 0 0) []))) /\
  length (fst (printed_offsets C mi)) = arity_of C mi /\
  length (snd (printed_offsets C mi)) = arity_of C mi - 1.
Proof. exact offsets_correct. Qed.
Print Assumptions C12_offsets.

(* Hence a program compiled with the generated offsets dispatches exactly like one that reads them at run time:
   for every method and every list of actual arguments (v-table pointers of the virtual ones), the walk that takes
   slot and stride from static_offsets<method> returns what the walk reading slots_strides returns — a word or
   the same out-of-bounds error. *)
Theorem C12_dispatch_unchanged : forall R C mi acts,
  wf_registry R -> compile R = Ok C -> mi < length (r_methods R) ->
  resolve_static C mi (printed_offsets C mi) acts = resolve C mi acts.
Proof. exact resolve_static_printed. Qed.
Print Assumptions C12_dispatch_unchanged.

(* The debug-build consistency check, for an installed array of a method of arity a and static arrays of a slots
   and a - 1 strides: all the checks of one call pass iff the static arrays are the installed slots and strides,
   position by position. *)
Theorem C12_check : forall ss sl st a,
  1 <= a -> length ss = 2 * a - 1 -> length sl = a -> length st = a - 1 ->
  (debug_check ss (sl, st) a = ChkOk <-> sl = firstn a ss /\ st = skipn a ss).
Proof. exact debug_check_iff. Qed.
Print Assumptions C12_check.

(* On update's result: the check accepts the generated offsets and rejects any other offsets of the same shape. *)
Theorem C12_check_generated : forall R C mi sl st,
  wf_registry R -> compile R = Ok C -> mi < length (r_methods R) ->
  length sl = arity_of C mi -> length st = arity_of C mi - 1 ->
  (debug_check (nth mi (o_ss C) []) (sl, st) (arity_of C mi) = ChkOk <-> (sl, st) = printed_offsets C mi).
Proof. exact debug_check_printed. Qed.
Print Assumptions C12_check_generated.

(* The index expressions before fix 2726556 (interleaved pairs), kept as printed_offsets_legacy / debug_check_legacy:
   on the registry of probe P9 the method of arity 3 has slots 1 5 3 and strides 2 2; the old generator printed
   slots 1 5 2 and strides 3 2, and the old check rejected the correct offsets. *)
Theorem C12_legacy_refuted :
  exists C, compile p9_R = Ok C /\
    arity_of C 2 = 3 /\
    printed_offsets C 2 = ([1; 5; 3], [2; 2]) /\
    printed_offsets_legacy C 2 = ([1; 5; 2], [3; 2]) /\
    nth 2 (o_slots C) [] = [1; 5; 3] /\
    debug_check_legacy (nth 2 (o_ss C) []) ([1; 5; 3], [2; 2]) 3 = ChkStride 1 /\
    debug_check (nth 2 (o_ss C) []) ([1; 5; 3], [2; 2]) 3 = ChkOk /\
    debug_check (nth 2 (o_ss C) []) ([1; 5; 2], [3; 2]) 3 = ChkStride 1.
Proof. exact offsets_legacy_refuted. Qed.
Print Assumptions C12_legacy_refuted.

(* Non-vacuity: a registry with a lattice (class 3 derives from 1 and 2), methods of arity 1, 2, 3 and 4 with a
   non-virtual parameter: it compiles, the printed offsets of every method are its slots and strides, they pass the
   check, and a call through them resolves like the run-time walk. *)
Definition ex12_R : registry :=
  mk_reg [mk_class 1 [1] false; mk_class 2 [2] false; mk_class 3 [3; 1; 2] false; mk_class 4 [4; 3] false]%N
         [mk_meth [1]%N [mk_def [1]%N true] [true];
          mk_meth [2; 3]%N [mk_def [2; 3]%N true] [true; false; true];
          mk_meth [1; 2; 3]%N [mk_def [1; 2; 3]%N true; mk_def [3; 2; 3]%N true] [true; true; true];
          mk_meth [3; 1; 2; 3]%N [mk_def [3; 3; 3; 4]%N true; mk_def [4; 1; 2; 3]%N true] [true; true; true; true]] [].
Example C12_example :
  match compile ex12_R with
  | Ok C =>
      printed_offsets C 3 = (nth 3 (o_slots C) [], t_strides (nth 3 (o_tables C) (mk_ct [] [] [] (mk_rep 0 0 0 0 0 0) []))) /\
      length (fst (printed_offsets C 3)) = 4 /\ length (snd (printed_offsets C 3)) = 3 /\
      printed_offsets C 3 <> printed_offsets_legacy C 3 /\
      debug_check (nth 3 (o_ss C) []) (printed_offsets C 3) 4 = ChkOk /\
      debug_check (nth 3 (o_ss C) []) (printed_offsets_legacy C 3) 4 <> ChkOk /\
      resolve_static C 3 (printed_offsets C 3) (actuals_of C [true; true; true; true] [2; 2; 2; 3]) = Ok (WFn 3 0) /\
      resolve C 3 (actuals_of C [true; true; true; true] [2; 2; 2; 3]) = Ok (WFn 3 0) /\
      resolve_static C 1 (printed_offsets C 1) (actuals_of C [true; false; true] [1; 3]) = Ok (WFn 1 0)
  | Err _ => False
  end.
Proof. vm_compute. repeat split; discriminate. Qed.
