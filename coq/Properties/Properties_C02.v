(* Property C02 — unresolvable calls are reported accurately and never dispatched silently.
   Property theorems only. *)
From Y2 Require Import Model.Registry Model.Compile Spec.Dispatch Proofs.Interfaces Proofs.SpecProofs Proofs.CorollaryProofs.

Theorem C02_no_definition_iff : forall R defs args,
  spec_dispatch R defs args = NoDefinition <->
  forall j, j < length defs -> ~ applicable R (nth j defs []) args.
Proof. exact spec_dispatch_NoDefinition. Qed.
Print Assumptions C02_no_definition_iff.

Theorem C02_ambiguous_iff : forall R defs args,
  spec_dispatch R defs args = Ambiguous <->
  (exists j, j < length defs /\ applicable R (nth j defs []) args) /\
  forall i, ~ (i < length defs /\ applicable R (nth i defs []) args /\
               forall j, j < length defs -> j <> i -> applicable R (nth j defs []) args ->
                         more_specific R (nth i defs []) (nth j defs [])).
Proof. exact spec_dispatch_Ambiguous. Qed.
Print Assumptions C02_ambiguous_iff.

(* the three outcomes are exclusive and exhaustive: a call either runs exactly one definition or is exactly one error *)
Theorem C02_outcome_unique : forall R defs cand o,
  spec_dispatch_among R defs cand = o <-> outcome_ok R defs cand o.
Proof. exact spec_dispatch_among_iff. Qed.
Print Assumptions C02_outcome_unique.

(* On update's tables (the model of update + method::resolve), for every well-formed registry and every legal tuple:
   when no definition is applicable the call reads the method's own not-implemented stub, when several are applicable
   and none dominates it reads the method's own ambiguity stub, and it reads a definition's thunk only when the
   specification says that definition runs: an unresolvable call is never dispatched silently. *)
Theorem C02_error_words : forall R stale C mi m args,
  wf_registry R -> compile_with stale R = Ok C -> nth_error (r_methods R) mi = Some m -> legal R m args ->
  exists cs, map (key (o_lat C)) cs = args /\
    (spec_dispatch R (meth_defs R m) args = NoDefinition -> resolve C mi (actuals_of C (m_shape m) cs) = Ok (WNi mi)) /\
    (spec_dispatch R (meth_defs R m) args = Ambiguous -> resolve C mi (actuals_of C (m_shape m) cs) = Ok (WAmb mi)) /\
    (forall i, resolve C mi (actuals_of C (m_shape m) cs) = Ok (WFn mi i) -> spec_dispatch R (meth_defs R m) args = Run i).
Proof. exact error_words. Qed.
Print Assumptions C02_error_words.
