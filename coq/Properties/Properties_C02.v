(* Property C02 — unresolvable calls are reported accurately and never dispatched silently.
   Property theorems only. Classification of the two error outcomes of the specification; the error record and the
   "no definition runs" theorems on the model (Errors) are added when Proofs/ResolveProofs.v is assembled. *)
From Y2 Require Import Model.Registry Spec.Dispatch Proofs.SpecProofs.

Theorem C02_no_definition_iff : forall R defs args,
  spec_dispatch R defs args = NoDefinition <->
  forall j, j < length defs -> ~ applicable R (nth j defs []) args.
Proof. exact spec_dispatch_NoDefinition. Qed.
Print Assumptions C02_no_definition_iff.

Theorem C02_ambiguous_iff : forall R defs args,
  spec_dispatch R defs args = Ambiguous <->
  (exists j, j < length defs /\ applicable R (nth j defs []) args) /\
  forall i, ~ (i < length defs /\ applicable R (nth i defs []) args /\
               forall j, j < length defs -> j <> i -> applicable R (nth j defs []) args ->
                         more_specific R (nth i defs []) (nth j defs [])).
Proof. exact spec_dispatch_Ambiguous. Qed.
Print Assumptions C02_ambiguous_iff.

(* the three outcomes are exclusive and exhaustive: a call either runs exactly one definition or is exactly one error *)
Theorem C02_outcome_unique : forall R defs cand o,
  spec_dispatch_among R defs cand = o <-> outcome_ok R defs cand o.
Proof. exact spec_dispatch_among_iff. Qed.
Print Assumptions C02_outcome_unique.
