(* Property C02 — unresolvable calls are reported accurately and never dispatched silently.
   Property theorems only. *)
From Y2 Require Import Model.Registry Model.Compile Model.Errors Gen.GenCoreConsts Spec.Dispatch Proofs.Interfaces Proofs.SpecProofs Proofs.CorollaryProofs Proofs.ErrorsProofs.

Theorem C02_no_definition_iff : forall R defs args,
  spec_dispatch R defs args = NoDefinition <->
  forall j, j < length defs -> ~ applicable R (nth j defs []) args.
Proof. exact spec_dispatch_NoDefinition. Qed.
Print Assumptions C02_no_definition_iff.

Theorem C02_ambiguous_iff : forall R defs args,
  spec_dispatch R defs args = Ambiguous <->
  (exists j, j < length defs /\ applicable R (nth j defs []) args) /\
  forall i, ~ (i < length defs /\ applicable R (nth i defs []) args /\
               forall j, j < length defs -> j <> i -> applicable R (nth j defs []) args ->
                         more_specific R (nth i defs []) (nth j defs [])).
Proof. exact spec_dispatch_Ambiguous. Qed.
Print Assumptions C02_ambiguous_iff.

(* the three outcomes are exclusive and exhaustive: a call either runs exactly one definition or is exactly one error *)
Theorem C02_outcome_unique : forall R defs cand o,
  spec_dispatch_among R defs cand = o <-> outcome_ok R defs cand o.
Proof. exact spec_dispatch_among_iff. Qed.
Print Assumptions C02_outcome_unique.

(* On update's tables (the model of update + method::resolve), for every well-formed registry and every legal tuple:
   when no definition is applicable the call reads the method's own not-implemented stub, when several are applicable
   and none dominates it reads the method's own ambiguity stub, and it reads a definition's thunk only when the
   specification says that definition runs: an unresolvable call is never dispatched silently. *)
Theorem C02_error_words : forall R stale C mi m args,
  wf_registry R -> compile_with stale R = Ok C -> nth_error (r_methods R) mi = Some m -> legal R m args ->
  exists cs, map (key (o_lat C)) cs = args /\
    (spec_dispatch R (meth_defs R m) args = NoDefinition -> resolve C mi (actuals_of C (m_shape m) cs) = Ok (WNi mi)) /\
    (spec_dispatch R (meth_defs R m) args = Ambiguous -> resolve C mi (actuals_of C (m_shape m) cs) = Ok (WAmb mi)) /\
    (forall i, resolve C mi (actuals_of C (m_shape m) cs) = Ok (WFn mi i) -> spec_dispatch R (meth_defs R m) args = Run i).
Proof. exact error_words. Qed.
Print Assumptions C02_error_words.

(* The record the error handler receives (model of not_implemented_handler / ambiguous_handler; max_types and the status
   codes are translated from policies/core.hpp on every run).  ids are the dynamic type ids of the virtual arguments in
   order; acts_of_ids places them among the non-virtual arguments as the method's shape dictates (non-virtual parameters
   before, between and after).  For every well-formed registry and legal call: if a definition dominates it runs;
   otherwise NO definition runs, the handler gets status no_definition / ambiguous accordingly, arity = the number of
   virtual parameters and types = exactly those ids, in order (truncated at max_types); a throwing handler's exception
   reaches the caller, a returning handler is followed by abort. *)
Theorem C02_error_record : forall R stale C mi m args h ids,
  wf_registry R -> compile_with stale R = Ok C -> nth_error (r_methods R) mi = Some m -> legal R m args ->
  length ids = length (m_vp m) ->
  exists cs, map (key (o_lat C)) cs = args /\
    let r := resolve C mi (actuals_of C (m_shape m) cs) in
    let acts := acts_of_ids (m_shape m) ids in
    let o := finish_call h acts r in
    match spec_dispatch R (meth_defs R m) args with
    | Run i => o = Ran mi i
    | NoDefinition =>
        (exists e, (o = Exception e /\ h = Throws \/ o = Abort e /\ h = Returns) /\
                   re_status e = status_no_definition /\ re_arity e = length (m_vp m) /\ re_types e = firstn max_types ids)
    | Ambiguous =>
        (exists e, (o = Exception e /\ h = Throws \/ o = Abort e /\ h = Returns) /\
                   re_status e = status_ambiguous /\ re_arity e = length (m_vp m) /\ re_types e = firstn max_types ids)
    end.
Proof. exact error_record. Qed.
Print Assumptions C02_error_record.

(* the two statuses differ, the record can hold the ids of every method the harness exercises, and the handlers copy
   min(arity, max_types) ids of the virtual arguments (obligations over the translated constants) *)
Theorem C02_constants : status_no_definition <> status_ambiguous /\ 4 <= max_types /\ handlers_copy_min_arity_max_types = true.
Proof. repeat split; try discriminate. vm_compute. repeat constructor. Qed.
Print Assumptions C02_constants.
