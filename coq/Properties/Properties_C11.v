(** * C11 - definitions receive the caller's own arguments, correctly adjusted

    Property (properties.jsonl): "The definition that runs receives, for each
    virtual argument, the very object the caller passed, viewed as the
    definition's parameter class - with the correct address adjustment under
    multiple and virtual inheritance and the same shared ownership for smart
    pointers - and every non-virtual argument and the return value pass through
    unchanged, rvalues being moved at most once and never copied.  This holds
    for reference, rvalue-reference, pointer, shared_ptr, const shared_ptr&,
    virtual_ptr and virtual_shared_ptr parameters at any position."

    The theorems are about [Model/Subobject.v] (Rossie-Friedman subobjects,
    static_cast, dynamic_cast) and [Model/Thunk.v] (which cast each parameter
    kind applies; what the forwarding layers do).  What the compiler's
    static_cast / dynamic_cast really compute is NOT proved here: the model is
    tied to the compiled code by the generated programs of checks/C11.py. *)

From Coq Require Import List NArith Bool Arith Lia.
From Y2 Require Import Model.Subobject Model.Thunk Proofs.ThunkProofs.
Import ListNotations.

(** ** Virtual arguments

    For every hierarchy [H] (and fuel), parameter kind [k], complete object of
    class [C], subobject [s] of it (of static class B = [sub_class s]) passed
    for a virtual parameter, definition class [D] that is unambiguous in [C]
    ([d] is the D subobject) and such that [s] is [d] or one of its base-class
    subobjects (B <= D <= C along the caller's path): the definition's
    parameter designates [d] - the very object, viewed as D.

    The hypothesis [contains d s] is necessary, see
    [C11_repeated_base_outside] below. *)
Theorem C11_virtual_arg : forall H f k C (s d : sub) D,
  In s (subobjects H f C) ->
  filter (of_class D) (subobjects H f C) = [d] ->
  contains H f d s = true ->
  thunk_arg H f k C s D = Some d /\ sub_class d = D /\ contains H f d s = true.
Proof. exact thunk_arg_correct. Qed.
Print Assumptions C11_virtual_arg.

(** ... and converting that view back to the method's parameter class gives
    the subobject the caller passed (stated where the conversion D -> B is
    unambiguous, as C++ requires for it to be written at all). *)
Theorem C11_virtual_arg_upcast : forall H f k C (s d : sub) D q,
  In s (subobjects H f C) ->
  filter (of_class D) (subobjects H f C) = [d] ->
  contains H f d s = true ->
  filter (of_class (sub_class s)) (subobjects H f D) = [q] ->
  exists d', thunk_arg H f k C s D = Some d' /\ sub_class d' = D /\
             upcast H f d' (sub_class s) = Some s.
Proof. exact thunk_arg_upcast. Qed.
Print Assumptions C11_virtual_arg_upcast.

(** Shared kinds (shared_ptr, const shared_ptr&, virtual_shared_ptr,
    const virtual_shared_ptr&): the definition's smart pointer has the caller's
    control block; plain kinds carry none. *)
Theorem C11_shared : forall H f k C (s d : sub) D ctrl,
  In s (subobjects H f C) ->
  filter (of_class D) (subobjects H f C) = [d] ->
  contains H f d s = true ->
  thunk_ctrl k ctrl (thunk_arg H f k C s D) = if is_smart k then Some ctrl else None.
Proof. exact thunk_ctrl_shared. Qed.
Print Assumptions C11_shared.

(** optimal_cast picks static_cast exactly when it is well formed
    (T&, T&&, T*, virtual_ptr, virtual_shared_ptr, const virtual_shared_ptr&). *)
Theorem C11_optimal_cast : forall H f k B D,
  uses_optimal_cast k = true ->
  (cast_choice H f k B D = CStatic <-> static_cast_ok H f B D = true).
Proof. exact cast_choice_optimal. Qed.
Print Assumptions C11_optimal_cast.

(** virtual_<shared_ptr<T>> and virtual_<const shared_ptr<T>&> do NOT make the
    optimal choice: they test requires_dynamic_cast<T*, shared_ptr<D>> (resp.
    <T*, const shared_ptr<D>&>) and so use dynamic_pointer_cast whenever the
    classes differ (resp. always).  This costs time, not correctness
    ([C11_virtual_arg] covers both flavours, and [C11_static_dynamic_agree]
    says they cannot differ).  FULL statement that does not hold for them:
    cast_choice = CStatic <-> static_cast_ok. *)
Theorem C11_optimal_cast_shared_partial : forall H f B D,
  (cast_choice H f KShared B D = CStatic <-> B = D) /\
  cast_choice H f KCShared B D = CDynamic.
Proof. exact cast_choice_shared. Qed.
Print Assumptions C11_optimal_cast_shared_partial.

Theorem C11_static_dynamic_agree : forall H f C (s d : sub) D,
  filter (of_class D) (subobjects H f C) = [d] ->
  contains H f d s = true ->
  static_cast_ok H f (sub_class s) D = true ->
  static_downcast H f s D = dynamic_cast H f C s D.
Proof. exact static_dynamic_agree. Qed.
Print Assumptions C11_static_dynamic_agree.

(** The enumeration [subobjects] only produces Rossie-Friedman canonical
    paths: non-empty chains of non-virtual edges anchored at the complete
    class or at one of its virtual bases. *)
Theorem C11_subobjects_wf : forall H f C s,
  In s (subobjects H f C) ->
  s <> [] /\ nv_chain H s /\ (sub_head s = C \/ In (sub_head s) (vbases H f C)).
Proof. exact subobjects_wf. Qed.
Print Assumptions C11_subobjects_wf.

(** ** Non-virtual arguments and return value *)

(** value unchanged; no copy for any category and route when the caller passes
    an rvalue (for an lvalue passed to a by-value parameter: the caller's own
    copy and no other) *)
Theorem C11_nonvirtual : forall r c e v,
  ns_value (thunk_narg r c e v) = v /\
  ns_copies (thunk_narg r c e v) = intrinsic_copies c e /\
  (e <> ELvalue -> ns_copies (thunk_narg r c e v) = 0).
Proof. exact thunk_narg_value_copies. Qed.
Print Assumptions C11_nonvirtual.

Theorem C11_return : forall r k v,
  ns_value (thunk_return r k v) = v /\ ns_copies (thunk_return r k v) = 0 /\
  ns_moves (thunk_return r k v) = 0.
Proof. exact thunk_return_unchanged. Qed.
Print Assumptions C11_return.

(** FULL statement of the property for moves (NOT provable, refuted below):

      forall r c e v, e <> ELvalue -> ns_moves (thunk_narg r c e v) <= 1.

    What holds: reference categories are never moved and the definition sees
    the caller's object; a by-value argument is moved once per forwarding layer
    on top of the move any by-value parameter costs (K1, known_findings.txt). *)
Theorem C11_moves_partial : forall r c e v,
  ns_moves (thunk_narg r c e v) =
    intrinsic_moves c e + (if by_value c then fwd_steps r else 0) /\
  (by_value c = false -> ns_moves (thunk_narg r c e v) = 0 /\ narg_same_object c = true).
Proof.
  intros r c e v. split.
  - exact (thunk_narg_moves r c e v).
  - exact (thunk_narg_moves_reference r c e v).
Qed.
Print Assumptions C11_moves_partial.

Theorem C11_byvalue_moves_refuted :
  exists r c e, by_value c = true /\ e <> ELvalue /\
                ns_copies (thunk_narg r c e 7%N) = 0 /\
                ns_moves (thunk_narg r c e 7%N) > 1.
Proof. exact byvalue_moves_refuted. Qed.
Print Assumptions C11_byvalue_moves_refuted.

(** the numbers of known_findings.txt: 3 through method::fn, 4 through the macro *)
Theorem C11_byvalue_moves_exact :
  ns_moves (thunk_narg RFn NVal EPrvalue 7%N) = 3 /\
  ns_moves (thunk_narg RMacro NVal EPrvalue 7%N) = 4 /\
  ns_moves (thunk_narg RFn NMoveOnly EXvalue 7%N) = 4 /\
  ns_moves (thunk_narg RMacro NMoveOnly EXvalue 7%N) = 5.
Proof. exact byvalue_moves_exact. Qed.
Print Assumptions C11_byvalue_moves_exact.

(** ** Non-vacuity *)

(** diamond with a virtual base: 0 ; 1 : virtual 0 ; 2 : virtual 0 ; 3 : 1, 2 *)
Definition ex_diamond : hier :=
  [ (0, []); (1, [(0, true)]); (2, [(0, true)]); (3, [(1, false); (2, false)]) ]%N.

Example ex_diamond_subobjects :
  subobjects ex_diamond 5 3%N = [[3]; [3; 1]; [3; 2]; [0]]%N.
Proof. vm_compute. reflexivity. Qed.

(** the shared virtual base [0] passed for virtual_<K0&>, definition on class 1:
    dynamic_cast is needed and lands on [3;1] *)
Example ex_diamond_hyps :
  In [0%N] (subobjects ex_diamond 5 3%N) /\
  filter (of_class 1%N) (subobjects ex_diamond 5 3%N) = [[3; 1]%N] /\
  contains ex_diamond 5 [3; 1]%N [0%N] = true /\
  static_cast_ok ex_diamond 5 0%N 1%N = false.
Proof. vm_compute. repeat split; auto 12. Qed.

Example ex_diamond_all_kinds :
  map (fun k => thunk_arg ex_diamond 5 k 3%N [0%N] 1%N)
      [KRef; KRRef; KPtr; KShared; KCShared; KVptr; KVSptr; KCVSptr]
  = repeat (Some [3; 1]%N) 8.
Proof. vm_compute. reflexivity. Qed.

Example ex_diamond_to_bottom :
  thunk_arg ex_diamond 5 KVSptr 3%N [0%N] 3%N = Some [3%N] /\
  upcast ex_diamond 5 [3%N] 0%N = Some [0%N].
Proof. vm_compute. auto. Qed.

(** second base at a non-zero offset: 0 ; 1 ; 2 : 1, 0 ; 3 : 2 *)
Definition ex_second : hier :=
  [ (0, []); (1, []); (2, [(1, false); (0, false)]); (3, [(2, false)]) ]%N.

Example ex_second_hyps :
  In [3; 2; 0]%N (subobjects ex_second 5 3%N) /\
  filter (of_class 2%N) (subobjects ex_second 5 3%N) = [[3; 2]%N] /\
  contains ex_second 5 [3; 2]%N [3; 2; 0]%N = true /\
  static_cast_ok ex_second 5 0%N 2%N = true /\
  cast_choice ex_second 5 KRef 0%N 2%N = CStatic /\
  cast_choice ex_second 5 KShared 0%N 2%N = CDynamic.
Proof. vm_compute. repeat split; auto 12. Qed.

Example ex_second_all_kinds :
  map (fun k => thunk_arg ex_second 5 k 3%N [3; 2; 0]%N 2%N)
      [KRef; KRRef; KPtr; KShared; KCShared; KVptr; KVSptr; KCVSptr]
  = repeat (Some [3; 2]%N) 8 /\
  upcast ex_second 5 [3; 2]%N 0%N = Some [3; 2; 0]%N.
Proof. vm_compute. auto. Qed.

(** The containment hypothesis cannot be dropped.  Repeated non-virtual base:
    0 ; 1 : 0 ; 2 : 0 ; 3 : 1, 2.  Class 1 is unambiguous in 3 and 0 <= 1 <= 3,
    but the caller may pass the OTHER 0 subobject, [3;2;0], which is not part
    of the 1 subobject: static_cast<K1&> is undefined behaviour there (model:
    [None]).  Outside the property's quantifier (shapes: single, second base,
    virtual base, several levels); the generated programs never do this. *)
Definition ex_repeated : hier :=
  [ (0, []); (1, [(0, false)]); (2, [(0, false)]); (3, [(1, false); (2, false)]) ]%N.

Example C11_repeated_base_outside :
  filter (of_class 1%N) (subobjects ex_repeated 5 3%N) = [[3; 1]%N] /\
  In [3; 2; 0]%N (subobjects ex_repeated 5 3%N) /\
  contains ex_repeated 5 [3; 1]%N [3; 2; 0]%N = false /\
  thunk_arg ex_repeated 5 KRef 3%N [3; 2; 0]%N 1%N = None /\
  thunk_arg ex_repeated 5 KRef 3%N [3; 1; 0]%N 1%N = Some [3; 1]%N /\
  thunk_arg ex_repeated 5 KRef 3%N [3; 1; 0]%N 3%N = Some [3%N].
Proof. vm_compute. repeat split; auto 12. Qed.

(** const virtual_shared_ptr<T>& to a second base at a non-zero offset: the
    static flavour is chosen, and the result still owns the caller's object *)
Example ex_second_cvsptr :
  is_smart KCVSptr = true /\
  cast_choice ex_second 5 KCVSptr 0%N 2%N = CStatic /\
  thunk_ctrl KCVSptr 9%N (thunk_arg ex_second 5 KCVSptr 3%N [3; 2; 0]%N 2%N) = Some 9%N /\
  uc_delta KCVSptr ELvalue = Some 1.
Proof. vm_compute. auto. Qed.

(** non-virtual categories *)
Example ex_nonvirtual :
  thunk_narg RMacro NRRef EXvalue 42%N = mk_nstate 42%N 0 0 /\
  thunk_narg RMacro NLRef ELvalue 42%N = mk_nstate 42%N 0 0 /\
  thunk_narg RMacro NMoveOnly EPrvalue 42%N = mk_nstate 42%N 0 4 /\
  thunk_narg RFn NVal ELvalue 42%N = mk_nstate 42%N 1 3.
Proof. vm_compute. auto. Qed.
