(* C01 / C07 — `update`, stage by stage, on the code as TRANSLATED from /repo/include/yorel/yomm2/detail/compiler.hpp on this
   run: for every well-formed registry R, every previous content `stale` of dispatch_data and C = compile_with stale R, the
   translated stages, each fed what the earlier ones produced, compute the components of C:
     (7) the translated `update` runs the phases in the model's order and returns C;
     (1) the seven translated pieces of augment_classes (collection, bases, closure, duplicate removal, direct bases, direct
         derived, covariant classes) build o_lat C;
     (2) the translated augment_methods builds o_meths C over it;
     (3) the translated assign_slots - over the translated assign_tree_slots, assign_lattice_slots and slot body - yields
         o_slots C and o_first C;
     (4) the translated grouping and entry loops of build_dispatch_tables write o_vtbl C, in any enumeration order of the
         unordered sets;
     (5) the translated build_dispatch_table and `next` loop give, for every method, the cells, the report counters and the
         nexts of its table in o_tables C;
     (6) the translated install_gv lays all of it out as o_image C with o_vptr C, o_ss C and o_table_off C.
   Together with Properties_walk_source.v (the translated call-time walk reads o_image C as Model.resolve does) and
   Properties_C01.v (that word is the thunk the documented rule designates) this is the chain from the C++ text to C01.
   C07: C is a function of R and, for the words this update does not write, of `stale` only - no other state of an earlier
   update enters any stage.

   Trusted in this tie: each stage's translator (parser, skeleton matching, lowering) and the reading of the standard
   containers stated in the stage's own Properties_*_source.v; that the stages exchange exactly these components (the members
   of the compiler object) is what phases.py / Properties_phase_source.v check on the body of `update` and `compile`. *)
From Coq Require Import List NArith ZArith.
Import ListNotations.
From Y2 Require Import Model.Registry Model.Compile Spec.Dispatch Proofs.Interfaces.
From Y2 Require Import Proofs.LatticeProofs.
From Y2 Require Model.MiniLat Gen.GenLat Proofs.LatCompose.
From Y2 Require Model.MiniMeth Gen.GenMeth Model.MiniSlot Gen.GenSlot Model.MiniGrp Gen.GenGrp Proofs.GrpCompose.
From Y2 Require Model.MiniTab Gen.GenTab Model.MiniGv Gen.GenGv Model.MiniPhase Gen.GenPhase Proofs.UpdateCompose.

Theorem C07_source_stage_phases : forall R stale C, compile_with stale R = Ok C ->
  MiniPhase.run_update GenPhase.gen_update stale R = Some (Ok C).
Proof. exact UpdateCompose.stage_phases. Qed.
Print Assumptions C07_source_stage_phases.

Theorem C01_source_stage_lattice : forall R stale C, wf_registry R -> compile_with stale R = Ok C ->
  let keys := class_keys R in
  let n := length keys in
  exists tb0 tb1,
    let L := o_lat C in
    L = lattice_from R (map (fun l => dedupn l []) tb1) /\
    (exists m, MiniLat.run_collect (proj R) GenLat.gen_collect (r_classes R) [] [] = Some (m, l_info L)
               /\ forall t, assocN (proj R t) m = class_of R keys t) /\
    MiniLat.run_bases (class_of R keys) GenLat.gen_bases (r_classes R) (repeat [] n) = Ok tb0 /\
    MiniLat.run_closure (S (n * n)) GenLat.gen_closure tb0 = Ok tb1 /\
    forall marks W0 cm M loc, length W0 = n -> (length marks = n /\ forall k, nth k marks 0 <= cm) ->
      exists s1 s2 s3,
        MiniLat.mk_exec GenLat.gen_dedup MiniLat.env0 (MiniLat.mk_mk tb1 (repeat [] n) (repeat [] n) marks W0 cm M loc) = Some s1 /\
        MiniLat.mk_exec GenLat.gen_direct MiniLat.env0 s1 = Some s2 /\
        MiniLat.mk_exec GenLat.gen_derived MiniLat.env0 s2 = Some s3 /\
        MiniLat.m_tb s3 = l_tb L /\ MiniLat.m_dir s3 = l_direct L /\ MiniLat.m_der s3 = l_derived L /\
        MiniLat.cv_all (S n) GenLat.gen_covariant (MiniLat.m_der s3) (seq 0 n) (repeat [] n) = Some (l_cov L).
Proof. exact LatCompose.src_lattice_compile. Qed.
Print Assumptions C01_source_stage_lattice.

Theorem C01_source_stage_methods : forall R stale C, wf_registry R -> compile_with stale R = Ok C ->
  exists l, MiniMeth.run_methods R (l_keys (o_lat C)) (MiniMeth.ms_body GenMeth.gen_augment_methods) (r_methods R) = Ok l /\
            map fst l = o_meths C.
Proof. exact UpdateCompose.stage_methods. Qed.
Print Assumptions C01_source_stage_methods.

Theorem C01_source_stage_slots_vtbls : forall R stale C, wf_registry R -> compile_with stale R = Ok C ->
  exists st, MiniSlot.run_assign_slots (o_lat C) (o_meths C) GenSlot.gen_lattice_assign GenSlot.gen_tree_slots
               GenSlot.gen_lattice_slots GenSlot.gen_assign_slots = Some st /\
             o_slots C = s_slots st /\ o_first C = s_first st /\ slots_ok (o_lat C) (o_meths C) st /\
  forall enum, (forall v x, In x (enum v) <-> In x (cov_of (o_lat C) v)) -> (forall v, NoDup (enum v)) ->
    GrpCompose.run_methods (o_lat C) st enum (combine (seq 0 (length (o_meths C))) (o_meths C))
                (map (fun c => repeat (0, 0, 0) (nth c (s_vlen st) 0)) (seq 0 (length (l_keys (o_lat C)))))
    = Some (o_vtbl C).
Proof. exact UpdateCompose.stage_slots. Qed.
Print Assumptions C01_source_stage_slots_vtbls.

Theorem C01_source_stage_tables : forall R stale C, wf_registry R -> compile_with stale R = Ok C ->
  forall mi m, nth_error (o_meths C) mi = Some m ->
  let L := o_lat C in
  let t := nth mi (o_tables C) (mk_ct [] [] [] (mk_rep 0 0 0 0 0 0) []) in
  let groups := map (groups_of L m) (seq 0 (length (cm_vp m))) in
  MiniTab.run_tab L (cm_specs m) GenTab.gen_tab_body (rev groups) (N.ones (N.of_nat (length (cm_specs m)))) true (MiniTab.mk_to [] MiniTab.tc0)
  = Some (MiniTab.mk_to (t_cells t) (MiniTab.mk_tc (rp_amb (t_report t)) (rp_camb (t_report t)) (rp_ni (t_report t)) (rp_cni (t_report t)))) /\
  map (fun sp => MiniTab.run_next L (cm_specs m) sp GenTab.gen_next_body) (cm_specs m) = map Some (t_nexts t).
Proof. exact UpdateCompose.stage_tables. Qed.
Print Assumptions C01_source_stage_tables.

Theorem C01_source_stage_install : forall R stale C, wf_registry R -> compile_with stale R = Ok C ->
  forall st, o_slots C = s_slots st -> o_first C = s_first st ->
  exists img, MiniGv.run_gv GenGv.gen_install_gv stale (o_meths C) (o_tables C) (s_slots st) (s_first st) (o_vtbl C)
              = Some (MiniGv.mk_gs img (o_ss C) (o_table_off C) (o_vptr C), o_image C).
Proof. exact UpdateCompose.stage_install. Qed.
Print Assumptions C01_source_stage_install.

(* non-vacuity: a registry with a diamond and two methods is well formed and compiles; every stage statement above therefore
   speaks about it *)
Definition ex_R : registry :=
  mk_reg [mk_class 1 [1] false; mk_class 2 [2; 1] false; mk_class 3 [3; 1] false; mk_class 4 [4; 2; 3] false]%N
         [mk_meth [1; 1]%N [mk_def [2; 1]%N true; mk_def [1; 3]%N true] [true; true];
          mk_meth [3]%N [mk_def [4]%N true] [true]] [].
Example ex_compiles : match compile_with [WJunk] ex_R with Ok C => length (o_meths C) = 2 /\ length (o_image C) > 4 | Err _ => False end.
Proof. vm_compute. split; [reflexivity|]. repeat constructor. Qed.

(* From the text to the call.  The last two links put together: the translated install_gv, run on the components the earlier
   stages computed, leaves an image and a slots_strides array; the translated call-time walk of core.hpp, run on THAT image and
   THAT array, returns - for every legal tuple of dynamic classes, every placement of the non-virtual parameters, virtual_ptr or
   plain arguments, with and without runtime checks - the word of the definition the documented rule designates, or the
   method's error stub (C01; the `stale` words of an earlier update are never read: C07). *)
From Y2 Require Model.MiniWalk Gen.GenWalk Proofs.ResolveProofs.

Theorem C01_source_text_to_dispatch : forall R stale C mi m cs kinds checks,
  wf_registry R -> compile_with stale R = Ok C -> nth_error (r_methods R) mi = Some m ->
  Forall (fun c => c < ncls (o_lat C)) cs -> legal R m (map (key (o_lat C)) cs) ->
  forall st, o_slots C = s_slots st -> o_first C = s_first st ->
  exists img ss offs vptrs image,
    MiniGv.run_gv GenGv.gen_install_gv stale (o_meths C) (o_tables C) (s_slots st) (s_first st) (o_vtbl C)
    = Some (MiniGv.mk_gs img ss offs vptrs, image) /\
    let cm := nth mi (o_meths C) (mk_cmeth [] [] [] []) in
    MiniWalk.walk_resolve image (nth mi ss []) (length (cm_vp cm)) None checks GenWalk.gen_walkfns GenWalk.gen_entry
                 (cm_shape cm) (actuals_of C (m_shape m) cs) kinds
    = Some (ResolveProofs.word_of_outcome mi (spec_dispatch R (meth_defs R m) (map (key (o_lat C)) cs))).
Proof. exact UpdateCompose.text_to_dispatch. Qed.
Print Assumptions C01_source_text_to_dispatch.
