(* Property C08 — inheritance is inferred correctly however registrations are split. Property theorems only.
   G : list (N * N) is the class graph (direct base, derived).  presentation_of G R says what the property's premise says:
   every direct-base relationship of G appears in at least one registration record of R, and every base a record lists
   is the class itself or a direct or indirect base in G — listed completely, only directly, redundantly, several times,
   or spread over several records, in any order. *)
From Y2 Require Import Model.Registry Model.Compile Model.UseClasses Spec.Dispatch Proofs.Interfaces Proofs.SpecProofs Proofs.ResolveProofs Proofs.CorollaryProofs Proofs.PresentCompose Proofs.UseClassesProofs.
From Coq Require Import Relations.

(* the relation the specification uses is the graph's *)
Theorem C08_closure_spec : forall G R, presentation_of G R ->
  forall b d, anc R b d <-> clos_refl_trans N (Gedge G) b d.
Proof. exact anc_of_presentation. Qed.
Print Assumptions C08_closure_spec.

(* ... and so is the one update computes: class d is acceptable where class b is expected (d is among b's covariant
   classes) exactly when b is d or a direct or indirect base of d in G *)
Theorem C08_accepts : forall G R stale C,
  presentation_of G R -> wf_registry R -> compile_with stale R = Ok C ->
  forall b d, b < ncls (o_lat C) -> d < ncls (o_lat C) ->
    (In d (cov_of (o_lat C) b) <-> clos_refl_trans N (Gedge G) (key (o_lat C) b) (key (o_lat C) d)).
Proof. exact accepts_iff_graph. Qed.
Print Assumptions C08_accepts.

(* dispatch and next are the same under any two presentations of the graph (in particular: as if each class had been
   registered once with its complete list of bases) *)
Theorem C08_same_dispatch : forall G R R' C C' mi m m' args,
  presentation_of G R -> presentation_of G R' -> (forall c, registered R c <-> registered R' c) ->
  wf_registry R -> wf_registry R' -> compile R = Ok C -> compile R' = Ok C' ->
  nth_error (r_methods R) mi = Some m -> nth_error (r_methods R') mi = Some m' ->
  meth_vp R' m' = meth_vp R m -> meth_defs R' m' = meth_defs R m -> m_shape m' = m_shape m ->
  legal R m args ->
  exists cs cs' o,
    map (key (o_lat C)) cs = args /\ map (key (o_lat C')) cs' = args /\
    resolve C mi (actuals_of C (m_shape m) cs) = Ok (word_of_outcome mi o) /\
    resolve C' mi (actuals_of C' (m_shape m') cs') = Ok (word_of_outcome mi o).
Proof. exact dispatch_presentation_independent. Qed.
Print Assumptions C08_same_dispatch.

Theorem C08_same_next : forall G R R' C C' mi m m' i,
  presentation_of G R -> presentation_of G R' -> (forall c, registered R c <-> registered R' c) ->
  wf_registry R -> wf_registry R' -> compile R = Ok C -> compile R' = Ok C' ->
  nth_error (r_methods R) mi = Some m -> nth_error (r_methods R') mi = Some m' ->
  meth_defs R' m' = meth_defs R m -> i < length (m_defs m) -> length (m_defs m') = length (m_defs m) ->
  nth i (t_nexts (nth mi (o_tables C) (mk_ct [] [] [] (mk_rep 0 0 0 0 0 0) []))) CNi
  = nth i (t_nexts (nth mi (o_tables C') (mk_ct [] [] [] (mk_rep 0 0 0 0 0 0) []))) CNi.
Proof. exact next_presentation_independent. Qed.
Print Assumptions C08_same_next.

(* no two method parameters ever share a v-table cell in a class, whatever the presentation *)
Theorem C08_no_shared_cell : forall R stale C,
  wf_registry R -> compile_with stale R = Ok C ->
  forall mi p mi' p' z,
    applies (o_lat C) (o_meths C) mi p z -> applies (o_lat C) (o_meths C) mi' p' z ->
    (c_first C z <= c_slot C mi p < c_first C z + c_vlen C z) /\
    (c_slot C mi p = c_slot C mi' p' -> mi = mi' /\ p = p').
Proof. exact cells_disjoint. Qed.
Print Assumptions C08_no_shared_cell.

(* the registration front end itself: what use_classes<...> / register_classes(...) statements register (one record per
   listed class, listing every class of the same statement that is a base of it per std::is_base_of) is a presentation of
   the program's class graph as soon as every direct base of a listed class is listed in the same statement and every
   class is listed somewhere — so all the theorems above apply to it *)
Theorem C08_use_classes_presentation : forall G is_base_of is_abstract,
  (forall b d, is_base_of b d = true <-> clos_refl_trans N (Gedge G) b d) ->
  forall stmts,
  (forall cs b d, In cs stmts -> In d cs -> In (b, d) G -> In b cs) ->
  (forall b d, In (b, d) G -> exists cs, In cs stmts /\ In d cs) ->
  presentation_of G (mk_reg (program_records is_base_of is_abstract stmts) [] []).
Proof. exact use_classes_presentation. Qed.
Print Assumptions C08_use_classes_presentation.

(* non-vacuity: probe P2's lattice registered with direct bases only is a presentation of its graph, and compiles *)
Example C08_example :
  let R := mk_reg [mk_class 7 [3] false; mk_class 2 [1] false; mk_class 9 [7;8;4] false; mk_class 8 [2] false; mk_class 6 [4;5] false;
                   mk_class 3 [] false; mk_class 1 [] false; mk_class 4 [1;3] false; mk_class 5 [1] false]%N
                  [mk_meth [1]%N [mk_def [1]%N true; mk_def [9]%N true] [true]; mk_meth [7]%N [mk_def [7]%N true] [true]] [] in
  match compile R with
  | Ok C => o_slots C = [[1]; [0]] /\ ancb R 1%N 9%N = true /\ ancb R 5%N 9%N = false
  | Err _ => False
  end.
Proof. vm_compute. repeat split. Qed.
