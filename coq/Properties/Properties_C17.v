(* Property C17 — the update report tells the truth about gaps and ambiguities. Property theorems only. *)
From Y2 Require Import Model.Registry Model.Compile Spec.Dispatch Proofs.SpecProofs Proofs.ReportProofs Proofs.ReportCompose.

(* For every well-formed registry, with any assignment of abstract flags: the report update returns raises
   not_implemented iff some legal tuple of registered classes of some method has no applicable definition, ambiguous iff
   some legal tuple has applicable definitions but no most specific one, the concrete_ counterparts iff such a tuple
   exists among tuples of non-abstract classes only, and cells is the number of multi-method dispatch cells built. *)
Theorem C17_report : forall R stale C, wf_registry R -> compile_with stale R = Ok C ->
  (rp_ni (o_report C) <> 0 <-> spec_flag R is_nodef false = true) /\
  (rp_amb (o_report C) <> 0 <-> spec_flag R is_ambig false = true) /\
  (rp_cni (o_report C) <> 0 <-> spec_flag R is_nodef true = true) /\
  (rp_camb (o_report C) <> 0 <-> spec_flag R is_ambig true = true) /\
  rp_cells (o_report C) = fold_right (fun t s => (if 1 <? length (t_groups t) then length (t_cells t) else 0) + s) 0 (o_tables C).
Proof. exact report_correct. Qed.
Print Assumptions C17_report.

(* what the specification's flags mean *)
Theorem C17_flag_meaning : forall R which concrete_only,
  spec_flag R which concrete_only = true <->
  exists m args, In m (r_methods R) /\ legal R m args /\
                 which (spec_dispatch R (meth_defs R m) args) = true /\
                 (concrete_only = true -> forall c, In c args -> is_abstract R c = false).
Proof. exact spec_flag_correct. Qed.
Print Assumptions C17_flag_meaning.

(* the total report raises a flag exactly when some method's counter is non-zero, and cells add up *)
Theorem C17_total_flags : forall reps : list mreport,
  let tot := fold_left accumulate reps rep0 in
  (rp_ni tot <> 0 <-> exists r, In r reps /\ rp_ni r <> 0) /\
  (rp_amb tot <> 0 <-> exists r, In r reps /\ rp_amb r <> 0) /\
  (rp_cni tot <> 0 <-> exists r, In r reps /\ rp_cni r <> 0) /\
  (rp_camb tot <> 0 <-> exists r, In r reps /\ rp_camb r <> 0) /\
  rp_cells tot = fold_right (fun r s => rp_cells r + s) 0 reps.
Proof. exact total_report_flags. Qed.
Print Assumptions C17_total_flags.

(* non-vacuity: the property's own example — abstract A and definitions (A,B),(A,C),(B,D),(C,D),(D,D):
   the only ambiguous tuple (A,D) contains the abstract class: ambiguous is raised, concrete_ambiguous is not *)
Example C17_example :
  let R := mk_reg [mk_class 1 [1] true; mk_class 2 [2;1] false; mk_class 3 [3;1] false; mk_class 4 [4;2;3;1] false]%N
                  [mk_meth [1;1]%N [mk_def [1;2]%N true; mk_def [1;3]%N true; mk_def [2;4]%N true; mk_def [3;4]%N true; mk_def [4;4]%N true] [true;true]] [] in
  match compile R with
  | Ok C => rp_amb (o_report C) = 1 /\ rp_camb (o_report C) = 0 /\ spec_flag R is_ambig false = true /\ spec_flag R is_ambig true = false
  | Err _ => False
  end.
Proof. vm_compute. repeat split. Qed.
