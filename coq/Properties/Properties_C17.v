(* Property C17 — the update report tells the truth about gaps and ambiguities. Property theorems only.
   The per-method counters vs the specification's tuples (from Proofs/TablesProofs.v T3) are added when assembled. *)
From Y2 Require Import Model.Registry Model.Compile Proofs.ReportProofs.

(* the total report raises a flag exactly when some method's counter is non-zero, and cells add up *)
Theorem C17_total_flags : forall reps : list mreport,
  let tot := fold_left accumulate reps rep0 in
  (rp_ni tot <> 0 <-> exists r, In r reps /\ rp_ni r <> 0) /\
  (rp_amb tot <> 0 <-> exists r, In r reps /\ rp_amb r <> 0) /\
  (rp_cni tot <> 0 <-> exists r, In r reps /\ rp_cni r <> 0) /\
  (rp_camb tot <> 0 <-> exists r, In r reps /\ rp_camb r <> 0) /\
  rp_cells tot = fold_right (fun r s => rp_cells r + s) 0 reps.
Proof. exact total_report_flags. Qed.
Print Assumptions C17_total_flags.
