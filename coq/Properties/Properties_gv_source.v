(* C01 / C04 / C07 — install_gv, on the code as TRANSLATED from /repo/include/yorel/yomm2/detail/compiler.hpp on this run.

   translators/installgv.py parses compiler<Policy>::install_gv, matches on the AST how Policy::dispatch_data is sized (every
   method's dispatch_table.size() plus every class's vtbl.size(); both spellings), the resize, the three cursors and the final
   publish_vptrs, and lowers the bodies of the loop over the methods and of the loop over the classes (with its loop over the
   v-table entries) statement by statement into the language of Model/MiniGv.v (Gen/GenGv.v).  Here, for every lattice,
   methods, slot assignment and previous content of dispatch_data: running the translated function on the tables, slots,
   first slots and v-table entries of the update yields exactly the dispatch-table offsets, the static v-table pointers and
   the slots_strides of Model.Compile.install_with, leaves in dispatch_data exactly the model's image — the words C01's walk
   reads; what this update does not write keeps what the vector held (C07: `stale`) — and no BOOST_ASSERT on the cursor
   fails: every word is written inside the resized vector (C04: the cells a call reads were written by this update).

   Trusted in this tie: the parser, skeleton matching and lowering of translators/installgv.py + _minicpp.py; std::copy,
   std::transform and vector::resize are read as the list functions of Model/MiniGv.v. *)
From Coq Require Import List ZArith.
Import ListNotations.
From Y2 Require Import Model.Registry Model.Compile Model.MiniGv Gen.GenGv Proofs.GvSource.

Theorem C01_source_install_gv : forall stale L ms st,
  let C := install_with stale L ms st in
  exists img, run_gv gen_install_gv stale ms (o_tables C) (s_slots st) (s_first st) (o_vtbl C)
              = Some (mk_gs img (o_ss C) (o_table_off C) (o_vptr C), o_image C).
Proof. exact src_install_gv. Qed.
Print Assumptions C01_source_install_gv.

(* non-vacuity: the translated install_gv runs on a compiled registry (a uni-method, a 2-method and a 3-method; a class no
   method uses) and leaves the model's 14-word image *)
Definition ex_R : registry :=
  mk_reg [mk_class 1 [1] false; mk_class 2 [2] false; mk_class 3 [3; 1; 2] false; mk_class 4 [4] false]%N
         [mk_meth [1]%N [mk_def [1]%N true] [true];
          mk_meth [2; 3]%N [mk_def [2; 3]%N true] [true; true];
          mk_meth [1; 2; 3]%N [mk_def [1; 2; 3]%N true; mk_def [3; 2; 3]%N true] [true; true; true]] [].

Example ex_install_gv :
  match augment_classes ex_R with
  | Ok L =>
      match augment_methods ex_R (l_keys L) (r_methods ex_R) with
      | Ok ms =>
          let st := assign_slots L ms in
          let C := install_with [WJunk; WJunk] L ms st in
          match run_gv gen_install_gv [WJunk; WJunk] ms (o_tables C) (s_slots st) (s_first st) (o_vtbl C) with
          | Some (g, image) => image = o_image C /\ length image = 14 /\ g_vptrs g = o_vptr C /\ g_offs g = [0; 0; 1]
          | None => False
          end
      | Err _ => False
      end
  | Err _ => False
  end.
Proof. vm_compute. repeat split. Qed.
