(** * C15, virtual_ptr routes - checked policies diagnose an unregistered class
      at virtual_ptr construction and in final

    Part of property C15 (properties.jsonl): "With the stock debug (checked)
    policy, using a class that was not registered is always reported through
    the error handler as an unknown class carrying that class's type id ... at
    call time when it is the dynamic class of a virtual argument, on every route
    including virtual_ptr construction. Passing final an object of another
    dynamic type is reported as a method-table error; in none of these cases is
    a table read or a definition run first."

    This file holds the theorems for the routes that go through
    [Model/VirtualPtr.v] (virtual_ptr constructor, final, make_virtual_shared,
    and the plain-reference lookup [dynamic_vptr] of a method call);
    Properties_C15.v cites them.  The checked configuration is
    checked_perfect_hash (which brings runtime_checks) with vptr_vector, direct
    or indirect: [checked_vector cfg].

    The result of each route is a pair (accesses made, outcome).  "No table is
    read first" is the statement that the access list of an erroneous use
    contains no read of the lookup structures vptrs / indirect_vptrs (an
    [AVptrs] or [AIvptrs] entry): only the control vector of the checked hash
    ([AHash]) and, in final, the static v-table pointer *variable* of the static
    type ([ASvp], a named static, always readable).  No virtual_ptr value exists
    after an error, so no call - hence no definition - can go through it. *)

From Coq Require Import List NArith Bool Arith Lia.
From Y2 Require Import Model.VirtualPtr Proofs.VirtualPtrProofs.
Import ListNotations.

(** virtual_ptr<C>(obj) / virtual_shared_ptr<C>(sp), any value category and
    constness of [sp]: the dynamic class of the object is not registered ->
    unknown_class_error with THAT class's id, whether the static type is the
    dynamic type (the shortcut, repaired by a90d4e0) or a base of it; the only
    access before the error is the control-vector comparison. *)
Theorem C15_ctor_unregistered : forall cfg st a,
  checked_vector cfg -> reachable cfg st -> ~ In (a_dyn a) (classes st) ->
  ctor cfg st a = ([AHash (a_dyn a)], Error (UnknownClass (a_dyn a))).
Proof. exact ctor_unregistered. Qed.
Print Assumptions C15_ctor_unregistered.

(** final(obj) with an object of another dynamic type: method_table_error
    carrying the dynamic type, in any state, under any policy with
    runtime_checks; nothing but the static type's own v-table pointer variable
    has been touched *)
Theorem C15_final_wrong_type : forall cfg st a,
  runtime_checks cfg = true -> a_dyn a <> a_stat a ->
  final_ cfg st a = ([ASvp (a_stat a)], Error (MethodTable (a_dyn a))).
Proof. exact final_wrong_type. Qed.
Print Assumptions C15_final_wrong_type.

(** final(obj) with an object of exactly the static type, not registered
    (repaired by a90d4e0) *)
Theorem C15_final_unregistered : forall cfg st a,
  checked_vector cfg -> reachable cfg st -> a_dyn a = a_stat a -> ~ In (a_dyn a) (classes st) ->
  final_ cfg st a = ([ASvp (a_stat a); AHash (a_stat a)], Error (UnknownClass (a_stat a))).
Proof. exact final_unregistered. Qed.
Print Assumptions C15_final_unregistered.

(** ** "Not registered" means "not compiled by the last update", whatever the
       class's static v-table pointer variable holds

    Policy::static_vptr<C> is written by every update that compiles C and never
    cleared: after C's class_declaration has been destroyed and update() has run
    again, static_vptr<C> still holds C's table of the earlier update.  The
    diagnosis does not depend on it: the two theorems above hold with ARBITRARY
    contents [f] in the static v-table pointer variables ... *)
Theorem C15_ctor_unregistered_any_static_content : forall cfg st a f,
  checked_vector cfg -> reachable cfg st -> ~ In (a_dyn a) (classes st) ->
  ctor cfg (with_svp st f) a = ([AHash (a_dyn a)], Error (UnknownClass (a_dyn a))).
Proof. exact ctor_unregistered_any_static. Qed.
Print Assumptions C15_ctor_unregistered_any_static_content.

Theorem C15_final_unregistered_any_static_content : forall cfg st a f,
  checked_vector cfg -> reachable cfg st -> a_dyn a = a_stat a -> ~ In (a_dyn a) (classes st) ->
  final_ cfg (with_svp st f) a = ([ASvp (a_stat a); AHash (a_stat a)], Error (UnknownClass (a_stat a))).
Proof. exact final_unregistered_any_static. Qed.
Print Assumptions C15_final_unregistered_any_static_content.

(** ... and, concretely, for the history register - update - unregister - update:
    the static v-table pointer of the class is non-null (stale) and the class is
    diagnosed on the exact-type constructor route and in final *)
Theorem C15_unregistered_after_registered : forall cfg rs1 rs2 st0 a,
  checked_vector cfg -> reachable cfg st0 -> In (a_dyn a) rs1 -> ~ In (a_dyn a) rs2 ->
  let st := update cfg rs2 (update cfg rs1 st0) in
  svp st (a_dyn a) = Some (a_dyn a, S (epoch st0)) /\
  ctor cfg st a = ([AHash (a_dyn a)], Error (UnknownClass (a_dyn a))) /\
  (a_dyn a = a_stat a ->
   final_ cfg st a = ([ASvp (a_stat a); AHash (a_stat a)], Error (UnknownClass (a_stat a)))).
Proof. exact unregistered_after_registered. Qed.
Print Assumptions C15_unregistered_after_registered.

(** make_virtual_shared<U>() for an unregistered U is final of a fresh U *)
Corollary C15_make_virtual_shared_unregistered : forall cfg st o c ctrl box,
  checked_vector cfg -> reachable cfg st -> ~ In c (classes st) ->
  make_virtual_shared cfg st o c ctrl box = ([ASvp c; AHash c], Error (UnknownClass c)).
Proof. exact make_virtual_shared_unregistered. Qed.
Print Assumptions C15_make_virtual_shared_unregistered.

(** the lookup a method call makes for a plain reference / pointer /
    shared_ptr argument (method::vptr -> Policy::dynamic_vptr) *)
Theorem C15_call_lookup_unregistered : forall cfg st c,
  checked_vector cfg -> reachable cfg st -> ~ In c (classes st) ->
  dynamic_vptr cfg st c = ([AHash c], Error (UnknownClass c)).
Proof. exact call_unregistered. Qed.
Print Assumptions C15_call_lookup_unregistered.

(** ** Non-vacuity: classes 0 <- 1 <- 2 registered, 7 (deriving from 2) not *)

Definition ex_dbg (ind : bool) : config := {| hash := HChecked; placement := PVector; indirect := ind |}.
Definition ex_st (ind : bool) : state := update (ex_dbg ind) [0; 1; 2]%N init_state.

Example ex_hyps : forall ind,
  checked_vector (ex_dbg ind) /\ reachable (ex_dbg ind) (ex_st ind) /\ ~ In 7%N (classes (ex_st ind)).
Proof.
  intros ind. split; [split; reflexivity|]. split.
  - apply reach_update, reach_init.
  - destruct ind; vm_compute; intuition discriminate.
Qed.

Example ex_errors :
  map (fun ind =>
    ( outcome (ctor (ex_dbg ind) (ex_st ind) (mk_arg 5 7%N 7%N 0 0 107%N)),       (* virtual_ptr<U>(u) *)
      outcome (ctor (ex_dbg ind) (ex_st ind) (mk_arg 5 7%N 0%N 0 0 100%N)),       (* virtual_ptr<K0>(ref to u) *)
      outcome (ctor (ex_dbg ind) (ex_st ind) (mk_arg 5 7%N 7%N 2 9 107%N)),       (* virtual_shared_ptr<U>(sp) *)
      outcome (final_ (ex_dbg ind) (ex_st ind) (mk_arg 5 7%N 7%N 0 0 107%N)),     (* virtual_ptr<U>::final(u) *)
      outcome (final_ (ex_dbg ind) (ex_st ind) (mk_arg 5 2%N 0%N 0 0 100%N)),     (* virtual_ptr<K0>::final(ref to k2) *)
      outcome (make_virtual_shared (ex_dbg ind) (ex_st ind) 6 7%N 9 107%N) )) [false; true]
  = let r := ( Error (UnknownClass 7%N), Error (UnknownClass 7%N), Error (UnknownClass 7%N),
               Error (UnknownClass 7%N), Error (MethodTable 2%N), Error (UnknownClass 7%N) ) in [r; r].
Proof. vm_compute. reflexivity. Qed.

(** ** The code before a90d4e0 (D8) does not have the property *)

(** the shortcut without the checked lookup: virtual_ptr<U>(u) succeeds with a
    null v-table pointer and no error; the next call crashes *)
Example C15_ctor_legacy_D8_refuted :
  match ctor_with TConstRef CkNever (ex_dbg false) (ex_st false) (mk_arg 5 7%N 7%N 0 0 107%N) with
  | (log, Ok p) => deref (ex_st false) p = None /\ existsb (fun a => match a with AHash _ => true | _ => false end) log = false
  | _ => False end.
Proof. vm_compute. split; reflexivity. Qed.

Example C15_final_legacy_D8_refuted :
  match final_with TConstRef CkNever (ex_dbg false) (ex_st false) (mk_arg 5 7%N 7%N 0 0 107%N) with
  | (log, Ok p) => deref (ex_st false) p = None
  | _ => False end.
Proof. vm_compute. reflexivity. Qed.

(** ** Checking registration only when static_vptr<T> is null does not have the property

    classes 0 <- 1 <- 2 and 3 (deriving from 2) compiled by the first update; 3
    unregistered before the second.  With the check skipped for a non-null static
    v-table pointer ([CkIfNull]), virtual_ptr<K3>(k3) and final succeed, carrying
    the table of the FIRST update (released / rewritten by the second); the code
    as it is ([ctor], [final_]) reports unknown class 3. *)
Definition ex_hist (ind : bool) : state :=
  update (ex_dbg ind) [0; 1; 2]%N (update (ex_dbg ind) [0; 1; 2; 3]%N init_state).

Example C15_check_if_null_refuted :
  map (fun ind =>
    ( svp (ex_hist ind) 3%N,
      match outcome (ctor_with TConstRef CkIfNull (ex_dbg ind) (ex_hist ind) (mk_arg 5 3%N 3%N 0 0 103%N)) with
      | Ok p => deref (ex_hist ind) p | _ => None end,
      match outcome (final_with TConstRef CkIfNull (ex_dbg ind) (ex_hist ind) (mk_arg 5 3%N 3%N 0 0 103%N)) with
      | Ok p => deref (ex_hist ind) p | _ => None end,
      outcome (ctor (ex_dbg ind) (ex_hist ind) (mk_arg 5 3%N 3%N 0 0 103%N)),
      outcome (final_ (ex_dbg ind) (ex_hist ind) (mk_arg 5 3%N 3%N 0 0 103%N)),
      epoch (ex_hist ind) )) [false; true]
  = let r := ( Some (3%N, 1), Some (3%N, 1), Some (3%N, 1),
               Error (UnknownClass 3%N), Error (UnknownClass 3%N), 2 ) in [r; r].
Proof. vm_compute. reflexivity. Qed.

(** a never-registered class has a null static v-table pointer: the skipped
    check changes nothing for it (which is why only this history shows it) *)
Example C15_check_if_null_never_registered :
  outcome (ctor_with TConstRef CkIfNull (ex_dbg false) (ex_hist false) (mk_arg 5 7%N 7%N 0 0 107%N))
  = Error (UnknownClass 7%N).
Proof. vm_compute. reflexivity. Qed.
