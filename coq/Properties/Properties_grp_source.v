(* C01 / C04 / C17 — which cell a class selects, on the code as TRANSLATED from
   /repo/include/yorel/yomm2/detail/compiler.hpp on this run.

   translators/grouping.py parses compiler<Policy>::build_dispatch_tables and lowers two of its blocks into the languages of
   Model/MiniGrp.v (Gen/GenGrp.v):
     gen_groups  : for every virtual parameter, for every class covariant with the parameter's class: the mask of the
                   definitions that accept the class in that dimension (one bit per definition, in catalog order), the group
                   `groups[dim][mask]` of the std::map (created when absent), the class appended to it, has_concrete_classes or-ed
                   with "the class is not abstract";
     gen_entries : for every dimension, for every group in the map's (increasing mask) order, for every class of the group: the
                   v-table entry at `m.slots[dim] - cls->first_slot` receives (method index, dimension, group number).
   covariant_classes is a std::unordered_set, whose iteration order the standard leaves open: the interpreter takes the order as a
   parameter `enum`, and the theorem holds for EVERY duplicate-free enumeration of the same classes.  Then:
     - the groups of every dimension, with their has_concrete flags, in the map's order, are Model.Compile.groups_of - the
       input of the table builder (C01), of the strides and of the cell counts of the report (C17);
     - the entries written are exactly those of Model.Compile.write_vtbls for this method (C04: "dispatch only reads cells
       update wrote for that class and parameter"): every class covariant with a parameter gets, at the method's slot for that
       parameter, the number of ITS group - although the code writes group by group and the model class by class (the writes go
       to different v-tables, so their order does not matter; a class belongs to exactly one group).
   An index below `first_slot` or past the end of a v-table is a fault of the interpreter (undefined behaviour in C++), excluded
   by the hypothesis that the slot lies inside the class's v-table - which assign_slots establishes (C04's slot theorems).

   Trusted in this tie: the parser and lowering of translators/grouping.py + _minicpp.py; std::map<bitvec, group> is read as an
   association list kept in increasing key order (boost::dynamic_bitset's operator< on equal sizes is numeric order). *)
From Coq Require Import List NArith.
Import ListNotations.
From Y2 Require Import Model.Registry Model.Compile Spec.Dispatch Model.MiniGrp Gen.GenGrp Proofs.Interfaces Proofs.GrpSource Proofs.GrpCompose.

Theorem C04_source_groups_entries : forall L m enum mi slots firsts s,
  (forall v x, In x (enum v) <-> In x (nth v (l_cov L) [])) -> (forall v, NoDup (enum v)) -> (forall v, NoDup (nth v (l_cov L) [])) ->
  exists gs, run_groups L m enum gen_groups = Some gs /\
    (forall d, d < length (cm_vp m) -> map (fun kg => (fst kg, g_conc (snd kg))) (nth d gs []) = groups_of L m d) /\
    (length slots = length (cm_vp m) ->
     (forall d c, d < length (cm_vp m) -> In c (nth (nth d (cm_vp m) 0) (l_cov L) []) ->
        nth c firsts 0 <= nth d slots 0 /\ nth d slots 0 - nth c firsts 0 < length (nth c s []) /\ c < length s) ->
     eexec mi slots firsts gs gen_entries (mk_ecx None None None) s
     = Some (fold_left (fun vt dim =>
               let slot := nth dim slots 0 in
               fold_left (fun vt c => let fs := nth c firsts 0 in
                                      if Nat.ltb slot fs then vt
                                      else upd_nth c vt [] (fun l => set_nth (slot - fs) l (mi, dim, group_index L m dim c)))
                         (nth (nth dim (cm_vp m) 0) (l_cov L) []) vt)
             (seq 0 (length (cm_vp m))) s)).
Proof. exact src_groups_entries. Qed.
Print Assumptions C04_source_groups_entries.

(* the hypotheses hold of everything update produces: for every well-formed registry, running the translated grouping and the
   translated entry loop for every method in turn (any enumeration order of the unordered sets) yields the v-tables of
   compile R - the slot state being the one assign_slots produced *)
Theorem C04_source_vtbls_compile : forall R C enum, wf_registry R -> compile R = Ok C ->
  (forall v x, In x (enum v) <-> In x (nth v (l_cov (o_lat C)) [])) -> (forall v, NoDup (enum v)) ->
  exists st, slots_ok (o_lat C) (o_meths C) st /\ o_slots C = s_slots st /\ o_first C = s_first st /\
    run_methods (o_lat C) st enum (combine (seq 0 (length (o_meths C))) (o_meths C))
                (map (fun c => repeat (0, 0, 0) (nth c (s_vlen st) 0)) (seq 0 (length (l_keys (o_lat C)))))
    = Some (o_vtbl C).
Proof. exact src_vtbls_compile. Qed.
Print Assumptions C04_source_vtbls_compile.

(* non-vacuity: A <- B, A <- C (A abstract); one method on (A, A) with definitions (B, A) and (A, C); the classes are walked
   in reverse order *)
Example ex_grp :
  let L := mk_lat [1; 2; 3]%N [mk_cls [1]%N true; mk_cls [2]%N false; mk_cls [3]%N false]
                  [[]; [0]; [0]] [[]; [0]; [0]] [[1; 2]; []; []] [[0; 1; 2]; [1]; [2]] in
  let m := mk_cmeth [0; 0] [[1; 0]; [0; 2]] [false; false] [true; true] in
  let enum := fun v => rev (nth v (l_cov L) []) in
  match run_groups L m enum gen_groups with
  | Some gs =>
      map (map (fun kg => (fst kg, g_conc (snd kg)))) gs = [groups_of L m 0; groups_of L m 1] /\
      groups_of L m 0 = [(2, true); (3, true)]%N /\ groups_of L m 1 = [(1, true); (3, true)]%N /\
      eexec 0 [0; 1] [0; 0; 0] gs gen_entries (mk_ecx None None None) (repeat (repeat (9, 9, 9) 2) 3)
      = Some [[(0, 0, 0); (0, 1, 0)]; [(0, 0, 1); (0, 1, 0)]; [(0, 0, 0); (0, 1, 1)]]
  | None => False
  end.
Proof. vm_compute. repeat split. Qed.
