(* C04 / C01 — slot allocation in a multiple-inheritance lattice, on the code as TRANSLATED from
   /repo/include/yorel/yomm2/detail/compiler.hpp on this run.

   translators/slots.py parses compiler<Policy>::assign_lattice_slots, matches its wrapper on the AST (return if the class is
   marked; mark it; the slots of this class; recurse over direct_derived) and lowers the body of the loop over
   cls.used_by_vp statement by statement into the language of Model/MiniSlot.v (Gen/GenSlot.v): the copy of used_slots merged
   with reserved_slots, the search for the first clear bit (inline loop or the first_clear_bit helper, whose body is checked),
   the slot stored in the method, the two set_bit, the loop over the class's transitive bases, and the loop over its covariant
   classes with, for each one other than the class itself, the merge into its used slots and the loop over ITS transitive bases.
   assign_tree_slots and assign_slots are matched on the AST as a whole.  Here: running the translated body is
   Model.Compile.lattice_assign — the function the theorems of C04 (no two (method, parameter) pairs visible from one class
   share a slot; every slot a call reads was assigned by this update) are about — for every lattice and every slot state.

   Trusted in this tie: the parser, skeleton matching and lowering of translators/slots.py + _minicpp.py; detail::merge_into and
   detail::set_bit are read as `|=` on unbounded bit sets (boost::dynamic_bitset grown on demand by those two helpers). *)
From Coq Require Import List NArith.
Import ListNotations.
From Y2 Require Import Model.Registry Model.Compile Model.MiniSlot Gen.GenSlot Proofs.SlotSource.

Theorem C04_source_lattice_assign : forall L c mp st, c < length (s_used st) ->
  run_lattice_assign L c mp gen_lattice_assign st = Some (lattice_assign L c st mp).
Proof. exact src_lattice_assign. Qed.
Print Assumptions C04_source_lattice_assign.

Theorem C04_source_lattice_class : forall L c mps st, c < length (s_used st) ->
  run_lattice_class L c gen_lattice_assign mps st = Some (fold_left (lattice_assign L c) mps st).
Proof. exact src_lattice_class. Qed.
Print Assumptions C04_source_lattice_class.

(* non-vacuity: a join class 2 with bases 0 and 1 (transitive bases listed), one method parameter on it: slot 0 is taken and
   reserved in both bases *)
Example ex_slot :
  let L := mk_lat [1; 2; 3]%N [] [[0]; [1]; [2; 0; 1]] [[]; []; [0; 1]] [[2]; [2]; []] [[0; 2]; [1; 2]; [2]] in
  let st := mk_ss [[0]] [0; 0; 0]%N [0; 0; 0]%N [false; false; false] [0; 0; 0] [0; 0; 0] true in
  match run_lattice_assign L 2 (0, 0) gen_lattice_assign st with
  | Some st' => s_resv st' = [1; 1; 1]%N /\ s_used st' = [0; 0; 1]%N /\ st' = lattice_assign L 2 st (0, 0)
  | None => False
  end.
Proof. vm_compute. repeat split. Qed.
