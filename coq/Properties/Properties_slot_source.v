(* C04 / C01 — slot allocation in a multiple-inheritance lattice, on the code as TRANSLATED from
   /repo/include/yorel/yomm2/detail/compiler.hpp on this run.

   translators/slots.py parses compiler<Policy>::assign_lattice_slots, matches its wrapper on the AST (return if the class is
   marked; mark it; the slots of this class; recurse over direct_derived) and lowers the body of the loop over
   cls.used_by_vp statement by statement into the language of Model/MiniSlot.v (Gen/GenSlot.v): the copy of used_slots merged
   with reserved_slots, the search for the first clear bit (inline loop or the first_clear_bit helper, whose body is checked),
   the slot stored in the method, the two set_bit, the loop over the class's transitive bases, and the loop over its covariant
   classes with, for each one other than the class itself, the merge into its used slots and the loop over ITS transitive bases.
   assign_tree_slots, the rest of assign_lattice_slots and assign_slots are lowered statement by statement into the second language
   of Model/MiniSlot.v (gen_tree_slots, gen_lattice_slots, gen_assign_slots), the two recursive functions run on fuel.  Here: running the translated body is
   Model.Compile.lattice_assign — the function the theorems of C04 (no two (method, parameter) pairs visible from one class
   share a slot; every slot a call reads was assigned by this update) are about — for every lattice and every slot state.

   Trusted in this tie: the parser, skeleton matching and lowering of translators/slots.py + _minicpp.py; detail::merge_into and
   detail::set_bit are read as `|=` on unbounded bit sets (boost::dynamic_bitset grown on demand by those two helpers). *)
From Coq Require Import List NArith.
Import ListNotations.
From Y2 Require Import Model.Registry Model.Compile Spec.Dispatch Proofs.Interfaces Model.MiniSlot Gen.GenSlot Proofs.SlotSource Proofs.SlotCompose.

Theorem C04_source_lattice_assign : forall L c mp st, c < length (s_used st) ->
  run_lattice_assign L c mp gen_lattice_assign st = Some (lattice_assign L c st mp).
Proof. exact src_lattice_assign. Qed.
Print Assumptions C04_source_lattice_assign.

Theorem C04_source_lattice_class : forall L c mps st, c < length (s_used st) ->
  run_lattice_class L c gen_lattice_assign mps st = Some (fold_left (lattice_assign L c) mps st).
Proof. exact src_lattice_class. Qed.
Print Assumptions C04_source_lattice_class.

(* non-vacuity: a join class 2 with bases 0 and 1 (transitive bases listed), one method parameter on it: slot 0 is taken and
   reserved in both bases *)
Example ex_slot :
  let L := mk_lat [1; 2; 3]%N [] [[0]; [1]; [2; 0; 1]] [[]; []; [0; 1]] [[2]; [2]; []] [[0; 2]; [1; 2]; [2]] in
  let st := mk_ss [[0]] [0; 0; 0]%N [0; 0; 0]%N [false; false; false] [0; 0; 0] [0; 0; 0] true in
  match run_lattice_assign L 2 (0, 0) gen_lattice_assign st with
  | Some st' => s_resv st' = [1; 1; 1]%N /\ s_used st' = [0; 0; 1]%N /\ st' = lattice_assign L 2 st (0, 0)
  | None => False
  end.
Proof. vm_compute. repeat split. Qed.

(* ------------------------------------------------------------------ the functions around that body *)

(* assign_tree_slots as translated, at every depth of recursion the model allows, is Model.Compile.assign_tree *)
Theorem C04_source_assign_tree : forall L ms fuel c base st,
  tree_fun fuel L ms gen_tree_slots c base st = Some (assign_tree fuel L ms st c base).
Proof. exact src_assign_tree. Qed.
Print Assumptions C04_source_assign_tree.

(* assign_lattice_slots as translated (mark guard, the body above for every used_by_vp entry, the recursion over direct_derived) *)
Theorem C04_source_assign_lattice : forall L ms n, (forall c d, In d (nth c (l_derived L) []) -> d < n) ->
  forall fuel c st, c < n -> length (s_used st) = n /\ length (s_first st) = n ->
  lat_fun fuel L ms gen_lattice_assign gen_lattice_slots c st = Some (assign_lattice fuel L ms st c).
Proof. exact src_assign_lattice. Qed.
Print Assumptions C04_source_assign_lattice.

(* assign_slots as translated, calling the two translated functions: the whole slot allocation of Model.Compile *)
Theorem C04_source_assign_slots : forall L ms, lat_wf L ->
  run_assign_slots L ms gen_lattice_assign gen_tree_slots gen_lattice_slots gen_assign_slots = Some (assign_slots L ms).
Proof. exact src_assign_slots_wf. Qed.
Print Assumptions C04_source_assign_slots.

(* ... and for every well-formed registry these are the slots and first-slot offsets `compile` installs *)
Theorem C04_source_slots_compile : forall R C, wf_registry R -> compile R = Ok C ->
  exists st, run_assign_slots (o_lat C) (o_meths C) gen_lattice_assign gen_tree_slots gen_lattice_slots gen_assign_slots = Some st /\
             o_slots C = s_slots st /\ o_first C = s_first st.
Proof. exact src_slots_compile. Qed.
Print Assumptions C04_source_slots_compile.

(* non-vacuity: the diamond 0 <- {1, 2} <- 3 with one method parameter on 0 and one on 2: a lattice walk from the root *)
Example ex_assign_slots :
  let L := mk_lat [1; 2; 3; 4]%N [] [[]; [0]; [0]; [1; 2; 0]] [[]; [0]; [0]; [1; 2]] [[1; 2]; [3]; [3]; []]
                  [[0; 1; 2; 3]; [1; 3]; [2; 3]; [3]] in
  let ms := [mk_cmeth [0] [] [] []; mk_cmeth [2] [] [] []] in
  match run_assign_slots L ms gen_lattice_assign gen_tree_slots gen_lattice_slots gen_assign_slots with
  | Some st => st = assign_slots L ms /\ s_slots st = [[0]; [1]] /\ s_fuel_ok st = true
  | None => False
  end.
Proof. vm_compute. repeat split. Qed.
