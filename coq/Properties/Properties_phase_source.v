(* C07 / C01 — the top of update, on the code as TRANSLATED from /repo/include/yorel/yomm2/core.hpp and detail/compiler.hpp on
   this run.

   translators/phases.py parses yorel::yomm2::update<Policy>() (a FRESH compiler object per call), compiler<Policy>::update(),
   compile() and install_global_tables() and lowers them into the list of phases of Model/MiniPhase.v (Gen/GenPhase.v).  Here:
   that sequence — every phase read as the model function of the same name, a phase that runs before what it consumes exists
   being a fault, the compilation_done guard included — computes Model.Compile.compile_with: nothing but the policy's own
   statics (the old content of dispatch_data, `stale`) flows from one update into the next (C07), and the pieces translated in
   Properties_tab_source / Properties_rep_source / Properties_gv_source are run in the order the model composes them (C01).

   Trusted in this tie: the parser and lowering of translators/phases.py + _minicpp.py; that a local `detail::compiler<Policy>`
   object starts empty (its members are value- or default-initialised containers); resolve_static_type_ids is the identity on
   the model's registries, which hold resolved ids (deferred ids are C10's model). *)
From Coq Require Import List.
Import ListNotations.
From Y2 Require Import Model.Registry Model.Compile Model.MiniPhase Gen.GenPhase Proofs.PhaseSource.

Theorem C07_source_update_is_compile : forall stale R, run_update gen_update stale R = Some (compile_with stale R).
Proof. exact src_update. Qed.
Print Assumptions C07_source_update_is_compile.

(* non-vacuity: the order matters to the interpreter (tables before slots is a fault), and the translated order runs *)
Example ex_phase_order :
  let R := mk_reg [mk_class 1 [1] false; mk_class 2 [2; 1] false]%N [mk_meth [1]%N [mk_def [2]%N true] [true]] [] in
  run_update (mk_update_src true [PAugmentClasses; PAugmentMethods; PBuildDispatchTables; PAssignSlots; PSetCompilationDone; PInstallGv]) [] R = None /\
  run_update (mk_update_src true [PAugmentClasses; PAugmentMethods; PAssignSlots; PBuildDispatchTables; PInstallGv]) [] R = Some (compile R) /\
  (exists C, run_update gen_update [] R = Some (Ok C)).
Proof. vm_compute. repeat split. eexists. reflexivity. Qed.
