(* C05, second part — the theorems of Properties_C05.v carried over to the code as TRANSLATED from
   /repo/include/yorel/yomm2/policies/fast_perfect_hash.hpp on this run.

   translators/hashsearch.py preprocesses the header for the YOMM2_VERIF hook both ways (they may differ only in
   the budget expression and the observer call), parses fast_perfect_hash<Policy>::hash_initialize(first, last,
   buckets), matches its loop skeleton (halving loop; pass loop; attempt loop; loops over classes and type ids with
   the break; found test and return; error tail) on the AST and lowers every straight-line piece — initialisations,
   the pass prologue, the attempt prologue, the body of the id loop, the conditions, the error record — statement by
   statement into the language of Model/MiniHash.v (Gen/GenHashSearch.v).  It also translates hash_type_id, the
   rejection test of checked_perfect_hash::hash_type_id, and checks the two wrappers (fresh local vector / `control`
   + resize to hash_length).  Here: running the translated program IS Model.Hash.hash_initialize, on every
   stream, budget, previous state and class list; the translated hash function and checked lookup are the
   model's; and C05_search is restated directly on the translated program.

   Trusted in this tie: the preprocessing / parsing / skeleton matching / lowering of translators/hashsearch.py +
   _minicpp.py, the loop skeleton that MiniHash.run_search fixes, the inlining of the single-assignment locals
   `type` and `index` (checked: nothing their initialisers read is assigned in their scope), unsigned arithmetic
   as N with the product of type_id values wrapping at the word size (other overflows are outside the model, as
   in Properties_C05). *)
From Coq Require Import NArith List Bool.
From Y2 Require Import Gen.GenHashConsts Model.Hash Proofs.HashProofs.
From Y2 Require Import Model.MiniHash Gen.GenHashSearch Proofs.HashSource.
Import ListNotations.
Open Scope N_scope.

(* the translated search is the model's search *)
Theorem C05_source_hash_initialize : forall checked stream budget st classes,
  run_hash_initialize gen_search checked stream budget st classes = hash_initialize checked stream budget st classes.
Proof. exact src_hash_initialize. Qed.
Print Assumptions C05_source_hash_initialize.

(* the translated hash_type_id is the model's hash *)
Theorem C05_source_hash_type_id : forall budget s t d,
  heval budget SZ d t s gen_hash_type_id = hash (s_mult s) (s_shift s) t.
Proof. exact src_hash_type_id. Qed.
Print Assumptions C05_source_hash_type_id.

(* the translated checked lookup (rejection test, else the hash) is the model's checked_lookup *)
Theorem C05_source_checked_lookup : forall budget st t,
  checked_lookup st t
  = if ceval budget SZ 0 t (store_of st (h_control st) 0) gen_checked_reject then Error (UnknownClass t)
    else Ok (heval budget SZ 0 t (store_of st (h_control st) 0) gen_hash_type_id).
Proof. exact src_checked_lookup. Qed.
Print Assumptions C05_source_checked_lookup.

(* the budget a build without the hook uses, and the constants the regex translator reads, agree with the
   translated program *)
Theorem C05_source_constants :
  gen_budget_literal = budget_literal /\ gen_engine_seed = engine_seed.
Proof. split; reflexivity. Qed.
Print Assumptions C05_source_constants.

(* C05_search on the translated program: it either installs a perfect, in-range hash (and, checked, a control
   table that identifies exactly the registered ids) or reports hash_search_error with the documented contents *)
Theorem C05_source_search : forall checked stream budget st classes,
  ~ In sentinel (all_ids classes) ->
  match run_hash_initialize gen_search checked stream budget st classes with
  | Found st' n =>
      ((forall t, In t (all_ids classes) -> hash_st st' t < h_length st') /\
       NoDup (map (hash_st st') (all_ids classes)) /\
       h_length st' = h_max st' + 1 /\
       (checked = true ->
          length (h_control st') = N.to_nat (h_length st') /\
          (forall t, In t (all_ids classes) -> vget (h_control st') (hash_st st' t) = t) /\
          (forall t, hash_st st' t < h_length st' ->
                     vget (h_control st') (hash_st st' t) = sentinel \/
                     In (vget (h_control st') (hash_st st' t)) (all_ids classes)))) /\
      h_max st <= h_max st' /\ h_min st' <= h_min st /\
      1 <= n /\ n <= N.of_nat Hash.passes * budget
  | SearchError n b st' =>
      n = N.of_nat Hash.passes * budget /\
      b = 2 ^ (first_M (N.of_nat (length classes)) + N.of_nat Hash.passes)
  | StreamExhausted => N.of_nat (length stream) < N.of_nat Hash.passes * budget
  end.
Proof.
  intros checked stream budget st classes H. rewrite src_hash_initialize.
  pose proof (hash_initialize_spec checked stream budget st classes H) as S.
  destruct (hash_initialize checked stream budget st classes) as [st' n|n b st'|].
  - destruct S as (A & B & C & D & E & _). split; [exact A|]. repeat split; assumption.
  - destruct S as (A & B & _). split; assumption.
  - exact S.
Qed.
Print Assumptions C05_source_search.

(* ------------------------------------------------------------------ non-vacuity: the translated program runs *)
Definition ex_stream : list N :=
  [6814184542283810107; 1325574788421796283; 13286547589121858161; 18041488256021655593; 1523255767835814935;
   6257119239630716579; 980027787714946823; 18232107886723179021; 7700556461514484419; 11172247379178223921;
   4667656000612354603; 1556341826277101183; 13710089759718525621; 12103421406352324745; 4251327198137732977;
   6196872690683453567; 161726869692552449; 8047413242075206687; 8493318436558056823; 2783890977932584413;
   10946779605783580613; 17007390699750263535; 10989980236739102873; 7752027509707579953; 17803431323865645395;
   9294567659812491875; 4839592465419170601; 16680607059047554689; 387997260644052661; 9746572799267451901;
   3838214470158538017; 13347472513470406579; 12245290838939738925; 14210477297653539127; 15086715225267243141].
Definition ex_classes : list cls := [(1, [4096; 4104]); (2, [4112]); (3, [4136])].

Example ex_source_search_found :
  run_hash_initialize gen_search true ex_stream 100000 init_state ex_classes
  = Found (mk_hstate 15086715225267243141 62 4 0 3 [4112; 4104; 4136; 4096]) 35.
Proof. vm_compute. reflexivity. Qed.

Example ex_source_search_error :
  match run_hash_initialize gen_search true ex_stream 0 init_state ex_classes with
  | SearchError n b _ => n = 0 /\ b = 2 ^ 6
  | _ => False
  end.
Proof. vm_compute. split; reflexivity. Qed.
