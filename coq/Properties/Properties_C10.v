(* Property C10 — dispatch is the same under every RTTI flavour. Property theorems only.
   An RTTI flavour decides what a type id is (a type_info address, a user integer or pointer, several ids for one class
   with a type_index projection, or a function pointer resolved when update runs).  The library sees a class only through
   proj (Policy::type_index) of its ids: the registry R' of one flavour and R of another describe the same classes when
   record by record they give the same class and the same listed bases after projection, and method by method the same
   parameter classes. *)
From Y2 Require Import Model.Registry Model.Compile Model.Deferred Spec.Dispatch.
From Y2 Require Import Proofs.Interfaces Proofs.SpecProofs Proofs.ResolveProofs Proofs.CompileProofs Proofs.DeferredProofs.

(* what a call runs, whether it is an error and which, and next depend on the ids only through their classes *)
Theorem C10_flavour_irrelevant : forall R R',
  map (rec_class R') (r_classes R') = map (rec_class R) (r_classes R) ->
  map (rec_bases R') (r_classes R') = map (rec_bases R) (r_classes R) ->
  (forall b d, edge R b d <-> edge R' b d) /\ (forall b d, anc R b d <-> anc R' b d) /\
  (forall c, registered R c <-> registered R' c) /\
  (forall defs args, spec_dispatch R defs args = spec_dispatch R' defs args) /\
  (forall defs k, spec_next R defs k = spec_next R' defs k).
Proof. exact spec_rtti_flavour_irrelevant. Qed.
Print Assumptions C10_flavour_irrelevant.

(* ... and on update's tables: under each flavour a legal call reads the word designating the specified outcome *)
Theorem C10_dispatch_any_flavour : forall R stale C mi m args,
  wf_registry R -> compile_with stale R = Ok C -> nth_error (r_methods R) mi = Some m -> legal R m args ->
  exists cs, map (key (o_lat C)) cs = args /\
             resolve C mi (actuals_of C (m_shape m) cs) = Ok (word_of_outcome mi (spec_dispatch R (meth_defs R m) args)).
Proof. exact dispatch_correct. Qed.
Print Assumptions C10_dispatch_any_flavour.

(* every id of a class designates that class in update's class table *)
Theorem C10_alias : forall R t t', proj R t = proj R t' -> forall keys, class_of R keys t = class_of R keys t'.
Proof. exact class_of_proj. Qed.
Print Assumptions C10_alias.

(* deferred ids: resolution yields, for every id list the catalogs refer to, the ids the functions return — once,
   for every arity (every cell of every list), for classes registered without bases (empty lists), across repeated updates *)
Theorem C10_deferred : forall idf s k, store_ok s ->
  exists s', resolve_static_type_ids idf s k = DOk s' /\ store_ok s' /\ extends idf s s' /\ catalog_resolved s' k.
Proof. exact resolve_static_type_ids_ok. Qed.
Print Assumptions C10_deferred.

Theorem C10_deferred_repeat : forall idf s k, store_ok s -> catalog_resolved s k ->
  resolve_static_type_ids idf s k = DOk s.
Proof. exact resolve_static_type_ids_idempotent. Qed.
Print Assumptions C10_deferred_repeat.

(* non-vacuity: class B has ids 2 and 12, class A has ids 1 and 11; the method is declared on id 11 and defined on id 12 *)
Example C10_example :
  let R := mk_reg [mk_class 1 [] false; mk_class 12 [11] false; mk_class 2 [1] false; mk_class 11 [] false]%N
                  [mk_meth [11]%N [mk_def [12]%N true] [true]] [(11, 1); (12, 2)]%N in
  spec_dispatch R (meth_defs R (mk_meth [11]%N [mk_def [12]%N true] [true])) [2]%N = Run 0 /\
  match compile R with
  | Ok C => class_of R (l_keys (o_lat C)) 12%N = class_of R (l_keys (o_lat C)) 2%N /\
            resolve C 0 (actuals_of C [true] [1]) = Ok (WFn 0 0) /\ resolve C 0 (actuals_of C [true] [0]) = Ok (WNi 0)
  | Err _ => False
  end.
Proof. vm_compute. repeat split. Qed.
