(* C16 — Concurrent calls are race-free and give the sequential answers.

   "Once update has returned, any number of threads may call methods, resolve
    them, and create, copy and use virtual_ptrs concurrently - and may run
    update on a different policy - without data races, and every call returns
    what it would return single-threaded."

   What is proved here, and what is not (level: other — see MANIFEST):
   - C16_no_race / C16_foreign_update: for ANY number of threads of ANY length
     and ANY interleaving, threads whose access kinds pass [shared_read_only]
     (or its caller-owned-smart-pointer variant) do not race and observe, step
     by step, exactly what they observe running alone; one extra thread that
     writes only inside a set W disjoint from what the readers observe changes
     neither.  (Generic; Model/CallPath.v, Proofs/CallPathProofs.v.)
   - C16_readonly, C16_dispatch_jump, C16_no_global_written,
     C16_routes_complete: the access lists translated on this run from the LLVM
     IR of every call route x policy shape x IR variant (Gen/GenCallPath.v)
     satisfy those predicates.  (vm_compute over the generated lists.)
   - C16_call_path / C16_call_path_foreign_update: the two composed.
   TRUSTED, not proved: that the translator's list covers what the compiled
   code does; what the whitelisted external functions do; the hardware memory
   model (the model's store is sequentially consistent; for read-only threads
   every weaker model gives the same observations); that distinct policies own
   disjoint locations (property C14's theorem — hypothesis W here).
   No route is excluded: [CallPath.C16_excluded] is constantly false since the
   vptr_map virtual_ptr constructor uses find() (it used unordered_map::operator[]). *)

From Coq Require Import String List Bool NArith Arith.
From Y2 Require Import Model.CallPath Proofs.CallPathProofs Proofs.CallPathGenProofs.
From Y2 Require Gen.GenCallPath.
Import ListNotations.
Open Scope string_scope.

(* ------------------------------------------------------------------------- *)

Theorem C16_no_race :
  forall (ts : list thread) (sch : schedule) (s0 : shared),
    (forall t, In t ts ->
       shared_read_only (kinds t) = true \/ shared_read_only_owner (kinds t) = true) ->
    interleave ts sch ->
    (* no two steps of different threads conflict *)
    ~ race sch
    (* the shared store is left as it was *)
    /\ fst (run sch s0) = s0
    (* every thread observes what it observes alone, hence any result computed
       from its observations is the single-threaded one *)
    /\ (forall i t, nth_error ts i = Some t ->
          obs_of i (snd (run sch s0)) = alone t s0
          /\ forall (R : Type) (result : list (option val) -> R),
               result (obs_of i (snd (run sch s0))) = result (alone t s0)).
Proof. exact no_race_lemma. Qed.

Theorem C16_foreign_update :
  forall (W : loc -> Prop) (ts : list thread) (u : nat) (tu : thread)
         (sch : schedule) (s0 : shared),
    (* thread u is the one running update<OtherPolicy>(): it may write, but
       only locations of W (the locations OtherPolicy owns; C14) *)
    nth_error ts u = Some tu ->
    writes_within W tu ->
    (* the others are read-only callers that observe nothing in W *)
    (forall i t, nth_error ts i = Some t -> i <> u ->
       (shared_read_only (kinds t) = true \/ shared_read_only_owner (kinds t) = true)
       /\ observes_outside W t) ->
    interleave ts sch ->
    ~ race sch
    /\ agree_outside W (fst (run sch s0)) s0
    /\ (forall i t, nth_error ts i = Some t -> i <> u ->
          obs_of i (snd (run sch s0)) = alone t s0).
Proof. exact foreign_update_lemma. Qed.

(* re-checked against the current source on every run *)
Theorem C16_readonly :
  forallb route_read_only (checked_routes GenCallPath.routes) = true.
Proof. exact readonly_lemma. Qed.

Theorem C16_routes_complete :
  routes_complete GenCallPath.routes = true.
Proof. exact routes_complete_lemma. Qed.

Theorem C16_dispatch_jump :
  forallb route_jump_ok (checked_routes GenCallPath.routes) = true.
Proof. exact dispatch_jump_lemma. Qed.

(* whitelist-free: no store and no atomic to any named global on any checked route *)
Theorem C16_no_global_written :
  written_globals_of (checked_routes GenCallPath.routes) = [].
Proof. exact no_global_written_lemma. Qed.

Theorem C16_call_path :
  forall (ts : list thread) (sch : schedule) (s0 : shared),
    (forall t, In t ts -> runs_checked_route t) ->
    interleave ts sch ->
    ~ race sch
    /\ fst (run sch s0) = s0
    /\ (forall i t, nth_error ts i = Some t ->
          obs_of i (snd (run sch s0)) = alone t s0).
Proof. exact call_path_lemma. Qed.

Theorem C16_call_path_foreign_update :
  forall (W : loc -> Prop) (ts : list thread) (u : nat) (tu : thread)
         (sch : schedule) (s0 : shared),
    nth_error ts u = Some tu ->
    writes_within W tu ->
    (forall i t, nth_error ts i = Some t -> i <> u ->
        runs_checked_route t /\ observes_outside W t) ->
    interleave ts sch ->
    ~ race sch
    /\ agree_outside W (fst (run sch s0)) s0
    /\ (forall i t, nth_error ts i = Some t -> i <> u ->
          obs_of i (snd (run sch s0)) = alone t s0).
Proof. exact call_path_foreign_update_lemma. Qed.

Print Assumptions C16_no_race.
Print Assumptions C16_foreign_update.
Print Assumptions C16_readonly.
Print Assumptions C16_routes_complete.
Print Assumptions C16_dispatch_jump.
Print Assumptions C16_no_global_written.
Print Assumptions C16_call_path.
Print Assumptions C16_call_path_foreign_update.

(* ------------------------------------------------------------------------- *)
(** * Non-vacuity                                                             *)

Module Examples.

  Local Arguments mkStep _ _%N _%N.

  (* a release-shaped uni-method call: hash_mult, hash_shift, vptrs, the
     v-table cell, then the jump *)
  Definition caller (obj : N) : thread :=
    [ mkStep ArgRead obj 0;
      mkStep (Read "hash_mult") 1 0;
      mkStep (Read "hash_shift") 2 0;
      mkStep (Read "vptrs") 3 0;
      mkStep ReadVia 10 0;
      mkStep (Read "slots_strides") 4 0;
      mkStep ReadVia 20 0;
      mkStep IndirectCall 0 0 ].

  (* constructing a virtual_ptr: reads + writes to the caller's own object *)
  Definition maker : thread :=
    [ mkStep ArgWrite 0 0; mkStep ArgRead 101 0; mkStep (Read "vptrs") 3 0;
      mkStep ReadVia 10 0; mkStep ArgWrite 0 0 ].

  (* copying a virtual_shared_ptr: bumps the caller's control block *)
  Definition sharer : thread :=
    [ mkStep ArgRead 102 0; mkStep (AtomicRMWOwned "class.std::_Sp_counted_base") 0 0;
      mkStep ArgWrite 0 0 ].

  Definition three : list thread := [ caller 100; maker; sharer ].

  Definition s0 : shared := fun l => (l * 7 + 3)%N.

  (* one particular 3-thread interleaving *)
  Definition sched : schedule :=
    [ (0, mkStep ArgRead 100 0);
      (1, mkStep ArgWrite 0 0);
      (2, mkStep ArgRead 102 0);
      (0, mkStep (Read "hash_mult") 1 0);
      (1, mkStep ArgRead 101 0);
      (0, mkStep (Read "hash_shift") 2 0);
      (2, mkStep (AtomicRMWOwned "class.std::_Sp_counted_base") 0 0);
      (1, mkStep (Read "vptrs") 3 0);
      (0, mkStep (Read "vptrs") 3 0);
      (0, mkStep ReadVia 10 0);
      (1, mkStep ReadVia 10 0);
      (2, mkStep ArgWrite 0 0);
      (0, mkStep (Read "slots_strides") 4 0);
      (1, mkStep ArgWrite 0 0);
      (0, mkStep ReadVia 20 0);
      (0, mkStep IndirectCall 0 0) ].

  Example three_clean :
    forall t, In t three ->
      shared_read_only (kinds t) = true \/ shared_read_only_owner (kinds t) = true.
  Proof.
    intros t [E|[E|[E|[]]]]; subst t; [left | left | right]; vm_compute; reflexivity.
  Qed.

  (* the sharer is NOT accepted by the strict predicate: the split matters *)
  Example sharer_not_strict : shared_read_only (kinds sharer) = false.
  Proof. vm_compute. reflexivity. Qed.

  Example sched_is_interleaving : interleave three sched.
  Proof.
    unfold three, sched, caller, maker, sharer.
    repeat (eapply il_step; [ reflexivity | cbn [set_nth] ]).
    apply il_done. repeat constructor.
  Qed.

  (* the hypotheses of C16_no_race are met by a concrete non-trivial state, and
     its conclusion is about real observations: *)
  Example three_threads_ok :
    ~ race sched /\ fst (run sched s0) = s0
    /\ obs_of 0 (snd (run sched s0)) = alone (caller 100) s0.
  Proof.
    destruct (C16_no_race three sched s0 three_clean sched_is_interleaving) as [H1 [H2 H3]].
    split; [exact H1|]. split; [exact H2|]. apply (H3 0 (caller 100) eq_refl).
  Qed.

  Example caller_observations :
    alone (caller 100) s0 =
    [Some 703; Some 10; Some 17; Some 24; Some 73; Some 31; Some 143; None]%N.
  Proof. vm_compute. reflexivity. Qed.

  (* the race predicate is not trivially false: a hit counter on the call path
     is a race between two callers ... *)
  Definition counting_caller : thread :=
    [ mkStep (Read "hits") 50 0; mkStep (Write "hits") 50 1; mkStep ReadVia 10 0 ].

  Example counter_rejected : shared_read_only (kinds counting_caller) = false.
  Proof. vm_compute. reflexivity. Qed.

  Example counter_races :
    race [ (0, mkStep (Read "hits") 50 0); (1, mkStep (Read "hits") 50 0);
           (0, mkStep (Write "hits") 50 1); (1, mkStep (Write "hits") 50 1) ].
  Proof.
    exists 1, 2, 1, (mkStep (Read "hits") 50 0), 0, (mkStep (Write "hits") 50 1).
    repeat split; auto.
  Qed.

  (* ... and what a thread observes does change *)
  Example counter_changes_observation :
    obs_of 1 (snd (run [ (0, mkStep (Write "hits") 50 1); (1, mkStep (Read "hits") 50 0) ] s0))
    <> alone [ mkStep (Read "hits") 50 0 ] s0.
  Proof. vm_compute. intro H. discriminate H. Qed.

  (* so do a lazily initialised static (guard call), an unordered_map insertion
     and an unclassified instruction *)
  Example guard_rejected :
    shared_read_only [ Call "__cxa_guard_acquire"; Write "cache"; Call "__cxa_guard_release" ] = false.
  Proof. vm_compute. reflexivity. Qed.

  Example atomic_counter_rejected : shared_read_only [ AtomicRMW "hits" ] = false.
  Proof. vm_compute. reflexivity. Qed.

  Example unknown_rejected : shared_read_only [ Unknown "va_arg" ] = false.
  Proof. vm_compute. reflexivity. Qed.

  (* foreign update: thread 1 rewrites locations 1000.. (another policy's
     tables) while two callers run *)
  Definition updater : thread :=
    [ mkStep (Write "other::hash_mult") 1000 5; mkStep (Read "other::hash_mult") 1000 0;
      mkStep WriteVia 1001 9; mkStep (Write "other::vptrs") 1002 1 ].

  Definition W : loc -> Prop := fun l => (1000 <= l)%N.

  Definition mixed : list thread := [ caller 100; updater; maker ].

  Definition mixed_sched : schedule :=
    [ (1, mkStep (Write "other::hash_mult") 1000 5);
      (0, mkStep ArgRead 100 0);
      (2, mkStep ArgWrite 0 0);
      (0, mkStep (Read "hash_mult") 1 0);
      (1, mkStep (Read "other::hash_mult") 1000 0);
      (2, mkStep ArgRead 101 0);
      (0, mkStep (Read "hash_shift") 2 0);
      (0, mkStep (Read "vptrs") 3 0);
      (1, mkStep WriteVia 1001 9);
      (2, mkStep (Read "vptrs") 3 0);
      (0, mkStep ReadVia 10 0);
      (2, mkStep ReadVia 10 0);
      (1, mkStep (Write "other::vptrs") 1002 1);
      (0, mkStep (Read "slots_strides") 4 0);
      (2, mkStep ArgWrite 0 0);
      (0, mkStep ReadVia 20 0);
      (0, mkStep IndirectCall 0 0) ].

  Example mixed_is_interleaving : interleave mixed mixed_sched.
  Proof.
    unfold mixed, mixed_sched, caller, maker, updater.
    repeat (eapply il_step; [ reflexivity | cbn [set_nth] ]).
    apply il_done. repeat constructor.
  Qed.

  Ltac in_cases H :=
    repeat (destruct H as [H|H]; [subst | ]); try contradiction.

  Example updater_within : writes_within W updater.
  Proof.
    intros c Hin Hw. unfold updater in Hin. in_cases Hin; cbn in *;
      try discriminate; unfold W; cbn; discriminate.
  Qed.

  Example foreign_update_ok :
    ~ race mixed_sched
    /\ obs_of 0 (snd (run mixed_sched s0)) = alone (caller 100) s0
    /\ obs_of 2 (snd (run mixed_sched s0)) = alone maker s0
    (* and the store did change (the theorem is not about a no-op updater) *)
    /\ fst (run mixed_sched s0) 1000%N <> s0 1000%N.
  Proof.
    destruct (C16_foreign_update W mixed 1 updater mixed_sched s0 eq_refl updater_within)
      as [H1 [_ H3]].
    - intros i t Ht Hne.
      destruct i as [|[|[|i]]].
      + cbn in Ht. injection Ht as Et. subst t.
        split; [left; vm_compute; reflexivity|].
        intros c Hin Ho. unfold caller in Hin. in_cases Hin; cbn in *;
          try discriminate; unfold W; cbn; intro F; apply F; reflexivity.
      + exfalso. apply Hne. reflexivity.
      + cbn in Ht. injection Ht as Et. subst t.
        split; [left; vm_compute; reflexivity|].
        intros c Hin Ho. unfold maker in Hin. in_cases Hin; cbn in *;
          try discriminate; unfold W; cbn; intro F; apply F; reflexivity.
      + cbn in Ht. destruct i; discriminate.
    - exact mixed_is_interleaving.
    - split; [exact H1|]. split; [apply (H3 0 (caller 100) eq_refl); discriminate|].
      split; [apply (H3 2 maker eq_refl); discriminate|].
      vm_compute. intro F. discriminate F.
  Qed.

  (* the generated list is not empty and really contains the routes *)
  Example generated_nonempty :
    Nat.leb 500 (length GenCallPath.routes) = true
    /\ Nat.leb 500 (length (checked_routes GenCallPath.routes)) = true.
  Proof. split; vm_compute; reflexivity. Qed.

  (* nothing is excluded, and the vptr_map constructor routes (which used
     unordered_map::operator[] before the library fix) are present and pass *)
  Example nothing_excluded :
    length (filter C16_excluded GenCallPath.routes) = 0.
  Proof. vm_compute. reflexivity. Qed.

  Example vptr_map_ctor_routes_checked :
    length (filter is_vptr_map_ctor GenCallPath.routes) = 12
    /\ forallb route_read_only (filter is_vptr_map_ctor GenCallPath.routes) = true.
  Proof. split; vm_compute; reflexivity. Qed.

End Examples.
