(* Spec/Dispatch.v — what a user of yomm2 relies on, with no slots, groups, strides or bits.
   A class is identified by Policy::type_index of any of its ids (proj).
   Everything here is either a Prop a reader can check against the documentation in minutes,
   or a boolean/computable version of it (suffix b, prefix spec_), proved equivalent in Proofs/SpecProofs.v. *)
From Y2 Require Import Model.Registry.
From Coq Require Import Relations.

Section Spec.
  Variable R : registry.

  (* the class (as a type_index) a registration record is about, and the classes it lists as bases *)
  Definition rec_class (r : class_rec) : N := proj R (c_tid r).
  Definition rec_bases (r : class_rec) : list N := map (proj R) (c_bases r).

  (* b is listed as a base of d in some registration (the class itself may be listed: dropped) *)
  Definition edge (b d : N) : Prop :=
    b <> d /\ exists r, In r (r_classes R) /\ rec_class r = d /\ In b (rec_bases r).

  (* b is d, or a direct or indirect base of d *)
  Definition anc : N -> N -> Prop := clos_refl_trans N edge.

  Definition registered (c : N) : Prop := exists r, In r (r_classes R) /\ rec_class r = c.

  (* ---- computable version ---- *)
  Definition parents (d : N) : list N :=
    flat_map (fun r => if N.eqb (rec_class r) d then filter (fun b => negb (N.eqb b d)) (rec_bases r) else [])
             (r_classes R).
  Fixpoint add_all (xs : list N) (s : list N) : list N :=
    match xs with
    | [] => s
    | x :: xs' => add_all xs' (if memN x s then s else s ++ [x])
    end.
  Fixpoint saturate (fuel : nat) (s : list N) : list N :=
    match fuel with
    | 0 => s
    | S f => let s' := add_all (flat_map parents s) s in
             if Nat.eqb (length s') (length s) then s else saturate f s'
    end.
  Definition ancestors (d : N) : list N := saturate (S (length (r_classes R) + length (flat_map c_bases (r_classes R)))) [d].
  Definition ancb (b d : N) : bool := memN b (ancestors d).
  Definition registeredb (c : N) : bool := existsb (fun r => N.eqb (rec_class r) c) (r_classes R).

  (* ---- definitions, applicability, the documented ordering ---- *)
  (* a definition is seen through the classes of its virtual parameters *)
  Definition defn := list N.

  Definition applicable (d : defn) (args : list N) : Prop := Forall2 anc d args.

  Definition proper_base (b d : N) : Prop := b <> d /\ anc b d.

  (* "at no virtual position a proper base of the other's class, at one position at least a proper derived class" *)
  Definition more_specific (a b : defn) : Prop :=
    length a = length b /\
    (forall i x y, nth_error a i = Some x -> nth_error b i = Some y -> ~ proper_base x y) /\
    (exists i x y, nth_error a i = Some x /\ nth_error b i = Some y /\ proper_base y x).

  Inductive outcome := Run (i : nat) | NoDefinition | Ambiguous.

  (* i is, among the candidates cand (indexes into defs), more specific than every other one *)
  Definition dominant (defs : list defn) (cand : list nat) (i : nat) : Prop :=
    In i cand /\ forall j, In j cand -> j <> i -> more_specific (nth i defs []) (nth j defs []).

  Definition outcome_ok (defs : list defn) (cand : list nat) (o : outcome) : Prop :=
    match o with
    | Run i => dominant defs cand i
    | NoDefinition => cand = []
    | Ambiguous => cand <> [] /\ forall i, ~ dominant defs cand i
    end.

  (* ---- boolean versions ---- *)
  Definition proper_baseb (b d : N) : bool := negb (N.eqb b d) && ancb b d.

  Fixpoint applicableb (d : defn) (args : list N) : bool :=
    match d, args with
    | [], [] => true
    | p :: d', a :: args' => ancb p a && applicableb d' args'
    | _, _ => false
    end.

  Fixpoint nowhere_base (a b : defn) : bool :=
    match a, b with
    | x :: a', y :: b' => negb (proper_baseb x y) && nowhere_base a' b'
    | [], [] => true
    | _, _ => false
    end.
  Fixpoint somewhere_derived (a b : defn) : bool :=
    match a, b with
    | x :: a', y :: b' => proper_baseb y x || somewhere_derived a' b'
    | _, _ => false
    end.
  Definition more_specificb (a b : defn) : bool := nowhere_base a b && somewhere_derived a b.

  Definition dominatesb (defs : list defn) (cand : list nat) (i : nat) : bool :=
    forallb (fun j => Nat.eqb j i || more_specificb (nth i defs []) (nth j defs [])) cand.

  Definition spec_dispatch_among (defs : list defn) (cand : list nat) : outcome :=
    match cand with
    | [] => NoDefinition
    | _ => match find (dominatesb defs cand) cand with
           | Some i => Run i
           | None => Ambiguous
           end
    end.

  Definition applicable_idx (defs : list defn) (args : list N) : list nat :=
    filter (fun i => applicableb (nth i defs []) args) (seq 0 (length defs)).

  (* which definition a call with these dynamic classes runs *)
  Definition spec_dispatch (defs : list defn) (args : list N) : outcome :=
    spec_dispatch_among defs (applicable_idx defs args).

  (* next: among the definitions strictly more general than definition i, dispatch on i's own classes *)
  Definition strictly_more_general (a b : defn) : Prop :=
    Forall2 anc a b /\ a <> b.
  Fixpoint defn_eqb (a b : defn) : bool :=
    match a, b with
    | [], [] => true
    | x :: a', y :: b' => N.eqb x y && defn_eqb a' b'
    | _, _ => false
    end.
  Definition strictly_more_generalb (a b : defn) : bool := applicableb a b && negb (defn_eqb a b).
  Definition spec_next (defs : list defn) (i : nat) : outcome :=
    spec_dispatch_among defs
      (filter (fun j => strictly_more_generalb (nth j defs []) (nth i defs [])) (seq 0 (length defs))).

  (* ---- methods of the registry ---- *)
  Definition meth_defs (m : meth_rec) : list defn := map (fun d => map (proj R) (d_vp d)) (m_defs m).
  Definition meth_vp (m : meth_rec) : list N := map (proj R) (m_vp m).

  (* a tuple of dynamic classes a call to m may legally receive *)
  Definition legal (m : meth_rec) (args : list N) : Prop :=
    Forall2 (fun p a => registered a /\ anc p a) (meth_vp m) args.
  Definition legalb (m : meth_rec) (args : list N) : bool :=
    applicableb (meth_vp m) args && forallb registeredb args.

  (* all registered classes, each once, in catalog order *)
  Definition all_classes : list N :=
    fold_left (fun acc r => let k := rec_class r in if memN k acc then acc else acc ++ [k]) (r_classes R) [].

  Definition is_abstract (c : N) : bool :=
    match find (fun r => N.eqb (rec_class r) c) (r_classes R) with
    | Some r => c_abstract r
    | None => false
    end.

  (* every legal tuple of m *)
  Fixpoint tuples (vp : list N) : list (list N) :=
    match vp with
    | [] => [[]]
    | p :: vp' => flat_map (fun c => map (cons c) (tuples vp')) (filter (ancb p) all_classes)
    end.

  (* ---- the report (C17) ---- *)
  Definition is_nodef (o : outcome) := match o with NoDefinition => true | _ => false end.
  Definition is_ambig (o : outcome) := match o with Ambiguous => true | _ => false end.
  Definition concrete_tuple (args : list N) : bool := forallb (fun c => negb (is_abstract c)) args.

  Definition spec_flag (which : outcome -> bool) (concrete_only : bool) : bool :=
    existsb (fun m =>
               existsb (fun args => which (spec_dispatch (meth_defs m) args)
                                    && (negb concrete_only || concrete_tuple args))
                       (tuples (meth_vp m)))
            (r_methods R).

  (* well-formed registries: what C++ itself guarantees *)
  Definition acyclic : Prop := forall a b, anc a b -> anc b a -> a = b.
  Definition bases_registered : Prop :=
    forall r b, In r (r_classes R) -> In b (rec_bases r) -> registered b.
  Definition methods_ok : Prop :=
    forall m, In m (r_methods R) ->
      m_vp m <> [] /\
      Forall registered (meth_vp m) /\
      length (filter (fun b => b) (m_shape m)) = length (m_vp m) /\
      forall d, In d (meth_defs m) -> length d = length (m_vp m) /\ Forall registered d.
  Definition wf_registry : Prop := acyclic /\ bases_registered /\ methods_ok.
End Spec.
