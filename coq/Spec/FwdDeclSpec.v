(* C19, what a user of `generator::write_forward_declarations` / `add_forward_declaration` relies on.

   Part 1 (writer).  A qualified class name is a namespace path and a class identifier.  `parse` reads a text as a
   sequence of `namespace X {`, `}`, `class Y;` (any amount of blanks between tokens), demands that braces balance
   and that no namespace is open at the end, and returns every declared class with the namespaces it is declared in.
   The property: parse (text written for the names qs) = Some qs.

   Part 2 (extraction).  A small grammar `ty` of the type descriptions the library feeds to the scanner (what
   boost::core::demangle prints for method signatures with g++ / libstdc++), its printer `show`, and
   `class_names t`: the classes a forward declaration is wanted for -- every class name that is not a template
   name and not under std:: or yorel::.  The property: scan (show t) = class_names t, in print order. *)
From Coq Require Import List Ascii String Bool.
From Y2 Require Import Model.FwdDecl.
Import ListNotations.

(* ------------------------------------------------------------------------------------------------------------ *)
(* qualified names                                                                                               *)

Definition ident := text.
Definition qname := (list ident * ident)%type.              (* namespaces outermost first, class *)

Definition scope_op : text := T "::".
Definition ns_text (path : list ident) : text := List.concat (map (fun seg => seg ++ scope_op) path).
Definition qname_text (q : qname) : text := ns_text (fst q) ++ snd q.       (* a::b::X *)

(* an identifier: not empty, letters, digits and underscores only (what \w+ matches; C++ identifiers are these
   minus the ones starting with a digit) *)
Definition valid_ident (s : ident) : bool := negb (match s with [] => true | _ => false end) && forallb is_word s.
Definition valid_qname (q : qname) : bool := forallb valid_ident (fst q) && valid_ident (snd q).

(* ------------------------------------------------------------------------------------------------------------ *)
(* the recogniser of forward declarations                                                                        *)

Inductive token := Word (w : text) | LBrace | RBrace | Semi.

Definition is_blank (c : ascii) : bool :=
  Ascii.eqb c " "%char || Ascii.eqb c "010"%char || Ascii.eqb c "009"%char || Ascii.eqb c "013"%char.

Definition punct (c : ascii) : option (list token) :=
  if is_blank c then Some []
  else if Ascii.eqb c "{"%char then Some [LBrace]
  else if Ascii.eqb c "}"%char then Some [RBrace]
  else if Ascii.eqb c ";"%char then Some [Semi]
  else None.

Definition flush (cur : text) (ts : list token) : list token :=
  match cur with [] => ts | _ => Word (rev cur) :: ts end.

(* words are maximal runs of identifier characters; `cur` is the word being read, last character first *)
Fixpoint lex (s cur : text) : option (list token) :=
  match s with
  | [] => Some (flush cur [])
  | c :: r =>
      if is_word c then lex r (c :: cur)
      else match punct c, lex r [] with
           | Some p, Some ts => Some (flush cur (p ++ ts))
           | _, _ => None
           end
  end.

(* `stack`: the open namespaces, innermost first; `acc`: the classes declared so far, last first *)
Fixpoint parse_tokens (ts : list token) (stack : list ident) (acc : list qname) : option (list qname) :=
  match ts with
  | [] => match stack with [] => Some (rev acc) | _ => None end
  | RBrace :: r => match stack with [] => None | _ :: stack' => parse_tokens r stack' acc end
  | Word k :: Word x :: LBrace :: r =>
      if text_eqb k (T "namespace") then parse_tokens r (x :: stack) acc else None
  | Word k :: Word x :: Semi :: r =>
      if text_eqb k (T "class") then parse_tokens r stack ((rev stack, x) :: acc) else None
  | _ => None
  end.

Definition parse (out : text) : option (list qname) :=
  match lex out [] with
  | Some ts => parse_tokens ts [] []
  | None => None
  end.

(* ------------------------------------------------------------------------------------------------------------ *)
(* type descriptions                                                                                             *)

Inductive fund :=
  | FVoid | FBool | FChar | FSChar | FUChar | FWChar | FChar8 | FChar16 | FChar32
  | FShort | FUShort | FInt | FUInt | FLong | FULong | FLongLong | FULongLong
  | FFloat | FDouble | FLongDouble.

Local Open Scope string_scope.
Definition fund_words (f : fund) : list string :=
  match f with
  | FVoid => ["void"] | FBool => ["bool"] | FChar => ["char"]
  | FSChar => ["signed"; "char"] | FUChar => ["unsigned"; "char"]
  | FWChar => ["wchar_t"] | FChar8 => ["char8_t"] | FChar16 => ["char16_t"] | FChar32 => ["char32_t"]
  | FShort => ["short"] | FUShort => ["unsigned"; "short"]
  | FInt => ["int"] | FUInt => ["unsigned"; "int"]
  | FLong => ["long"] | FULong => ["unsigned"; "long"]
  | FLongLong => ["long"; "long"] | FULongLong => ["unsigned"; "long"; "long"]
  | FFloat => ["float"] | FDouble => ["double"] | FLongDouble => ["long"; "double"]
  end.
Definition all_funds : list fund :=
  [FVoid; FBool; FChar; FSChar; FUChar; FWChar; FChar8; FChar16; FChar32; FShort; FUShort; FInt; FUInt; FLong;
   FULong; FLongLong; FULongLong; FFloat; FDouble; FLongDouble].
(* every keyword the printer can emit: the words of the fundamental types and the two cv-qualifiers *)
Definition grammar_keywords : list string := flat_map fund_words all_funds ++ ["const"; "volatile"].
Local Close Scope string_scope.

(* where a (template) name lives: these decide whether a forward declaration is wanted *)
Inductive origin := User | Std | Yorel.
Definition origin_prefix (o : origin) : list ident :=
  match o with User => [] | Std => [T "std"] | Yorel => [T "yorel"] end.
Definition name_in (o : origin) (q : qname) : qname := (origin_prefix o ++ fst q, snd q).

Inductive ty :=
  | TFund (f : fund)                                  (* unsigned long *)
  | TLit (digits : text)                              (* a non-type template argument: 1 *)
  | TName (o : origin) (q : qname)                    (* Animal, ns::Animal, std::ostream, yorel::yomm2::policy::debug *)
  | TApp (o : origin) (q : qname) (args : list ty)    (* std::shared_ptr<Animal>, yorel::yomm2::virtual_<Animal&> *)
  | TPtr (t : ty) | TLRef (t : ty) | TRRef (t : ty)   (* T*  T&  T&& *)
  | TConst (t : ty) | TVolatile (t : ty)              (* T const   T volatile *)
  | TFun (ret : ty) (params : list ty)                (* R (A, B) *)
  | TFunPtr (ret : ty) (params : list ty).            (* R ( * )(A, B) *)

Fixpoint sep_by (sep : text) (l : list text) : text :=
  match l with
  | [] => []
  | x :: r => x ++ match r with [] => [] | _ => sep ++ sep_by sep r end
  end.

(* the demangler writes `> >`, never `>>` *)
Definition close_angle (body : text) : text :=
  body ++ (if Ascii.eqb (last body " "%char) ">"%char then T " >" else T ">").

Fixpoint show (t : ty) : text :=
  match t with
  | TFund f => sep_by (T " ") (map T (fund_words f))
  | TLit d => d
  | TName o q => qname_text (name_in o q)
  | TApp o q args => qname_text (name_in o q) ++ T "<" ++ close_angle (sep_by (T ", ") (map show args))
  | TPtr t => show t ++ T "*"
  | TLRef t => show t ++ T "&"
  | TRRef t => show t ++ T "&&"
  | TConst t => show t ++ T " const"
  | TVolatile t => show t ++ T " volatile"
  | TFun r ps => show r ++ T " (" ++ sep_by (T ", ") (map show ps) ++ T ")"
  | TFunPtr r ps => show r ++ T " (" ++ T "*)(" ++ sep_by (T ", ") (map show ps) ++ T ")"
  end.

(* the classes to forward-declare, in print order (with repetitions) *)
Fixpoint class_names (t : ty) : list qname :=
  match t with
  | TFund _ | TLit _ => []
  | TName User q => [q]
  | TName _ _ => []
  | TApp _ _ args => flat_map class_names args
  | TPtr t | TLRef t | TRRef t | TConst t | TVolatile t => class_names t
  | TFun r ps | TFunPtr r ps => class_names r ++ flat_map class_names ps
  end.

(* Well-formed descriptions.  A user class: valid identifiers, first character a letter (an identifier starting
   with `_` is outside the claim), not one of the translated keywords, not starting with a translated skipped
   prefix (a user class is not in std:: or yorel::).  A literal: digits first. *)
Fixpoint has_prefix (pre s : text) : bool :=
  match pre, s with
  | [], _ => true
  | p :: pre', c :: s' => Ascii.eqb p c && has_prefix pre' s'
  | _, [] => false
  end.

Definition user_class (q : qname) : bool :=
  valid_qname q
  && match qname_text q with c :: _ => is_alpha c | [] => false end
  && negb (existsb (text_eqb (qname_text q)) keyword_texts)
  && negb (existsb (fun p => has_prefix p (qname_text q)) prefix_texts).

Fixpoint wf_ty (t : ty) : bool :=
  match t with
  | TFund _ => true
  | TLit d => valid_ident d && match d with c :: _ => is_digit c | [] => false end
  | TName User q => user_class q
  | TName _ q => valid_qname q
  | TApp _ q args => valid_qname q && forallb wf_ty args
  | TPtr t | TLRef t | TRRef t | TConst t | TVolatile t => wf_ty t
  | TFun r ps | TFunPtr r ps => wf_ty r && forallb wf_ty ps
  end.
