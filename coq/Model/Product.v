(* C20 — executable list model of the meta-functions of
     /repo/include/yorel/yomm2/templates.hpp
   product, apply_product, detail::is_defined, detail::use_definition, aggregate /
   detail::large_aggregate, use_definitions.

   NO proofs in this file (see Proofs/ProductProofs.v), so that the model still runs when a
   proof breaks.

   A type list `types<T...>` is a `list A`; a list of type lists a `list (list A)`.
   That Boost.Mp11 lists and std::tuple implement lists is trusted; the correspondence with the
   real meta-functions is checked on every run by generated programs (harness/h2/gen_c20.py). *)
From Coq Require Import List Arith Bool.
Import ListNotations.
From Y2 Require Import Gen.GenProductConsts.

Section Product.
Context {A : Type}.

(* boost::mp11::detail::mp_product_impl_2<F, P, L1<T1...>, L...> :
       mp_append< mp_product_impl_2<F, mp_push_back<P, T1>, L...>::type ... >
   boost::mp11::detail::mp_product_impl_2<F, P> : mp_list< mp_rename<P, F> >
   P is the prefix chosen so far; F = `types` keeps it as it is. *)
Fixpoint product_acc (p : list A) (ls : list (list A)) : list (list A) :=
  match ls with
  | [] => [p]
  | l :: rest => flat_map (fun x => product_acc (p ++ [x]) rest) l
  end.

(* template<typename... TypeLists> using product = mp_product<types, TypeLists...>; *)
Definition product (ls : list (list A)) : list (list A) := product_acc [] ls.

(* the same enumeration written by recursion on the lists alone: for each element of the first
   list, in order, every combination of the remaining lists, in order (the LAST list varies
   fastest). Proofs/ProductProofs.v shows  product = product_rec. *)
Fixpoint product_rec (ls : list (list A)) : list (list A) :=
  match ls with
  | [] => [[]]
  | l :: rest => flat_map (fun x => map (cons x) (product_rec rest)) l
  end.

(* apply_product<templates<Templates...>, TypeLists...> =
     mp_product<mp_invoke_q, types<mp_quote<Templates>...>, TypeLists...> :
   the list of templates is the FIRST factor (varies slowest); each combination (t, c) stands for
   the instantiation t<c...>. *)
Definition apply_product {T : Type} (ts : list T) (ls : list (list A)) : list (T * list A) :=
  flat_map (fun t => map (fun c => (t, c)) (product ls)) ts.

(* mp_copy_if_q<LoL, detail::is_defined<Definition>> ;
   defined c = !std::is_base_of_v<not_defined, Definition<c...>> *)
Definition copy_if_defined (defined : list A -> bool) (lol : list (list A)) : list (list A) :=
  filter defined lol.

(* detail::use_definition<Definition>::fn<TypeList> =
      Definition<c...>::method::add_definition<Definition<c...>>           (has_method)
    | First::self_type::add_definition<Definition<First, Rest...>>         (otherwise)
   A registration is the pair (method it is added to, the combination c naming the container
   Definition<c...>). `method_of` chooses between the two forms, see method_first / method_member. *)
Definition use_definition {M : Type} (method_of : list A -> M) (c : list A) : M * list A :=
  (method_of c, c).

End Product.

(* impl<false, Definition<First, Rest...>> : the method is the first element of the combination
   (an empty combination does not match the partial specialization: the default is never used on
   a combination of a product of >= 1 lists) *)
Definition method_first {A : Type} (dflt : A) (c : list A) : A := hd dflt c.
(* impl<true, T> : the container names its method itself *)
Definition method_member {A M : Type} (m : list A -> M) (c : list A) : M := m c.

(* ------------------------------------------------------------------------------------------
   aggregate<T...> : sizeof...(T) <= threshold ? std::tuple<T...> : detail::large_aggregate<T...>
   large_aggregate<T...> : std::tuple< aggregate<take (n / den) T...>, aggregate<drop (n / den) T...> >

   The tree records the shape: a Tuple node has its elements as direct sub-objects, a Split node
   has exactly two sub-aggregates. *)
Inductive tree (X : Type) : Type :=
| Tuple (elems : list X)
| Split (l r : tree X).
Arguments Tuple {X} _.
Arguments Split {X} _ _.

Section Aggregate.
Context {X : Type}.

(* recursion is on the size of the pack: explicit fuel; None = out of fuel (excluded by
   aggregate_total in Proofs/ProductProofs.v for fuel > length) *)
Fixpoint aggregate_fuel (thr den : nat) (fuel : nat) (l : list X) : option (tree X) :=
  match fuel with
  | O => None
  | S fuel' =>
      if length l <=? thr then Some (Tuple l)
      else
        let k := length l / den in
        match aggregate_fuel thr den fuel' (firstn k l), aggregate_fuel thr den fuel' (skipn k l) with
        | Some a, Some b => Some (Split a b)
        | _, _ => None
        end
  end.

Definition aggregate_with (thr den : nat) (l : list X) : option (tree X) :=
  aggregate_fuel thr den (S (length l)) l.

(* with the constants translated from templates.hpp *)
Definition aggregate (l : list X) : option (tree X) :=
  aggregate_with aggregate_threshold aggregate_split_den l.

(* the elements in the order of the template argument list *)
Fixpoint leaves (t : tree X) : list X :=
  match t with
  | Tuple es => es
  | Split a b => leaves a ++ leaves b
  end.

(* number of direct sub-objects of the std::tuple at the root of the node *)
Definition width (t : tree X) : nat :=
  match t with
  | Tuple es => length es
  | Split _ _ => aggregate_split_parts
  end.

(* every node has at most `bound` direct sub-objects *)
Fixpoint width_le (bound : nat) (t : tree X) : Prop :=
  match t with
  | Tuple es => length es <= bound
  | Split a b => aggregate_split_parts <= bound /\ width_le bound a /\ width_le bound b
  end.

Fixpoint width_leb (bound : nat) (t : tree X) : bool :=
  match t with
  | Tuple es => length es <=? bound
  | Split a b => (aggregate_split_parts <=? bound) && width_leb bound a && width_leb bound b
  end.

Fixpoint depth (t : tree X) : nat :=
  match t with
  | Tuple _ => 0
  | Split a b => S (Nat.max (depth a) (depth b))
  end.

(* pre-order list of node widths: the canonical text of the shape (printed by both sides) *)
Fixpoint shape (t : tree X) : list nat :=
  match t with
  | Tuple es => [length es]
  | Split a b => aggregate_split_parts :: shape a ++ shape b
  end.

End Aggregate.

(* ------------------------------------------------------------------------------------------
   use_definitions<Definition, LoL> =
     mp_apply<aggregate, mp_transform_q<use_definition<Definition>, mp_copy_if_q<LoL, is_defined<Definition>>>> *)
Definition registrations {A M : Type} (defined : list A -> bool) (method_of : list A -> M)
           (lol : list (list A)) : list (M * list A) :=
  map (use_definition method_of) (copy_if_defined defined lol).

Definition use_definitions {A M : Type} (defined : list A -> bool) (method_of : list A -> M)
           (lol : list (list A)) : option (tree (M * list A)) :=
  aggregate (registrations defined method_of lol).

(* ------------------------------------------------------------------------------------------
   what the drivers run: types are numbered; `not_defined` is a table of combinations *)
Fixpoint list_eqb (a b : list nat) : bool :=
  match a, b with
  | [], [] => true
  | x :: a', y :: b' => Nat.eqb x y && list_eqb a' b'
  | _, _ => false
  end.

Definition defined_by_table (undef : list (list nat)) (c : list nat) : bool :=
  negb (existsb (list_eqb c) undef).

(* lexicographic rank of a tuple of positions ds in lists of lengths lens (last position fastest) *)
Fixpoint rank (ds lens : list nat) : nat :=
  match ds, lens with
  | d :: ds', n :: lens' => d * fold_right Nat.mul 1 lens' + rank ds' lens'
  | _, _ => 0
  end.

(* the combination whose i-th component is the element at position ds[i] of the i-th list *)
Fixpoint select {A : Type} (ds : list nat) (ls : list (list A)) : option (list A) :=
  match ds, ls with
  | [], [] => Some []
  | d :: ds', l :: ls' =>
      match nth_error l d, select ds' ls' with
      | Some x, Some c => Some (x :: c)
      | _, _ => None
      end
  | _, _ => None
  end.

(* strict lexicographic order on tuples of positions of the same length *)
Inductive lex_lt : list nat -> list nat -> Prop :=
| lex_head : forall d d' ds ds', d < d' -> length ds = length ds' -> lex_lt (d :: ds) (d' :: ds')
| lex_tail : forall d ds ds', lex_lt ds ds' -> lex_lt (d :: ds) (d :: ds').

(* scenario of the drivers, MethodFirst form: registrations of product (methods :: class lists) *)
Definition scenario_first (undef : list (list nat)) (ls : list (list nat)) : list (nat * list nat) :=
  registrations (defined_by_table undef) (method_first 0) (product ls).

(* MethodMember form: every container names method m *)
Definition scenario_member (undef : list (list nat)) (m : nat) (ls : list (list nat)) : list (nat * list nat) :=
  registrations (defined_by_table undef) (method_member (fun _ => m)) (product ls).
