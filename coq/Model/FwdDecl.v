(* Model of the two text functions of `yorel::yomm2::generator` (include/yorel/yomm2/generator.hpp), property C19:

     generator::write_forward_declarations(std::ostream&)      ->  write_forward_declarations
     generator::add_forward_declaration(std::string_view)      ->  scan

   Executable Gallina, no proofs here (Proofs/FwdDeclProofs.v).  A text is a `list ascii`.

   How iterators are modelled.  A `std::string::const_iterator` into a name is a *cursor*: the pair
   (characters before it, nearest first; characters from it to the end).  `*it` is the head of the second list,
   `it == end()` says the second list is empty, `it[-1]` is the head of the first list, `it == begin()` says the
   first list is empty, `++it` / `--it` move one character across.  The pair (prev_ns_iter, prev_ns_last) is only
   ever used as the half-open range between the two (`!=`, `*`, `++` on the first), so it is modelled by the
   characters in that range, `span`; `prev_ns_iter != prev_ns_last` says the span is not empty.  Where the real
   iterator would step PAST prev_ns_last (the loop `while (a != b)` then runs off the string) or past `end()`, the
   model returns None; Proofs show this never happens on valid names.

   Input order.  `names` is a `std::set<std::string>`: the real loop sees the names sorted by bytes, without
   duplicates.  The model takes a list and walks it in the order given; the drivers sort and de-duplicate the way
   the set does.  (The theorem C19_writer needs neither: sorting only minimises the re-opening of namespaces.) *)
From Coq Require Import List Ascii String Bool Arith.
From Y2 Require Import Gen.GenFwdDeclConsts.
Import ListNotations.

Definition text := list ascii.
Definition T (s : string) : text := list_ascii_of_string s.

Definition is_colon (c : ascii) : bool := Ascii.eqb c ":"%char.

Fixpoint text_eqb (a b : text) : bool :=
  match a, b with
  | [], [] => true
  | x :: a', y :: b' => Ascii.eqb x y && text_eqb a' b'
  | _, _ => false
  end.

(* ------------------------------------------------------------------------------------------------------------ *)
(* write_forward_declarations                                                                                    *)

Definition close_brace : text := T "}" ++ [ "010"%char ].                                     (* "}\n" *)
Definition open_namespace (seg : text) : text := T "namespace " ++ seg ++ T " {" ++ [ "010"%char ].
Definition declare_class (seg : text) : text := T "class " ++ seg ++ T ";" ++ [ "010"%char ].

(*  while (prev_ns_iter != prev_ns_last) {
        if ( *prev_ns_iter == ':') { os << "}\n"; ++prev_ns_iter; }
        ++prev_ns_iter;
    }                                                  span = the characters in [prev_ns_iter, prev_ns_last) *)
Fixpoint close_all (span : text) : option text :=
  match span with
  | [] => Some []
  | c :: r =>
      if is_colon c then
        match r with
        | [] => None                                    (* the second ++ steps past prev_ns_last *)
        | _ :: r' => option_map (app close_brace) (close_all r')
        end
      else close_all r
  end.

(*  while (name_iter != name.begin() && name_iter[-1] != ':') --name_iter;          cursor = (before, after) *)
Fixpoint back_up (before after : text) : text * text :=
  match before with
  | [] => (before, after)
  | c :: before' => if is_colon c then (before, after) else back_up before' (c :: after)
  end.

(*  while (prev_ns_iter != prev_ns_last) {
        if (name_iter == name.end() || *prev_ns_iter != *name_iter) {
            <close_all>; <back_up>; break;
        }
        ++prev_ns_iter; ++name_iter;
    }
    result: what was written (the closing braces), and the cursor name_iter *)
Fixpoint scan_common (span before after : text) : option text * (text * text) :=
  match span with
  | [] => (Some [], (before, after))
  | p :: span' =>
      match after with
      | [] => (close_all span, back_up before after)
      | c :: after' =>
          if Ascii.eqb p c then scan_common span' (c :: before) after'
          else (close_all span, back_up before after)
      end
  end.

(*  std::find(name_iter, name.end(), ':') : the characters before the first ':', and the rest from it on *)
Fixpoint find_colon (after : text) : text * text :=
  match after with
  | [] => ([], [])
  | c :: r => if is_colon c then ([], after) else let (s, t) := find_colon r in (c :: s, t)
  end.

(*  while (true) {
        auto scope_iter = std::find(name_iter, name.end(), ':');
        if (scope_iter == name.end()) { os << "class " << [name_iter, scope_iter) << ";\n"; break; }
        else { os << "namespace " << [name_iter, scope_iter) << " {\n";
               name_iter = scope_iter + 2; prev_ns_last = name_iter; }
    }
    result: what was written, and the new span [name.begin(), prev_ns_last).  `fuel` bounds the `while (true)`. *)
Fixpoint emit (fuel : nat) (before after : text) : option (text * text) :=
  match fuel with
  | 0 => None
  | S fuel' =>
      let (seg, rest) := find_colon after in
      match rest with
      | [] => Some (declare_class seg, rev before)
      | _ :: [] => None                                 (* scope_iter + 2 is past end() *)
      | c1 :: c2 :: rest' =>
          match emit fuel' (c2 :: c1 :: rev seg ++ before) rest' with
          | Some (o, span) => Some (open_namespace seg ++ o, span)
          | None => None
          end
      end
  end.

(*  for (auto& name : names) { <scan_common>; prev_ns_iter = name.begin(); prev_ns_last = name_iter; <emit> }
    <close_all>                                                                                              *)
Fixpoint write_loop (names : list text) (span : text) : option text :=
  match names with
  | [] => close_all span
  | name :: more =>
      let '(closes, (before, after)) := scan_common span [] name in
      match closes, emit (S (List.length name)) before after with
      | Some o1, Some (o2, span') =>
          match write_loop more span' with
          | Some o => Some (o1 ++ o2 ++ o)
          | None => None
          end
      | _, _ => None
      end
  end.

(* prev_ns_iter = prev_ns_last = file_scope.begin(), file_scope = "" *)
Definition write_forward_declarations (names : list text) : option text := write_loop names [].

(* ------------------------------------------------------------------------------------------------------------ *)
(* add_forward_declaration(std::string_view)                                                                     *)

(* The regex this scanner stands for (ECMAScript, default flags, C locale).  Gen.name_regex is what the source
   contains now; C19_regex_unchanged compares the two. *)
Definition expected_regex : string := "(\w+(?:::\w+)*)( *<)?".

Definition in_range (lo hi c : ascii) : bool :=
  (nat_of_ascii lo <=? nat_of_ascii c) && (nat_of_ascii c <=? nat_of_ascii hi).
Definition is_alpha (c : ascii) : bool := in_range "a" "z" c || in_range "A" "Z" c.          (* std::isalpha *)
Definition is_digit (c : ascii) : bool := in_range "0" "9" c.
Definition is_word (c : ascii) : bool := is_alpha c || is_digit c || Ascii.eqb c "_"%char.   (* \w *)
Definition is_space (c : ascii) : bool := Ascii.eqb c " "%char.

(*  \w+(?:::\w+)*  entered on (or inside) a run of word characters: greedy, and the optional tail of the regex
    can match the empty string, so no backtracking ever shortens it.  Result: group 1, the rest of the input. *)
Fixpoint take_name (s : text) : text * text :=
  match s with
  | [] => ([], [])
  | c :: r =>
      if is_word c then let (n, rest) := take_name r in (c :: n, rest)
      else if is_colon c then
        match r with
        | c2 :: ((d :: _) as r2) =>
            if is_colon c2 && is_word d then let (n, rest) := take_name r2 in (c :: c2 :: n, rest)
            else ([], s)
        | _ => ([], s)
        end
      else ([], s)
  end.

(*  ( *<)?  : does group 2 take part in the match *)
Fixpoint followed_by_lt (s : text) : bool :=
  match s with
  | [] => false
  | c :: r => if is_space c then followed_by_lt r else Ascii.eqb c "<"%char
  end.

(*  one step of the regex_iterator: the leftmost match at or after the current position.
    Result: group 1, whether group 2 matched, the input after group 1.  (When group 2 matched the real match also
    covers ` *<`; the next search would skip those characters anyway, none of them being a word character.) *)
Fixpoint next_match (s : text) : option (text * bool * text) :=
  match s with
  | [] => None
  | c :: r =>
      if is_word c then let (n, rest) := take_name s in Some (n, followed_by_lt rest, rest)
      else next_match r
  end.

(*  detail::starts_with(name, prefix), as written: an empty prefix never matches *)
Fixpoint starts_with (name pre : text) : bool :=
  match name, pre with
  | c :: name', p :: pre' =>
      if Ascii.eqb c p then match pre' with [] => true | _ => starts_with name' pre' end else false
  | _, _ => false
  end.

Definition keyword_texts : list text := map T keywords.
Definition prefix_texts : list text := map T skipped_prefixes.

(*  the filters between the match and `names.emplace(name)`, in the order of the source *)
Definition kept (name : text) (group2 : bool) : bool :=
  if group2 then false                                                  (* iter->[2].matched : a template name *)
  else if negb (match name with c :: _ => is_alpha c | [] => false end) then false   (* !std::isalpha(first char) *)
  else if existsb (text_eqb name) keyword_texts then false              (* keywords.find(name) != end *)
  else if existsb (starts_with name) prefix_texts then false            (* starts_with(name, "std::") || ... *)
  else true.

(*  for (iter; iter != last; ++iter) { filters; names.emplace(name); }       fuel bounds the number of matches *)
Fixpoint scan_fuel (fuel : nat) (s : text) : list text :=
  match fuel with
  | 0 => []
  | S fuel' =>
      match next_match s with
      | None => []
      | Some (name, group2, rest) =>
          (if kept name group2 then [name] else []) ++ scan_fuel fuel' rest
      end
  end.

(*  the names emplaced, in the order of the matches (the real container is a set: the drivers sort and de-duplicate) *)
Definition scan (s : text) : list text := scan_fuel (S (List.length s)) s.
