(* C14 -- policies as facet lists over a FLAT store of static objects.

   Definitions only (no proofs): CONTRIBUTING.md, "Model/".

   A state that is a map  key |-> policy state  would make isolation true by construction.  Here the store is flat:
   a location is (owner template, its template arguments, member name), exactly what identifies a static data
   member of a class template instantiation in C++ (one object per distinct argument list; a static of a
   NON-template class is one object, whoever uses it).  Which locations a policy owns is COMPUTED from its facet
   list and from the declarations translated from the headers on every run (Gen/GenPolicies.v):
   static members of every facet instance, of its (transitive) base classes with the arguments the facet passes
   them, and of basic_domain<Key> / method_tables<Key>.  rebind / replace / remove are the list functions that
   policies/core.hpp defines (the translator checks the C++ definitions token by token).
   Every operation on a policy has a write set and a read set computed from the same lists.                  *)
From Coq Require Import String List Bool Arith.
From Y2 Require Import Gen.GenPolicies.
Import ListNotations.
Open Scope string_scope.

(* ------------------------------------------------------------------------------------------------ equality *)

Fixpoint ty_eqb (a b : ty) {struct a} : bool :=
  match a, b with
  | TPolicy k, TPolicy k' => String.eqb k k'
  | TApp g xs, TApp h ys =>
      String.eqb g h &&
      (fix go (xs ys : list ty) {struct xs} : bool :=
         match xs, ys with
         | [], [] => true
         | x :: xs', y :: ys' => ty_eqb x y && go xs' ys'
         | _, _ => false
         end) xs ys
  | TOther s, TOther s' => String.eqb s s'
  | _, _ => false
  end.

Fixpoint tys_eqb (xs ys : list ty) : bool :=
  match xs, ys with
  | [], [] => true
  | x :: xs', y :: ys' => ty_eqb x y && tys_eqb xs' ys'
  | _, _ => false
  end.

(* a location of the flat store *)
Definition loc : Type := (string * list ty * string)%type.
Definition l_owner (l : loc) : string := fst (fst l).
Definition l_args (l : loc) : list ty := snd (fst l).
Definition l_member (l : loc) : string := snd l.

Definition loc_eqb (a b : loc) : bool :=
  String.eqb (l_owner a) (l_owner b) && tys_eqb (l_args a) (l_args b) && String.eqb (l_member a) (l_member b).

Definition memb (l : loc) (ls : list loc) : bool := existsb (loc_eqb l) ls.
Definition disjointb (a b : list loc) : bool := forallb (fun l => negb (memb l b)) a.
Definition inclb (a b : list loc) : bool := forallb (fun l => memb l b) a.
Definition disjoint (a b : list loc) : Prop := forall l, In l a -> In l b -> False.

(* ------------------------------------------------------------------------------------------------ declarations *)

Definition FUEL : nat := 12.        (* depth of base-class chains / nesting of template arguments explored *)

Fixpoint find_in (ds : list facet_decl) (g : string) : option facet_decl :=
  match ds with
  | [] => None
  | d :: r => if String.eqb (f_name d) g then Some d else find_in r g
  end.
Definition find_decl (g : string) : option facet_decl := find_in facet_decls g.

(* substitution of template arguments for parameters *)
Fixpoint subst (args : list ty) (p : pty) {struct p} : ty :=
  match p with
  | PParam i => nth i args (TOther "?unbound")
  | PPolicy k => TPolicy k
  | PApp g ps => TApp g (map (subst args) ps)
  | POther s => TOther s
  end.

(* append the default template arguments the way C++ does: left to right, each default may mention earlier ones *)
Fixpoint fill (norm : ty -> ty) (rest : list (option pty)) (args : list ty) : list ty :=
  match rest with
  | Some p :: r => fill norm r (args ++ [norm (subst args p)])
  | _ => args
  end.

(* vptr_map<P> and vptr_map<P, std::unordered_map<...>> are one type: give every instance its full argument list *)
Fixpoint normalize (fuel : nat) (t : ty) {struct fuel} : ty :=
  match fuel with
  | O => t
  | S f =>
      match t with
      | TApp g args =>
          let args' := map (normalize f) args in
          match find_decl g with
          | Some d => TApp g (fill (normalize f) (skipn (length args') (f_defaults d)) args')
          | None => TApp g args'
          end
      | _ => t
      end
  end.

Definition inst_args (d : facet_decl) (args : list ty) : list ty :=
  match f_nparams d with O => [] | _ => args end.

(* static objects of one facet instance (already normalized): its own + those of its base classes *)
Fixpoint locs_of_inst (fuel : nat) (t : ty) {struct fuel} : list loc :=
  match fuel with
  | O => []
  | S f =>
      match t with
      | TApp g args =>
          match find_decl g with
          | Some d =>
              map (fun s => (g, inst_args d args, s)) (f_statics d)
              ++ flat_map (fun b => locs_of_inst f (normalize FUEL (subst args b))) (f_bases d)
          | None => []
          end
      | _ => []
      end
  end.

(* is_base_of<Base, Facet>: the facet is, or derives from, the class (template) named base *)
Fixpoint derives (fuel : nat) (t : ty) (base : string) {struct fuel} : bool :=
  match fuel with
  | O => false
  | S f =>
      match t with
      | TApp g args =>
          String.eqb g base ||
          match find_decl g with
          | Some d => existsb (fun b => derives f (subst args b) base) (f_bases d)
          | None => false
          end
      | _ => false
      end
  end.

(* ------------------------------------------------------------------------------------------------ policies *)

Record policy : Type := mk_policy { p_key : string; p_facets : list ty }.

(* `struct K : basic_policy<K, facets as written...>` *)
Definition policy_of (key : string) (written : list ty) : policy :=
  mk_policy key (map (normalize FUEL) written).

Definition is_pack (b : pty) : bool := match b with PParam 1 => true | _ => false end.

(* bases of basic_policy<Policy, Facets...> as translated: PParam 1 is the pack Facets... *)
Definition base_locs (p : policy) (b : pty) : list loc :=
  if is_pack b then flat_map (locs_of_inst FUEL) (p_facets p)
  else locs_of_inst FUEL (normalize FUEL (subst [TPolicy (p_key p)] b)).

Definition locs_of_policy (p : policy) : list loc := flat_map (base_locs p) basic_policy_bases.

(* only the part that does not come from the facet list: basic_domain<Key>, method_tables<Key>, ... *)
Definition domain_locs (p : policy) : list loc :=
  flat_map (fun b => if is_pack b then [] else base_locs p b) basic_policy_bases.

(* rebind_facet<New, GenericFacet<Old, Args...>>::type = GenericFacet<New, Args...> where GenericFacet is
   `template<typename...> class`: only templates all of whose parameters are types match; anything else unchanged *)
Definition is_type_kind (k : pkind) : bool := match k with KType | KTypePack => true | _ => false end.
Definition rebindable (g : string) : bool :=
  match find_decl g with
  | Some d => forallb is_type_kind (f_kinds d) && negb (Nat.eqb (f_nparams d) 0)
  | None => true                      (* a template we know nothing of: assumed to take types *)
  end.

Definition rebind_facet (new : string) (t : ty) : ty :=
  match t with
  | TApp g (_ :: rest) => if rebindable g then TApp g (TPolicy new :: rest) else t
  | _ => t
  end.

(* basic_policy<NewPolicy, typename rebind_facet<NewPolicy, Facets>::type...> *)
Definition rebind (p : policy) (new : string) : policy :=
  mk_policy new (map (rebind_facet new) (p_facets p)).

(* mp_replace_if_q<facets, is_base_of<Base, _>, Facet> pushed behind the SAME Policy *)
Definition replace (p : policy) (base : string) (f : ty) : policy :=
  mk_policy (p_key p) (map (fun x => if derives FUEL x base then normalize FUEL f else x) (p_facets p)).

(* mp_remove_if_q<facets, is_base_of<Base, _>> pushed behind the SAME Policy *)
Definition remove (p : policy) (base : string) : policy :=
  mk_policy (p_key p) (filter (fun x => negb (derives FUEL x base)) (p_facets p)).

(* the stock policies, from the translated facet lists *)
Definition policy_of_decl (d : policy_decl) : policy := policy_of (pd_key d) (pd_facets d).
Definition stock_policies : list policy := map policy_of_decl stock_policy_decls.
(* stock policies that are not merely another stock policy under a second name (release_shared IS debug_shared) *)
Definition stock_policies_own_key : list policy :=
  map policy_of_decl (filter (fun d => match pd_derived_from d with None => true | Some _ => false end) stock_policy_decls).

(* ------------------------------------------------------------------------------------------------ keyed *)

(* no static object in g<...> whatever the arguments, nor in its bases *)
Fixpoint static_free (fuel : nat) (g : string) {struct fuel} : bool :=
  match fuel with
  | O => false
  | S f =>
      match find_decl g with
      | None => true
      | Some d =>
          match f_statics d with [] => true | _ => false end &&
          forallb (fun b => match b with
                            | PApp h _ => static_free f h
                            | POther _ => true
                            | _ => false
                            end) (f_bases d)
      end
  end.

Definition is_nil {A} (l : list A) : bool := match l with [] => true | _ => false end.

(* every static object of every instance g<P, ...> carries P as the FIRST argument of its owner:
   own statics need g to be a template; a base is either given the first parameter first, and is keyed itself,
   or holds no static object at all *)
Fixpoint keyed_decl (fuel : nat) (g : string) {struct fuel} : bool :=
  match fuel with
  | O => false
  | S f =>
      match find_decl g with
      | None => true
      | Some d =>
          (is_nil (f_statics d) || negb (Nat.eqb (f_nparams d) 0)) &&
          forallb (fun b => match b with
                            | PApp h (PParam 0 :: _) => keyed_decl f h || static_free f h
                            | PApp h _ => static_free f h
                            | POther _ => true
                            | _ => false
                            end) (f_bases d)
      end
  end.

(* a member of a facet list: a template instance that rebind re-keys and whose statics follow the first argument,
   or something without static objects *)
Definition keyed_facet (t : ty) : bool :=
  match t with
  | TApp g (_ :: _) => (rebindable g && keyed_decl FUEL g) || static_free FUEL g
  | TApp g [] => static_free FUEL g
  | _ => true
  end.

Definition keyed_base (b : pty) : bool :=
  match b with
  | PParam _ => true                          (* the pack Facets... (judged by keyed_facet), or the policy class itself *)
  | PApp h (PParam 0 :: _) => keyed_decl FUEL h || static_free FUEL h
  | PApp h _ => static_free FUEL h
  | PPolicy _ => true
  | POther _ => true
  end.

Definition keyed_bases : bool := forallb keyed_base basic_policy_bases.

Definition keyed (p : policy) : bool := forallb keyed_facet (p_facets p) && keyed_bases.

(* the same question asked of every class of namespace policy, used by a stock policy or not: as a facet
   (first argument = the policy) all its static objects follow the policy *)
Definition decl_keyed (d : facet_decl) : bool :=
  match f_nparams d with
  | O => static_free FUEL (f_name d)
  | _ => (rebindable (f_name d) && keyed_decl FUEL (f_name d)) || static_free FUEL (f_name d)
  end.

(* facet f as the replacement in replace<Base, f> on a policy of key k: keyed by k, or without statics *)
Definition facet_keyed_by (k : string) (t : ty) : bool :=
  match t with
  | TApp g (TPolicy k' :: _) => (String.eqb k' k && keyed_decl FUEL g) || static_free FUEL g
  | TApp g _ => static_free FUEL g
  | _ => true
  end.

Definition head_keyed (k : string) (l : loc) : Prop := exists rest, l_args l = TPolicy k :: rest.
Definition head_keyedb (k : string) (l : loc) : bool :=
  match l_args l with TPolicy k' :: _ => String.eqb k' k | _ => false end.

(* modifications applied after rebind *)
Inductive modif : Type := MRemove (base : string) | MReplace (base : string) (f : ty).
Definition apply_mod (p : policy) (m : modif) : policy :=
  match m with MRemove b => remove p b | MReplace b f => replace p b f end.
Definition apply_mods (p : policy) (ms : list modif) : policy := fold_left apply_mod ms p.
Definition mod_ok (k : string) (m : modif) : bool :=
  match m with MRemove _ => true | MReplace _ f => facet_keyed_by k f end.

(* ------------------------------------------------------------------------------------------------ operations *)

Inductive op_kind : Type :=
| RegisterClass | UnregisterClass
| RegisterMethod | UnregisterMethod
| RegisterDefinition | UnregisterDefinition
| Update
| SetErrorHandler
| Call                 (* a method call, virtual_ptr construction, final: reads only *)
.

(* static objects of the facets of p that implement category cat (type_hash, vptr_placement, error_handler, ...) *)
Definition locs_cat (p : policy) (cat : string) : list loc :=
  flat_map (locs_of_inst FUEL) (filter (fun t => derives FUEL t cat) (p_facets p)).

Definition owner_member (o m : string) (l : loc) : bool := String.eqb (l_owner l) o && String.eqb (l_member l) m.

(* which of p's locations the operation may write.  Always a sub-list of locs_of_policy p. *)
Definition write_sel (k : op_kind) (p : policy) (l : loc) : bool :=
  match k with
  | RegisterClass | UnregisterClass => owner_member "basic_domain" "classes" l
  | RegisterMethod | UnregisterMethod
  | RegisterDefinition | UnregisterDefinition => owner_member "basic_domain" "methods" l
      (* method_info nodes (method<Key, Sig, Policy>::fn, with their definition lists) hang off the catalog *)
  | Update =>
      owner_member "basic_domain" "dispatch_data" l
      || owner_member "method_tables" "static_vptr<Class>" l
      || owner_member "basic_domain" "methods" l          (* slots_strides and next pointers of the catalog's nodes *)
      || owner_member "basic_domain" "classes" l          (* deferred type ids are resolved in place *)
      || memb l (locs_cat p "type_hash")                  (* hash_mult, hash_shift, hash_length, hash_min, hash_max, control *)
      || memb l (locs_cat p "vptr_placement")             (* vptrs *)
      || memb l (locs_cat p "indirect_vptr")              (* indirect_vptrs *)
      || memb l (locs_cat p "trace_output")               (* the trace stream's state *)
      || memb l (locs_cat p "error_output")
  | SetErrorHandler => memb l (locs_cat p "error_handler")   (* error, call_error *)
  | Call => memb l (locs_cat p "error_output")                (* the default handler prints before aborting *)
  end.

Definition writes (k : op_kind) (p : policy) : list loc := filter (write_sel k p) (locs_of_policy p).
(* an operation on p may read anything of p (catalogs, tables, hash parameters, handler, streams) *)
Definition reads (k : op_kind) (p : policy) : list loc := locs_of_policy p.

Definition val : Type := nat.
Definition store : Type := loc -> val.

(* an operation instance: what it computes is ANY function of the values it reads *)
Record op : Type := mk_op { op_kind_of : op_kind; op_pol : policy; op_fn : list val -> loc -> val }.

Definition apply (o : op) (st : store) : store :=
  fun l => if memb l (writes (op_kind_of o) (op_pol o))
           then op_fn o (map st (reads (op_kind_of o) (op_pol o))) l
           else st l.

Definition run (h : list op) (st : store) : store := fold_left (fun s o => apply o s) h st.

(* what can be observed of policy q: the contents of its locations *)
Definition proj (q : policy) (st : store) : list val := map st (locs_of_policy q).

(* particular observations, all functions of proj q *)
Definition handler_locs (q : policy) : list loc := filter (fun l => memb l (locs_cat q "error_handler")) (locs_of_policy q).
Definition handler_of (q : policy) (st : store) : list val := map st (handler_locs q).
(* a virtual_ptr of q holds a value found in q's vptrs / indirect_vptrs / static_vptr<Class>, pointing into q's dispatch_data *)
Definition vptr_locs (q : policy) : list loc :=
  filter (fun l => owner_member "basic_domain" "dispatch_data" l || owner_member "method_tables" "static_vptr<Class>" l
                   || memb l (locs_cat q "type_hash") || memb l (locs_cat q "vptr_placement") || memb l (locs_cat q "indirect_vptr"))
         (locs_of_policy q).
Definition vptr_state (q : policy) (st : store) : list val := map st (vptr_locs q).
(* outcome of a call through q: any function f of what the call reads *)
Definition call_outcome (f : list val -> val) (q : policy) (st : store) : val := f (map st (reads Call q)).

Definition same_policy (a b : policy) : bool :=
  String.eqb (p_key a) (p_key b) && tys_eqb (p_facets a) (p_facets b).
