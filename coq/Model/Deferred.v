(* Deferred.v — deferred_static_rtti: compiler::resolve_static_type_ids (after fix d6f3f8d).
   Type-id arrays are statics shared by every registration with the same type list; each is followed by a flag cell
   telling whether it has been resolved; class_info::type has its own flag.  A cell holds, before resolution, a pointer
   to the function that returns the id (Unres f) and afterwards the id (Res id).  Resolving a cell that already holds
   an id calls an integer as a function: modelled as an error.  No proofs here. *)
From Y2 Require Import Model.Registry.
Local Open Scope nat_scope.

Inductive dcell := Unres (f : N) | Res (id : N).
Record idarray := mk_arr { a_cells : list dcell; a_flag : bool }.

Record dstore := mk_ds {
  d_arrays : list idarray;                (* the shared id lists, by name (index) *)
  d_types : list (dcell * bool)           (* class_info::type of each class record, with is_type_resolved *)
}.

(* a registration refers to its id lists by name *)
Record dclass := mk_dclass { dc_type : nat; dc_bases : nat }.
Record dmeth := mk_dmeth { dm_vp : nat; dm_defs : list nat }.
Record dcatalog := mk_dcat { dk_classes : list dclass; dk_methods : list dmeth }.

Inductive dres (A : Type) := DOk (a : A) | DCrash.
Arguments DOk {A} a.
Arguments DCrash {A}.

Section Resolve.
  Variable idf : N -> N.                  (* what calling the function designated by f returns *)

  Definition resolve_cell (c : dcell) : dres dcell :=
    match c with Unres f => DOk (Res (idf f)) | Res _ => DCrash end.

  Fixpoint resolve_cells (cs : list dcell) : dres (list dcell) :=
    match cs with
    | [] => DOk []
    | c :: cs' => match resolve_cell c, resolve_cells cs' with
                  | DOk c', DOk cs'' => DOk (c' :: cs'')
                  | _, _ => DCrash
                  end
    end.

  (* resolve_list: `if (first != last && *last == 0) { resolve each; *last = 1; }` *)
  Definition resolve_list (a : idarray) : dres idarray :=
    match a_cells a with
    | [] => DOk a
    | _ => if a_flag a then DOk a
           else match resolve_cells (a_cells a) with
                | DOk cs => DOk (mk_arr cs true)
                | DCrash => DCrash
                end
    end.

  Definition resolve_array (s : dstore) (i : nat) : dres dstore :=
    match nth_error (d_arrays s) i with
    | None => DOk s
    | Some a => match resolve_list a with
                | DOk a' => DOk (mk_ds (set_nth i (d_arrays s) a') (d_types s))
                | DCrash => DCrash
                end
    end.

  Definition resolve_type (s : dstore) (i : nat) : dres dstore :=
    match nth_error (d_types s) i with
    | None => DOk s
    | Some (c, true) => DOk s
    | Some (c, false) => match resolve_cell c with
                         | DOk c' => DOk (mk_ds (d_arrays s) (set_nth i (d_types s) (c', true)))
                         | DCrash => DCrash
                         end
    end.

  Definition dbind {A B} (r : dres A) (f : A -> dres B) : dres B := match r with DOk a => f a | DCrash => DCrash end.

  Fixpoint resolve_arrays (s : dstore) (l : list nat) : dres dstore :=
    match l with
    | [] => DOk s
    | i :: l' => dbind (resolve_array s i) (fun s' => resolve_arrays s' l')
    end.

  Fixpoint resolve_classes (s : dstore) (cs : list dclass) : dres dstore :=
    match cs with
    | [] => DOk s
    | c :: cs' => dbind (resolve_type s (dc_type c)) (fun s1 =>
                  dbind (resolve_array s1 (dc_bases c)) (fun s2 => resolve_classes s2 cs'))
    end.

  Fixpoint resolve_methods (s : dstore) (ms : list dmeth) : dres dstore :=
    match ms with
    | [] => DOk s
    | m :: ms' => dbind (resolve_array s (dm_vp m)) (fun s1 =>
                  dbind (resolve_arrays s1 (dm_defs m)) (fun s2 => resolve_methods s2 ms'))
    end.

  (* compiler::resolve_static_type_ids *)
  Definition resolve_static_type_ids (s : dstore) (k : dcatalog) : dres dstore :=
    dbind (resolve_classes s (dk_classes k)) (fun s1 => resolve_methods s1 (dk_methods k)).
End Resolve.
