(* MiniReg.v — the little language into which translators/registration.py translates, on every run, the constructors and
   destructors of the registration objects:
       method<Key, R(A...), Policy>::add_function<Function>::add_function(next_type* next)        (core.hpp)
       method<Key, R(A...), Policy>::method(), ::~method()                                        (core.hpp)
       detail::class_declaration_aux<Policy, types<Class, Bases...>>::class_declaration_aux(), ::~class_declaration_aux()
   and its interpreter.  A body fills the fields of a record (the object itself, or the function-local static
   `definition_info info`) with values taken from a fixed vocabulary (what each value means is named by the translator only
   when the C++ expression, with its type aliases expanded, is literally the one listed beside the constructor below) and
   pushes the record on / removes it from one of three catalogs.  The translated bodies are in Gen/GenReg.v;
   Proofs/RegSource.v proves what a constructor run leaves behind and composes object lifetimes with Model.Catalog.
   No proofs in this file. *)
From Coq Require Import List Bool Arith.
From Y2 Require Import Model.Catalog.
Import ListNotations.

Inductive rfield :=
(* detail::definition_info *)
| FMethod | FType | FNext | FPf | FVpBegin | FVpEnd
(* detail::class_info *)
| CType | CFirstBase | CLastBase | CIsAbstract | CStaticVptr
(* detail::method_info *)
| MSlotsStrides | MName | MVpBegin | MVpEnd | MNotImplemented | MAmbiguous | MMethodType.

Inductive rval :=
| VThisMethod            (* &fn                                   the one object of this method<Key, R(A...), Policy> *)
| VFunctionTypeId        (* Policy::static_type<decltype(Function)>() *)
| VNextArg               (* reinterpret_cast<void**>(next)        the constructor's argument *)
| VThunk                 (* (void* )detail::thunk<Policy, signature_type, Function, parameter_type_list_t<decltype(Function)>>::fn *)
| VSpecIdsBegin          (* detail::type_id_list<Policy, spec_polymorphic_types<Policy, declared_argument_types, parameters of Function>>::begin *)
| VSpecIdsEnd            (* ... ::end *)
| VClassTypeId           (* collect_static_type_id<Policy, Class>() *)
| VBaseIdsBegin          (* type_id_list<Policy, types<Bases...>>::begin *)
| VBaseIdsEnd            (* ... ::end *)
| VIsAbstract            (* std::is_abstract_v<Class> *)
| VStaticVptrAddr        (* &Policy::template static_vptr<Class> *)
| VSlotsStrides          (* slots_strides: this method's own static array *)
| VDefaultName           (* detail::default_method_name<method>() *)
| VVirtualIdsBegin       (* type_id_list<Policy, polymorphic types of the virtual parameters>::begin *)
| VVirtualIdsEnd
| VNotImplementedStub    (* (void* )not_implemented_handler *)
| VAmbiguousStub         (* (void* )ambiguous_handler *)
| VMethodTypeId.         (* Policy::static_type<method>() *)

Inductive rcat := KFnSpecs (* fn.specs *) | KPolicyClasses (* Policy::classes *) | KPolicyMethods (* Policy::methods *).

Inductive robj := OInfo (* the local `info` *) | OThis.

Inductive rcond :=
| RNonNull (o : robj) (f : rfield)            (* o.f in a boolean context *)
| REqV (o : robj) (f : rfield) (v : rval)     (* o.f == v *)
| RNot (c : rcond).

Inductive rstmt :=
| GSkip
| GSeq (a b : rstmt)
| GIf (c : rcond) (t e : rstmt)
| GAssert (c : rcond)                          (* BOOST_ASSERT *)
| GReturn
| GSetF (o : robj) (f : rfield) (v : rval)     (* o.f = v; *)
| GPush (k : rcat) (o : robj)                  (* k.push_back(o); *)
| GRemove (k : rcat) (o : robj).               (* k.remove(o); *)

(* a constructor / destructor: does it declare `static detail::definition_info info;` (one zero-initialised record per
   instantiation of the function, i.e. per (method, Function)), and its body *)
Record rfun := { rf_static_info : bool; rf_body : rstmt }.

Definition rfield_eqb (a b : rfield) : bool :=
  match a, b with
  | FMethod, FMethod | FType, FType | FNext, FNext | FPf, FPf | FVpBegin, FVpBegin | FVpEnd, FVpEnd
  | CType, CType | CFirstBase, CFirstBase | CLastBase, CLastBase | CIsAbstract, CIsAbstract | CStaticVptr, CStaticVptr
  | MSlotsStrides, MSlotsStrides | MName, MName | MVpBegin, MVpBegin | MVpEnd, MVpEnd
  | MNotImplemented, MNotImplemented | MAmbiguous, MAmbiguous | MMethodType, MMethodType => true
  | _, _ => false
  end.

Definition rval_eqb (a b : rval) : bool :=
  match a, b with
  | VThisMethod, VThisMethod | VFunctionTypeId, VFunctionTypeId | VNextArg, VNextArg | VThunk, VThunk
  | VSpecIdsBegin, VSpecIdsBegin | VSpecIdsEnd, VSpecIdsEnd | VClassTypeId, VClassTypeId | VBaseIdsBegin, VBaseIdsBegin
  | VBaseIdsEnd, VBaseIdsEnd | VIsAbstract, VIsAbstract | VStaticVptrAddr, VStaticVptrAddr | VSlotsStrides, VSlotsStrides
  | VDefaultName, VDefaultName | VVirtualIdsBegin, VVirtualIdsBegin | VVirtualIdsEnd, VVirtualIdsEnd
  | VNotImplementedStub, VNotImplementedStub | VAmbiguousStub, VAmbiguousStub | VMethodTypeId, VMethodTypeId => true
  | _, _ => false
  end.

(* a record: which fields have been given which value (a field never written is zero / null) *)
Definition rrec := list (rfield * rval).

Fixpoint rget (r : rrec) (f : rfield) : option rval :=
  match r with
  | [] => None
  | (g, v) :: r' => if rfield_eqb f g then Some v else rget r' f
  end.

Fixpoint rdel (r : rrec) (f : rfield) : rrec :=
  match r with
  | [] => []
  | (g, v) :: r' => if rfield_eqb f g then rdel r' f else (g, v) :: rdel r' f
  end.

Definition rset (r : rrec) (f : rfield) (v : rval) : rrec := (f, v) :: rdel r f.

(* a catalog operation the body performed *)
Inductive rop := RPush (k : rcat) (o : robj) | RRemove (k : rcat) (o : robj).

Record rstate := { r_info : rrec; r_this : rrec; r_ops : list rop }.

Definition obj_rec (s : rstate) (o : robj) : rrec := match o with OInfo => r_info s | OThis => r_this s end.

Definition set_obj (s : rstate) (o : robj) (r : rrec) : rstate :=
  match o with
  | OInfo => {| r_info := r; r_this := r_this s; r_ops := r_ops s |}
  | OThis => {| r_info := r_info s; r_this := r; r_ops := r_ops s |}
  end.

Definition add_op (s : rstate) (x : rop) : rstate := {| r_info := r_info s; r_this := r_this s; r_ops := r_ops s ++ [x] |}.

Fixpoint rceval (s : rstate) (c : rcond) : bool :=
  match c with
  | RNonNull o f => match rget (obj_rec s o) f with Some _ => true | None => false end
  | REqV o f v => match rget (obj_rec s o) f with Some w => rval_eqb w v | None => false end
  | RNot c => negb (rceval s c)
  end.

Inductive rres := RGo (s : rstate) | RRet (s : rstate) | RBad.    (* RBad: a BOOST_ASSERT failed *)

Fixpoint rexec (c : rstmt) (s : rstate) : rres :=
  match c with
  | GSkip => RGo s
  | GSeq a b => match rexec a s with RGo s' => rexec b s' | r => r end
  | GIf c t e => if rceval s c then rexec t s else rexec e s
  | GAssert c => if rceval s c then RGo s else RBad
  | GReturn => RRet s
  | GSetF o f v => RGo (set_obj s o (rset (obj_rec s o) f v))
  | GPush k o => RGo (add_op s (RPush k o))
  | GRemove k o => RGo (add_op s (RRemove k o))
  end.

(* one run of a constructor / destructor: `info` as the previous runs of the same instantiation left it (static local) or
   fresh (if the function does not declare it static); the object under construction starts with no field written *)
Definition run_rfun (f : rfun) (info : rrec) (this : rrec) : option (rrec * rrec * list rop) :=
  match rexec (rf_body f) {| r_info := (if rf_static_info f then info else []); r_this := this; r_ops := [] |} with
  | RGo s | RRet s => Some (r_info s, r_this s, r_ops s)
  | RBad => None
  end.

(* two records hold the same values *)
Definition rrec_equiv (a b : rrec) : Prop := forall f, rget a f = rget b f.

(* ------------------------------------------------------------------ object lifetimes over one catalog *)
(* objects of ONE catalog are numbered; an event constructs or destroys one of them *)
Inductive event := Ctor (n : nat) | Dtor (n : nat).

(* the catalog operations a run performed, as operations of Model.Catalog on object n: the body must touch only catalog k,
   and only with the object `self` *)
Fixpoint as_catalog_ops (k : rcat) (self : robj) (n : nat) (ops : list rop) : option (list Catalog.op) :=
  match ops with
  | [] => Some []
  | x :: r =>
      let same (k' : rcat) (o : robj) :=
        match k, k' with KFnSpecs, KFnSpecs | KPolicyClasses, KPolicyClasses | KPolicyMethods, KPolicyMethods =>
          match self, o with OInfo, OInfo | OThis, OThis => true | _, _ => false end
        | _, _ => false end in
      match x, as_catalog_ops k self n r with
      | RPush k' o, Some l => if same k' o then Some (Push n :: l) else None
      | RRemove k' o, Some l => if same k' o then Some (Remove n :: l) else None
      | _, None => None
      end
  end.

(* objects that are their own record (class_declaration_aux, method): every construction starts from a blank object *)
Fixpoint events_ops (k : rcat) (ctor dtor : rfun) (evs : list event) : option (list Catalog.op) :=
  match evs with
  | [] => Some []
  | e :: r =>
      let one := match e with
                 | Ctor n => match run_rfun ctor [] [] with Some (_, _, ops) => as_catalog_ops k OThis n ops | None => None end
                 | Dtor n => match run_rfun dtor [] [] with Some (_, _, ops) => as_catalog_ops k OThis n ops | None => None end
                 end in
      match one, events_ops k ctor dtor r with
      | Some a, Some b => Some (a ++ b)
      | _, _ => None
      end
  end.

(* well-formed lifetimes: an object is constructed only when it is not alive, destroyed only when it is *)
Fixpoint lifetimes_ok (live : list nat) (evs : list event) : bool :=
  match evs with
  | [] => true
  | Ctor n :: r => negb (mem n live) && lifetimes_ok (live ++ [n]) r
  | Dtor n :: r => mem n live && lifetimes_ok (remove_elt n live) r
  end.

Fixpoint live_after (live : list nat) (evs : list event) : list nat :=
  match evs with
  | [] => live
  | Ctor n :: r => live_after (live ++ [n]) r
  | Dtor n :: r => live_after (remove_elt n live) r
  end.

(* add_function<F>: the record of function F is the function-local static of that instantiation; constructing
   add_function<F> objects in any order, any number of times.  statics: the records as the earlier constructions left
   them, by function number *)
Fixpoint statics_get (st : list (nat * rrec)) (n : nat) : rrec :=
  match st with
  | [] => []
  | (m, r) :: st' => if Nat.eqb n m then r else statics_get st' n
  end.

Fixpoint addfn_ops (ctor : rfun) (st : list (nat * rrec)) (fs : list nat) : option (list Catalog.op * list (nat * rrec)) :=
  match fs with
  | [] => Some ([], st)
  | n :: r =>
      match run_rfun ctor (statics_get st n) [] with
      | Some (info', _, ops) =>
          match as_catalog_ops KFnSpecs OInfo n ops with
          | Some a =>
              match addfn_ops ctor ((n, info') :: st) r with
              | Some (b, st') => Some (a ++ b, st')
              | None => None
              end
          | None => None
          end
      | None => None
      end
  end.

Fixpoint first_occurrences (seen : list nat) (fs : list nat) : list nat :=
  match fs with
  | [] => []
  | n :: r => if mem n seen then first_occurrences seen r else n :: first_occurrences (n :: seen) r
  end.
