(* MiniPtr.v — the little pointer language into which translators/staticlist.py translates the bodies of
   static_list<T>::push_back / remove / clear (detail/static_list.hpp) on every run, and its interpreter over the
   heap of Model/Catalog.v.  The translated bodies are in Gen/GenStaticList.v; Proofs/StaticListSource.v proves
   that interpreting them IS Model.Catalog.push_back / remove / clear, so that the C18 theorems are about the
   code the source says now.  No proofs in this file.

   Values are pointers to nodes (option node; None = nullptr).  The only heap cells are `first`, and the
   prev_ptr / next_ptr fields of nodes.  `node` is the function's reference parameter (T& node): `&node` is
   PNode, `node.f` is PFld PNode f.  Dereferencing a null pointer, reading an undeclared local and a failed
   BOOST_ASSERT are `Bad`; so is a while loop that is still running when the fuel is exhausted. *)
From Coq Require Import List String Bool Arith.
From Y2 Require Import Model.Catalog.
Import ListNotations.
Local Open Scope string_scope.

Inductive fld := FPrev | FNext.

Inductive pexpr :=
| PNull                          (* nullptr *)
| PFirst                         (* first *)
| PNode                          (* &node *)
| PVar (x : string)              (* a local declared with auto *)
| PFld (p : pexpr) (f : fld).    (* p->f   (node.f is PFld PNode f) *)

Inductive bexpr :=
| BPtr (p : pexpr)               (* contextual conversion to bool: p != nullptr *)
| BNot (b : bexpr)
| BEq (p q : pexpr)
| BNe (p q : pexpr)
| BAnd (b c : bexpr)
| BOr (b c : bexpr)
| BVar (x : string).             (* a local declared `const bool x = ...;` (kept in the environment as a null / non-null pointer) *)

Inductive stmt :=
| SSkip
| SSeq (a b : stmt)
| SAssert (b : bexpr)            (* BOOST_ASSERT(b) *)
| SDecl (x : string) (p : pexpr) (* auto x = p;   (each name has one declaration site: checked by the translator) *)
| SDeclB (x : string) (b : bexpr) (* const bool x = b; *)
| SSetVar (x : string) (p : pexpr)
| SSetFirst (p : pexpr)          (* first = p; *)
| SSetFld (p : pexpr) (f : fld) (q : pexpr)   (* p->f = q; *)
| SIf (b : bexpr) (t e : stmt)
| SWhile (b : bexpr) (body : stmt)
| SReturn.

Definition env := list (string * option node).

Fixpoint lookup (x : string) (e : env) : option (option node) :=
  match e with
  | [] => None
  | (y, v) :: r => if String.eqb x y then Some v else lookup x r
  end.

Fixpoint bind (x : string) (v : option node) (e : env) : env :=
  match e with
  | [] => [(x, v)]
  | (y, w) :: r => if String.eqb x y then (y, v) :: r else (y, w) :: bind x v r
  end.

Definition get_fld (s : st) (a : node) (f : fld) : option node :=
  match f with FPrev => prv s a | FNext => nxt s a end.

Definition set_first (s : st) (p : option node) : st :=
  {| first := p; prv := prv s; nxt := nxt s; fault := fault s |}.

Definition set_fld (s : st) (a : node) (f : fld) (q : option node) : st :=
  match f with
  | FPrev => {| first := first s; prv := upd (prv s) a q; nxt := nxt s; fault := fault s |}
  | FNext => {| first := first s; prv := prv s; nxt := upd (nxt s) a q; fault := fault s |}
  end.

(* outer None: undefined behaviour (null dereference, unbound name) *)
Fixpoint eval_p (n : node) (e : env) (s : st) (p : pexpr) : option (option node) :=
  match p with
  | PNull => Some None
  | PFirst => Some (first s)
  | PNode => Some (Some n)
  | PVar x => lookup x e
  | PFld q f =>
      match eval_p n e s q with
      | Some (Some a) => Some (get_fld s a f)
      | _ => None
      end
  end.

Definition ptr_eqb (a b : option node) : bool :=
  match a, b with
  | None, None => true
  | Some x, Some y => Nat.eqb x y
  | _, _ => false
  end.

Fixpoint eval_b (n : node) (e : env) (s : st) (b : bexpr) : option bool :=
  match b with
  | BPtr p => match eval_p n e s p with Some v => Some (negb (is_null v)) | None => None end
  | BNot c => match eval_b n e s c with Some v => Some (negb v) | None => None end
  | BEq p q => match eval_p n e s p, eval_p n e s q with
               | Some a, Some c => Some (ptr_eqb a c) | _, _ => None end
  | BNe p q => match eval_p n e s p, eval_p n e s q with
               | Some a, Some c => Some (negb (ptr_eqb a c)) | _, _ => None end
  | BAnd b1 b2 => match eval_b n e s b1 with
                  | Some true => eval_b n e s b2       (* && evaluates its right operand only when the left one is true *)
                  | Some false => Some false
                  | None => None end
  | BOr b1 b2 => match eval_b n e s b1 with
                 | Some true => Some true
                 | Some false => eval_b n e s b2
                 | None => None end
  | BVar x => match lookup x e with Some v => Some (negb (is_null v)) | None => None end
  end.

Inductive res := Go (e : env) (s : st) | Ret (e : env) (s : st) | Bad.

(* while (test) step;  with the iteration bound k *)
Fixpoint while_loop (test : env -> st -> option bool) (step : env -> st -> res) (k : nat) (e : env) (s : st) : res :=
  match test e s with
  | None => Bad
  | Some false => Go e s
  | Some true =>
      match k with
      | O => Bad
      | S k' =>
          match step e s with
          | Go e' s' => while_loop test step k' e' s'
          | r => r
          end
      end
  end.

(* `fuel` bounds the iterations of each while loop exactly like Model.Catalog.clear_loop: the condition is
   tested first; a loop whose condition is still true with no fuel left is Bad *)
Fixpoint exec (fuel : nat) (n : node) (c : stmt) (e : env) (s : st) : res :=
  match c with
  | SSkip => Go e s
  | SSeq a b =>
      match exec fuel n a e s with
      | Go e' s' => exec fuel n b e' s'
      | r => r
      end
  | SAssert b => match eval_b n e s b with Some true => Go e s | _ => Bad end
  | SDecl x p => match eval_p n e s p with Some v => Go (bind x v e) s | None => Bad end
  | SDeclB x b => match eval_b n e s b with Some v => Go (bind x (if v then Some n else None) e) s | None => Bad end
  | SSetVar x p =>
      match lookup x e, eval_p n e s p with
      | Some _, Some v => Go (bind x v e) s
      | _, _ => Bad
      end
  | SSetFirst p => match eval_p n e s p with Some v => Go e (set_first s v) | None => Bad end
  | SSetFld p f q =>
      (* C++17: the right operand of = is sequenced before the left; neither has side effects here *)
      match eval_p n e s q, eval_p n e s p with
      | Some v, Some (Some a) => Go e (set_fld s a f v)
      | _, _ => Bad
      end
  | SIf b t el =>
      match eval_b n e s b with
      | Some true => exec fuel n t e s
      | Some false => exec fuel n el e s
      | None => Bad
      end
  | SWhile b body => while_loop (fun e s => eval_b n e s b) (exec fuel n body) fuel e s
  | SReturn => Ret e s
  end.

(* a member function body run on heap s with reference parameter n *)
Definition run_body (fuel : nat) (body : stmt) (s : st) (n : node) : st :=
  match exec fuel n body [] s with
  | Go _ s' => s'
  | Ret _ s' => s'
  | Bad => crashed s
  end.

(* for (auto it = begin(); it != end(); ++it) collect *it;   begin() / end() / operator++ as translated.
   None: undefined behaviour, or still iterating when the fuel is exhausted. *)
Fixpoint iter_src (incr : stmt) (endp : pexpr) (fuel : nat) (s : st) (cur : option node) : option (list node) :=
  match eval_p 0 [] s endp with
  | None => None
  | Some stop =>
      if ptr_eqb cur stop then Some []
      else
        match fuel, cur with
        | S k, Some c =>
            match exec 0 0 incr [("ptr", cur)] s with
            | Go e' s' | Ret e' s' =>
                match lookup "ptr" e' with
                | Some nxtp => match iter_src incr endp k s' nxtp with Some r => Some (c :: r) | None => None end
                | None => None
                end
            | Bad => None
            end
        | _, _ => None
        end
  end.

Definition iterate_src (incr : stmt) (beg endp : pexpr) (fuel : nat) (s : st) : option (list node) :=
  match eval_p 0 [] s beg with
  | Some b => iter_src incr endp fuel s b
  | None => None
  end.
