(* MiniDec.v — the little language into which translators/decoder.py translates, on every run, the three pieces of control
   flow of decode_dispatch_data (decode.hpp):
       the loop that decodes one multi-method's dispatch table in place          (gen_dtbl_loop)
       the lambda `fetch`                                                         (gen_fetch)
       the body of the loop over the classes: first slot, static v-table pointer, the loop over the v-table entries
                                                                                  (gen_class_body)
   and its interpreter over the state of Model/Codec.v (one buffer laid out like the emitted struct).  Locals hold 16-bit /
   word values (N) or booleans; the primitives that touch the buffers are the model's own (Codec.def_word, Codec.put and the
   bounds / overlap checks of Codec.fetch): what is translated is the control flow and which operand goes where.
   Proofs/DecSource.v proves that the decoder assembled from the translated pieces is Codec.decode.  No proofs here. *)
From Coq Require Import List NArith Bool String Arith ZArith.
From Y2 Require Import Model.Registry Model.Compile Gen.GenCodecConsts Model.Codec.
Import ListNotations.
Local Open Scope nat_scope.

Inductive dexp :=
| XNum (n : N)
| XVar (x : string)
| XStopBit
| XIndexBit
| XReadDtbl                          (* *dtbl_iter *)
| XBitAnd (a b : dexp)               (* a & b *)
| XBitAndNot (a b : dexp).           (* a & ~b *)

Inductive dcond :=
| CConst (b : bool)
| CNonZero (e : dexp)                (* e in a boolean context *)
| CNot (c : dcond)
| CLast                              (* the variable `last` that fetch sets *)
| CFlag (x : string)                 (* a bool local *)
| CArityIs1 (m : dexp).              (* m->arity() == 1, m a local loaded with SLoadMethod *)

Inductive dstmt :=
| SSkip
| SSeq (a b : dstmt)
| SLet (x : string) (e : dexp)       (* auto x = e;   x = e; *)
| SLetB (x : string) (c : dcond)     (* bool x = c;   x = c; *)
| SLetFetch (x : string)             (* auto x = fetch(); *)
| SLoadMethod (x : string) (mi : dexp)   (* auto x = methods[mi];   x is then the operand of CArityIs1 *)
| SStoreDef (e : dexp)               (* *dtbl_iter++ = defs[e]; *)
| SPutIdx (e : dexp)                 (* *decode_iter++ = e; *)
| SPutDef (mi g : dexp)              (* *decode_iter++ = method_defs[mi][g]; *)
| SPutRow (mi g : dexp)              (* *decode_iter++ = (std::uintptr_t)(dispatch_tables[mi] + g); *)
| SSetVptr (e : dexp)                (* *cls.static_vptr = decode_iter - e; *)
| SIf (c : dcond) (t e : dstmt)
| SWhile (c : dcond) (body : dstmt)
| SDoWhile (body : dstmt) (c : dcond).

(* the body of the lambda fetch *)
Inductive fstmt :=
| FAssertCursor                      (* BOOST_ASSERT((char* )(encode_iter + 1) >= (char* )decode_iter); *)
| FReadInc (x : string)              (* auto x = *encode_iter++; *)
| FSetLast (c : dcond)               (* last = c; *)
| FReturn (e : dexp).                (* return e; *)

Section Interp.
  Variables (E : encoded) (cells : list N) (ctx : reg_ctx) (dtoff : list nat).
  Variables (mi_cur : nat) (dt : list N).     (* for the dispatch-table loop: the method, and dtbls as initialised *)
  Variable fetch_body : list fstmt.

  Record vstate := mk_vs {
    v_env : list (string * N);
    v_benv : list (string * bool);
    v_ds : dstate;                     (* read / write cursors over the union, `last`, the words written, the log *)
    v_pos : nat;                       (* dtbl_iter - init.dtbls *)
    v_out : list word;                 (* the words stored through dtbl_iter by this loop, in order *)
    v_vptr : option Z                  (* *cls.static_vptr, as an offset from init.vtbls *)
  }.

  Fixpoint env_get {A} (env : list (string * A)) (x : string) : option A :=
    match env with
    | [] => None
    | (y, v) :: r => if String.eqb x y then Some v else env_get r x
    end.

  (* an undeclared local is a translation that does not type-check: reported as BadSpecIndex 0 0 never happens for the code;
     the interpreter needs SOME error: NoFuel is kept for loops, so a dedicated one is borrowed from the bounds family *)
  Definition ill_formed {A} : cres A := CErr TooManyInitializers.

  Fixpoint xeval (st : vstate) (e : dexp) : cres N :=
    match e with
    | XNum n => COk n
    | XVar x => match env_get (v_env st) x with Some v => COk v | None => ill_formed end
    | XStopBit => COk stop_bit
    | XIndexBit => COk index_bit
    | XReadDtbl => match nth_error dt (v_pos st) with Some c => COk c | None => CErr (ReadOutside (v_pos st)) end
    | XBitAnd a b => cdo x <- xeval st a; cdo y <- xeval st b; COk (N.land x y)
    | XBitAndNot a b => cdo x <- xeval st a; cdo y <- xeval st b; COk (N.ldiff x y)
    end.

  Fixpoint ceval (st : vstate) (c : dcond) : cres bool :=
    match c with
    | CConst b => COk b
    | CNonZero e => cdo x <- xeval st e; COk (negb (N.eqb x 0))
    | CNot c => cdo b <- ceval st c; COk (negb b)
    | CLast => COk (d_last (v_ds st))
    | CFlag x => match env_get (v_benv st) x with Some b => COk b | None => ill_formed end
    | CArityIs1 mi =>
        cdo m <- xeval st mi;
        match nth_error (x_arity ctx) (N.to_nat m) with
        | Some a => COk (a =? 1)
        | None => CErr (BadMethodIndex (N.to_nat m))
        end
    end.

  Definition set_env (st : vstate) (x : string) (v : N) : vstate :=
    mk_vs ((x, v) :: v_env st) (v_benv st) (v_ds st) (v_pos st) (v_out st) (v_vptr st).
  Definition set_benv (st : vstate) (x : string) (b : bool) : vstate :=
    mk_vs (v_env st) ((x, b) :: v_benv st) (v_ds st) (v_pos st) (v_out st) (v_vptr st).
  Definition set_ds (st : vstate) (d : dstate) : vstate :=
    mk_vs (v_env st) (v_benv st) d (v_pos st) (v_out st) (v_vptr st).

  (* the lambda: runs over the same state; returns the value of its return statement *)
  Fixpoint frun (body : list fstmt) (st : vstate) : cres (N * vstate) :=
    match body with
    | [] => ill_formed                     (* fell off the end without a return *)
    | FAssertCursor :: r =>
        let i := e_H E + e_S E + d_rd (v_ds st) in
        if S i <? words_per_cell_ratio * length (d_words (v_ds st)) then CErr (AssertFailed i) else frun r st
    | FReadInc x :: r =>
        let d := v_ds st in
        let i := e_H E + e_S E + d_rd d in
        if e_E E <=? d_rd d then CErr (ReadOutside i)
        else if i <? words_per_cell_ratio * length (d_words d) then CErr (ReadClobbered i)
        else frun r (set_env (set_ds st (mk_ds (d_words d) (S (d_rd d)) (d_last d) (d_log d))) x (nth i cells 0%N))
    | FSetLast c :: r =>
        cdo b <- ceval st c;
        let d := v_ds st in
        frun r (set_ds st (mk_ds (d_words d) (d_rd d) b (d_log d)))
    | FReturn e :: _ => cdo v <- xeval st e; COk (v, st)
    end.

  (* a call of fetch: the lambda's locals do not outlive the call *)
  Definition call_fetch (st : vstate) : cres (N * vstate) :=
    cdo r <- frun fetch_body st;
    let '(v, st') := r in
    COk (v, mk_vs (v_env st) (v_benv st) (v_ds st') (v_pos st') (v_out st') (v_vptr st')).

  Fixpoint while_loop (test : vstate -> cres bool) (step : vstate -> cres vstate) (fuel : nat) (st : vstate) : cres vstate :=
    match fuel with
    | 0 => CErr NoFuel
    | S f => cdo b <- test st; if b then cdo st' <- step st; while_loop test step f st' else COk st
    end.

  Fixpoint do_loop (step : vstate -> cres vstate) (test : vstate -> cres bool) (fuel : nat) (st : vstate) : cres vstate :=
    match fuel with
    | 0 => CErr NoFuel
    | S f => cdo st' <- step st; cdo b <- test st'; if b then do_loop step test f st' else COk st'
    end.

  Definition put_word (st : vstate) (w : word) : cres vstate :=
    cdo d <- put E (v_ds st) w; COk (set_ds st d).

  Fixpoint dexec (fuel : nat) (s : dstmt) (st : vstate) : cres vstate :=
    match s with
    | SSkip => COk st
    | SSeq a b => cdo st' <- dexec fuel a st; dexec fuel b st'
    | SLet x e => cdo v <- xeval st e; COk (set_env st x v)
    | SLetB x c => cdo b <- ceval st c; COk (set_benv st x b)
    | SLetFetch x => cdo r <- call_fetch st; let '(v, st') := r in COk (set_env st' x v)
    | SLoadMethod x mi =>
        cdo m <- xeval st mi;
        match nth_error (x_arity ctx) (N.to_nat m) with
        | Some _ => COk (set_env st x m)
        | None => CErr (BadMethodIndex (N.to_nat m))
        end
    | SStoreDef e =>
        cdo si <- xeval st e;
        cdo w <- def_word ctx mi_cur si;
        COk (mk_vs (v_env st) (v_benv st) (v_ds st) (S (v_pos st)) (v_out st ++ [w]) (v_vptr st))
    | SPutIdx e => cdo v <- xeval st e; put_word st (WIdx (N.to_nat v))
    | SPutDef mi g =>
        cdo m <- xeval st mi; cdo gi <- xeval st g;
        cdo w <- def_word ctx (N.to_nat m) gi;
        put_word st w
    | SPutRow mi g =>
        cdo m <- xeval st mi; cdo gi <- xeval st g;
        put_word st (WRow (nth (N.to_nat m) dtoff 0 + N.to_nat gi))
    | SSetVptr e =>
        cdo fs <- xeval st e;
        COk (mk_vs (v_env st) (v_benv st) (v_ds st) (v_pos st) (v_out st)
                   (Some (Z.of_nat (length (d_words (v_ds st))) - Z.of_N fs)%Z))
    | SIf c t e => cdo b <- ceval st c; if b then dexec fuel t st else dexec fuel e st
    | SWhile c body => while_loop (fun s => ceval s c) (dexec fuel body) fuel st
    | SDoWhile body c => do_loop (dexec fuel body) (fun s => ceval s c) fuel st
    end.
End Interp.

Definition vs_of (d : dstate) (pos : nat) : vstate := mk_vs [] [] d pos [] None.

(* ------------------------------------------------------------------ the decoder assembled from translated pieces *)
(* what the translator emits: the three pieces, and the facts of the skeleton it matched around them *)
Record dec_src := mk_dec_src {
  ds_dtbl_loop : dstmt;          (* runs once per multi-method, after `dispatch_tables[method_index] = dtbl_iter` *)
  ds_dtbl_extra_fuel : nat;      (* 1 for a `while (flag)` loop (one more test than iterations), 0 for do-while *)
  ds_fetch : list fstmt;
  ds_class_body : dstmt          (* per class whose static v-table pointer is null *)
}.

Section Assembled.
  Variable src : dec_src.

  (* for (auto& method : Policy::methods) { if (method.arity() > 1) { dispatch_tables[mi] = dtbl_iter; defs = method_defs[mi]; LOOP } ++mi; } *)
  Fixpoint dec_tables_src (ctx : reg_ctx) (mi : nat) (arities : list nat) (dt : list N) (pos : nat) : cres (list nat * list word) :=
    match arities with
    | [] => COk ([], [])
    | a :: rest =>
        if 1 <? a then
          cdo st <- dexec (mk_enc 0 0 0 0 0 [] [] []) [] ctx [] mi dt (ds_fetch src)
                          (S (length dt) + ds_dtbl_extra_fuel src) (ds_dtbl_loop src) (vs_of (mk_ds [] 0 false []) pos);
          cdo more <- dec_tables_src ctx (S mi) rest dt (v_pos st);
          COk (pos :: fst more, v_out st ++ snd more)
        else
          cdo more <- dec_tables_src ctx (S mi) rest dt pos;
          COk (0 :: fst more, snd more)
    end.

  (* for (auto& cls : Policy::classes) { if ( *cls.static_vptr != nullptr) continue; BODY } *)
  Fixpoint dec_classes_src (n : nat) (E : encoded) (cells : list N) (ctx : reg_ctx) (dtoff : list nat) (d : dstate)
    : cres (list Z * dstate) :=
    match n with
    | 0 => COk ([], d)
    | S n' =>
        cdo st <- dexec E cells ctx dtoff 0 [] (ds_fetch src) (S (e_E E)) (ds_class_body src) (vs_of d 0);
        match v_vptr st with
        | None => CErr TooManyInitializers       (* the body never set the static v-table pointer *)
        | Some vp =>
            cdo more <- dec_classes_src n' E cells ctx dtoff (v_ds st);
            COk (vp :: fst more, snd more)
        end
    end.

  Definition decode_src (ctx : reg_ctx) (E : encoded) : cres decoded :=
    if (e_S E <? length (e_slots E)) || (e_E E <? length (e_vtbls E)) || (e_T E <? length (e_dtbls E))
    then CErr TooManyInitializers
    else
      let cells := union_cells E in
      cdo ss <- dec_slots E cells (x_arity ctx) 0;
      cdo tb <- dec_tables_src ctx 0 (x_arity ctx) (pad (e_dtbls E) (e_T E)) 0;
      cdo r <- dec_classes_src (x_ncls ctx) E cells ctx (fst tb) (mk_ds [] 0 false []);
      let st := snd r in
      COk (mk_dec (snd tb) (d_words st) ss (fst r) (d_log st) (d_rd st)).
End Assembled.
