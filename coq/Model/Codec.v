(* Codec.v — executable model of generator::encode_dispatch_data (generator.hpp) and of
   decode_dispatch_data (decode.hpp), after fix b477860.

   encode : compiled -> encoded        what the generator emits from an update result: the five array bounds of
                                       the struct and the three initializer lists (16-bit cells, hex in the text)
   decode : reg_ctx -> encoded -> ...  the decoder as a step function over ONE buffer laid out like the emitted
                                       struct:
        union { struct { uint16_t headroom[H]; uint16_t slots[S]; uint16_t vtbls[E]; } encoded;
                std::uintptr_t vtbls[D]; };
        std::uintptr_t dtbls[T];
     The union is a list of 16-bit cells (never modified) plus the decoded 64-bit words written so far at
     word positions 0 .. wr-1; word k overlays cells 4k .. 4k+3, so a 16-bit read of a cell below 4*wr reads a
     piece of a decoded pointer: the model reports it (ReadClobbered).  Read cursor rd (index into
     encoded.vtbls), write cursor wr (= number of decoded words).  Every write is logged with the position of
     the read cursor at that moment.
   The last statement of the real decoder, Policy::publish_vptrs over one record per distinct type id (fix 3362c80),
   hands the static v-table pointers decoded here to the policy's vptr_vector / vptr_map exactly as update does; it
   is the same publish_vptrs and is not modelled again here (the harness exercises it with real calls).
   No proofs here. *)
From Y2 Require Import Model.Registry Model.Compile Gen.GenCodecConsts.
Local Open Scope nat_scope.

(* ------------------------------------------------------------------ 16-bit cells *)

Definition u16 (x : N) : N := N.modulo x (N.shiftl 1 cell_bits).           (* uint16_t(x) *)
Definition has_bit (b c : N) : bool := negb (N.eqb (N.land c b) 0).          (* c & b, as a condition *)
Definition clr_bit (b c : N) : N := N.ldiff c b.                             (* c & ~b *)
Definition nat16 (x : nat) : N := u16 (N.of_nat x).

Definition dummy_meth : cmeth := mk_cmeth [] [] [] [].
Definition dummy_tab : ctable := mk_ct [] [] [] (mk_rep 0 0 0 0 0 0) [].

Definition meth_arity (m : cmeth) : nat := length (cm_vp m).

(* definition::spec_index; the two dummies: ambiguous = specs.size(), not_implemented = specs.size() + 1 *)
Definition spec_index (nspecs : nat) (c : cell) : nat :=
  match c with CDef i => i | CAmb => nspecs | CNi => S nspecs end.

(* ------------------------------------------------------------------ encoder *)

Record encoded := mk_enc {
  e_H : nat;                 (* uint16_t headroom[H] *)
  e_S : nat;                 (* uint16_t slots[S] *)
  e_E : nat;                 (* uint16_t vtbls[E]  (encoded) *)
  e_D : nat;                 (* std::uintptr_t vtbls[D]  (decoded, overlaid) *)
  e_T : nat;                 (* std::uintptr_t dtbls[T] *)
  e_slots : list N;          (* initializers of encoded.slots *)
  e_vtbls : list N;          (* initializers of encoded.vtbls *)
  e_dtbls : list N           (* initializers of dtbls *)
}.

(* "Write slots and strides": per method, method->slots then method->strides, each cast to uint16_t *)
Definition enc_slots (C : compiled) : list N :=
  flat_map (fun '(sl, t) => map nat16 (sl ++ t_strides t)) (combine (o_slots C) (o_tables C)).

(* one v-table entry; stop is stop_bit for the last entry of the class, 0 otherwise *)
Definition enc_entry (C : compiled) (stop : N) (e : nat * nat * nat) : list N :=
  let '(mi, vpi, g) := e in
  if 0 <? vpi then
    [u16 (N.lor (N.lor (N.of_nat g) index_bit) stop)]
  else
    let m := nth mi (o_meths C) dummy_meth in
    let t := nth mi (o_tables C) dummy_tab in
    if meth_arity m =? 1
    then [nat16 mi; u16 (N.lor (N.of_nat (spec_index (length (cm_specs m)) (nth g (t_cells t) CNi))) stop)]
    else [nat16 mi; u16 (N.lor (N.of_nat g) stop)].

Fixpoint enc_entries (C : compiled) (es : list (nat * nat * nat)) : list N :=
  match es with
  | [] => []
  | [e] => enc_entry C stop_bit e
  | e :: rest => enc_entry C 0%N e ++ enc_entries C rest
  end.

(* first_slot | (vtbl.empty() ? stop_bit : 0), then the entries *)
Definition enc_class (C : compiled) (fs : nat) (es : list (nat * nat * nat)) : list N :=
  u16 (N.lor (N.of_nat fs) (match es with [] => stop_bit | _ => 0%N end)) :: enc_entries C es.

Definition enc_vtbls (C : compiled) : list N :=
  flat_map (fun '(fs, es) => enc_class C fs es) (combine (o_first C) (o_vtbl C)).

(* one multi-method dispatch table: spec indexes, the last one | stop_bit.
   (An empty table would be `end() - 1` of an empty vector in the real code; tables are never empty.) *)
Fixpoint enc_table (nspecs : nat) (cells : list cell) : list N :=
  match cells with
  | [] => []
  | [c] => [u16 (N.lor (nat16 (spec_index nspecs c)) stop_bit)]
  | c :: rest => nat16 (spec_index nspecs c) :: enc_table nspecs rest
  end.

Definition enc_dtbls (C : compiled) : list N :=
  flat_map (fun '(m, t) => if meth_arity m <? 2 then [] else enc_table (length (cm_specs m)) (t_cells t))
           (combine (o_meths C) (o_tables C)).

(* "Calculate data sizes" *)
Definition slots_and_strides_size (C : compiled) : nat :=
  fold_left (fun sum m => sum + 2 * meth_arity m - 1) (o_meths C) 0.

Definition dispatch_tables_size (C : compiled) : nat :=
  fold_left (fun sum '(m, t) => if meth_arity m =? 1 then sum else sum + length (t_cells t))
            (combine (o_meths C) (o_tables C)) 0.

(* the loop over classes and entries: (encode_vtbl_size, decode_vtbl_size, decode_lead) *)
Definition lead_entry (acc : nat * nat * nat) (e : nat * nat * nat) : nat * nat * nat :=
  let '(esz, dsz, lead) := acc in
  let '(_, vpi, _) := e in
  let esz' := if negb (vpi =? 0) then S esz else esz + 2 in
  let dsz' := S dsz in
  let decoded_cells := dsz' * decode_size / encode_size in
  (esz', dsz', if esz' <? decoded_cells then Nat.max lead (decoded_cells - esz') else lead).

Definition lead_class (acc : nat * nat * nat) (es : list (nat * nat * nat)) : nat * nat * nat :=
  let '(esz, dsz, lead) := acc in fold_left lead_entry es (S esz, dsz, lead).

Definition vtbl_sizes (C : compiled) : nat * nat * nat := fold_left lead_class (o_vtbl C) (0, 0, 0).

Definition encode (C : compiled) : encoded :=
  let s := slots_and_strides_size C in
  let '(esz, dsz, lead) := vtbl_sizes C in
  let headroom := if s <? lead then lead - s else 1 in
  mk_enc headroom s esz (Nat.max dsz 1) (Nat.max (dispatch_tables_size C) 1)
         (enc_slots C) (enc_vtbls C) (enc_dtbls C).

(* ------------------------------------------------------------------ decoder *)

(* what the decoding process knows from its own registrations: per method its arity and the number of its
   definitions, and the number of classes (distinct static v-table pointer variables, all null) *)
Record reg_ctx := mk_ctx { x_arity : list nat; x_nspecs : list nat; x_ncls : nat }.

Definition ctx_of (C : compiled) : reg_ctx :=
  mk_ctx (map meth_arity (o_meths C)) (map (fun m => length (cm_specs m)) (o_meths C)) (length (l_keys (o_lat C))).

Inductive cerr :=
| TooManyInitializers        (* an initializer list longer than its array: the text does not compile *)
| ReadOutside (i : nat)      (* read past the end of encoded.slots / encoded.vtbls / dtbls *)
| ReadClobbered (i : nat)    (* 16-bit read of union cell i, already overwritten by a decoded word *)
| AssertFailed (i : nat)     (* BOOST_ASSERT((char* )(encode_iter + 1) >= (char* )decode_iter) *)
| WriteOutside (w : nat)     (* write to vtbls[w] with w >= D *)
| BadMethodIndex (mi : nat)  (* methods[mi] / method_defs[mi] outside the alloca'd arrays *)
| BadSpecIndex (mi si : nat) (* method_defs[mi][si] outside the alloca'd array of specs.size() + 2 *)
| NoFuel.

Inductive cres (A : Type) := COk (a : A) | CErr (e : cerr).
Arguments COk {A} a.
Arguments CErr {A} e.

Definition cbind {A B} (r : cres A) (f : A -> cres B) : cres B :=
  match r with COk a => f a | CErr e => CErr e end.
Notation "'cdo' x <- r ; k" := (cbind r (fun x => k)) (at level 200, x pattern, r at level 100, k at level 200).

Definition pad (l : list N) (n : nat) : list N := l ++ repeat 0%N (n - length l).

(* the encoded member of the union as initialized: headroom ({}: zeros), slots, vtbls *)
Definition union_cells (E : encoded) : list N :=
  repeat 0%N (e_H E) ++ pad (e_slots E) (e_S E) ++ pad (e_vtbls E) (e_E E).

(* method_defs[mi][si]: the definitions, then ambiguous, then not_implemented *)
Definition def_word (ctx : reg_ctx) (mi : nat) (si : N) : cres word :=
  match nth_error (x_nspecs ctx) mi with
  | None => CErr (BadMethodIndex mi)
  | Some n =>
      let i := N.to_nat si in
      if i <? n then COk (WFn mi i)
      else if i =? n then COk (WAmb mi)
      else if i =? S n then COk (WNi mi)
      else CErr (BadSpecIndex mi i)
  end.

(* std::copy_n(packed_slots_iter, 2 * arity - 1, method.slots_strides_ptr) for every method *)
Fixpoint dec_slots (E : encoded) (cells : list N) (arities : list nat) (pos : nat) : cres (list (list nat)) :=
  match arities with
  | [] => COk []
  | a :: rest =>
      let n := 2 * a - 1 in
      if e_S E <? pos + n then CErr (ReadOutside (pos + n))
      else cdo more <- dec_slots E cells rest (pos + n);
           COk (map (fun i => N.to_nat (nth (e_H E + pos + i) cells 0%N)) (seq 0 n) :: more)
  end.

(* one dispatch table, in place in dtbls: while (more) { more = !( *it & stop_bit); *it++ = defs[ *it & ~stop_bit]; } *)
Fixpoint dec_table (fuel : nat) (ctx : reg_ctx) (mi : nat) (dt : list N) (pos : nat) : cres (list word * nat) :=
  match fuel with
  | 0 => CErr NoFuel
  | S f =>
      match nth_error dt pos with
      | None => CErr (ReadOutside pos)
      | Some c =>
          cdo w <- def_word ctx mi (clr_bit stop_bit c);
          if has_bit stop_bit c then COk ([w], S pos)
          else cdo r <- dec_table f ctx mi dt (S pos); COk (w :: fst r, snd r)
      end
  end.

(* all the multi-methods: dispatch_tables[mi] (as an offset into dtbls; never read for a uni-method) and the words *)
Fixpoint dec_tables (ctx : reg_ctx) (mi : nat) (arities : list nat) (dt : list N) (pos : nat) : cres (list nat * list word) :=
  match arities with
  | [] => COk ([], [])
  | a :: rest =>
      if 1 <? a then
        cdo r <- dec_table (S (length dt)) ctx mi dt pos;
        cdo more <- dec_tables ctx (S mi) rest dt (snd r);
        COk (pos :: fst more, fst r ++ snd more)
      else
        cdo more <- dec_tables ctx (S mi) rest dt pos;
        COk (0 :: fst more, snd more)
  end.

(* state of the v-table loop *)
Record dstate := mk_ds {
  d_words : list word;        (* vtbls[0 .. wr) as decoded so far; wr = length *)
  d_rd : nat;                 (* encode_iter - init.encoded.vtbls *)
  d_last : bool;
  d_log : list (nat * nat)    (* per write: (word index written, union cell index of the read cursor) *)
}.

Definition words_per_cell_ratio : nat := decode_size / encode_size.     (* 16-bit cells per decoded word *)

(* fetch(): code = *encode_iter++; last = code & stop_bit; return code & ~stop_bit *)
Definition fetch (E : encoded) (cells : list N) (st : dstate) : cres (N * dstate) :=
  let i := e_H E + e_S E + d_rd st in
  let wr_cells := words_per_cell_ratio * length (d_words st) in
  if S i <? wr_cells then CErr (AssertFailed i)
  else if e_E E <=? d_rd st then CErr (ReadOutside i)
  else if i <? wr_cells then CErr (ReadClobbered i)
  else let c := nth i cells 0%N in
       COk (clr_bit stop_bit c, mk_ds (d_words st) (S (d_rd st)) (has_bit stop_bit c) (d_log st)).

(* *decode_iter++ = w *)
Definition put (E : encoded) (st : dstate) (w : word) : cres dstate :=
  let wr := length (d_words st) in
  if e_D E <=? wr then CErr (WriteOutside wr)
  else COk (mk_ds (d_words st ++ [w]) (d_rd st) (d_last st) (d_log st ++ [(wr, e_H E + e_S E + d_rd st)])).

(* while (!last) { code = fetch(); ... } *)
Fixpoint dec_entries (fuel : nat) (E : encoded) (cells : list N) (ctx : reg_ctx) (dtoff : list nat) (st : dstate) : cres dstate :=
  match fuel with
  | 0 => CErr NoFuel
  | S f =>
      if d_last st then COk st
      else
        cdo r <- fetch E cells st;
        let '(code, st1) := r in
        if has_bit index_bit code then
          cdo st2 <- put E st1 (WIdx (N.to_nat (clr_bit index_bit code)));
          dec_entries f E cells ctx dtoff st2
        else
          let mi := N.to_nat code in
          match nth_error (x_arity ctx) mi with
          | None => CErr (BadMethodIndex mi)
          | Some a =>
              cdo r2 <- fetch E cells st1;
              let '(g, st2) := r2 in
              if a =? 1 then
                cdo w <- def_word ctx mi g;
                cdo st3 <- put E st2 w;
                dec_entries f E cells ctx dtoff st3
              else
                cdo st3 <- put E st2 (WRow (nth mi dtoff 0 + N.to_nat g));
                dec_entries f E cells ctx dtoff st3
          end
  end.

(* for (auto& cls : Policy::classes) — one iteration per class whose static v-table pointer is still null:
     first_slot = fetch(); *cls.static_vptr = decode_iter - first_slot; while (!last) ... *)
Fixpoint dec_classes (n : nat) (E : encoded) (cells : list N) (ctx : reg_ctx) (dtoff : list nat) (st : dstate)
  : cres (list Z * dstate) :=
  match n with
  | 0 => COk ([], st)
  | S n' =>
      cdo r <- fetch E cells st;
      let '(fs, st1) := r in
      let vp := (Z.of_nat (length (d_words st1)) - Z.of_N fs)%Z in
      cdo st2 <- dec_entries (S (e_E E)) E cells ctx dtoff st1;
      cdo more <- dec_classes n' E cells ctx dtoff st2;
      COk (vp :: fst more, snd more)
  end.

Record decoded := mk_dec {
  dd_tables : list word;       (* dtbls[0 .. number of multi-method cells) *)
  dd_vtbls : list word;        (* vtbls[0 .. number of v-table entries) *)
  dd_ss : list (list nat);     (* slots_strides of every method *)
  dd_vptr : list Z;            (* static v-table pointer of every class, as an offset from init.vtbls *)
  dd_log : list (nat * nat);
  dd_rd : nat                  (* final read cursor *)
}.

(* the decoded arrays, dispatch tables first: comparable with Policy::dispatch_data after update
   (WRow a = address of cell a of this image) *)
Definition dd_image (d : decoded) : list word := dd_tables d ++ dd_vtbls d.

Definition decode (ctx : reg_ctx) (E : encoded) : cres decoded :=
  if (e_S E <? length (e_slots E)) || (e_E E <? length (e_vtbls E)) || (e_T E <? length (e_dtbls E))
  then CErr TooManyInitializers
  else
    let cells := union_cells E in
    cdo ss <- dec_slots E cells (x_arity ctx) 0;
    cdo tb <- dec_tables ctx 0 (x_arity ctx) (pad (e_dtbls E) (e_T E)) 0;
    cdo r <- dec_classes (x_ncls ctx) E cells ctx (fst tb) (mk_ds [] 0 false []);
    let st := snd r in
    COk (mk_dec (snd tb) (d_words st) ss (fst r) (d_log st) (d_rd st)).

(* ------------------------------------------------------------------ what the theorems quantify over *)

(* every number the encoder emits fits below the two marker bits: slots, strides, first slots, method indexes,
   group indexes, spec indexes including the two pseudo-indexes of the error stubs *)
Definition lim : nat := N.to_nat index_bit.
Definition smallb (C : compiled) : bool :=
  forallb (forallb (fun x => x <? lim)) (o_slots C)
  && forallb (fun t => forallb (fun x => x <? lim) (t_strides t)) (o_tables C)
  && forallb (fun x => x <? lim) (o_first C)
  && (length (o_meths C) <=? lim)
  && forallb (forallb (fun e : nat * nat * nat => snd e <? lim)) (o_vtbl C)
  && forallb (fun m => S (length (cm_specs m)) <? lim) (o_meths C).
Definition small (C : compiled) : Prop := smallb C = true.

(* the cells of Policy::dispatch_data that install_gv writes: multi-method tables, then the v-tables *)
Definition tables_len (C : compiled) : nat :=
  fold_left (fun s '(m, t) => if meth_arity m =? 1 then s else s + length (t_cells t)) (combine (o_meths C) (o_tables C)) 0.
Definition vtbls_len (C : compiled) : nat := fold_left (fun s l => s + length l) (o_vtbl C) 0.
Definition written (C : compiled) : nat := tables_len C + vtbls_len C.

(* ------------------------------------------------------------------ the three pre-fix behaviours (b477860) *)

(* decoded size: `decode_vtbl_size += cls.vtbl.size() - cls.first_slot` (first_slot subtracted a second time);
   headroom: (decode*8 - (encode - slots)*2) / 2 in unsigned arithmetic, printed with %d;
   first_slot emitted without the stop bit for an empty v-table; do { } while (!last) in the decoder *)
Definition legacy_dsize (C : compiled) : Z :=
  fold_left (fun s '(fs, es) => (s + Z.of_nat (length es) - Z.of_nat fs)%Z) (combine (o_first C) (o_vtbl C)) 0%Z.
Definition legacy_headroom (C : compiled) : Z :=
  let '(esz, _, _) := vtbl_sizes C in
  ((legacy_dsize C * Z.of_nat decode_size - (Z.of_nat esz - Z.of_nat (slots_and_strides_size C)) * Z.of_nat encode_size)
   / Z.of_nat encode_size)%Z.
Definition enc_class_legacy (C : compiled) (fs : nat) (es : list (nat * nat * nat)) : list N :=
  nat16 fs :: enc_entries C es.
Definition enc_vtbls_legacy (C : compiled) : list N :=
  flat_map (fun '(fs, es) => enc_class_legacy C fs es) (combine (o_first C) (o_vtbl C)).
