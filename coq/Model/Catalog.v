(* C18 — executable model of yorel::yomm2::detail::static_list<T>
   (/repo/include/yorel/yomm2/detail/static_list.hpp), the intrusive list behind the
   registration catalogs  Policy::classes, Policy::methods, method_info::specs.

   NO proofs in this file (see Proofs/CatalogProofs.v), so that the model still runs when a
   proof breaks.

   A node is the address of a static_link (class_info, method_info, definition_info);
   here: a natural number. The heap is the pair of pointer maps prev_ptr / next_ptr; a null
   pointer is None. `fault` is raised where the C++ would dereference a null pointer, fail
   BOOST_ASSERT(first != nullptr), or where a fuelled loop of the model runs out of fuel: the
   theorems show it stays false on every state that represents a list. *)
From Coq Require Import List Arith Bool.
Import ListNotations.

Definition node := nat.

Record st := {
  first : option node;            (* T* first *)
  prv : node -> option node;      (* T* static_link::prev_ptr *)
  nxt : node -> option node;      (* T* static_link::next_ptr *)
  fault : bool
}.

(* a static_list with static storage duration and a pool of static nodes: all zero *)
Definition empty_st : st :=
  {| first := None; prv := fun _ => None; nxt := fun _ => None; fault := false |}.

Definition upd (f : node -> option node) (k : node) (v : option node) : node -> option node :=
  fun x => if Nat.eqb x k then v else f x.

Definition is_null (o : option node) : bool := match o with None => true | Some _ => false end.

(* p == &node *)
Definition ptr_is (o : option node) (n : node) : bool :=
  match o with Some m => Nat.eqb m n | None => false end.

Definition crashed (s : st) : st :=
  {| first := first s; prv := prv s; nxt := nxt s; fault := true |}.

(* BOOST_ASSERT(node.prev_ptr == nullptr); BOOST_ASSERT(node.next_ptr == nullptr);
   the precondition of push_back. What the code does when it is violated and NDEBUG is
   defined is out of scope: every theorem about push_back assumes it. *)
Definition push_pre (s : st) (n : node) : bool := is_null (prv s n) && is_null (nxt s n).

(*  void push_back(T& node) {
        if (!first) { first = &node; node.prev_ptr = &node; return; }
        auto last = first->prev_ptr;
        last->next_ptr = &node;
        node.prev_ptr = last;
        first->prev_ptr = &node;
    }                                                                      *)
Definition push_back (s : st) (n : node) : st :=
  match first s with
  | None =>
      {| first := Some n; prv := upd (prv s) n (Some n); nxt := nxt s; fault := fault s |}
  | Some f =>
      match prv s f with
      | Some last =>
          let nxt1 := upd (nxt s) last (Some n) in
          let prv1 := upd (prv s) n (Some last) in
          let prv2 := upd prv1 f (Some n) in
          {| first := Some f; prv := prv2; nxt := nxt1; fault := fault s |}
      | None => crashed s                                   (* last->next_ptr, last == nullptr *)
      end
  end.

(*  void remove(T& node) {
        BOOST_ASSERT(first != nullptr);
        auto prev = node.prev_ptr; auto next = node.next_ptr; auto last = first->prev_ptr;
        node.prev_ptr = nullptr; node.next_ptr = nullptr;
        if (&node == last) {
            if (&node == first) { first = nullptr; return; }          -- only element
            first->prev_ptr = prev; prev->next_ptr = nullptr; return;  -- last of several
        }
        if (&node == first) { first = next; first->prev_ptr = last; return; }   -- first of several
        prev->next_ptr = next; next->prev_ptr = prev;                  -- middle
    }                                                                      *)
Definition remove (s : st) (n : node) : st :=
  match first s with
  | None => crashed s
  | Some f =>
      let prev := prv s n in
      let next := nxt s n in
      let last := prv s f in
      let prv0 := upd (prv s) n None in
      let nxt0 := upd (nxt s) n None in
      if ptr_is last n then
        if Nat.eqb n f then
          {| first := None; prv := prv0; nxt := nxt0; fault := fault s |}
        else
          match prev with
          | Some p =>
              {| first := Some f; prv := upd prv0 f prev; nxt := upd nxt0 p None; fault := fault s |}
          | None => crashed s
          end
      else if Nat.eqb n f then
        match next with
        | Some nx =>
            {| first := Some nx; prv := upd prv0 nx last; nxt := nxt0; fault := fault s |}
        | None => crashed s
        end
      else
        match prev, next with
        | Some p, Some nx =>
            {| first := Some f; prv := upd prv0 nx prev; nxt := upd nxt0 p next; fault := fault s |}
        | _, _ => crashed s
        end
  end.

(*  void clear() {
        auto next = first; first = nullptr;
        while (next) { auto cur = next; next = cur->next_ptr;
                       cur->prev_ptr = nullptr; cur->next_ptr = nullptr; }
    }
   The loop runs on fuel; returns (prev map, next map, ran out of fuel). *)
Fixpoint clear_loop (fuel : nat) (cur : option node) (p nx : node -> option node)
  : (node -> option node) * (node -> option node) * bool :=
  match cur with
  | None => (p, nx, false)
  | Some c =>
      match fuel with
      | O => (p, nx, true)
      | S k => clear_loop k (nx c) (upd p c None) (upd nx c None)
      end
  end.

Definition clear (fuel : nat) (s : st) : st :=
  match clear_loop fuel (first s) (prv s) (nxt s) with
  | (p, nx, oof) => {| first := None; prv := p; nxt := nx; fault := fault s || oof |}
  end.

(*  for (auto it = begin(); it != end(); ++it)   with begin() = iterator(first),
    operator++ : ptr = ptr->next_ptr, end() = iterator(nullptr).
    None = out of fuel (a cycle in next_ptr makes the C++ loop run forever). *)
Fixpoint iter_from (fuel : nat) (nx : node -> option node) (cur : option node)
  : option (list node) :=
  match cur with
  | None => Some []
  | Some c =>
      match fuel with
      | O => None
      | S k => match iter_from k nx (nx c) with Some r => Some (c :: r) | None => None end
      end
  end.

Definition iterate (fuel : nat) (s : st) : option (list node) := iter_from fuel (nxt s) (first s).

(* std::distance(begin(), end()) *)
Definition size (fuel : nat) (s : st) : option nat :=
  match iterate fuel s with Some l => Some (length l) | None => None end.

(* bool empty() const { return !first; } *)
Definition empty (s : st) : bool := is_null (first s).

(* ------------------------------------------------------------------------------------------
   Specification: a catalog is a list of nodes; the operations are the obvious list operations.
   (Reader-facing; nothing below mentions pointers.)                                           *)

Inductive op := Push (n : node) | Remove (n : node) | Clear.

Fixpoint mem (n : node) (l : list node) : bool :=
  match l with [] => false | x :: t => Nat.eqb x n || mem n t end.

(* removes the first occurrence; on a duplicate-free list: the occurrence *)
Fixpoint remove_elt (n : node) (l : list node) : list node :=
  match l with
  | [] => []
  | x :: t => if Nat.eqb x n then t else x :: remove_elt n t
  end.

Definition abs_step (l : list node) (o : op) : list node :=
  match o with
  | Push n => l ++ [n]
  | Remove n => remove_elt n l
  | Clear => []
  end.

(* registering what is registered, unregistering what is not: outside the contract *)
Definition legal (l : list node) (o : op) : bool :=
  match o with
  | Push n => negb (mem n l)
  | Remove n => mem n l
  | Clear => true
  end.

Fixpoint legal_seq (l : list node) (ops : list op) : bool :=
  match ops with
  | [] => true
  | o :: r => legal l o && legal_seq (abs_step l o) r
  end.

Definition abs_run (l : list node) (ops : list op) : list node := fold_left abs_step ops l.

(* Closed form of abs_run [] ops, independent of it: the pushes that no later Remove of the same
   node and no later Clear undoes, in the order they were pushed. *)
Fixpoint survives (n : node) (rest : list op) : bool :=
  match rest with
  | [] => true
  | Push _ :: r => survives n r
  | Remove m :: r => negb (Nat.eqb m n) && survives n r
  | Clear :: _ => false
  end.

Fixpoint live_pushes (ops : list op) : list node :=
  match ops with
  | [] => []
  | Push n :: r => if survives n r then n :: live_pushes r else live_pushes r
  | _ :: r => live_pushes r
  end.

(* the concrete machine *)
Definition step (fuel : nat) (s : st) (o : op) : st :=
  match o with
  | Push n => push_back s n
  | Remove n => remove s n
  | Clear => clear fuel s
  end.

Definition run_from (fuel : nat) (s : st) (ops : list op) : st := fold_left (step fuel) ops s.
Definition run (fuel : nat) (ops : list op) : st := run_from fuel empty_st ops.

(* which of the four branches of remove an abstract removal takes (for test statistics) *)
Inductive rcase := ROnly | RFirst | RLast | RMiddle | RAbsent.
Definition remove_case (n : node) (l : list node) : rcase :=
  if negb (mem n l) then RAbsent
  else match l with
       | [] => RAbsent
       | [_] => ROnly
       | f :: _ => if Nat.eqb f n then RFirst
                   else if Nat.eqb (last l f) n then RLast else RMiddle
       end.
