(* Errors.v — what a call does with the word resolve returns: run the definition, or build the resolution_error
   record and hand it to the policy's error handler (method::not_implemented_handler / ambiguous_handler after fix
   1f8bcd8).  The handler either throws (the exception reaches the caller) or returns (the stub then aborts). *)
From Y2 Require Import Model.Registry Model.Compile Gen.GenCoreConsts.
Local Open Scope nat_scope.

Record resolution_error := mk_rerr {
  re_status : nat;
  re_arity : nat;
  re_types : list tid
}.

Inductive handler_behaviour := Throws | Returns.
Inductive call_outcome :=
| Ran (m i : nat)                          (* definition i of method m ran *)
| Exception (e : resolution_error)         (* the handler threw: the exception reaches the caller *)
| Abort (e : resolution_error)             (* the handler returned: abort() *)
| Stuck (e : error).                       (* resolve itself failed (never for legal calls: C01) *)

(* actual arguments of a call: the dynamic type id of each virtual argument, nothing for the others *)
Definition virtual_ids (acts : list (option tid)) : list tid :=
  flat_map (fun a => match a with Some t => [t] | None => [] end) acts.

Definition make_error (status : nat) (acts : list (option tid)) : resolution_error :=
  let ids := virtual_ids acts in
  mk_rerr status (length ids) (firstn (Nat.min (length ids) max_types) ids).

Definition finish_call (h : handler_behaviour) (acts : list (option tid)) (r : result word) : call_outcome :=
  match r with
  | Ok (WFn m i) => Ran m i
  | Ok (WNi _) => match h with Throws => Exception (make_error status_no_definition acts) | Returns => Abort (make_error status_no_definition acts) end
  | Ok (WAmb _) => match h with Throws => Exception (make_error status_ambiguous acts) | Returns => Abort (make_error status_ambiguous acts) end
  | Ok _ => Stuck (BadRead (-3)%Z)
  | Err e => Stuck e
  end.
