(* MiniGv.v — the little language into which translators/installgv.py translates, on every run,
       compiler<Policy>::install_gv()                                                        (detail/compiler.hpp)
   and its interpreter.  install_gv sizes Policy::dispatch_data, then walks the methods (slots and strides into the method's
   static array; a multi-method's dispatch table copied at the cursor) and the classes (static v-table pointer, one word per
   v-table entry).  The two loops are constructs of the language; their bodies are lowered statement by statement, with
   `continue`.  The coarse statements (std::copy of slots then strides, std::transform of a dispatch table) are primitives.
   The translated function is in Gen/GenGv.v; Proofs/GvSource.v proves that running it yields the image, the dispatch-table
   offsets, the static v-table pointers and the slots_strides of Model.Compile.install_with, and that no BOOST_ASSERT on the
   cursor fails.  No proofs in this file. *)
From Coq Require Import List NArith ZArith Bool Arith.
From Y2 Require Import Model.Registry Model.Compile.
Import ListNotations.

Inductive gcond :=
| GArityIs1                   (* in the methods loop: m.info->arity() == 1;  in the entries loop: method.arity() == 1 *)
| GFirstSlotIsMinus1          (* cls.first_slot == -1 *)
| GVpIndexIs0                 (* entry.vp_index == 0 *)
| GNot (c : gcond).

(* what is stored in a v-table slot *)
Inductive gval :=
| GVSpecPf                    (* method.dispatch_table[entry.group_index]->pf *)
| GVRow                       (* std::uintptr_t(method.gv_dispatch_table + entry.group_index) *)
| GVIdx                       (* entry.group_index *)
| GVLocal                     (* the local word *)
| GVIf (c : gcond) (a b : gval).   (* c ? a : b *)

Inductive gsize := ZTable (* m.dispatch_table.size() *) | ZOne.

Inductive gstmt :=
| GSkip
| GSeq (a b : gstmt)
| GIf (c : gcond) (t e : gstmt)
| GContinue
| GSetSS0                     (* m.info->slots_strides_ptr[0] = m.slots[0]; *)
| GCopySlotsStrides           (* strides_iter = std::copy(m.slots..., slots_strides_ptr); std::copy(m.strides..., strides_iter); *)
| GMarkTable                  (* m.gv_dispatch_table = gv_iter; *)
| GAssertRoom (n : gsize)     (* BOOST_ASSERT(gv_iter + n <= gv_last); *)
| GEmitTable                  (* gv_iter = std::transform(m.dispatch_table..., gv_iter, spec -> spec->pf); *)
| GSetVptrHere                (* *cls.static_vptr = gv_iter; *)
| GSetVptrBiased              (* *cls.static_vptr = gv_iter - cls.first_slot; *)
| GForEntries (body : gstmt)  (* for (auto& entry : cls.vtbl) { auto& method = methods[entry.method_index]; body } *)
| GLetWord (v : gval)         (* word = v;      (a local std::uintptr_t of the entries loop) *)
| GEmit (v : gval).           (* *gv_iter++ = v; *)

(* the whole function: how dispatch_data is sized, then the two loops in the order the code has them *)
Inductive gsizing := SzTablesPlusVtbls.      (* sum of m.dispatch_table.size() over ALL methods + sum of cls.vtbl.size() *)
Inductive gloop := LMethods (body : gstmt) | LClasses (body : gstmt).
Record gfun := mk_gfun { gf_size : gsizing; gf_loops : list gloop }.

Record gstate := mk_gs {
  g_img : list word;           (* the words written through gv_iter, in order; gv_iter = gv_first + length *)
  g_ss : list (list nat);      (* slots_strides_ptr of the methods visited so far *)
  g_offs : list nat;           (* gv_dispatch_table of the methods visited so far (0: not assigned by this update) *)
  g_vptrs : list Z             (* static v-table pointers of the classes visited so far, as offsets from gv_first *)
}.

Section Interp.
  Variables (ms : list cmeth) (tables : list ctable).
  Variable total : nat.        (* dispatch_data.size() after the resize: gv_last - gv_first *)

  Definition dummy_m : cmeth := mk_cmeth [] [] [] [].
  Definition dummy_t : ctable := mk_ct [] [] [] (mk_rep 0 0 0 0 0 0) [].

  (* the context of a statement: which loop it is in *)
  Inductive gctx :=
  | XMethod (mi : nat) (slots : list nat)                       (* the method being visited and its slots *)
  | XClass (first : option nat)                                 (* None: first_slot == -1 *)
  | XEntry (first : option nat) (e : nat * nat * nat) (offs : list nat).   (* offs: gv_dispatch_table of every method *)

  Definition ctx_method_arity (x : gctx) : option nat :=
    match x with
    | XMethod mi _ => Some (length (cm_vp (nth mi ms dummy_m)))
    | XEntry _ (mi, _, _) _ => Some (length (cm_vp (nth mi ms dummy_m)))
    | XClass _ => None
    end.

  Fixpoint gceval (x : gctx) (c : gcond) : option bool :=
    match c with
    | GArityIs1 => match ctx_method_arity x with Some a => Some (a =? 1) | None => None end
    | GFirstSlotIsMinus1 => match x with
                            | XClass f | XEntry f _ _ => Some (match f with None => true | Some _ => false end)
                            | XMethod _ _ => None
                            end
    | GVpIndexIs0 => match x with XEntry _ (_, vpi, _) _ => Some (vpi =? 0) | _ => None end
    | GNot c => match gceval x c with Some b => Some (negb b) | None => None end
    end.

  (* per-method / per-class results that the loop collects after the body *)
  Record gacc := mk_ga {
    a_img : list word;
    a_ss : option (list nat);      (* what this method's slots_strides_ptr received *)
    a_off : option nat;            (* this method's gv_dispatch_table, if assigned *)
    a_vptr : option Z;             (* this class's static v-table pointer, if assigned *)
    a_word : option word           (* the local word of the entries loop, if assigned *)
  }.

  Inductive gres := GGo (a : gacc) | GCont (a : gacc) | GFault.

  Definition emit (a : gacc) (ws : list word) : gacc := mk_ga (a_img a ++ ws) (a_ss a) (a_off a) (a_vptr a) (a_word a).

  Fixpoint gveval (x : gctx) (a : gacc) (v : gval) : option word :=
    match v with
    | GVSpecPf => match x with XEntry _ (mi, _, g) _ => Some (word_of_cell mi (nth g (t_cells (nth mi tables dummy_t)) CNi)) | _ => None end
    | GVRow => match x with XEntry _ (mi, _, g) offs => Some (WRow (nth mi offs 0 + g)) | _ => None end
    | GVIdx => match x with XEntry _ (_, _, g) _ => Some (WIdx g) | _ => None end
    | GVLocal => a_word a
    | GVIf c p q => match gceval x c with Some true => gveval x a p | Some false => gveval x a q | None => None end
    end.

  Section Entries.
    Variable exec_entry : gctx -> gacc -> gres.
    Fixpoint entries_loop (first : option nat) (offs : list nat) (es : list (nat * nat * nat)) (a : gacc) : gres :=
      match es with
      | [] => GGo a
      | e :: r => match exec_entry (XEntry first e offs) (mk_ga (a_img a) (a_ss a) (a_off a) (a_vptr a) None) with
                  | GGo a' | GCont a' => entries_loop first offs r a'
                  | GFault => GFault
                  end
      end.
  End Entries.

  (* offs_all: gv_dispatch_table of every method, as known when the classes are visited;  vt_cur: the v-table of the class
     being visited (for GForEntries) *)
  Fixpoint gexec (offs_all : list nat) (vt_cur : list (nat * nat * nat)) (s : gstmt) (x : gctx) (a : gacc) : gres :=
    match s with
    | GSkip => GGo a
    | GSeq p q => match gexec offs_all vt_cur p x a with GGo a' => gexec offs_all vt_cur q x a' | r => r end
    | GIf c t e => match gceval x c with
                   | Some true => gexec offs_all vt_cur t x a
                   | Some false => gexec offs_all vt_cur e x a
                   | None => GFault
                   end
    | GContinue => GCont a
    | GSetSS0 => match x with
                 | XMethod mi slots => GGo (mk_ga (a_img a) (Some (firstn 1 slots)) (a_off a) (a_vptr a) (a_word a))
                 | _ => GFault
                 end
    | GCopySlotsStrides => match x with
                           | XMethod mi slots => GGo (mk_ga (a_img a) (Some (slots ++ t_strides (nth mi tables dummy_t))) (a_off a) (a_vptr a) (a_word a))
                           | _ => GFault
                           end
    | GMarkTable => match x with
                    | XMethod _ _ => GGo (mk_ga (a_img a) (a_ss a) (Some (length (a_img a))) (a_vptr a) (a_word a))
                    | _ => GFault
                    end
    | GAssertRoom n =>
        let k := match n, x with
                 | ZOne, _ => Some 1
                 | ZTable, XMethod mi _ => Some (length (t_cells (nth mi tables dummy_t)))
                 | ZTable, _ => None
                 end in
        match k with
        | Some k => if length (a_img a) + k <=? total then GGo a else GFault
        | None => GFault
        end
    | GEmitTable => match x with
                    | XMethod mi _ => GGo (emit a (map (word_of_cell mi) (t_cells (nth mi tables dummy_t))))
                    | _ => GFault
                    end
    | GSetVptrHere => match x with
                      | XClass _ => GGo (mk_ga (a_img a) (a_ss a) (a_off a) (Some (Z.of_nat (length (a_img a)))) (a_word a))
                      | _ => GFault
                      end
    | GSetVptrBiased => match x with
                        | XClass (Some f) => GGo (mk_ga (a_img a) (a_ss a) (a_off a) (Some (Z.of_nat (length (a_img a)) - Z.of_nat f)%Z) (a_word a))
                        | _ => GFault        (* first_slot == -1 as an unsigned bias: not a meaningful pointer *)
                        end
    | GForEntries body => match x with
                          | XClass f => entries_loop (fun x' a' => gexec offs_all [] body x' a') f offs_all vt_cur a
                          | _ => GFault
                          end
    | GLetWord v => match gveval x a v with
                    | Some w => GGo (mk_ga (a_img a) (a_ss a) (a_off a) (a_vptr a) (Some w))
                    | None => GFault
                    end
    | GEmit v => match gveval x a v with Some w => GGo (emit a [w]) | None => GFault end
    end.

  Fixpoint methods_loop (body : gstmt) (mi : nat) (slots_all : list (list nat)) (n : nat) (st : gstate) : option gstate :=
    match n with
    | 0 => Some st
    | S n' =>
        match gexec [] [] body (XMethod mi (nth mi slots_all [])) (mk_ga (g_img st) None None None None) with
        | GGo a | GCont a =>
            match a_ss a with
            | Some ss => methods_loop body (S mi) slots_all n'
                           (mk_gs (a_img a) (g_ss st ++ [ss]) (g_offs st ++ [match a_off a with Some o => o | None => 0 end]) (g_vptrs st))
            | None => None           (* a method whose slots_strides were not installed *)
            end
        | GFault => None
        end
    end.

  Fixpoint classes_loop (body : gstmt) (firsts : list (option nat)) (vts : list (list (nat * nat * nat))) (st : gstate) : option gstate :=
    match firsts, vts with
    | f :: firsts', vt :: vts' =>
        match gexec (g_offs st) vt body (XClass f) (mk_ga (g_img st) None None None None) with
        | GGo a | GCont a =>
            match a_vptr a with
            | Some vp => classes_loop body firsts' vts' (mk_gs (a_img a) (g_ss st) (g_offs st) (g_vptrs st ++ [vp]))
            | None => None           (* a class whose static v-table pointer was not set *)
            end
        | GFault => None
        end
    | _, _ => Some st
    end.

  Fixpoint run_loops (ls : list gloop) (slots_all : list (list nat)) (firsts : list (option nat))
           (vts : list (list (nat * nat * nat))) (st : gstate) : option gstate :=
    match ls with
    | [] => Some st
    | LMethods body :: r =>
        match methods_loop body 0 slots_all (length ms) st with
        | Some st' => run_loops r slots_all firsts vts st'
        | None => None
        end
    | LClasses body :: r =>
        match classes_loop body firsts vts st with
        | Some st' => run_loops r slots_all firsts vts st'
        | None => None
        end
    end.
End Interp.

Definition gsize_of (z : gsizing) (tables : list ctable) (vt : list (list (nat * nat * nat))) : nat :=
  match z with SzTablesPlusVtbls => total_cells tables vt end.

(* dispatch_data.resize(n) keeps what the vector held (stale) up to n and value-initialises the rest; the words written
   through gv_iter then overwrite a prefix *)
Definition resized (stale : list word) (n : nat) : list word := firstn n (stale ++ repeat WJunk n).

Definition run_gv (f : gfun) (stale : list word) (ms : list cmeth) (tables : list ctable) (slots_all : list (list nat))
           (firsts : list nat) (vt : list (list (nat * nat * nat))) : option (gstate * list word) :=
  let total := gsize_of (gf_size f) tables vt in
  match run_loops ms tables total (gf_loops f) slots_all (map Some firsts) vt (mk_gs [] [] [] []) with
  | Some st => Some (st, g_img st ++ skipn (length (g_img st)) (resized stale total))
  | None => None
  end.
