(* MiniVptr.v — the little language into which translators/vptrctor.py translates, on every run, the two places of core.hpp
   where a virtual_ptr gets its v-table pointer from an object:
       template<class Other> virtual_ptr<Class, Policy>::virtual_ptr(Other&& other)
       template<class Other> static auto virtual_ptr<Class, Policy>::final(Other&& obj)
   and its interpreter in the monad of Model/VirtualPtr.v (results with the log of what is read).  The translated bodies are
   in Gen/GenVptr.v; Proofs/VptrSource.v proves that interpreting them IS Model.VirtualPtr.ctor / final_, for every policy
   configuration, state and argument.  No proofs in this file. *)
From Coq Require Import List NArith Bool.
From Y2 Require Import Model.VirtualPtr.
Import ListNotations.

Inductive facet := FRuntimeChecks | FTypeHash | FIndirectVptr.

(* the ids the code names: Policy::dynamic_type(traits::rarg(x)), Policy::static_type<traits::polymorphic_type>(), `index` *)
Inductive idv := IDynamic | IStatic | IIndex.

Inductive vcond :=
| VHas (f : facet)                   (* has_facet<Policy, f>   (if constexpr) *)
| VIdEq (a b : idv)                  (* a == b *)
| VIdNe (a b : idv)                  (* a != b *)
| VAnd (c d : vcond)
| VNot (c : vcond)
| VStaticVptrNull.                   (* Policy::static_vptr<polymorphic_type> == nullptr *)

Inductive vstmt :=
| VSkip
| VSeq (a b : vstmt)
| VIf (c : vcond) (t e : vstmt)      (* if / if constexpr *)
| VHashCheck (i : idv)               (* Policy::hash_type_id(i);   the result is discarded: the call is there for its check *)
| VIndexInit (i : idv)               (* auto index = i; *)
| VIndexHash                         (* index = Policy::hash_type_id(index); *)
| VSetStaticAddr                     (* vptr = &Policy::template static_vptr<polymorphic_type>; *)
| VSetStatic                         (* vptr = Policy::template static_vptr<polymorphic_type>; *)
| VSetIndirectAt                     (* vptr = Policy::indirect_vptrs[index]; *)
| VSetDynamic                        (* vptr = Policy::dynamic_vptr(traits::rarg(other)); *)
| VErrorMethodTable (i : idv)        (* method_table_error error; error.type = i; Policy::error(error); abort(); *)
| VBox.                              (* box(other);  /  result.box(obj); result.vptr = vptr; *)

(* which virtual_traits the function consults, and its body *)
Record vfun := { vf_traits : traits_mode; vf_body : vstmt }.

Section Interp.
  Variable cfg : config.
  Variable st : state.
  Variable static_id dynamic_id : cls.

  Definition has (f : facet) : bool :=
    match f with
    | FRuntimeChecks => runtime_checks cfg
    | FTypeHash => has_hash cfg
    | FIndirectVptr => indirect cfg
    end.

  (* locals: the v-table pointer being computed, and `index` *)
  Record locals := { l_vptr : option vref; l_index : option cls }.

  Definition idval (l : locals) (i : idv) : option cls :=
    match i with IDynamic => Some dynamic_id | IStatic => Some static_id | IIndex => l_index l end.

  Fixpoint ceval (l : locals) (c : vcond) : option bool :=
    match c with
    | VHas f => Some (has f)
    | VIdEq a b => match idval l a, idval l b with Some x, Some y => Some (N.eqb x y) | _, _ => None end
    | VIdNe a b => match idval l a, idval l b with Some x, Some y => Some (negb (N.eqb x y)) | _, _ => None end
    | VAnd c d => match ceval l c, ceval l d with Some x, Some y => Some (x && y) | _, _ => None end
    | VNot c => match ceval l c with Some x => Some (negb x) | None => None end
    | VStaticVptrNull => Some (match svp st static_id with None => true | Some _ => false end)
    end.

  (* an ill-formed body (an id used before it exists) is UB *)
  Fixpoint vexec (s : vstmt) (l : locals) : M locals :=
    match s with
    | VSkip => ret l
    | VSeq a b => l' <- vexec a l ;; vexec b l'
    | VIf c t e => match ceval l c with
                   | Some true => vexec t l
                   | Some false => vexec e l
                   | None => ub
                   end
    | VHashCheck i => match idval l i with
                      | Some x => _ <- hash_type_id cfg st x ;; ret l
                      | None => ub
                      end
    | VIndexInit i => match idval l i with
                      | Some x => ret {| l_vptr := l_vptr l; l_index := Some x |}
                      | None => ub
                      end
    | VIndexHash => match l_index l with
                    | Some x => y <- hash_type_id cfg st x ;; ret {| l_vptr := l_vptr l; l_index := Some y |}
                    | None => ub
                    end
    | VSetStaticAddr => _ <- tell (ASvp static_id) ;; ret {| l_vptr := Some (Indirect static_id); l_index := l_index l |}
    | VSetStatic => _ <- tell (ASvp static_id) ;; ret {| l_vptr := Some (Direct (svp st static_id)); l_index := l_index l |}
    | VSetIndirectAt => match l_index l with
                        | Some x => loc <- read_ivptrs st x ;; ret {| l_vptr := Some (Indirect loc); l_index := l_index l |}
                        | None => ub
                        end
    | VSetDynamic => t <- dynamic_vptr cfg st dynamic_id ;; ret {| l_vptr := Some (Direct (Some t)); l_index := l_index l |}
    | VErrorMethodTable i => match idval l i with Some x => fail (MethodTable x) | None => ub end
    | VBox => ret l
    end.
End Interp.

(* the ids as the traits the function uses compute them (Model.VirtualPtr.ctor_ids / final_ids), then the body *)
Definition run_ctor (f : vfun) (cfg : config) (st : state) (a : arg) : M vptr :=
  let (static_id, dynamic_id) := ctor_ids (vf_traits f) a in
  l <- vexec cfg st static_id dynamic_id (vf_body f) {| l_vptr := None; l_index := None |} ;;
  match l_vptr l with Some r => ret (boxed a r) | None => ub end.

Definition run_final (f : vfun) (cfg : config) (st : state) (a : arg) : M vptr :=
  let (static_id, dynamic_id) := final_ids (vf_traits f) a in
  l <- vexec cfg st static_id dynamic_id (vf_body f) {| l_vptr := None; l_index := None |} ;;
  match l_vptr l with Some r => ret (boxed a r) | None => ub end.
