(* Executable model of
     include/yorel/yomm2/policies/fast_perfect_hash.hpp  (fast_perfect_hash, checked_perfect_hash)
     include/yorel/yomm2/policies/vptr_vector.hpp        (publish_vptrs, dynamic_vptr)
   as the code is, quirks included.  NO proofs in this file (Proofs/HashProofs.v).

   Numbers are N.  Type ids are meant to be < 2^word_bits (uintptr_t); the theorems do not need it.
   The model departs from the C++ where the C++ is undefined: `1 << M` is an `int` shift, so the
   correspondence is only meaningful for M + passes < 31, i.e. fewer than ~2^25 classes. *)
From Coq Require Import NArith List Bool.
From Y2 Require Import Gen.GenHashConsts.
Import ListNotations.
Open Scope N_scope.

(* ---------------------------------------------------------------- constants (translated from /repo) *)

Definition sentinel : N := invalid_type.          (* static_cast<type_id>(-1) *)
Definition passes : nat := GenHashConsts.passes.  (* 4 *)
Definition word_bits : N := GenHashConsts.word_bits.

(* ---------------------------------------------------------------- vectors *)

(* v[i] := x on a list; out of range: unchanged (never happens on reachable states) *)
Fixpoint set_nth {A : Type} (n : nat) (x : A) (l : list A) {struct l} : list A :=
  match l with
  | [] => []
  | y :: r => match n with
              | O => x :: r
              | S n' => y :: set_nth n' x r
              end
  end.

(* std::vector::resize(n) with value-initialised new elements `d`: keeps the old prefix *)
Definition resize {A : Type} (n : nat) (l : list A) (d : A) : list A :=
  firstn n l ++ repeat d (n - length l).

Definition vget (l : list N) (i : N) : N := nth (N.to_nat i) l sentinel.
Definition vset (l : list N) (i : N) (x : N) : list N := set_nth (N.to_nat i) x l.

(* ---------------------------------------------------------------- the hash function *)

(* hash_type_id: (hash_mult * type) >> hash_shift on word_bits-bit words.
   Written with land/shiftr so that the extracted code is fast;
   Proofs/HashProofs.v: hash_spec : hash m s t = ((m * t) mod 2^word_bits) / 2^s. *)
Definition hash (mult shift t : N) : N :=
  N.shiftr (N.land (mult * t) (N.ones word_bits)) shift.

(* `std::size_t M = 1; for (auto size = N * 5 / 4; size >>= 1;) ++M;`
   size >>= 1 drops the lowest binary digit; the loop runs while what is left is not 0. *)
Fixpoint halvings (p : positive) : N :=
  match p with
  | xH => 0
  | xO q => 1 + halvings q
  | xI q => 1 + halvings q
  end.

Definition first_M (n : N) : N :=
  match n * growth_num / growth_den with
  | N0 => M_initial
  | Npos p => M_initial + halvings p
  end.

(* ---------------------------------------------------------------- state *)

(* a registered class as publish_vptrs sees it: vptr() (an opaque tag here) and type_id_begin()..end() *)
Definition cls : Type := (N * list N)%type.
Definition cls_vptr (c : cls) : N := fst c.
Definition cls_ids (c : cls) : list N := snd c.
Definition all_ids (cs : list cls) : list N := flat_map cls_ids cs.

(* the static data members of fast_perfect_hash<Policy> (+ checked_perfect_hash<Policy>::control) *)
Record hstate : Type := mk_hstate {
  h_mult : N;
  h_shift : N;
  h_length : N;
  h_min : N;
  h_max : N;
  h_control : list N     (* only meaningful for the checked variant *)
}.

(* zero-initialised statics *)
Definition init_state : hstate := mk_hstate 0 0 0 0 0 [].

Definition hash_st (st : hstate) (t : N) : N := hash (h_mult st) (h_shift st) t.

(* ---------------------------------------------------------------- one attempt *)

Record acc : Type := mk_acc {
  a_buckets : list N;
  a_min : N;
  a_max : N;
  a_found : bool
}.

(* inner loop: the type ids of one class.  On a collision: found = false; break  -- leaves THIS loop only.
   hash_min / hash_max are updated before the occupancy test. *)
Fixpoint attempt_class (mult shift : N) (ids : list N) (a : acc) : acc :=
  match ids with
  | [] => a
  | t :: r =>
      let i := hash mult shift t in
      let mn := N.min (a_min a) i in
      let mx := N.max (a_max a) i in
      if vget (a_buckets a) i =? sentinel
      then attempt_class mult shift r (mk_acc (vset (a_buckets a) i t) mn mx (a_found a))
      else mk_acc (a_buckets a) mn mx false
  end.

(* outer loop: every class, also after a collision (hash_max keeps being fed) *)
Definition attempt_classes (mult shift : N) (classes : list cls) (a : acc) : acc :=
  fold_left (fun a c => attempt_class mult shift (cls_ids c) a) classes a.

(* std::fill(buckets, -1); found = true; then the two loops *)
Definition attempt (mult shift : N) (size : nat) (classes : list cls) (mn mx : N) : acc :=
  attempt_classes mult shift classes (mk_acc (repeat sentinel size) mn mx true).

(* ---------------------------------------------------------------- one pass: the while loop *)

Inductive pass_outcome : Type :=
| PassFound (rest : list N) (attempts : N) (mult : N) (a : acc)
| PassFail (rest : list N) (attempts : N) (mult mn mx : N) (buckets : list N)
| PassStream.                                   (* the supplied stream ran out *)

(* while (!found && attempts < budget) { fill; ++attempts; hash_mult = next | 1; observer; loops }
   `buckets` is what the vector holds when the loop is left without any attempt (budget = 0). *)
Fixpoint pass_loop (shift : N) (size : nat) (classes : list cls) (budget : N)
         (stream : list N) (attempts mult mn mx : N) (buckets : list N) {struct stream} : pass_outcome :=
  if budget <=? attempts then PassFail stream attempts mult mn mx buckets
  else match stream with
       | [] => PassStream
       | x :: rest =>
           let mult' := N.lor x 1 in
           let a := attempt mult' shift size classes mn mx in
           if a_found a then PassFound rest (attempts + 1) mult' a
           else pass_loop shift size classes budget rest (attempts + 1) mult' (a_min a) (a_max a) (a_buckets a)
       end.

(* ---------------------------------------------------------------- hash_initialize *)

Inductive outcome : Type :=
| Found (st' : hstate) (attempts : N)
| SearchError (attempts buckets : N) (st' : hstate)
    (* hash_search_error{attempts, buckets} handed to the error handler, then abort();
       st' is what the statics hold if the handler throws *)
| StreamExhausted.

(* for (pass = 0; pass < 4; ++pass, ++M) { hash_shift = 64 - M; hash_size = 1 << M;
     buckets.resize(hash_size); hash_length = 0; while ...; if (found) { hash_length = hash_max + 1; return; } }
   error.attempts = total_attempts; error.buckets = 1 << M; *)
Fixpoint passes_loop (checked : bool) (npass : nat) (M : N) (classes : list cls) (budget : N)
         (stream : list N) (total mult shift len mn mx : N) (buckets control : list N) : outcome :=
  match npass with
  | O => SearchError total (2 ^ M)
                     (mk_hstate mult shift len mn mx (if checked then buckets else control))
  | S k =>
      let shift' := word_bits - M in
      let size := N.to_nat (2 ^ M) in
      match pass_loop shift' size classes budget stream 0 mult mn mx (resize size buckets 0) with
      | PassFound _ attempts mult' a =>
          let len := a_max a + 1 in
          Found (mk_hstate mult' shift' len (a_min a) (a_max a)
                           (if checked then resize (N.to_nat len) (a_buckets a) 0 else control))
                (total + attempts)
      | PassFail rest attempts mult' mn' mx' b' =>
          passes_loop checked k (M + 1) classes budget rest (total + attempts) mult' shift' 0 mn' mx' b' control
      | PassStream => StreamExhausted
      end
  end.

(* fast_perfect_hash::hash_initialize(first, last)          : buckets is a fresh local vector;
   checked_perfect_hash::hash_initialize(first, last)       : buckets is `control`, then control.resize(hash_length).
   N = std::distance(first, last) is the number of CLASSES. *)
Definition hash_initialize (checked : bool) (stream : list N) (budget : N) (st : hstate)
           (classes : list cls) : outcome :=
  passes_loop checked passes (first_M (N.of_nat (length classes))) classes budget stream
              0 (h_mult st) (h_shift st) (h_length st) (h_min st) (h_max st)
              (if checked then h_control st else []) (h_control st).

(* ---------------------------------------------------------------- lookups *)

Inductive herror : Type := UnknownClass (t : N).
Inductive result (A : Type) : Type :=
| Ok (a : A)
| Error (e : herror).
Arguments Ok {A} a.
Arguments Error {A} e.

(* checked_perfect_hash::hash_type_id: index >= hash_length || control[index] != type -> unknown_class_error *)
Definition checked_lookup (st : hstate) (t : N) : result N :=
  let i := hash_st st t in
  if (h_length st <=? i) || negb (vget (h_control st) i =? t)
  then Error (UnknownClass t)
  else Ok i.

(* Policy::hash_type_id *)
Definition lookup (checked : bool) (st : hstate) (t : N) : result N :=
  if checked then checked_lookup st t else Ok (hash_st st t).

(* ---------------------------------------------------------------- vptr_vector *)

Definition vptrs_t : Type := list (option N).    (* None = nullptr *)

Fixpoint publish_ids (checked : bool) (st : hstate) (vp : N) (ids : list N) (v : vptrs_t) : result vptrs_t :=
  match ids with
  | [] => Ok v
  | t :: r =>
      match lookup checked st t with
      | Ok i => publish_ids checked st vp r (set_nth (N.to_nat i) (Some vp) v)
      | Error e => Error e
      end
  end.

Fixpoint publish_classes (checked : bool) (st : hstate) (classes : list cls) (v : vptrs_t) : result vptrs_t :=
  match classes with
  | [] => Ok v
  | c :: r =>
      match publish_ids checked st (cls_vptr c) (cls_ids c) v with
      | Ok v' => publish_classes checked st r v'
      | Error e => Error e
      end
  end.

Inductive publish_outcome : Type :=
| Published (st' : hstate) (attempts : N) (v' : vptrs_t)
| PubSearchError (attempts buckets : N) (st' : hstate)   (* vptrs not touched *)
| PubUnknown (t : N) (st' : hstate)                        (* the checked hash rejected an id while publishing *)
| PubStreamExhausted.

(* vptr_vector::publish_vptrs: hash_initialize; vptrs.resize(hash_length); vptrs[hash(id)] = vptr *)
Definition publish_vptrs (checked : bool) (stream : list N) (budget : N) (st : hstate) (v : vptrs_t)
           (classes : list cls) : publish_outcome :=
  match hash_initialize checked stream budget st classes with
  | Found st' n =>
      match publish_classes checked st' classes (resize (N.to_nat (h_length st')) v None) with
      | Ok v' => Published st' n v'
      | Error (UnknownClass t) => PubUnknown t st'
      end
  | SearchError n b st' => PubSearchError n b st'
  | StreamExhausted => PubStreamExhausted
  end.

(* vptr_vector::dynamic_vptr: vptrs[Policy::hash_type_id(dynamic_type(arg))] *)
Definition dynamic_vptr (checked : bool) (st : hstate) (v : vptrs_t) (t : N) : result (N * option N) :=
  match lookup checked st t with
  | Ok i => Ok (i, nth (N.to_nat i) v None)
  | Error e => Error e
  end.

(* ---------------------------------------------------------------- histories of updates *)

Record update : Type := mk_update {
  u_classes : list cls;
  u_budget : N;
  u_stream : list N
}.

(* the outcomes of a sequence of updates on the same policy; an update whose error handler throws leaves
   the statics as they are (vptrs untouched) and the next update starts from them *)
Fixpoint run_history (checked : bool) (us : list update) (st : hstate) (v : vptrs_t) : list publish_outcome :=
  match us with
  | [] => []
  | u :: r =>
      let o := publish_vptrs checked (u_stream u) (u_budget u) st v (u_classes u) in
      o :: match o with
           | Published st' _ v' => run_history checked r st' v'
           | PubSearchError _ _ st' => run_history checked r st' v
           | PubUnknown _ _ => []
           | PubStreamExhausted => []
           end
  end.
