(* MiniSlot.v — the little language into which translators/slots.py translates, on every run, the body of the loop over
   cls.used_by_vp in compiler<Policy>::assign_lattice_slots (detail/compiler.hpp): how the slot of one (method, parameter) is
   chosen for a class in a multiple-inheritance lattice and where it is then marked used / reserved — and its interpreter over
   the slot state of Model/Compile.v.  The wrapper (the mark guard, the recursion over direct_derived), assign_tree_slots and
   assign_slots are matched on the AST by the translator.  Proofs/SlotSource.v proves that running the translated body is
   Model.Compile.lattice_assign.  No proofs in this file. *)
From Coq Require Import List NArith Bool Arith.
From Y2 Require Import Model.Registry Model.Compile.
Import ListNotations.

(* a bitset the code names *)
Inductive bref :=
| BClsUsed            (* cls.used_slots *)
| BClsResv            (* cls.reserved_slots *)
| BLocal              (* the local copy (unavailable_slots) *)
| BBaseResv           (* base->reserved_slots          (base: the variable of the enclosing loop over transitive bases) *)
| BCovUsed.           (* covariant->used_slots         (covariant: the variable of the enclosing loop over covariant classes) *)

Inductive lstmt :=
| LSkip
| LSeq (a b : lstmt)
| LCopyLocal (src : bref)                 (* auto unavailable_slots = src; *)
| LMerge (src dst : bref)                 (* detail::merge_into(src, dst);      dst |= src *)
| LFirstFree                              (* slot = the first clear bit of the local *)
| LSetMethodSlot                          (* mp.method->slots[mp.param] = slot; *)
| LSetBit (dst : bref)                    (* detail::set_bit(dst, slot); *)
| LForBases (of_covariant : bool) (body : lstmt)    (* for (auto base : cls.transitive_bases)  /  covariant->transitive_bases *)
| LForCovariant (body : lstmt)            (* for (auto covariant : cls.covariant_classes) *)
| LIfNotSelf (body : lstmt).              (* if (&cls != covariant) *)

Record lstate := mk_ls {
  x_st : sstate;
  x_local : option N;
  x_slot : option nat
}.

Section Interp.
  Variables (L : lattice) (c : nat) (mp : nat * nat).

  Definition bread (s : lstate) (cov base : option nat) (r : bref) : option N :=
    match r with
    | BClsUsed => Some (nth c (s_used (x_st s)) 0%N)
    | BClsResv => Some (nth c (s_resv (x_st s)) 0%N)
    | BLocal => x_local s
    | BBaseResv => match base with Some b => Some (nth b (s_resv (x_st s)) 0%N) | None => None end
    | BCovUsed => match cov with Some d => Some (nth d (s_used (x_st s)) 0%N) | None => None end
    end.

  Definition with_used (st : sstate) (u : list N) : sstate :=
    mk_ss (s_slots st) u (s_resv st) (s_mark st) (s_first st) (s_vlen st) (s_fuel_ok st).
  Definition with_resv (st : sstate) (r : list N) : sstate :=
    mk_ss (s_slots st) (s_used st) r (s_mark st) (s_first st) (s_vlen st) (s_fuel_ok st).

  (* dst |= v *)
  Definition bmerge (s : lstate) (cov base : option nat) (dst : bref) (v : N) : option lstate :=
    match dst with
    | BClsUsed => Some (mk_ls (with_used (x_st s) (or_into v (s_used (x_st s)) c)) (x_local s) (x_slot s))
    | BClsResv => Some (mk_ls (with_resv (x_st s) (or_into v (s_resv (x_st s)) c)) (x_local s) (x_slot s))
    | BLocal => match x_local s with Some l => Some (mk_ls (x_st s) (Some (N.lor l v)) (x_slot s)) | None => None end
    | BBaseResv => match base with
                   | Some b => Some (mk_ls (with_resv (x_st s) (or_into v (s_resv (x_st s)) b)) (x_local s) (x_slot s))
                   | None => None
                   end
    | BCovUsed => match cov with
                  | Some d => Some (mk_ls (with_used (x_st s) (or_into v (s_used (x_st s)) d)) (x_local s) (x_slot s))
                  | None => None
                  end
    end.

  (* set_bit(dst, slot): only the class's own two sets are written that way *)
  Definition bsetbit (s : lstate) (dst : bref) (slot : nat) : option lstate :=
    let bit := N.shiftl 1 (N.of_nat slot) in
    match dst with
    | BClsUsed => Some (mk_ls (with_used (x_st s) (set_nth c (s_used (x_st s)) (N.lor (nth c (s_used (x_st s)) 0%N) bit))) (x_local s) (x_slot s))
    | BClsResv => Some (mk_ls (with_resv (x_st s) (set_nth c (s_resv (x_st s)) (N.lor (nth c (s_resv (x_st s)) 0%N) bit))) (x_local s) (x_slot s))
    | _ => None
    end.

  Section Loops.
    Variable step : nat -> lstate -> option lstate.
    Fixpoint lfor (xs : list nat) (s : lstate) : option lstate :=
      match xs with
      | [] => Some s
      | x :: r => match step x s with Some s' => lfor r s' | None => None end
      end.
  End Loops.

  Fixpoint lexec (p : lstmt) (cov base : option nat) (s : lstate) : option lstate :=
    match p with
    | LSkip => Some s
    | LSeq a b => match lexec a cov base s with Some s' => lexec b cov base s' | None => None end
    | LCopyLocal src => match bread s cov base src with Some v => Some (mk_ls (x_st s) (Some v) (x_slot s)) | None => None end
    | LMerge src dst => match bread s cov base src with Some v => bmerge s cov base dst v | None => None end
    | LFirstFree => match x_local s with Some l => Some (mk_ls (x_st s) (x_local s) (Some (first_free l))) | None => None end
    | LSetMethodSlot =>
        match x_slot s with
        | Some slot =>
            let st := x_st s in
            Some (mk_ls (mk_ss (set_slot st mp slot) (s_used st) (s_resv st) (s_mark st) (s_first st) (s_vlen st) (s_fuel_ok st))
                        (x_local s) (x_slot s))
        | None => None
        end
    | LSetBit dst => match x_slot s with Some slot => bsetbit s dst slot | None => None end
    | LForBases of_cov body =>
        let owner := if of_cov then cov else Some c in
        match owner with
        | Some o => lfor (fun b s' => lexec body cov (Some b) s') (nth o (l_tb L) []) s
        | None => None
        end
    | LForCovariant body => lfor (fun d s' => lexec body (Some d) base s') (nth c (l_cov L) []) s
    | LIfNotSelf body => match cov with
                         | Some d => if Nat.eqb d c then Some s else lexec body cov base s
                         | None => None
                         end
    end.

  Definition run_lattice_assign (body : lstmt) (st : sstate) : option sstate :=
    match lexec body None None (mk_ls st None None) with
    | Some s => Some (x_st s)
    | None => None
    end.
End Interp.
