(* MiniSlot.v — the little language into which translators/slots.py translates, on every run, the body of the loop over
   cls.used_by_vp in compiler<Policy>::assign_lattice_slots (detail/compiler.hpp): how the slot of one (method, parameter) is
   chosen for a class in a multiple-inheritance lattice and where it is then marked used / reserved — and its interpreter over
   the slot state of Model/Compile.v.  The functions around that body - assign_tree_slots, the rest of assign_lattice_slots (the
   mark guard, the recursion over direct_derived) and assign_slots - are lowered statement by statement into a second language
   (astmt, below), whose interpreter calls the two recursive functions on fuel.  Proofs/SlotSource.v proves that running the
   translated body is Model.Compile.lattice_assign and that running the translated assign_slots, with the translated functions
   below it, is Model.Compile.assign_slots.  No proofs in this file. *)
From Coq Require Import List NArith Bool Arith.
From Y2 Require Import Model.Registry Model.Compile.
Import ListNotations.

(* a bitset the code names *)
Inductive bref :=
| BClsUsed            (* cls.used_slots *)
| BClsResv            (* cls.reserved_slots *)
| BLocal              (* the local copy (unavailable_slots) *)
| BBaseResv           (* base->reserved_slots          (base: the variable of the enclosing loop over transitive bases) *)
| BCovUsed.           (* covariant->used_slots         (covariant: the variable of the enclosing loop over covariant classes) *)

Inductive lstmt :=
| LSkip
| LSeq (a b : lstmt)
| LCopyLocal (src : bref)                 (* auto unavailable_slots = src; *)
| LMerge (src dst : bref)                 (* detail::merge_into(src, dst);      dst |= src *)
| LFirstFree                              (* slot = the first clear bit of the local *)
| LSetMethodSlot                          (* mp.method->slots[mp.param] = slot; *)
| LSetBit (dst : bref)                    (* detail::set_bit(dst, slot); *)
| LForBases (of_covariant : bool) (body : lstmt)    (* for (auto base : cls.transitive_bases)  /  covariant->transitive_bases *)
| LForCovariant (body : lstmt)            (* for (auto covariant : cls.covariant_classes) *)
| LIfNotSelf (body : lstmt).              (* if (&cls != covariant) *)

Record lstate := mk_ls {
  x_st : sstate;
  x_local : option N;
  x_slot : option nat
}.

Section Interp.
  Variables (L : lattice) (c : nat) (mp : nat * nat).

  Definition bread (s : lstate) (cov base : option nat) (r : bref) : option N :=
    match r with
    | BClsUsed => Some (nth c (s_used (x_st s)) 0%N)
    | BClsResv => Some (nth c (s_resv (x_st s)) 0%N)
    | BLocal => x_local s
    | BBaseResv => match base with Some b => Some (nth b (s_resv (x_st s)) 0%N) | None => None end
    | BCovUsed => match cov with Some d => Some (nth d (s_used (x_st s)) 0%N) | None => None end
    end.

  Definition with_used (st : sstate) (u : list N) : sstate :=
    mk_ss (s_slots st) u (s_resv st) (s_mark st) (s_first st) (s_vlen st) (s_fuel_ok st).
  Definition with_resv (st : sstate) (r : list N) : sstate :=
    mk_ss (s_slots st) (s_used st) r (s_mark st) (s_first st) (s_vlen st) (s_fuel_ok st).

  (* dst |= v *)
  Definition bmerge (s : lstate) (cov base : option nat) (dst : bref) (v : N) : option lstate :=
    match dst with
    | BClsUsed => Some (mk_ls (with_used (x_st s) (or_into v (s_used (x_st s)) c)) (x_local s) (x_slot s))
    | BClsResv => Some (mk_ls (with_resv (x_st s) (or_into v (s_resv (x_st s)) c)) (x_local s) (x_slot s))
    | BLocal => match x_local s with Some l => Some (mk_ls (x_st s) (Some (N.lor l v)) (x_slot s)) | None => None end
    | BBaseResv => match base with
                   | Some b => Some (mk_ls (with_resv (x_st s) (or_into v (s_resv (x_st s)) b)) (x_local s) (x_slot s))
                   | None => None
                   end
    | BCovUsed => match cov with
                  | Some d => Some (mk_ls (with_used (x_st s) (or_into v (s_used (x_st s)) d)) (x_local s) (x_slot s))
                  | None => None
                  end
    end.

  (* set_bit(dst, slot): only the class's own two sets are written that way *)
  Definition bsetbit (s : lstate) (dst : bref) (slot : nat) : option lstate :=
    let bit := N.shiftl 1 (N.of_nat slot) in
    match dst with
    | BClsUsed => Some (mk_ls (with_used (x_st s) (set_nth c (s_used (x_st s)) (N.lor (nth c (s_used (x_st s)) 0%N) bit))) (x_local s) (x_slot s))
    | BClsResv => Some (mk_ls (with_resv (x_st s) (set_nth c (s_resv (x_st s)) (N.lor (nth c (s_resv (x_st s)) 0%N) bit))) (x_local s) (x_slot s))
    | _ => None
    end.

  Section Loops.
    Variable step : nat -> lstate -> option lstate.
    Fixpoint lfor (xs : list nat) (s : lstate) : option lstate :=
      match xs with
      | [] => Some s
      | x :: r => match step x s with Some s' => lfor r s' | None => None end
      end.
  End Loops.

  Fixpoint lexec (p : lstmt) (cov base : option nat) (s : lstate) : option lstate :=
    match p with
    | LSkip => Some s
    | LSeq a b => match lexec a cov base s with Some s' => lexec b cov base s' | None => None end
    | LCopyLocal src => match bread s cov base src with Some v => Some (mk_ls (x_st s) (Some v) (x_slot s)) | None => None end
    | LMerge src dst => match bread s cov base src with Some v => bmerge s cov base dst v | None => None end
    | LFirstFree => match x_local s with Some l => Some (mk_ls (x_st s) (x_local s) (Some (first_free l))) | None => None end
    | LSetMethodSlot =>
        match x_slot s with
        | Some slot =>
            let st := x_st s in
            Some (mk_ls (mk_ss (set_slot st mp slot) (s_used st) (s_resv st) (s_mark st) (s_first st) (s_vlen st) (s_fuel_ok st))
                        (x_local s) (x_slot s))
        | None => None
        end
    | LSetBit dst => match x_slot s with Some slot => bsetbit s dst slot | None => None end
    | LForBases of_cov body =>
        let owner := if of_cov then cov else Some c in
        match owner with
        | Some o => lfor (fun b s' => lexec body cov (Some b) s') (nth o (l_tb L) []) s
        | None => None
        end
    | LForCovariant body => lfor (fun d s' => lexec body (Some d) base s') (nth c (l_cov L) []) s
    | LIfNotSelf body => match cov with
                         | Some d => if Nat.eqb d c then Some s else lexec body cov base s
                         | None => None
                         end
    end.

  Definition run_lattice_assign (body : lstmt) (st : sstate) : option sstate :=
    match lexec body None None (mk_ls st None None) with
    | Some s => Some (x_st s)
    | None => None
    end.
End Interp.

(* ------------------------------------------------------------------ the functions around that body (fourth session) *)
(* assign_tree_slots, assign_lattice_slots (the mark guard and the recursion around the body above) and assign_slots itself,
   statement by statement.  `class_mark` / `cls.mark` are read as Model.Compile reads them: a class is marked when its mark
   equals the counter, and `++class_mark` at the start of assign_slots unmarks every class.  Bit sets are N, as above. *)
Inductive astmt :=
| ASkip
| ASeq (a b : astmt)
| ANextFromBase                      (* auto next_slot = base_slot; *)
| AForUsedBy (body : astmt)          (* for (const auto& mp : cls.used_by_vp) *)
| AStoreNext                         (* mp.method->slots[mp.param] = next_slot *)
| AIncNext                           (* ++next_slot      (`= next_slot++` is AStoreNext then AIncNext) *)
| AFirstSlotZero                     (* cls.first_slot = 0; *)
| AVtblResizeNext                    (* cls.vtbl.resize(next_slot); *)
| AForDerived (body : astmt)         (* for (auto pd : cls.direct_derived) *)
| ARecurseTree                       (* assign_tree_slots( *pd, next_slot); *)
| AReturnIfMarked                    (* if (cls.mark == class_mark) return; *)
| AMark                              (* cls.mark = class_mark; *)
| AIfUsedByNonEmpty (body : astmt)   (* if (!cls.used_by_vp.empty()) *)
| ALatticeBody                       (* the body translated above, for the (method, parameter) of the loop *)
| ARecurseLattice                    (* assign_lattice_slots( *pd); *)
| ANewClassMark                      (* ++class_mark; *)
| AForClasses (body : astmt)         (* for (auto& cls : classes) *)
| AIfRoot (body : astmt)             (* if (cls.direct_bases.size() == 0) *)
| AIfTree (a b : astmt)              (* if (no covariant class has more than one direct base) a else b *)
| ACallTree0                         (* assign_tree_slots(cls, 0); *)
| ACallLattice                       (* assign_lattice_slots(cls); *)
| AIfUsedNonEmpty (body : astmt)     (* if (cls.used_slots.empty()) continue;  body *)
| ASetFirstFromUsed                  (* first_slot = used_slots.find_first(); cls.first_slot = npos ? 0 : first_slot; *)
| AVtblResizeUsed.                   (* cls.vtbl.resize(cls.used_slots.size() - cls.first_slot); *)

Record a_cx := mk_acx { ac_cls : option nat; ac_base : option nat; ac_mp : option (nat * nat); ac_pd : option nat }.
Record a_st := mk_ast { as_st : sstate; as_next : option nat }.

Definition upd_first (st : sstate) (c v : nat) : sstate :=
  mk_ss (s_slots st) (s_used st) (s_resv st) (s_mark st) (set_nth c (s_first st) v) (s_vlen st) (s_fuel_ok st).
Definition upd_vlen (st : sstate) (c v : nat) : sstate :=
  mk_ss (s_slots st) (s_used st) (s_resv st) (s_mark st) (s_first st) (set_nth c (s_vlen st) v) (s_fuel_ok st).
Definition upd_mark (st : sstate) (m : list bool) : sstate :=
  mk_ss (s_slots st) (s_used st) (s_resv st) m (s_first st) (s_vlen st) (s_fuel_ok st).
Definition out_of_fuel (st : sstate) : sstate :=
  mk_ss (s_slots st) (s_used st) (s_resv st) (s_mark st) (s_first st) (s_vlen st) false.

Section AInterp.
  Variables (L : lattice) (ms : list cmeth) (lbody : lstmt).
  Variable rec_tree : nat -> nat -> sstate -> option sstate.      (* assign_tree_slots, one level down *)
  Variable rec_lat : nat -> sstate -> option sstate.              (* assign_lattice_slots, one level down *)

  Section ALoop.
    Context {A : Type}.
    Variable step : A -> a_st -> option (a_st * bool).
    Fixpoint afor (xs : list A) (s : a_st) : option (a_st * bool) :=
      match xs with
      | [] => Some (s, false)
      | a :: r => match step a s with
                  | Some (s', false) => afor r s'
                  | other => other                      (* a return inside a loop leaves the function *)
                  end
      end.
  End ALoop.

  Fixpoint aexec (p : astmt) (x : a_cx) (s : a_st) : option (a_st * bool) :=
    match p with
    | ASkip => Some (s, false)
    | ASeq a b => match aexec a x s with Some (s', false) => aexec b x s' | other => other end
    | ANextFromBase => match ac_base x with Some b => Some (mk_ast (as_st s) (Some b), false) | None => None end
    | AForUsedBy body =>
        match ac_cls x with
        | Some c => afor (fun mp s' => aexec body (mk_acx (ac_cls x) (ac_base x) (Some mp) (ac_pd x)) s') (used_by_vp ms c) s
        | None => None
        end
    | AStoreNext =>
        match ac_mp x, as_next s with
        | Some mp, Some nx =>
            let st := as_st s in
            Some (mk_ast (mk_ss (set_slot st mp nx) (s_used st) (s_resv st) (s_mark st) (s_first st) (s_vlen st) (s_fuel_ok st)) (as_next s), false)
        | _, _ => None
        end
    | AIncNext => match as_next s with Some nx => Some (mk_ast (as_st s) (Some (S nx)), false) | None => None end
    | AFirstSlotZero => match ac_cls x with Some c => Some (mk_ast (upd_first (as_st s) c 0) (as_next s), false) | None => None end
    | AVtblResizeNext => match ac_cls x, as_next s with
                         | Some c, Some nx => Some (mk_ast (upd_vlen (as_st s) c nx) (as_next s), false)
                         | _, _ => None
                         end
    | AForDerived body =>
        match ac_cls x with
        | Some c => afor (fun d s' => aexec body (mk_acx (ac_cls x) (ac_base x) (ac_mp x) (Some d)) s') (nth c (l_derived L) []) s
        | None => None
        end
    | ARecurseTree => match ac_pd x, as_next s with
                      | Some d, Some nx => match rec_tree d nx (as_st s) with Some st' => Some (mk_ast st' (as_next s), false) | None => None end
                      | _, _ => None
                      end
    | AReturnIfMarked => match ac_cls x with
                         | Some c => Some (s, nth c (s_mark (as_st s)) false)
                         | None => None
                         end
    | AMark => match ac_cls x with
               | Some c => Some (mk_ast (upd_mark (as_st s) (set_nth c (s_mark (as_st s)) true)) (as_next s), false)
               | None => None
               end
    | AIfUsedByNonEmpty body => match ac_cls x with
                                | Some c => match used_by_vp ms c with [] => Some (s, false) | _ :: _ => aexec body x s end
                                | None => None
                                end
    | ALatticeBody => match ac_cls x, ac_mp x with
                      | Some c, Some mp => match run_lattice_assign L c mp lbody (as_st s) with
                                           | Some st' => Some (mk_ast st' (as_next s), false)
                                           | None => None
                                           end
                      | _, _ => None
                      end
    | ARecurseLattice => match ac_pd x with
                         | Some d => match rec_lat d (as_st s) with Some st' => Some (mk_ast st' (as_next s), false) | None => None end
                         | None => None
                         end
    | ANewClassMark => Some (mk_ast (upd_mark (as_st s) (map (fun _ => false) (s_mark (as_st s)))) (as_next s), false)
    | AForClasses body =>
        afor (fun c s' => aexec body (mk_acx (Some c) None None None) s') (seq 0 (length (l_keys L))) s
    | AIfRoot body => match ac_cls x with
                      | Some c => match nth c (l_direct L) [] with [] => aexec body x s | _ :: _ => Some (s, false) end
                      | None => None
                      end
    | AIfTree a b => match ac_cls x with
                     | Some c => if is_tree_root L c then aexec a x s else aexec b x s
                     | None => None
                     end
    | ACallTree0 => match ac_cls x with
                    | Some c => match rec_tree c 0 (as_st s) with Some st' => Some (mk_ast st' (as_next s), false) | None => None end
                    | None => None
                    end
    | ACallLattice => match ac_cls x with
                      | Some c => match rec_lat c (as_st s) with Some st' => Some (mk_ast st' (as_next s), false) | None => None end
                      | None => None
                      end
    | AIfUsedNonEmpty body => match ac_cls x with
                              | Some c => if N.eqb (nth c (s_used (as_st s)) 0%N) 0 then Some (s, false) else aexec body x s
                              | None => None
                              end
    | ASetFirstFromUsed => match ac_cls x with
                           | Some c => Some (mk_ast (upd_first (as_st s) c (first_set (nth c (s_used (as_st s)) 0%N))) (as_next s), false)
                           | None => None
                           end
    | AVtblResizeUsed => match ac_cls x with
                         | Some c => let st := as_st s in
                                     Some (mk_ast (upd_vlen st c (N.size_nat (nth c (s_used st) 0%N) - nth c (s_first st) 0)) (as_next s), false)
                         | None => None
                         end
    end.
End AInterp.

Definition no_tree : nat -> nat -> sstate -> option sstate := fun _ _ _ => None.
Definition no_lat : nat -> sstate -> option sstate := fun _ _ => None.

(* the two recursive functions, on the model's fuel (the depth of the calls) *)
Fixpoint tree_fun (fuel : nat) (L : lattice) (ms : list cmeth) (body : astmt) (c base : nat) (st : sstate) : option sstate :=
  match fuel with
  | 0 => Some (out_of_fuel st)
  | S f => match aexec L ms LSkip (tree_fun f L ms body) no_lat body (mk_acx (Some c) (Some base) None None) (mk_ast st None) with
           | Some (s, _) => Some (as_st s)
           | None => None
           end
  end.

Fixpoint lat_fun (fuel : nat) (L : lattice) (ms : list cmeth) (lbody : lstmt) (body : astmt) (c : nat) (st : sstate) : option sstate :=
  match fuel with
  | 0 => Some (out_of_fuel st)
  | S f => match aexec L ms lbody no_tree (lat_fun f L ms lbody body) body (mk_acx (Some c) None None None) (mk_ast st None) with
           | Some (s, _) => Some (as_st s)
           | None => None
           end
  end.

Definition slots_start (L : lattice) (ms : list cmeth) : sstate :=
  let n := length (l_keys L) in
  mk_ss (map (fun m => repeat 0 (length (cm_vp m))) ms) (repeat 0%N n) (repeat 0%N n) (repeat false n) (repeat 0 n) (repeat 0 n) true.

Definition run_assign_slots (L : lattice) (ms : list cmeth) (lbody : lstmt) (tree lat main : astmt) : option sstate :=
  let n := length (l_keys L) in
  match aexec L ms lbody (tree_fun (S n) L ms tree) (lat_fun (S n) L ms lbody lat) main (mk_acx None None None None) (mk_ast (slots_start L ms) None) with
  | Some (s, _) => Some (as_st s)
  | None => None
  end.
