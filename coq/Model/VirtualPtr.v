(** * Model of virtual_ptr values and of every way to make one
      (core.hpp: virtual_ptr constructors, final, cast, _vptr, get, box;
       make_virtual_shared; detail.hpp: virtual_traits / virtual_ptr_traits;
       policies/vptr_vector.hpp, vptr_map.hpp: publish_vptrs, dynamic_vptr;
       policies/basic_indirect_vptr.hpp; fast_perfect_hash.hpp: hash_type_id of
       the checked hash; detail/compiler.hpp install_gv: the static v-table
       pointer variables and the call of publish_vptrs).

    No proofs in this file.  One function per construction route, mirroring
    the code as it is now (after 7e1a3d5, a90d4e0, 8d6866e, 1053a61).

    What is abstracted:
    - a v-table is an abstract id [(c, e)]: "the table of class c built by the
      e-th update".  Every update builds new tables (dispatch_data is resized
      and rewritten), so the id changes at every update;
    - Policy::static_vptr<C> is a *location* named by its class; its content
      is the table it currently points to ([None] = null, never installed);
    - the published structures are indexed by type id, not by hashed index:
      [vptrs st id = None] stands for "the entry the code would read is
      unpublished, out of range, or belongs to somebody else" (result [UB]);
      entries of ids that were registered by an earlier update and are not any
      more stay where they were (stale), as resize() keeps them;
    - C++ overload resolution (WHICH constructor a given expression selects) is
      not modelled: the caller of these functions says which route it is.  That
      choice is covered only by the generated programs of checks/C09.py. *)

From Coq Require Import List NArith Bool Arith.
Import ListNotations.

(** ** Policy configuration *)

Inductive hash_kind := HNone | HFast | HChecked.
Inductive placement_kind := PVector | PMap.

(** facets that matter: type_hash (none, fast_perfect_hash, checked_perfect_hash),
    vptr placement (vptr_vector, vptr_map), indirect_vptr (basic_indirect_vptr) *)
Record config := { hash : hash_kind; placement : placement_kind; indirect : bool }.

(** checked_perfect_hash derives from runtime_checks: in the stock facets the
    two come together *)
Definition runtime_checks (cfg : config) : bool :=
  match hash cfg with HChecked => true | _ => false end.

Definition has_hash (cfg : config) : bool :=
  match hash cfg with HNone => false | _ => true end.

(** Configurations the library offers.  vptr_map::publish_vptrs has no code for
    indirect_vptrs and never initialises a hash, so map x indirect and
    map x checked hash compile but cannot work (domain restriction, see
    Properties_C09.v). *)
Definition supported (cfg : config) : bool :=
  match placement cfg with
  | PVector => true
  | PMap => negb (indirect cfg) && negb (runtime_checks cfg)
  end.

(** ** State *)

Definition cls := N.                 (* a class = its type id *)
Definition table := (cls * nat)%type.   (* table of class c built by update number e *)
Definition loc := cls.               (* &Policy::static_vptr<C>, named by C *)

Record state := {
  epoch : nat;                       (* number of updates so far *)
  classes : list cls;                (* classes compiled by the last update *)
  svp : loc -> option table;         (* content of static_vptr<C> *)
  vptrs : cls -> option table;       (* Policy::vptrs (vector or map) *)
  ivptrs : cls -> option loc;        (* Policy::indirect_vptrs *)
  control : list cls                 (* checked hash: ids the hash was built for *)
}.

Definition init_state : state :=
  {| epoch := 0; classes := []; svp := fun _ => None; vptrs := fun _ => None;
     ivptrs := fun _ => None; control := [] |}.

Definition mem (x : cls) (l : list cls) : bool := existsb (N.eqb x) l.

Definition upd {A : Type} (f : cls -> option A) (c : cls) (v : option A) : cls -> option A :=
  fun x => if N.eqb x c then v else f x.

(** the loops "for (auto& cls : classes) *cls.static_vptr = ..." of install_gv
    and "for (iter ...) vptrs[index] = iter->vptr()" of publish_vptrs *)
Definition set_all {A : Type} (g : cls -> option A) (rs : list cls) (f : cls -> option A)
  : cls -> option A :=
  fold_left (fun f c => upd f c (g c)) rs f.

(** publish_vptrs of vptr_vector: hash_initialize (when there is a hash), then
    for every class vptrs[index] = *static_vptr and, with indirect_vptr,
    indirect_vptrs[index] = static_vptr.
    publish_vptrs of vptr_map: vptrs[id] = *static_vptr, nothing else. *)
Definition publish (cfg : config) (rs : list cls) (st : state) : state :=
  match placement cfg with
  | PVector =>
      {| epoch := epoch st; classes := classes st; svp := svp st;
         vptrs := set_all (svp st) rs (vptrs st);
         ivptrs := if indirect cfg then set_all (fun c => Some c) rs (ivptrs st) else ivptrs st;
         control := if has_hash cfg then rs else control st |}
  | PMap =>
      {| epoch := epoch st; classes := classes st; svp := svp st;
         vptrs := set_all (svp st) rs (vptrs st);
         ivptrs := ivptrs st;
         control := control st |}
  end.

(** update<Policy>() for the class list [rs]: new tables, static v-table
    pointers of the compiled classes redirected to them, then publish_vptrs. *)
Definition update (cfg : config) (rs : list cls) (st : state) : state :=
  let e := S (epoch st) in
  publish cfg rs
    {| epoch := e; classes := rs;
       svp := set_all (fun c => Some (c, e)) rs (svp st);
       vptrs := vptrs st; ivptrs := ivptrs st; control := control st |}.

(** the same state with arbitrary contents in the static v-table pointer
    variables (used to state that a diagnosis does not depend on them) *)
Definition with_svp (st : state) (f : loc -> option table) : state :=
  {| epoch := epoch st; classes := classes st; svp := f; vptrs := vptrs st;
     ivptrs := ivptrs st; control := control st |}.

Definition updates (cfg : config) (hist : list (list cls)) (st : state) : state :=
  fold_left (fun s rs => update cfg rs s) hist st.

(** the current table of a class *)
Definition current (st : state) (c : cls) : table := (c, epoch st).

(** ** Results, with the log of what the code reads before it answers *)

Inductive err := UnknownClass (id : cls) | MethodTable (id : cls).

Inductive result (A : Type) :=
| Ok (a : A)
| Error (e : err)     (* reported through Policy::error *)
| UB.                 (* reads an unpublished / out-of-range entry *)
Arguments Ok {A} a.
Arguments Error {A} e.
Arguments UB {A}.

Inductive access :=
| AHash (id : cls)        (* hash_type_id(id): control vector compared *)
| AVptrs (id : cls)       (* vptrs[index(id)] / vptrs.find(id) *)
| AIvptrs (id : cls)      (* indirect_vptrs[index(id)] *)
| ASvp (c : cls).         (* static_vptr<C> read (or its address taken) *)

Definition M (A : Type) := (list access * result A)%type.

Definition ret {A} (a : A) : M A := ([], Ok a).
Definition fail {A} (e : err) : M A := ([], Error e).
Definition ub {A} : M A := ([], UB).
Definition tell (a : access) : M unit := ([a], Ok tt).
Definition bind {A B} (m : M A) (f : A -> M B) : M B :=
  match m with
  | (l, Ok a) => let (l', r) := f a in (l ++ l', r)
  | (l, Error e) => (l, Error e)
  | (l, UB) => (l, UB)
  end.
Notation "x <- m ;; f" := (bind m (fun x => f)) (at level 61, m at next level, right associativity).

Definition outcome {A} (m : M A) : result A := snd m.
Definition reads {A} (m : M A) : list access := fst m.

(** Policy::hash_type_id.  fast: an index, garbage for an id the hash was not
    built for (the reads below decide what that means); checked: compares the
    control vector and calls the error handler. *)
Definition hash_type_id (cfg : config) (st : state) (id : cls) : M cls :=
  match hash cfg with
  | HNone => ret id
  | HFast => ret id
  | HChecked =>
      _ <- tell (AHash id) ;;
      if mem id (control st) then ret id else fail (UnknownClass id)
  end.

Definition read_vptrs (st : state) (i : cls) : M table :=
  _ <- tell (AVptrs i) ;;
  match vptrs st i with Some t => ret t | None => ub end.

Definition read_ivptrs (st : state) (i : cls) : M loc :=
  _ <- tell (AIvptrs i) ;;
  match ivptrs st i with Some l => ret l | None => ub end.

(** Policy::dynamic_vptr(arg), [id] = Policy::dynamic_type(arg).  This is what
    a method call does with a plain reference argument (method::vptr). *)
Definition dynamic_vptr (cfg : config) (st : state) (id : cls) : M table :=
  match placement cfg with
  | PVector =>
      i <- (if has_hash cfg then hash_type_id cfg st id else ret id) ;;
      read_vptrs st i
  | PMap => read_vptrs st id
  end.

(** ** virtual_ptr values *)

Inductive vref :=
| Direct (t : option table)   (* std::uintptr_t const* : a table, or null *)
| Indirect (l : loc).         (* std::uintptr_t const* const* : &static_vptr<C> *)

Record vptr := {
  obj : N;               (* identity of the complete object pointed to *)
  dyn : cls;             (* its dynamic class *)
  stat : cls;            (* Class of virtual_ptr<Class> (pointee class for smart) *)
  vp : vref;
  smart : bool;          (* virtual_ptr<std::shared_ptr<Class>> *)
  owner : option N       (* control block, for smart pointers *)
}.

(** what the constructor / final is given *)
Inductive source :=
| SrcRef          (* Class& (plain object or reference) *)
| SrcSpConst      (* const std::shared_ptr<Class>& *)
| SrcSpLvalue     (* std::shared_ptr<Class>& *)
| SrcSpRvalue.    (* std::shared_ptr<Class>&& *)

Definition src_smart (s : source) : bool :=
  match s with SrcRef => false | _ => true end.

Record arg := {
  a_obj : N;        (* object identity *)
  a_dyn : cls;      (* dynamic class of the object *)
  a_stat : cls;     (* static class of the expression (pointee class for smart) *)
  a_src : source;
  a_ctrl : N;       (* control block (smart sources) *)
  a_box : cls       (* type id of std::shared_ptr<Class> itself: never registered *)
}.

(** Which virtual_traits specialisation sees the argument.
    [TConstRef]: virtual_traits<Policy, const remove_reference_t<Other>&> - what
    the constructor (since 7e1a3d5) and final (since 1053a61) use: a smart
    pointer is recognised whatever its constness and value category.
    [TOther]: virtual_traits<Policy, Other&> resp. <Policy, Other> - the earlier
    code: a non-const shared_ptr (for final: a non-const lvalue) falls to the
    generic T& traits with T = shared_ptr<Class>, non polymorphic: both ids are
    the id of the smart pointer type. *)
Inductive traits_mode := TConstRef | TOther.

(** (static id, dynamic id) as the traits compute them *)
Definition ctor_ids (tm : traits_mode) (a : arg) : cls * cls :=
  match tm, a_src a with
  | TOther, SrcSpLvalue => (a_box a, a_box a)
  | TOther, SrcSpRvalue => (a_box a, a_box a)
  | _, _ => (a_stat a, a_dyn a)
  end.

Definition final_ids (tm : traits_mode) (a : arg) : cls * cls :=
  match tm, a_src a with
  | TOther, SrcSpLvalue => (a_box a, a_box a)
  | _, _ => (a_stat a, a_dyn a)
  end.

Definition boxed (a : arg) (r : vref) : vptr :=
  {| obj := a_obj a; dyn := a_dyn a; stat := a_stat a; vp := r;
     smart := src_smart (a_src a);
     owner := if src_smart (a_src a) then Some (a_ctrl a) else None |}.

(** "vptr = &static_vptr<T>" (indirect) or "vptr = static_vptr<T>" (direct) *)
Definition static_ref (cfg : config) (st : state) (c : cls) : M vref :=
  _ <- tell (ASvp c) ;;
  ret (if indirect cfg then Indirect c else Direct (svp st c)).

(** When the registration check of the exact-type shortcut and of final is made.
    [CkAlways]: the code as it is (a90d4e0): always, under runtime_checks + type_hash.
    [CkNever]: the code before a90d4e0.
    [CkIfNull]: a tempting "optimisation": only when static_vptr<T> is null.  Wrong:
    the static v-table pointer of a class is written by every update that compiles
    the class and NEVER cleared, so a non-null content means "was registered at
    some earlier update", not "is registered now" ([svp] vs [classes] / [control]). *)
Inductive check_mode := CkAlways | CkNever | CkIfNull.

Definition do_check (ck : check_mode) (st : state) (c : cls) : bool :=
  match ck with
  | CkAlways => true
  | CkNever => false
  | CkIfNull => match svp st c with None => true | Some _ => false end
  end.

(** *** template<class Other> virtual_ptr(Other&& other)   (core.hpp:253-303)
    [ck]: a90d4e0 (the hash_type_id call in the shortcut);
    8d6866e (Policy::dynamic_vptr instead of vptrs[index]) makes the same reads
    for vptr_vector and is not distinguished here. *)
Definition ctor_with (tm : traits_mode) (ck : check_mode)
           (cfg : config) (st : state) (a : arg) : M vptr :=
  let (static_id, dynamic_id) := ctor_ids tm a in
  if N.eqb dynamic_id static_id then
    _ <- (if do_check ck st static_id && runtime_checks cfg && has_hash cfg
          then hash_type_id cfg st dynamic_id else ret dynamic_id) ;;
    r <- static_ref cfg st static_id ;;
    ret (boxed a r)
  else if indirect cfg then
    i <- (if has_hash cfg then hash_type_id cfg st dynamic_id else ret dynamic_id) ;;
    l <- read_ivptrs st i ;;
    ret (boxed a (Indirect l))
  else
    t <- dynamic_vptr cfg st dynamic_id ;;
    ret (boxed a (Direct (Some t))).

Definition ctor : config -> state -> arg -> M vptr := ctor_with TConstRef CkAlways.

(** *** static auto final(Other&& obj)   (core.hpp:332-377)
    the static v-table pointer of the static type is taken first; under
    runtime_checks the dynamic type is compared, then (type_hash) the class is
    passed through the checked hash. *)
Definition final_with (tm : traits_mode) (ck : check_mode)
           (cfg : config) (st : state) (a : arg) : M vptr :=
  let (static_id, dynamic_id) := final_ids tm a in
  r <- static_ref cfg st static_id ;;
  if runtime_checks cfg then
    if negb (N.eqb dynamic_id static_id) then fail (MethodTable dynamic_id)
    else
      _ <- (if do_check ck st static_id && has_hash cfg then hash_type_id cfg st static_id else ret static_id) ;;
      ret (boxed a r)
  else ret (boxed a r).

Definition final_ : config -> state -> arg -> M vptr := final_with TConstRef CkAlways.

(** make_virtual_shared<Class, Policy>() = virtual_shared_ptr<Class>::final(
    std::make_shared<Class>()): a fresh object of exactly that class, passed as
    an rvalue shared_ptr *)
Definition fresh_arg (o : N) (c : cls) (ctrl : N) (box : cls) : arg :=
  {| a_obj := o; a_dyn := c; a_stat := c; a_src := SrcSpRvalue; a_ctrl := ctrl; a_box := box |}.

Definition make_virtual_shared (cfg : config) (st : state) (o : N) (c : cls) (ctrl : N) (box : cls) : M vptr :=
  final_ cfg st (fresh_arg o c ctrl box).

(** *** virtual_ptr(virtual_ptr<Other>&), (const virtual_ptr<Other>&), (virtual_ptr<Other>&&)
    ": obj(other.obj), vptr(other.vptr)": the object pointer is converted by the
    language (same object, viewed as [s]); the v-table pointer is copied, nothing
    is looked up.  With [s = stat p] these are the copy and move constructors. *)
Definition conv (p : vptr) (s : cls) : vptr :=
  {| obj := obj p; dyn := dyn p; stat := s; vp := vp p; smart := smart p; owner := owner p |}.

Definition copy (p : vptr) : vptr := conv p (stat p).
Definition move (p : vptr) : vptr := conv p (stat p).

(** the moved-from virtual_ptr: a plain pointer is unchanged; a smart one has
    given its shared_ptr away *)
Definition moved_from (p : vptr) : vptr :=
  {| obj := obj p; dyn := dyn p; stat := stat p; vp := vp p; smart := smart p;
     owner := if smart p then None else owner p |}.

(** *** template<typename Other> auto cast() const   (core.hpp:379-394)
    "result.vptr = vptr" and the object converted by optimal_cast /
    static|dynamic_pointer_cast: same object, same control block *)
Definition cast (p : vptr) (s : cls) : vptr := conv p s.

(** how many owners a route adds to the control block once the full expression
    is over: box() copies (even from an rvalue: "obj = value" on an lvalue
    name), the move constructor moves *)
Inductive via := ViaCopy | ViaMove | ViaCast.
Definition owners_added (p : vptr) (v : via) : nat :=
  if smart p then match v with ViaMove => 0 | _ => 1 end else 0.

(** *** _vptr(), get / * / -> *)
Definition deref (st : state) (p : vptr) : option table :=
  match vp p with
  | Direct t => t
  | Indirect l => svp st l
  end.

Definition get (p : vptr) : N := obj p.

(** ** Construction expressions: every route, nested conversions included *)

Inductive mk :=
| MCtor (a : arg)
| MFinal (a : arg)
| MMakeShared (o : N) (c : cls) (ctrl : N) (box : cls)
| MConv (m : mk) (s : cls)      (* converting copy / move to virtual_ptr<s> *)
| MCopy (m : mk)
| MMove (m : mk)
| MCast (m : mk) (s : cls).

Fixpoint build (cfg : config) (st : state) (m : mk) : M vptr :=
  match m with
  | MCtor a => ctor cfg st a
  | MFinal a => final_ cfg st a
  | MMakeShared o c ctrl box => make_virtual_shared cfg st o c ctrl box
  | MConv m' s => p <- build cfg st m' ;; ret (conv p s)
  | MCopy m' => p <- build cfg st m' ;; ret (copy p)
  | MMove m' => p <- build cfg st m' ;; ret (move p)
  | MCast m' s => p <- build cfg st m' ;; ret (cast p s)
  end.

(** the argument at the root of an expression *)
Fixpoint root (m : mk) : arg :=
  match m with
  | MCtor a => a
  | MFinal a => a
  | MMakeShared o c ctrl box => fresh_arg o c ctrl box
  | MConv m' _ | MCopy m' | MMove m' | MCast m' _ => root m'
  end.

(** route preconditions: the dynamic class was compiled by the last update;
    final: the object is exactly of the static class *)
Fixpoint pre (st : state) (m : mk) : Prop :=
  match m with
  | MCtor a => In (a_dyn a) (classes st)
  | MFinal a => In (a_dyn a) (classes st) /\ a_dyn a = a_stat a
  | MMakeShared _ c _ _ => In c (classes st)
  | MConv m' _ | MCopy m' | MMove m' | MCast m' _ => pre st m'
  end.

(** ** Decoders for the driver (ocaml/virtualptr_driver.ml) *)

Definition hash_of_nat (n : nat) : hash_kind :=
  match n with 0 => HNone | 1 => HFast | _ => HChecked end.
Definition placement_of_nat (n : nat) : placement_kind :=
  match n with 0 => PVector | _ => PMap end.
Definition source_of_nat (n : nat) : source :=
  match n with 0 => SrcRef | 1 => SrcSpConst | 2 => SrcSpLvalue | _ => SrcSpRvalue end.
Definition mk_config (h p i : nat) : config :=
  {| hash := hash_of_nat h; placement := placement_of_nat p;
     indirect := match i with 0 => false | _ => true end |}.
Definition mk_arg (o : N) (d s : cls) (src : nat) (ctrl : N) (box : cls) : arg :=
  {| a_obj := o; a_dyn := d; a_stat := s; a_src := source_of_nat src; a_ctrl := ctrl; a_box := box |}.
