(* MiniPub.v — the little language into which translators/publish.py translates, on every run, how a policy publishes and
   looks up v-table pointers by type id:
       vptr_vector<Policy>::publish_vptrs(first, last), vptr_vector<Policy>::dynamic_vptr(arg)     (policies/vptr_vector.hpp)
       vptr_map<Policy, Map>::publish_vptrs(first, last), vptr_map<...>::dynamic_vptr(arg)          (policies/vptr_map.hpp)
   and its interpreter.  The loops over the classes and their type ids are one construct (QForIds); conditions are
   `if constexpr (has_facet<Policy, type_hash | indirect_vptr>)`.  The translated bodies are in Gen/GenPub.v;
   Proofs/PubSource.v proves that running them is Model.Hash.publish_vptrs (hashed vector), Model.VptrPolicy.vec_publish
   (plain vector) and map_publish (map), and that the lookups are the models' lookups.  No proofs in this file. *)
From Coq Require Import NArith List Bool.
From Y2 Require Import Model.Registry Model.Hash Model.VptrPolicy.
Import ListNotations.
Open Scope N_scope.

Inductive pfacet := PTypeHash | PIndirect.

Inductive pexp :=
| XConst (n : N)
| XSize                          (* the local `size` *)
| XIndex                         (* the local `index` *)
| XCurId                         (* *type_iter *)
| XDynId                         (* Policy::dynamic_type(arg) *)
| XHashLength                    (* Policy::hash_length *)
| XHash (e : pexp)               (* Policy::hash_type_id(e) *)
| XMax (a b : pexp)
| XAdd (a b : pexp)
| XIfFacet (f : pfacet) (a b : pexp).   (* a helper that returns a under `if constexpr (has_facet<Policy, f>)`, b otherwise *)

Inductive pstmt :=
| QSkip
| QSeq (a b : pstmt)
| QIfFacet (f : pfacet) (t e : pstmt)
| QSetSize (e : pexp)
| QSetIndex (e : pexp)
| QHashInit                      (* Policy::hash_initialize(first, last); *)
| QForIds (body : pstmt)         (* for (iter = first..last) for (type_iter = iter->type_id_begin()..type_id_end()) body *)
| QResizeVptrs (e : pexp)        (* vptrs.resize(e); *)
| QResizeIndirect (e : pexp)     (* Policy::indirect_vptrs.resize(e); *)
| QStoreVptr (e : pexp)          (* vptrs[e] = iter->vptr(); *)
| QStoreIndirect (e : pexp)      (* Policy::indirect_vptrs[e] = iter->indirect_vptr(); *)
| QMapStore.                     (* vptrs[*type_iter] = iter->vptr();   (associative container) *)

(* a lookup: straight-line code ending in the container access that is returned *)
Inductive plookup :=
| LVectorAt (pre : pstmt) (e : pexp)    (* <pre>; return vptrs[e]; *)
| LMapFind (e : pexp).                  (* return vptrs.find(e)->second; *)

Record pstate := mk_pstate {
  q_size : N;
  q_index : N;
  q_hst : hstate;
  q_attempts : N;
  q_vptrs : list (option N);        (* vptr_vector::vptrs: a v-table pointer token, or null *)
  q_ivptrs : list (option N);       (* basic_indirect_vptr::indirect_vptrs: the token of the class's static_vptr variable *)
  q_map : list (tid * N)            (* vptr_map::vptrs *)
}.

Inductive pres (A : Type) :=
| POk (a : A)
| PSearchError (attempts buckets : N) (st' : hstate)    (* hash_search_error reported, handler threw *)
| PUnknown (t : N) (st' : hstate)                        (* unknown_class_error from the checked hash *)
| PStream.                                               (* the supplied multiplier stream ran out *)
Arguments POk {A} a.
Arguments PSearchError {A} attempts buckets st'.
Arguments PUnknown {A} t st'.
Arguments PStream {A}.

Definition pbind {A B} (r : pres A) (f : A -> pres B) : pres B :=
  match r with
  | POk a => f a
  | PSearchError a b s => PSearchError a b s
  | PUnknown t s => PUnknown t s
  | PStream => PStream
  end.

Section Interp.
  Variable has_hash indirect checked : bool.
  Variable stream : list N.
  Variable budget : N.
  Variable classes : list cls.        (* (v-table pointer token, type ids) per class *)
  Variable dyn_id : N.                (* for lookups: Policy::dynamic_type(arg) *)

  Definition has (f : pfacet) : bool := match f with PTypeHash => has_hash | PIndirect => indirect end.

  (* cur: (token of the class the loops are at, current type id) *)
  Fixpoint xeval (cur : N * N) (s : pstate) (e : pexp) : pres N :=
    match e with
    | XConst n => POk n
    | XSize => POk (q_size s)
    | XIndex => POk (q_index s)
    | XCurId => POk (snd cur)
    | XDynId => POk dyn_id
    | XHashLength => POk (h_length (q_hst s))
    | XHash a =>
        pbind (xeval cur s a) (fun t =>
          match lookup checked (q_hst s) t with
          | Ok i => POk i
          | Error (UnknownClass u) => PUnknown u (q_hst s)
          end)
    | XMax a b => pbind (xeval cur s a) (fun x => pbind (xeval cur s b) (fun y => POk (N.max x y)))
    | XAdd a b => pbind (xeval cur s a) (fun x => pbind (xeval cur s b) (fun y => POk (x + y)))
    | XIfFacet f a b => if has f then xeval cur s a else xeval cur s b
    end.

  Definition with_size (s : pstate) (x : N) := mk_pstate x (q_index s) (q_hst s) (q_attempts s) (q_vptrs s) (q_ivptrs s) (q_map s).
  Definition with_index (s : pstate) (x : N) := mk_pstate (q_size s) x (q_hst s) (q_attempts s) (q_vptrs s) (q_ivptrs s) (q_map s).
  Definition with_vptrs (s : pstate) (v : list (option N)) := mk_pstate (q_size s) (q_index s) (q_hst s) (q_attempts s) v (q_ivptrs s) (q_map s).
  Definition with_ivptrs (s : pstate) (v : list (option N)) := mk_pstate (q_size s) (q_index s) (q_hst s) (q_attempts s) (q_vptrs s) v (q_map s).
  Definition with_map (s : pstate) (m : list (tid * N)) := mk_pstate (q_size s) (q_index s) (q_hst s) (q_attempts s) (q_vptrs s) (q_ivptrs s) m.

  (* statements inside the loops (no nested loop, no hash_initialize there) *)
  Fixpoint qbody (cur : N * N) (c : pstmt) (s : pstate) : pres pstate :=
    match c with
    | QSkip => POk s
    | QSeq a b => pbind (qbody cur a s) (qbody cur b)
    | QIfFacet f t e => if has f then qbody cur t s else qbody cur e s
    | QSetSize e => pbind (xeval cur s e) (fun x => POk (with_size s x))
    | QSetIndex e => pbind (xeval cur s e) (fun x => POk (with_index s x))
    | QResizeVptrs e => pbind (xeval cur s e) (fun x => POk (with_vptrs s (resize (N.to_nat x) (q_vptrs s) None)))
    | QResizeIndirect e => pbind (xeval cur s e) (fun x => POk (with_ivptrs s (resize (N.to_nat x) (q_ivptrs s) None)))
    | QStoreVptr e => pbind (xeval cur s e) (fun i => POk (with_vptrs s (set_nth (N.to_nat i) (Some (fst cur)) (q_vptrs s))))
    | QStoreIndirect e => pbind (xeval cur s e) (fun i => POk (with_ivptrs s (set_nth (N.to_nat i) (Some (fst cur)) (q_ivptrs s))))
    | QMapStore => POk (with_map s (map_set (snd cur) (fst cur) (q_map s)))
    | QHashInit => POk s          (* not inside a loop: see qexec *)
    | QForIds _ => POk s          (* loops do not nest: refused by the translator *)
    end.

  Fixpoint ids_loop (vp : N) (ids : list N) (c : pstmt) (s : pstate) : pres pstate :=
    match ids with
    | [] => POk s
    | t :: r => pbind (qbody (vp, t) c s) (ids_loop vp r c)
    end.

  Fixpoint classes_loop (cs : list cls) (c : pstmt) (s : pstate) : pres pstate :=
    match cs with
    | [] => POk s
    | k :: r => pbind (ids_loop (cls_vptr k) (cls_ids k) c s) (classes_loop r c)
    end.

  Fixpoint qexec (c : pstmt) (s : pstate) : pres pstate :=
    match c with
    | QSeq a b => pbind (qexec a s) (qexec b)
    | QIfFacet f t e => if has f then qexec t s else qexec e s
    | QHashInit =>
        match hash_initialize checked stream budget (q_hst s) classes with
        | Found st' n => POk (mk_pstate (q_size s) (q_index s) st' n (q_vptrs s) (q_ivptrs s) (q_map s))
        | SearchError n b st' => PSearchError n b st'
        | StreamExhausted => PStream
        end
    | QForIds body => classes_loop classes body s
    | other => qbody (0, 0) other s
    end.

  Definition run_lookup (l : plookup) (s : pstate) : pres (option N) :=
    match l with
    | LVectorAt pre e =>
        pbind (qexec pre s) (fun s' => pbind (xeval (0, 0) s' e) (fun i => POk (nth (N.to_nat i) (q_vptrs s') None)))
    | LMapFind e => pbind (xeval (0, 0) s e) (fun t => POk (assocN t (q_map s)))
    end.
End Interp.

Definition pstate_of (st : hstate) (v iv : list (option N)) (m : list (tid * N)) : pstate := mk_pstate 0 0 st 0 v iv m.
