(* MiniRep.v — the little language into which translators/reportarith.py translates, on every run, the arithmetic of
   detail/compiler.hpp around the dispatch tables:
       the strides of a multi-method                    (build_dispatch_tables: stride *= groups[dim - 1].size(); push_back)
       report.cells and report.concrete_cells           (build_dispatch_tables: the two products over the groups)
       generic_compiler::accumulate(partial, total)     (how a method's report is added to the update report)
   and its interpreter.  No proofs in this file. *)
From Coq Require Import List NArith Bool Arith String.
From Y2 Require Import Model.Registry Model.Compile.
Import ListNotations.
Local Open Scope string_scope.

Inductive pfield := PCells | PConcreteCells | PNotImplemented | PConcreteNotImplemented | PAmbiguous | PConcreteAmbiguous.

Inductive aexp :=
| ANum (n : nat)
| AVar (x : string)
| AArity                              (* m.arity() / dims *)
| ASub (a b : aexp)
| AGroupsSizeAt (i : aexp)            (* groups[i].size() *)
| ADimSize                            (* dim_groups.size()            (inside a loop over the groups) *)
| ADimConcrete                        (* std::count_if(dim_groups..., group.second.has_concrete_classes) *)
| AReport (f : pfield)                (* m.report.f *)
| APartial (f : pfield)               (* partial.f *)
| APartialNonZero (f : pfield).       (* partial.f != 0    (0 or 1) *)

Inductive alhs := LVar (x : string) | LReport (f : pfield) | LTotal (f : pfield).

Inductive astmt :=
| ASkip
| ASeq (a b : astmt)
| ASet (l : alhs) (e : aexp)          (* l = e;   auto l = e; *)
| AMul (l : alhs) (e : aexp)          (* l *= e; *)
| AAdd (l : alhs) (e : aexp)          (* l += e; *)
| APushStride (e : aexp)              (* m.strides.push_back(e); *)
| AForDim (x : string) (from : aexp) (upto : aexp) (body : astmt)     (* for (size_t x = from; x < upto; ++x) body *)
| AForGroups (body : astmt)           (* for (const auto& dim_groups : groups) body *)
| AIfArityGt1 (t : astmt).            (* if (m.arity() > 1) t *)

Definition rep_get (r : mreport) (f : pfield) : nat :=
  match f with
  | PCells => rp_cells r | PConcreteCells => rp_ccells r | PNotImplemented => rp_ni r
  | PConcreteNotImplemented => rp_cni r | PAmbiguous => rp_amb r | PConcreteAmbiguous => rp_camb r
  end.

Definition rep_set (r : mreport) (f : pfield) (v : nat) : mreport :=
  match f with
  | PCells => mk_rep v (rp_ccells r) (rp_ni r) (rp_amb r) (rp_cni r) (rp_camb r)
  | PConcreteCells => mk_rep (rp_cells r) v (rp_ni r) (rp_amb r) (rp_cni r) (rp_camb r)
  | PNotImplemented => mk_rep (rp_cells r) (rp_ccells r) v (rp_amb r) (rp_cni r) (rp_camb r)
  | PAmbiguous => mk_rep (rp_cells r) (rp_ccells r) (rp_ni r) v (rp_cni r) (rp_camb r)
  | PConcreteNotImplemented => mk_rep (rp_cells r) (rp_ccells r) (rp_ni r) (rp_amb r) v (rp_camb r)
  | PConcreteAmbiguous => mk_rep (rp_cells r) (rp_ccells r) (rp_ni r) (rp_amb r) (rp_cni r) v
  end.

Record astate := mk_as {
  s_env : list (string * nat);
  s_report : mreport;                 (* m.report *)
  s_total : mreport;                  (* the update report *)
  s_strides : list nat                (* m.strides *)
}.

Section Interp.
  Variables (groups : list (list (N * bool))) (arity : nat) (partial : mreport).

  Fixpoint env_get (env : list (string * nat)) (x : string) : option nat :=
    match env with [] => None | (y, v) :: r => if String.eqb x y then Some v else env_get r x end.

  (* cur: the group list of the dimension a loop over the groups is at *)
  Fixpoint aeval (cur : option (list (N * bool))) (s : astate) (e : aexp) : option nat :=
    match e with
    | ANum n => Some n
    | AVar x => env_get (s_env s) x
    | AArity => Some arity
    | ASub a b => match aeval cur s a, aeval cur s b with Some x, Some y => Some (x - y) | _, _ => None end
    | AGroupsSizeAt i => match aeval cur s i with
                         | Some k => match nth_error groups k with Some g => Some (length g) | None => None end
                         | None => None
                         end
    | ADimSize => match cur with Some g => Some (length g) | None => None end
    | ADimConcrete => match cur with Some g => Some (length (filter snd g)) | None => None end
    | AReport f => Some (rep_get (s_report s) f)
    | APartial f => Some (rep_get partial f)
    | APartialNonZero f => Some (if Nat.eqb (rep_get partial f) 0 then 0 else 1)
    end.

  Definition lget (s : astate) (l : alhs) : option nat :=
    match l with
    | LVar x => env_get (s_env s) x
    | LReport f => Some (rep_get (s_report s) f)
    | LTotal f => Some (rep_get (s_total s) f)
    end.

  Definition lset (s : astate) (l : alhs) (v : nat) : astate :=
    match l with
    | LVar x => mk_as ((x, v) :: s_env s) (s_report s) (s_total s) (s_strides s)
    | LReport f => mk_as (s_env s) (rep_set (s_report s) f v) (s_total s) (s_strides s)
    | LTotal f => mk_as (s_env s) (s_report s) (rep_set (s_total s) f v) (s_strides s)
    end.

  Section Loops.
    Variable step : nat -> astate -> option astate.
    (* for (x = from; x < upto; ++x): the indexes from, from+1, ..., upto-1 *)
    Fixpoint dim_loop (n : nat) (i : nat) (s : astate) : option astate :=
      match n with
      | 0 => Some s
      | S n' => match step i s with Some s' => dim_loop n' (S i) s' | None => None end
      end.
  End Loops.

  Fixpoint groups_loop_ (step : list (N * bool) -> astate -> option astate) (gs : list (list (N * bool))) (s : astate) : option astate :=
    match gs with
    | [] => Some s
    | g :: r => match step g s with Some s' => groups_loop_ step r s' | None => None end
    end.

  Fixpoint aexec (c : astmt) (cur : option (list (N * bool))) (s : astate) : option astate :=
    match c with
    | ASkip => Some s
    | ASeq a b => match aexec a cur s with Some s' => aexec b cur s' | None => None end
    | ASet l e => match aeval cur s e with Some v => Some (lset s l v) | None => None end
    | AMul l e => match lget s l, aeval cur s e with Some x, Some v => Some (lset s l (x * v)) | _, _ => None end
    | AAdd l e => match lget s l, aeval cur s e with Some x, Some v => Some (lset s l (x + v)) | _, _ => None end
    | APushStride e => match aeval cur s e with
                       | Some v => Some (mk_as (s_env s) (s_report s) (s_total s) (s_strides s ++ [v]))
                       | None => None
                       end
    | AForDim x from upto body =>
        match aeval cur s from, aeval cur s upto with
        | Some a, Some b => dim_loop (fun i s' => aexec body cur (lset s' (LVar x) i)) (b - a) a s
        | _, _ => None
        end
    | AForGroups body => groups_loop_ (fun g s' => aexec body (Some g) s') groups s
    | AIfArityGt1 t => if Nat.ltb 1 arity then aexec t cur s else Some s
    end.
End Interp.

Definition as0 (rep tot : mreport) : astate := mk_as [] rep tot [].
