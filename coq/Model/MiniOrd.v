(* MiniOrd.v — the little language into which translators/ordering.py translates, on every run, the three functions of
   detail/compiler.hpp that decide which definition wins:  is_more_specific, is_base (loops over the two definitions'
   virtual-parameter classes in parallel, a boolean accumulator, early returns) and best (the first candidate for
   which a predicate holds against all candidates, else all of them).  The translated functions are in
   Gen/GenOrdering.v; Proofs/OrderingSource.v proves that interpreting them IS Model.Compile's is_more_specific /
   is_base / best.  No proofs in this file.

   Classes are numbers; `cov x y` says  y ∈ x->covariant_classes  (y is x or derives from x). *)
From Coq Require Import List Bool Arith.
Import ListNotations.

(* ---- the pairwise loop:   bool result = <init>;
                              for (; a_iter != a_last; ++a_iter, ++b_iter) <body>
                              return result;                                         *)
Inductive side := SA | SB.            (* a_iter / b_iter, dereferenced *)

Inductive oexp :=
| OEq (x y : side)                    (* x == y, both dereferenced *)
| ONe (x y : side)                    (* x != y, both dereferenced *)
| OHas (x y : side)                   (* ( *x)->covariant_classes.find( *y) != ( *x)->covariant_classes.end() *)
| OHasNot (x y : side)                (* ... == ...end() *)
| ONot (e : oexp)
| OAnd (e f : oexp)
| OOr (e f : oexp)
| OResult                             (* the accumulator, read *)
| OConst (b : bool).

Inductive ostmt :=
| OSkip
| OSeq (s t : ostmt)
| OIf (c : oexp) (t e : ostmt)
| OSet (e : oexp)                     (* result = e; *)
| ORet (e : oexp)                     (* return e; *)
| OContinue.                          (* continue; *)

Record pairfn := { pf_init : bool; pf_body : ostmt; pf_final : oexp }.

Section Sem.
  Variable cov : nat -> nat -> bool.

  Definition pick (a b : nat) (s : side) : nat := match s with SA => a | SB => b end.

  Fixpoint oeval (a b : nat) (res : bool) (e : oexp) : bool :=
    match e with
    | OEq x y => Nat.eqb (pick a b x) (pick a b y)
    | ONe x y => negb (Nat.eqb (pick a b x) (pick a b y))
    | OHas x y => cov (pick a b x) (pick a b y)
    | OHasNot x y => negb (cov (pick a b x) (pick a b y))
    | ONot f => negb (oeval a b res f)
    | OAnd f g => oeval a b res f && oeval a b res g
    | OOr f g => oeval a b res f || oeval a b res g
    | OResult => res
    | OConst c => c
    end.

  (* one pass of the body: Next r (fall off the end with accumulator r), Cont r (continue), Done v (return v) *)
  Inductive ores := Next (r : bool) | Cont (r : bool) | Done (v : bool).

  Fixpoint oexec (a b : nat) (res : bool) (s : ostmt) : ores :=
    match s with
    | OSkip => Next res
    | OSeq s1 s2 => match oexec a b res s1 with Next r => oexec a b r s2 | o => o end
    | OIf c t e => if oeval a b res c then oexec a b res t else oexec a b res e
    | OSet e => Next (oeval a b res e)
    | ORet e => Done (oeval a b res e)
    | OContinue => Cont res
    end.

  (* the loop runs over a's classes; b is advanced in step (both definitions have the method's arity) *)
  Fixpoint oloop (body : ostmt) (final : oexp) (la lb : list nat) (res : bool) : bool :=
    match la, lb with
    | a :: la', b :: lb' =>
        match oexec a b res body with
        | Next r | Cont r => oloop body final la' lb' r
        | Done v => v
        end
    | _, _ => oeval 0 0 res final
    end.

  Definition run_pairfn (f : pairfn) (la lb : list nat) : bool :=
    oloop (pf_body f) (pf_final f) la lb (pf_init f).

  (* ---- best:   for (auto spec : candidates)
                    if (std::all_of(candidates.begin(), candidates.end(), [spec](auto other) { return <pred>; }))
                      return {spec};
                  return candidates;                                                                        *)
  Inductive who := WSpec | WOther.
  Inductive bexp :=
  | BSame (x y : who)                 (* x == y  (pointers to definitions) *)
  | BMoreSpecific (x y : who)         (* is_more_specific(x, y) *)
  | BIsBase (x y : who)
  | BNot (e : bexp) | BAnd (e f : bexp) | BOr (e f : bexp).

  Variable more_specific is_base : nat -> nat -> bool.    (* on definition indexes *)

  Definition pickw (s o : nat) (w : who) : nat := match w with WSpec => s | WOther => o end.

  Fixpoint beval (s o : nat) (e : bexp) : bool :=
    match e with
    | BSame x y => Nat.eqb (pickw s o x) (pickw s o y)
    | BMoreSpecific x y => more_specific (pickw s o x) (pickw s o y)
    | BIsBase x y => is_base (pickw s o x) (pickw s o y)
    | BNot f => negb (beval s o f)
    | BAnd f g => beval s o f && beval s o g
    | BOr f g => beval s o f || beval s o g
    end.

  Definition run_best (pred : bexp) (cand : list nat) : list nat :=
    match find (fun s => forallb (fun o => beval s o pred) cand) cand with
    | Some s => [s]
    | None => cand
    end.
End Sem.
