(* MiniGrp.v — the little language into which translators/grouping.py translates, on every run, the two blocks of
       compiler<Policy>::build_dispatch_tables()                                             (detail/compiler.hpp)
   that decide WHICH CELL a class selects:

     groups  : for every virtual parameter (dimension) of the method, every class covariant with the parameter's class gets a
               bit mask - bit i set when definition i accepts the class in that dimension -, classes with the same mask share a
               group (`std::map<bitvec, group>`: groups are enumerated by increasing mask), and a group remembers whether it
               holds a concrete class;
     entries : for every dimension and group, in the map's order, every class of the group gets the v-table entry
               (method, dimension, group number) at the method's slot for that dimension.

   covariant_classes is a std::unordered_set: its iteration order is not specified.  The interpreter is therefore given the
   order as a parameter (`enum`), and Proofs/GrpSource.v proves the results for EVERY enumeration of the same classes.
   No proofs in this file. *)
From Coq Require Import List NArith Bool Arith.
From Y2 Require Import Model.Registry Model.Compile.
Import ListNotations.
Local Open Scope nat_scope.

Inductive gstmt :=
| GSkip
| GSeq (a b : gstmt)
| GForParams (body : gstmt)          (* std::size_t dim = 0; for (auto vp : m.vp) { auto& dim_group = groups[dim]; body; ++dim; } *)
| GForCovariant (body : gstmt)       (* for (auto covariant_class : vp->covariant_classes) *)
| GNewMask                           (* bitvec mask; mask.resize(m.specs.size()); *)
| GForSpecs (body : gstmt)           (* std::size_t group_index = 0; for (auto& spec : m.specs) { body; ++group_index; } *)
| GIfSpecCovers (body : gstmt)       (* if (spec.vp[dim]->covariant_classes.find(covariant_class) != spec.vp[dim]->covariant_classes.end()) *)
| GSetMaskBit                        (* mask[group_index] = 1 *)
| GBindGroup                         (* auto& group = dim_group[mask] *)
| GPushClass                         (* group.classes.push_back(covariant_class) *)
| GOrConcrete.                       (* group.has_concrete_classes = group.has_concrete_classes || !covariant_class->is_abstract *)

Record grp := mk_grp { g_classes : list nat; g_conc : bool }.
Definition grp0 : grp := mk_grp [] false.              (* a value-initialised group *)

(* std::map<bitvec, group> as an association list kept in increasing key order *)
Fixpoint gtouch (k : N) (f : grp -> grp) (l : list (N * grp)) : list (N * grp) :=     (* f applied to l[k], created if absent *)
  match l with
  | [] => [(k, f grp0)]
  | (k', g) :: r => if N.ltb k k' then (k, f grp0) :: l
                    else if N.eqb k k' then (k', f g) :: r
                    else (k', g) :: gtouch k f r
  end.
Fixpoint gupd (k : N) (f : grp -> grp) (l : list (N * grp)) : option (list (N * grp)) :=   (* through a reference obtained earlier *)
  match l with
  | [] => None
  | (k', g) :: r => if N.eqb k k' then Some ((k', f g) :: r)
                    else match gupd k f r with Some r' => Some ((k', g) :: r') | None => None end
  end.

Record g_st := mk_gst {
  gs_groups : list (list (N * grp));     (* groups[dim] *)
  gs_mask : option N;                    (* the local `mask` *)
  gs_key : option N                      (* the key of the group `group` refers to *)
}.
Record g_cx := mk_gcx {
  gx_dim : option (nat * nat);           (* dim and the class of the parameter *)
  gx_class : option nat;                 (* covariant_class *)
  gx_spec : option (nat * list nat)      (* group_index and spec.vp *)
}.

Section Loop.
  Context {A : Type}.
  Variable step : A -> g_st -> option g_st.
  Fixpoint gfor (xs : list A) (s : g_st) : option g_st :=
    match xs with [] => Some s | a :: r => match step a s with Some s' => gfor r s' | None => None end end.
End Loop.

Section Interp.
  Variables (L : lattice) (m : cmeth).
  Variable enum : nat -> list nat.       (* the order in which an unordered_set of classes is walked *)

  Fixpoint gexec (c : gstmt) (x : g_cx) (s : g_st) : option g_st :=
    match c with
    | GSkip => Some s
    | GSeq a b => match gexec a x s with Some s' => gexec b x s' | None => None end
    | GForParams body =>
        gfor (fun dv s' => gexec body (mk_gcx (Some dv) None None) s') (combine (seq 0 (length (cm_vp m))) (cm_vp m)) s
    | GForCovariant body =>
        match gx_dim x with
        | Some (d, v) => gfor (fun cc s' => gexec body (mk_gcx (gx_dim x) (Some cc) None) (mk_gst (gs_groups s') None None)) (enum v) s
        | None => None
        end
    | GNewMask => Some (mk_gst (gs_groups s) (Some 0%N) (gs_key s))
    | GForSpecs body =>
        gfor (fun isp s' => gexec body (mk_gcx (gx_dim x) (gx_class x) (Some isp)) s')
             (combine (seq 0 (length (cm_specs m))) (cm_specs m)) s
    | GIfSpecCovers body =>
        match gx_dim x, gx_class x, gx_spec x with
        | Some (d, _), Some cc, Some (_, sp) =>
            if memn cc (nth (nth d sp 0) (l_cov L) []) then gexec body x s else Some s
        | _, _, _ => None
        end
    | GSetMaskBit =>
        match gs_mask s, gx_spec x with
        | Some k, Some (i, _) => Some (mk_gst (gs_groups s) (Some (N.setbit k (N.of_nat i))) (gs_key s))
        | _, _ => None
        end
    | GBindGroup =>
        match gs_mask s, gx_dim x with
        | Some k, Some (d, _) =>
            if Nat.ltb d (length (gs_groups s))
            then Some (mk_gst (upd_nth d (gs_groups s) [] (gtouch k (fun g => g))) (gs_mask s) (Some k))
            else None
        | _, _ => None
        end
    | GPushClass =>
        match gs_key s, gx_dim x, gx_class x with
        | Some k, Some (d, _), Some cc =>
            match gupd k (fun g => mk_grp (g_classes g ++ [cc]) (g_conc g)) (nth d (gs_groups s) []) with
            | Some l => Some (mk_gst (set_nth d (gs_groups s) l) (gs_mask s) (gs_key s))
            | None => None
            end
        | _, _, _ => None
        end
    | GOrConcrete =>
        match gs_key s, gx_dim x, gx_class x with
        | Some k, Some (d, _), Some cc =>
            match gupd k (fun g => mk_grp (g_classes g) (g_conc g || negb (k_abstract (nth cc (l_info L) (mk_cls [] false)))))
                       (nth d (gs_groups s) []) with
            | Some l => Some (mk_gst (set_nth d (gs_groups s) l) (gs_mask s) (gs_key s))
            | None => None
            end
        | _, _, _ => None
        end
    end.

  (* std::vector<group_map> groups; groups.resize(dims); the block *)
  Definition run_groups (c : gstmt) : option (list (list (N * grp))) :=
    match gexec c (mk_gcx None None None) (mk_gst (repeat [] (length (cm_vp m))) None None) with
    | Some s => Some (gs_groups s)
    | None => None
    end.
End Interp.

(* ------------------------------------------------------------------ entries *)

Inductive estmt :=
| ESkip
| ESeq (a b : estmt)
| EForDims (body : estmt)            (* for (std::size_t dim = 0; dim < m.arity(); ++dim) *)
| EForGroups (body : estmt)          (* std::size_t group_num = 0; for (auto& [mask, group] : groups[dim]) { body; ++group_num; } *)
| EForGroupClasses (body : estmt)    (* for (auto cls : group.classes) *)
| EWriteEntry.                       (* auto& entry = cls->vtbl[m.slots[dim] - cls->first_slot];
                                        entry.method_index = &m - &methods[0]; entry.vp_index = dim; entry.group_index = group_num; *)

Record e_cx := mk_ecx { ex_dim : option nat; ex_group : option (nat * list nat); ex_cls : option nat }.

Section Entries.
  Variables (mi : nat) (slots : list nat) (firsts : list nat) (groups : list (list (N * grp))).
  Definition vt := list (list (nat * nat * nat)).

  Section ELoop.
    Context {A : Type}.
    Variable step : A -> vt -> option vt.
    Fixpoint efor (xs : list A) (s : vt) : option vt :=
      match xs with [] => Some s | a :: r => match step a s with Some s' => efor r s' | None => None end end.
  End ELoop.

  Fixpoint eexec (c : estmt) (x : e_cx) (s : vt) : option vt :=
    match c with
    | ESkip => Some s
    | ESeq a b => match eexec a x s with Some s' => eexec b x s' | None => None end
    | EForDims body => efor (fun d s' => eexec body (mk_ecx (Some d) None None) s') (seq 0 (length slots)) s
    | EForGroups body =>
        match ex_dim x with
        | Some d => efor (fun ig s' => eexec body (mk_ecx (ex_dim x) (Some ig) None) s')
                         (combine (seq 0 (length (nth d groups []))) (map (fun kg => g_classes (snd kg)) (nth d groups []))) s
        | None => None
        end
    | EForGroupClasses body =>
        match ex_group x with
        | Some (_, cls) => efor (fun cc s' => eexec body (mk_ecx (ex_dim x) (ex_group x) (Some cc)) s') cls s
        | None => None
        end
    | EWriteEntry =>
        match ex_dim x, ex_group x, ex_cls x with
        | Some d, Some (gn, _), Some cc =>
            let slot := nth d slots 0 in
            let fs := nth cc firsts 0 in
            if Nat.ltb slot fs then None                       (* an index below the v-table: undefined behaviour *)
            else if Nat.ltb (slot - fs) (length (nth cc s [])) && Nat.ltb cc (length s)
                 then Some (upd_nth cc s [] (fun l => set_nth (slot - fs) l (mi, d, gn)))
                 else None                                     (* past the end of the v-table *)
        | _, _, _ => None
        end
    end.
End Entries.
