(* UseClasses.v — the registration front end: use_classes<Cs...> / register_classes(...) builds one class_info record per
   listed class; detail::inheritance_map gives each class C the list [C] ++ every listed class B with
   std::is_base_of<B, C> (in list order; C itself is in it as its own improper base).  class_declaration<C, Bases...>
   is the one-record form with the bases as written.  Classes are N (the ids the records will carry). No proofs. *)
From Y2 Require Import Model.Registry.

(* detail::inheritance_map: for each class of the list, the listed classes that are bases of it per is_base_of *)
Definition inheritance_map (is_base_of : N -> N -> bool) (cs : list N) : list (N * list N) :=
  map (fun c => (c, filter (fun b => is_base_of b c) cs)) cs.

(* the records one use_classes statement contributes (abstract flags from the classes themselves) *)
Definition use_classes_records (is_base_of : N -> N -> bool) (is_abstract : N -> bool) (cs : list N) : list class_rec :=
  map (fun '(c, bases) => mk_class c bases (is_abstract c)) (inheritance_map is_base_of cs).

(* a program's class registrations: several statements *)
Definition program_records (is_base_of : N -> N -> bool) (is_abstract : N -> bool) (stmts : list (list N)) : list class_rec :=
  flat_map (use_classes_records is_base_of is_abstract) stmts.
