(* VptrPolicy.v — how a policy maps a dynamic type id to a v-table pointer when no hash is involved:
   vptr_vector without type_hash (vector indexed by the id itself) and vptr_map (associative container).
   The hashed vector is Model/Hash.v (property C05).  A class is (token of its static v-table pointer, its ids). *)
From Y2 Require Import Model.Registry.
Local Open Scope nat_scope.

Definition pclass : Type := (N * list tid)%type.
Definition pc_vptr (c : pclass) : N := fst c.
Definition pc_ids (c : pclass) : list tid := snd c.
Definition all_pids (cs : list pclass) : list tid := flat_map pc_ids cs.

(* ---- vptr_vector, no hash: size = max id + 1; vptrs.resize(size) keeps old entries; vptrs[id] = vptr *)
Definition vresize {A} (n : nat) (l : list A) (d : A) : list A := firstn n l ++ repeat d (n - length l).
Definition vec_size (cs : list pclass) : nat := S (fold_left (fun m t => Nat.max m (N.to_nat t)) (all_pids cs) 0).
Fixpoint vec_set_ids (vp : N) (ids : list tid) (v : list (option N)) : list (option N) :=
  match ids with
  | [] => v
  | t :: ids' => vec_set_ids vp ids' (set_nth (N.to_nat t) v (Some vp))
  end.
Fixpoint vec_set_classes (cs : list pclass) (v : list (option N)) : list (option N) :=
  match cs with
  | [] => v
  | c :: cs' => vec_set_classes cs' (vec_set_ids (pc_vptr c) (pc_ids c) v)
  end.
Definition vec_publish (cs : list pclass) (old : list (option N)) : list (option N) :=
  vec_set_classes cs (vresize (vec_size cs) old None).
Definition vec_lookup (v : list (option N)) (t : tid) : option N := nth (N.to_nat t) v None.

(* ---- vptr_map: vptrs[id] = vptr for every id; find(id)->second *)
Fixpoint map_set (k : tid) (x : N) (m : list (tid * N)) : list (tid * N) :=
  match m with
  | [] => [(k, x)]
  | (k', x') :: m' => if N.eqb k k' then (k, x) :: m' else (k', x') :: map_set k x m'
  end.
Fixpoint map_set_ids (vp : N) (ids : list tid) (m : list (tid * N)) : list (tid * N) :=
  match ids with [] => m | t :: ids' => map_set_ids vp ids' (map_set t vp m) end.
Fixpoint map_publish (cs : list pclass) (m : list (tid * N)) : list (tid * N) :=
  match cs with [] => m | c :: cs' => map_publish cs' (map_set_ids (pc_vptr c) (pc_ids c) m) end.
Definition map_lookup (m : list (tid * N)) (t : tid) : option N := assocN t m.
