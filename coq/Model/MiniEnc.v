(* MiniEnc.v — the little language into which translators/encsizes.py translates, on every run, the part of
   generator::encode_dispatch_data (generator.hpp) headed "Calculate data sizes" and the five array bounds it prints into the
   emitted struct (headroom, slots, encoded v-tables, decoded v-tables, dispatch tables), and its interpreter.
   Proofs/EncSource.v proves that the five numbers are e_H, e_S, e_E, e_D, e_T of Model.Codec.encode.  No proofs here. *)
From Coq Require Import List NArith Bool Arith String.
From Y2 Require Import Model.Registry Model.Compile Gen.GenCodecConsts Model.Codec.
Import ListNotations.
Local Open Scope string_scope.

Inductive eexp :=
| ENum (n : nat)
| EVar (x : string)
| EAdd (a b : eexp) | ESub (a b : eexp) | EMul (a b : eexp) | EDiv (a b : eexp)
| EMax (a b : eexp)                 (* (std::max)(a, b) *)
| EArity                            (* method.arity()                    (inside a loop over the methods) *)
| ETableSize                        (* method.dispatch_table.size() *)
| EVpIndex                          (* entry.vp_index                    (inside a loop over the entries) *)
| ESizeofDecoded                    (* sizeof(uintptr_t): decode_size *)
| ESizeofEncoded                    (* sizeof(uint16_t): encode_size *)
| ECond (c : econd) (a b : eexp)    (* c ? a : b *)
with econd :=
| CGt (a b : eexp) | CNe (a b : eexp) | CEq (a b : eexp) | CNot_ (c : econd).

Inductive estmt :=
| ESkip
| ESeq (a b : estmt)
| ESet (x : string) (e : eexp)      (* auto x = e;   x = e; *)
| EIf (c : econd) (t e : estmt)
| EForMethods (body : estmt)        (* for (auto& method : compiler.methods) / std::accumulate over them *)
| EForClasses (body : estmt)        (* for (auto& cls : compiler.classes) *)
| EForEntries (body : estmt).       (* for (auto& entry : cls.vtbl) *)

Definition eenv := list (string * nat).
Fixpoint eget (env : eenv) (x : string) : option nat :=
  match env with [] => None | (y, v) :: r => if String.eqb x y then Some v else eget r x end.

Section Interp.
  Variable methods : list (nat * nat).                 (* per method: arity, dispatch_table.size() *)
  Variable classes : list (list (nat * nat * nat)).    (* per class: its v-table entries (method, vp_index, group) *)

  Record ectx := mk_ectx { c_meth : option (nat * nat); c_cls : option (list (nat * nat * nat)); c_entry : option (nat * nat * nat) }.

  Fixpoint eeval (x : ectx) (env : eenv) (e : eexp) : option nat :=
    let bin (f : nat -> nat -> nat) a b := match eeval x env a, eeval x env b with Some u, Some v => Some (f u v) | _, _ => None end in
    match e with
    | ENum n => Some n
    | EVar v => eget env v
    | EAdd a b => bin Nat.add a b
    | ESub a b => bin Nat.sub a b
    | EMul a b => bin Nat.mul a b
    | EDiv a b => bin Nat.div a b
    | EMax a b => bin Nat.max a b
    | EArity => match c_meth x with Some (a, _) => Some a | None => None end
    | ETableSize => match c_meth x with Some (_, t) => Some t | None => None end
    | EVpIndex => match c_entry x with Some (_, vpi, _) => Some vpi | None => None end
    | ESizeofDecoded => Some decode_size
    | ESizeofEncoded => Some encode_size
    | ECond c a b => match eceval x env c with Some true => eeval x env a | Some false => eeval x env b | None => None end
    end
  with eceval (x : ectx) (env : eenv) (c : econd) : option bool :=
    match c with
    | CGt a b => match eeval x env a, eeval x env b with Some u, Some v => Some (Nat.ltb v u) | _, _ => None end
    | CNe a b => match eeval x env a, eeval x env b with Some u, Some v => Some (negb (Nat.eqb u v)) | _, _ => None end
    | CEq a b => match eeval x env a, eeval x env b with Some u, Some v => Some (Nat.eqb u v) | _, _ => None end
    | CNot_ c => match eceval x env c with Some b => Some (negb b) | None => None end
    end.

  Section Loop.
    Context {A : Type}.
    Variable step : A -> eenv -> option eenv.
    Fixpoint efor (xs : list A) (env : eenv) : option eenv :=
      match xs with [] => Some env | a :: r => match step a env with Some env' => efor r env' | None => None end end.
  End Loop.

  Fixpoint eexec (s : estmt) (x : ectx) (env : eenv) : option eenv :=
    match s with
    | ESkip => Some env
    | ESeq a b => match eexec a x env with Some env' => eexec b x env' | None => None end
    | ESet v e => match eeval x env e with Some n => Some ((v, n) :: env) | None => None end
    | EIf c t e => match eceval x env c with Some true => eexec t x env | Some false => eexec e x env | None => None end
    | EForMethods body => efor (fun m env' => eexec body (mk_ectx (Some m) (c_cls x) (c_entry x)) env') methods env
    | EForClasses body => efor (fun cl env' => eexec body (mk_ectx (c_meth x) (Some cl) (c_entry x)) env') classes env
    | EForEntries body => match c_cls x with
                          | Some cl => efor (fun en env' => eexec body (mk_ectx (c_meth x) (c_cls x) (Some en)) env') cl env
                          | None => None
                          end
    end.

  (* the sizes printed into the emitted struct, in order: headroom, slots, encoded vtbls, decoded vtbls, dtbls *)
  Definition run_sizes (body : estmt) (args : list eexp) : option (list nat) :=
    match eexec body (mk_ectx None None None) [] with
    | Some env => fold_right (fun e acc => match eeval (mk_ectx None None None) env e, acc with Some v, Some l => Some (v :: l) | _, _ => None end)
                             (Some []) args
    | None => None
    end.
End Interp.
