(** * Model of yomm2's argument conversion (detail.hpp: virtual_traits,
      argument_traits, optimal_cast, thunk; core.hpp: method::operator(),
      virtual_ptr::cast; macros.hpp: the inline function of declare_method).

    No proofs in this file.  What static_cast / dynamic_cast / the pointer
    casts of <memory> do is taken from [Subobject]; this file says WHICH of
    them each parameter kind applies, and what the forwarding layers do to a
    non-virtual argument. *)

From Coq Require Import List NArith Bool Arith.
From Y2 Require Import Model.Subobject.
Import ListNotations.

(** ** Virtual parameters *)

(** virtual_<T&> | virtual_<T&&> | virtual_<T*> | virtual_<std::shared_ptr<T>> |
    virtual_<const std::shared_ptr<T>&> | virtual_ptr<T> | virtual_shared_ptr<T> |
    const virtual_shared_ptr<T>& (method AND definition take the const reference;
    the plain const virtual_ptr<T>& has no definitions that compile:
    virtual_ptr::cast names Other::element_type on a reference type) *)
Inductive kind := KRef | KRRef | KPtr | KShared | KCShared | KVptr | KVSptr | KCVSptr.

Inductive cast_op := CStatic | CDynamic.

(** value category of the expression the caller writes for an argument *)
Inductive expr := EPrvalue | EXvalue | ELvalue.

(** Does [rarg] read the object itself to find the dynamic class (true), or is
    the v-table pointer carried by the argument (virtual_ptr kinds)?
    virtual_traits<T&>::rarg = arg ; <T*>::rarg = *arg ; <shared_ptr<T>>::rarg = *arg ;
    virtual_ptr: rarg = the virtual_ptr, method::vptr reads its _vptr(). *)
Definition rarg_reads_object (k : kind) : bool :=
  match k with
  | KVptr | KVSptr | KCVSptr => false
  | _ => true
  end.

(** The object designated by [rarg]: always the subobject the caller passed. *)
Definition rarg (k : kind) (s : sub) : sub := s.

(** Kinds whose [cast] goes through [optimal_cast] with the two CLASS types
    (requires_dynamic_cast<B&, D&>): T&, T&&, T* (detail.hpp:258-298),
    virtual_ptr<T> (core.hpp:384) and virtual_shared_ptr<T>, by value or by
    const reference (detail.hpp:320-330: virtual_ptr_traits<shared_ptr<Class>>::cast
    strips the reference from its OtherPtrRef argument, takes the element class
    of the box and tests requires_dynamic_cast<Class&, OtherClass&>). *)
Definition uses_optimal_cast (k : kind) : bool :=
  match k with
  | KShared | KCShared => false
  | _ => true
  end.

(** Smart-pointer kinds (a control block travels with the pointer). *)
Definition is_smart (k : kind) : bool :=
  match k with
  | KShared | KCShared | KVSptr | KCVSptr => true
  | _ => false
  end.

(** Which cast the traits instantiate for method class [B] and definition
    class [D].  For virtual_<shared_ptr<T>> and virtual_<const shared_ptr<T>&>
    the code tests requires_dynamic_cast<T*, DERIVED> where DERIVED is the
    *smart pointer* type of the definition (detail.hpp:436, 468), i.e. whether
    a static_cast from a raw T pointer to DERIVED compiles:
      - DERIVED = shared_ptr<D>: since C++17 the constructor from a raw pointer
        is constrained, so this compiles only when T = D;
      - DERIVED = const shared_ptr<D>&: binding the reference would need an
        implicit conversion from a raw pointer, the constructor is explicit:
        never compiles.
    In every other case the traits use dynamic_pointer_cast, even where
    static_pointer_cast would do. *)
Definition cast_choice (H : hier) (fuel : nat) (k : kind) (B D : class) : cast_op :=
  match k with
  | KShared => if N.eqb B D then CStatic else CDynamic
  | KCShared => CDynamic
  | _ => if static_cast_ok H fuel B D then CStatic else CDynamic
  end.

(** The pointer part of the cast: [s] of class [B], inside a complete object
    of class [C], converted for a definition whose parameter class is [D]. *)
Definition do_cast (H : hier) (fuel : nat) (k : kind) (op : cast_op)
           (C : class) (s : sub) (D : class) : option sub :=
  match op with
  | CDynamic => dynamic_cast H fuel C s D
  | CStatic =>
      if uses_optimal_cast k then static_downcast H fuel s D
      else Some s  (* static_pointer_cast<T>(shared_ptr<T>): the identity *)
  end.

(** [thunk_arg]: the subobject the running definition's parameter designates.
    thunk::fn -> argument_traits<Policy, virtual_<K>>::cast<SPEC_PARAM>(arg). *)
Definition thunk_arg (H : hier) (fuel : nat) (k : kind) (C : class) (s : sub) (D : class)
  : option sub :=
  do_cast H fuel k (cast_choice H fuel k (sub_class s) D) C s D.

(** Smart pointers: the control block of the definition's parameter.
    static_pointer_cast / dynamic_pointer_cast (and virtual_ptr::cast on top of
    them) build the result with the aliasing constructor: same control block as
    their argument when the pointer cast succeeds, empty otherwise.  Plain
    kinds carry no control block. *)
Definition thunk_ctrl (k : kind) (ctrl : N) (res : option sub) : option N :=
  if is_smart k then
    match res with
    | Some _ => Some ctrl
    | None => None
    end
  else None.

(** use_count seen inside the definition minus use_count at the call site just
    before the call: the caller's expression is copied (lvalue: +1) or moved
    (+0) into the first by-value parameter, every forwarding layer moves it
    (std::forward, +0), and [cast] makes the definition's pointer while the
    thunk's parameter is still alive (+1).  const shared_ptr<T>& and
    const virtual_shared_ptr<T>& travel by reference; only [cast]'s result (a
    temporary the definition's reference binds to) is added. *)
Definition uc_delta (k : kind) (e : expr) : option nat :=
  match k with
  | KShared | KVSptr =>
      Some (match e with ELvalue => 2 | _ => 1 end)
  | KCShared | KCVSptr => Some 1
  | _ => None
  end.

(** ** Non-virtual parameters *)

(** T | T& | T&& | a move-only type by value *)
Inductive ncat := NVal | NLRef | NRRef | NMoveOnly.

Definition by_value (c : ncat) : bool :=
  match c with
  | NVal | NMoveOnly => true
  | _ => false
  end.

(** the two public routes to a method *)
Inductive route := RFn | RMacro.

(** The objects an argument travels through.  Each is a function parameter of
    the declared type initialised from std::forward<T>(previous) -- one move
    construction for a by-value T, nothing for a reference -- except [LCastRet],
    the by-value result of argument_traits<T>::cast, which is initialised from
    std::forward<T>(obj) as well.  The definition's own parameter is then
    initialised from that prvalue: guaranteed elision, no further object. *)
Inductive layer :=
  | LInline    (* inline R ID(remove_virtual<A>... a)      macros.hpp:89-93  *)
  | LOperator  (* method::operator()(remove_virtual<A>...) core.hpp:455      *)
  | LThunk     (* thunk::fn(remove_virtual<BASE_PARAM>...) detail.hpp:539    *)
  | LCastParam (* argument_traits<T>::cast(T obj)          detail.hpp:378    *)
  | LCastRet.  (* ... returns T                            detail.hpp:379    *)

Definition layers (r : route) : list layer :=
  match r with
  | RFn => [LOperator; LThunk; LCastParam; LCastRet]
  | RMacro => [LInline; LOperator; LThunk; LCastParam; LCastRet]
  end.

(** state of an argument object: its value and how often its lineage has been
    copy- and move-constructed since the caller's expression *)
Record nstate := mk_nstate { ns_value : N; ns_copies : nat; ns_moves : nat }.

(** Initialising the first layer's parameter from the caller's expression:
    prvalue: constructed in place; xvalue: one move; lvalue: one copy (the
    caller asked for it; only possible for copyable by-value parameters).
    References bind. *)
Definition init_layer (c : ncat) (e : expr) (v : N) : nstate :=
  if by_value c then
    match e with
    | EPrvalue => mk_nstate v 0 0
    | EXvalue => mk_nstate v 0 1
    | ELvalue => mk_nstate v 1 0
    end
  else mk_nstate v 0 0.

(** One forwarding step into the next layer. *)
Definition fwd_layer (c : ncat) (st : nstate) : nstate :=
  if by_value c then mk_nstate (ns_value st) (ns_copies st) (S (ns_moves st))
  else st.

(** number of forwarding steps: every layer after the first *)
Definition fwd_steps (r : route) : nat := pred (length (layers r)).

Fixpoint iter_fwd (n : nat) (c : ncat) (st : nstate) : nstate :=
  match n with
  | O => st
  | S m => iter_fwd m c (fwd_layer c st)
  end.

(** What the definition's parameter holds. *)
Definition thunk_narg (r : route) (c : ncat) (e : expr) (v : N) : nstate :=
  iter_fwd (fwd_steps r) c (init_layer c e v).

(** For reference categories the definition's parameter is the caller's own object. *)
Definition narg_same_object (c : ncat) : bool := negb (by_value c).

(** What any by-value parameter costs even when called directly. *)
Definition intrinsic_moves (c : ncat) (e : expr) : nat :=
  if by_value c then match e with EXvalue => 1 | _ => 0 end else 0.

Definition intrinsic_copies (c : ncat) (e : expr) : nat :=
  if by_value c then match e with ELvalue => 1 | _ => 0 end else 0.

(** ** Return value: every layer is [return f(...)] with a prvalue of the
    method's return type: guaranteed elision, the caller's variable is the
    object the definition constructs; references pass through. *)
Inductive rkind := RVoid | RInt | RVal | RLRef | RMoveOnly.

Definition thunk_return (r : route) (k : rkind) (v : N) : nstate := mk_nstate v 0 0.

(** ** Flat interface for the extracted driver *)

Definition kind_of_nat (n : nat) : kind :=
  match n with
  | 0 => KRef | 1 => KRRef | 2 => KPtr | 3 => KShared | 4 => KCShared | 5 => KVptr | 6 => KVSptr | _ => KCVSptr
  end.

Definition expr_of_nat (n : nat) : expr :=
  match n with 0 => EPrvalue | 1 => EXvalue | _ => ELvalue end.

Definition ncat_of_nat (n : nat) : ncat :=
  match n with 0 => NVal | 1 => NLRef | 2 => NRRef | _ => NMoveOnly end.

Definition route_of_nat (n : nat) : route :=
  match n with 0 => RFn | _ => RMacro end.

Definition rkind_of_nat (n : nat) : rkind :=
  match n with 0 => RVoid | 1 => RInt | 2 => RVal | 3 => RLRef | _ => RMoveOnly end.

Record vpred := mk_vpred {
  vp_result : option sub;       (* the subobject the definition's parameter designates *)
  vp_lib_static : bool;         (* the traits pick the static flavour *)
  vp_lang_static : bool;        (* static_cast<D&>(B&) is well formed *)
  vp_back : option bool;        (* B unambiguous in D: converting back gives the caller's subobject *)
  vp_uc : option nat;
  vp_same_owner : option bool
}.

Definition predict_varg (H : hier) (k : kind) (C : class) (s : sub) (D : class) (e : expr) : vpred :=
  let fuel := default_fuel H in
  let res := thunk_arg H fuel k C s D in
  mk_vpred res
    (match cast_choice H fuel k (sub_class s) D with CStatic => true | CDynamic => false end)
    (static_cast_ok H fuel (sub_class s) D)
    (match res with
     | Some d => match upcast H fuel d (sub_class s) with
                 | Some s' => Some (sub_eqb s' s)
                 | None => None
                 end
     | None => None
     end)
    (uc_delta k e)
    (match thunk_ctrl k 1%N res with
     | Some c => Some (N.eqb c 1%N)
     | None => if is_smart k then Some false else None
     end).
