(* MiniFwd.v — the little language into which translators/fwdwrite.py translates, on every run,
       generator::write_forward_declarations(std::ostream&)                                    (generator.hpp)
   and its interpreter.  Iterators are cursors, as in Model/FwdDecl.v: a `std::string::const_iterator` into the current name is
   the pair (characters before it, nearest first; characters from it on); the pair (prev_ns_iter, prev_ns_last) is only used
   as the half-open range between the two and is kept as the characters in that range.  Dereferencing or stepping an iterator
   past the end of what it ranges over is a fault, as is a loop that outlives its fuel (one more than the characters in
   sight).  Proofs/FwdSource.v proves the translation equal to Model.FwdDecl.write_forward_declarations.  No proofs here. *)
From Coq Require Import List Ascii String Bool Arith.
From Y2 Require Import Model.FwdDecl.
Import ListNotations.
Local Open Scope nat_scope.

Inductive fcond :=
| FTrue
| FSpanNonEmpty                 (* prev_ns_iter != prev_ns_last *)
| FNameAtEnd                    (* name_iter == name.end() *)
| FScopeAtEnd                   (* scope_iter == name.end() *)
| FNameNotAtBegin               (* name_iter != name.begin() *)
| FPrevCharDiffers              (* *prev_ns_iter != *name_iter *)
| FPrevIsColon                  (* *prev_ns_iter == ':' *)
| FBeforeNameNotColon           (* name_iter[-1] != ':' *)
| FOr (a b : fcond)             (* a || b, the right operand evaluated only when needed *)
| FAnd (a b : fcond).           (* a && b *)

Inductive fstmt :=
| FSkip
| FSeq (a b : fstmt)
| FIf (c : fcond) (a b : fstmt)
| FWhile (c : fcond) (body : fstmt)
| FBreak
| FEmitClose                    (* os << "}\n" *)
| FIncPrev                      (* ++prev_ns_iter *)
| FIncName                      (* ++name_iter *)
| FDecName                      (* --name_iter *)
| FFindColon                    (* auto scope_iter = std::find(name_iter, name.end(), ':') *)
| FEmitClass                    (* os << "class " << std::string_view(&*name_iter, scope_iter - name_iter) << ";\n" *)
| FEmitNamespace                (* os << "namespace " << ... << " {\n" *)
| FNameToScopePlus2             (* name_iter = scope_iter + 2 *)
| FPrevIterToNameBegin          (* prev_ns_iter = name.begin() *)
| FPrevLastToNameIter.          (* prev_ns_last = name_iter *)

Record f_st := mk_fst {
  s_span : option text;         (* [prev_ns_iter, prev_ns_last); None between the two assignments that re-seat the pair *)
  s_fromb : bool;               (* prev_ns_iter == name.begin() *)
  s_nb : text;                  (* before name_iter, nearest first *)
  s_na : text;                  (* from name_iter on *)
  s_scope : option (text * text);   (* [name_iter, scope_iter) and what follows scope_iter, while name_iter has not moved *)
  s_out : text
}.

Fixpoint fcond_eval (k : fcond) (s : f_st) : option bool :=
  match k with
  | FTrue => Some true
  | FSpanNonEmpty => match s_span s with Some [] => Some false | Some (_ :: _) => Some true | None => None end
  | FNameAtEnd => Some (match s_na s with [] => true | _ => false end)
  | FScopeAtEnd => match s_scope s with Some (_, []) => Some true | Some (_, _ :: _) => Some false | None => None end
  | FNameNotAtBegin => Some (match s_nb s with [] => false | _ => true end)
  | FPrevCharDiffers => match s_span s, s_na s with
                        | Some (p :: _), c :: _ => Some (negb (Ascii.eqb p c))
                        | _, _ => None                   (* one of the two iterators is at its end *)
                        end
  | FPrevIsColon => match s_span s with Some (p :: _) => Some (is_colon p) | _ => None end
  | FBeforeNameNotColon => match s_nb s with c :: _ => Some (negb (is_colon c)) | [] => None end
  | FOr a b => match fcond_eval a s with Some true => Some true | Some false => fcond_eval b s | None => None end
  | FAnd a b => match fcond_eval a s with Some false => Some false | Some true => fcond_eval b s | None => None end
  end.

Definition in_sight (s : f_st) : nat :=
  S (S (List.length (match s_span s with Some l => l | None => [] end) + List.length (s_nb s) + List.length (s_na s))).

Definition emit_out (s : f_st) (t : text) : f_st := mk_fst (s_span s) (s_fromb s) (s_nb s) (s_na s) (s_scope s) (s_out s ++ t).

(* the result says whether a `break` is on its way out of the innermost loop *)
Fixpoint fexec (c : fstmt) (s : f_st) {struct c} : option (f_st * bool) :=
  match c with
  | FSkip => Some (s, false)
  | FSeq a b => match fexec a s with
                | Some (s', false) => fexec b s'
                | other => other
                end
  | FIf k a b => match fcond_eval k s with
                 | Some true => fexec a s
                 | Some false => fexec b s
                 | None => None
                 end
  | FWhile k body =>
      (fix loop (n : nat) (s0 : f_st) {struct n} : option (f_st * bool) :=
         match n with
         | 0 => None
         | S n' => match fcond_eval k s0 with
                   | Some true => match fexec body s0 with
                                  | Some (s', true) => Some (s', false)
                                  | Some (s', false) => loop n' s'
                                  | None => None
                                  end
                   | Some false => Some (s0, false)
                   | None => None
                   end
         end) (in_sight s) s
  | FBreak => Some (s, true)
  | FEmitClose => Some (emit_out s close_brace, false)
  | FIncPrev => match s_span s with
                | Some (_ :: r) => Some (mk_fst (Some r) false (s_nb s) (s_na s) (s_scope s) (s_out s), false)
                | _ => None                              (* past prev_ns_last *)
                end
  | FIncName => match s_na s with
                | c :: r => Some (mk_fst (s_span s) (s_fromb s) (c :: s_nb s) r None (s_out s), false)
                | [] => None
                end
  | FDecName => match s_nb s with
                | c :: r => Some (mk_fst (s_span s) (s_fromb s) r (c :: s_na s) None (s_out s), false)
                | [] => None
                end
  | FFindColon => Some (mk_fst (s_span s) (s_fromb s) (s_nb s) (s_na s) (Some (find_colon (s_na s))) (s_out s), false)
  | FEmitClass => match s_scope s with Some (seg, _) => Some (emit_out s (declare_class seg), false) | None => None end
  | FEmitNamespace => match s_scope s with Some (seg, _) => Some (emit_out s (open_namespace seg), false) | None => None end
  | FNameToScopePlus2 => match s_scope s with
                         | Some (seg, c1 :: c2 :: rest) =>
                             Some (mk_fst (s_span s) (s_fromb s) (c2 :: c1 :: rev seg ++ s_nb s) rest None (s_out s), false)
                         | _ => None                     (* scope_iter + 2 past the end *)
                         end
  | FPrevIterToNameBegin => Some (mk_fst None true (s_nb s) (s_na s) (s_scope s) (s_out s), false)
  | FPrevLastToNameIter => if s_fromb s
                           then Some (mk_fst (Some (rev (s_nb s))) true (s_nb s) (s_na s) (s_scope s) (s_out s), false)
                           else None                     (* a range across two strings *)
  end.

(* for (auto& name : names) { auto name_iter = name.begin(); BODY }  then  FINAL *)
Fixpoint frun_names (body : fstmt) (names : list text) (span : option text) (out : text) : option (option text * text) :=
  match names with
  | [] => Some (span, out)
  | name :: more => match fexec body (mk_fst span false [] name None out) with
                    | Some (s, _) => frun_names body more (s_span s) (s_out s)
                    | None => None
                    end
  end.

Definition frun (body final : fstmt) (names : list text) : option text :=
  match frun_names body names (Some []) [] with
  | Some (span, out) => match fexec final (mk_fst span false [] [] None out) with
                        | Some (s, _) => Some (s_out s)
                        | None => None
                        end
  | None => None
  end.
