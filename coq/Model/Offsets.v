(* Offsets.v — executable model of generator::write_static_offsets (generator.hpp), of the run-time
   cross-check check_static_offset as resolve_uni / resolve_multi_first / resolve_multi_next call it under
   the runtime_checks facet (core.hpp), and of method::resolve for a method that has static offsets.
   The index expressions into slots_strides are the ones translators/consts_codec.py reads from the source
   on every run (Gen/GenCodecConsts.v), as linear forms in (arity, loop variable).  No proofs here. *)
From Y2 Require Import Model.Registry Model.Compile Gen.GenCodecConsts.
Local Open Scope nat_scope.

(* a * arity + b * i + c, evaluated in Z (a negative value is an access before the array: position 0 here,
   the theorems are about forms that stay non-negative) *)
Definition ix (f : Z * Z * Z) (arity i : nat) : nat :=
  let '(a, b, c) := f in Z.to_nat (a * Z.of_nat arity + b * Z.of_nat i + c)%Z.

(* write_static_offsets for one method, as a function of the installed array ss = slots_strides_ptr and of the arity:
     os << ss[0];
     if (arity > 1) { for (i = 1; i < arity; i++) os << ss[slot_ix(i)];
                      for (i = 1; i < arity; i++) os << ss[stride_ix(i)]; }
   result: (numbers printed in `slots[] = {...}`, numbers printed in `strides[] = {...}`); a uni-method gets no
   strides array at all *)
Definition printed_with (slot_ix stride_ix : Z * Z * Z) (ss : list nat) (arity : nat) : list nat * list nat :=
  if 1 <? arity
  then (nth 0 ss 0 :: map (fun i => nth (ix slot_ix arity i) ss 0) (seq 1 (arity - 1)),
        map (fun i => nth (ix stride_ix arity i) ss 0) (seq 1 (arity - 1)))
  else ([nth 0 ss 0], []).

Definition arity_of (C : compiled) (mi : nat) : nat := length (cm_vp (nth mi (o_meths C) (mk_cmeth [] [] [] []))).

Definition printed_offsets (C : compiled) (mi : nat) : list nat * list nat :=
  printed_with gen_slot_ix gen_stride_ix (nth mi (o_ss C) []) (arity_of C mi).

(* before fix 2726556: ss[i * 2 - 1] and ss[i * 2] (interleaved pairs) *)
Definition legacy_slot_ix : Z * Z * Z := (0, 2, -1)%Z.
Definition legacy_stride_ix : Z * Z * Z := (0, 2, 0)%Z.
Definition printed_offsets_legacy (C : compiled) (mi : nat) : list nat * list nat :=
  printed_with legacy_slot_ix legacy_stride_ix (nth mi (o_ss C) []) (arity_of C mi).

(* ------------------------------------------------------------------ the debug cross-check *)

Inductive check_result :=
| ChkOk
| ChkSlot (va : nat)        (* static_slot_error raised while handling virtual argument va *)
| ChkStride (va : nat).     (* static_stride_error raised while handling virtual argument va *)

(* resolve_multi_next<VirtualArg = va>:
     check_static_offset<static_slot_error>(slots_strides[slot_ix(va)], static slots[va]);
     check_static_offset<static_stride_error>(slots_strides[stride_ix(va)], static strides[va - 1]);
   then the next virtual argument, until va + 1 == arity *)
Fixpoint check_next (slot_ix stride_ix : Z * Z * Z) (arity : nat) (ss sl st : list nat) (va fuel : nat) : check_result :=
  match fuel with
  | 0 => ChkOk
  | S f =>
      if nth (ix slot_ix arity va) ss 0 =? nth va sl 0 then
        if nth (ix stride_ix arity va) ss 0 =? nth (va - 1) st 0 then check_next slot_ix stride_ix arity ss sl st (S va) f
        else ChkStride va
      else ChkSlot va
  end.

(* one complete call: resolve_uni (arity 1) or resolve_multi_first then resolve_multi_next for va = 1 .. arity-1 *)
Definition debug_check_with (slot_ix stride_ix : Z * Z * Z) (ss : list nat) (static : list nat * list nat) (arity : nat) : check_result :=
  let '(sl, st) := static in
  if nth 0 sl 0 =? nth 0 ss 0
  then (if arity =? 1 then ChkOk else check_next slot_ix stride_ix arity ss sl st 1 (arity - 1))
  else ChkSlot 0.

Definition debug_check := debug_check_with chk_slot_ix chk_stride_ix.

(* before fix 2726556: the stride was checked against slots_strides[2 * VirtualArg] *)
Definition debug_check_legacy := debug_check_with (0, 1, 0)%Z (0, 2, 0)%Z.

(* ------------------------------------------------------------------ method::resolve with has_static_offsets *)

Fixpoint resolve_uni_static (C : compiled) (sl : list nat) (shape : list bool) (acts : list (option Z)) : result word :=
  match shape, acts with
  | true :: _, Some vp :: _ => read (o_image C) (vp + Z.of_nat (nth 0%nat sl 0%nat))%Z
  | false :: shape', _ :: acts' => resolve_uni_static C sl shape' acts'
  | _, _ => Err (BadRead (-1)%Z)
  end.

(* slot = static slots[VirtualArg]; stride = static strides[VirtualArg - 1] *)
Fixpoint resolve_multi_next_static (C : compiled) (arity : nat) (sl st : list nat) (va : nat) (dispatch : Z)
         (shape : list bool) (acts : list (option Z)) : result word :=
  match shape, acts with
  | true :: shape', Some vp :: acts' =>
      do w <- read (o_image C) (vp + Z.of_nat (nth va sl 0%nat))%Z;
      match w with
      | WIdx g =>
          let dispatch' := (dispatch + Z.of_nat g * Z.of_nat (nth (va - 1)%nat st 0%nat))%Z in
          if S va =? arity then read (o_image C) dispatch'
          else resolve_multi_next_static C arity sl st (S va) dispatch' shape' acts'
      | _ => Err (BadRead (-2)%Z)
      end
  | false :: shape', _ :: acts' => resolve_multi_next_static C arity sl st va dispatch shape' acts'
  | _, _ => Err (BadRead (-1)%Z)
  end.

Fixpoint resolve_multi_first_static (C : compiled) (arity : nat) (sl st : list nat)
         (shape : list bool) (acts : list (option Z)) : result word :=
  match shape, acts with
  | true :: shape', Some vp :: acts' =>
      do w <- read (o_image C) (vp + Z.of_nat (nth 0%nat sl 0%nat))%Z;
      match w with
      | WRow a => resolve_multi_next_static C arity sl st 1 (Z.of_nat a) shape' acts'
      | _ => Err (BadRead (-2)%Z)
      end
  | false :: shape', _ :: acts' => resolve_multi_first_static C arity sl st shape' acts'
  | _, _ => Err (BadRead (-1)%Z)
  end.

(* a program compiled with static_offsets<method> = static : the walk never reads slots_strides *)
Definition resolve_static (C : compiled) (mi : nat) (static : list nat * list nat) (acts : list (option Z)) : result word :=
  let m := nth mi (o_meths C) (mk_cmeth [] [] [] []) in
  let arity := length (cm_vp m) in
  if arity =? 1 then resolve_uni_static C (fst static) (cm_shape m) acts
  else resolve_multi_first_static C arity (fst static) (snd static) (cm_shape m) acts.
