(* MiniTab.v — the little language into which translators/tablebuild.py translates, on every run, the body of
       compiler<Policy>::build_dispatch_table(m, dim, group_iter, candidates, concrete)           (detail/compiler.hpp)
   i.e. what is done for each group of the current dimension: the mask, the leaf case (the applicable definitions, best, the
   cell pushed on the dispatch table, the counters of the report) and the recursive call, and its interpreter.  The loop over
   the groups and the filter loop over m.specs are constructs of their own (matched on the AST by the translator).
   The translated body is in Gen/GenTab.v; Proofs/TabSource.v proves that running it yields the cells of
   Model.Compile.build_table and the counts the model derives from them.  No proofs in this file. *)
From Coq Require Import List NArith Bool Arith.
From Y2 Require Import Model.Registry Model.Compile.
Import ListNotations.

Inductive tcond :=
| BConcrete                        (* the parameter `concrete` *)
| BGroupConcrete                   (* group.has_concrete_classes *)
| BAnd (a b : tcond)
| BNot (a : tcond)
| BDimIs0                          (* dim == 0 *)
| BSpecsMany                       (* specs.size() > 1 *)
| BSpecsEmpty.                     (* specs.empty() *)

Inductive tpush := PAmbiguous | PNotImplemented | PSpec0.      (* &m.ambiguous | &m.not_implemented | specs[0] *)
Inductive tcounter := KAmbiguous | KConcreteAmbiguous | KNotImplemented | KConcreteNotImplemented.

Inductive tstmt :=
| TSkip
| TSeq (a b : tstmt)
| TLetMask                         (* auto mask = candidates & group_mask; *)
| TApplicable                      (* applicable = the definitions whose bit is set in mask, in catalog order *)
| TBest                            (* auto specs = best(applicable); *)
| TIf (c : tcond) (t e : tstmt)
| TPush (p : tpush)                (* m.dispatch_table.push_back(...) *)
| TCount (k : tcounter)            (* ++m.report.<k>; *)
| TRecurse (conc : tcond).         (* build_dispatch_table(m, dim - 1, group_iter - 1, mask, conc); *)

Record tcounts := mk_tc { k_amb : nat; k_camb : nat; k_ni : nat; k_cni : nat }.
Definition tc0 : tcounts := mk_tc 0 0 0 0.

(* what one run has produced so far *)
Record tout := mk_to { o_cells : list cell; o_counts : tcounts }.

Record tlocals := mk_tl { l_mask : option N; l_applicable : option (list nat); l_specs : option (list nat) }.

Definition bump (k : tcounter) (c : tcounts) : tcounts :=
  match k with
  | KAmbiguous => mk_tc (S (k_amb c)) (k_camb c) (k_ni c) (k_cni c)
  | KConcreteAmbiguous => mk_tc (k_amb c) (S (k_camb c)) (k_ni c) (k_cni c)
  | KNotImplemented => mk_tc (k_amb c) (k_camb c) (S (k_ni c)) (k_cni c)
  | KConcreteNotImplemented => mk_tc (k_amb c) (k_camb c) (k_ni c) (S (k_cni c))
  end.

Section Interp.
  Variables (L : lattice) (specs : list (list nat)).

  Section Group.
    (* one iteration of the loop over the groups: the group, the parameters of this call, whether dim == 0, and what the
       recursive call does *)
    Variables (gmask : N) (ghc : bool) (cand : N) (concrete : bool) (dim0 : bool).
    Variable recurse : N -> bool -> tout -> option tout.

    Fixpoint tceval (l : tlocals) (c : tcond) : option bool :=
      match c with
      | BConcrete => Some concrete
      | BGroupConcrete => Some ghc
      | BAnd a b => match tceval l a, tceval l b with Some x, Some y => Some (x && y) | _, _ => None end
      | BNot a => match tceval l a with Some x => Some (negb x) | None => None end
      | BDimIs0 => Some dim0
      | BSpecsMany => match l_specs l with Some s => Some (1 <? length s) | None => None end
      | BSpecsEmpty => match l_specs l with Some s => Some (match s with [] => true | _ => false end) | None => None end
      end.

    (* None: a local used before it exists (an ill-formed translation), or specs[0] of an empty vector *)
    Fixpoint texec (s : tstmt) (st : tlocals * tout) : option (tlocals * tout) :=
      let (l, o) := st in
      match s with
      | TSkip => Some st
      | TSeq a b => match texec a st with Some st' => texec b st' | None => None end
      | TLetMask => Some (mk_tl (Some (N.land cand gmask)) (l_applicable l) (l_specs l), o)
      | TApplicable =>
          match l_mask l with
          | Some m => Some (mk_tl (l_mask l) (Some (bits_of (length specs) m)) (l_specs l), o)
          | None => None
          end
      | TBest =>
          match l_applicable l with
          | Some a => Some (mk_tl (l_mask l) (l_applicable l) (Some (best L specs a)), o)
          | None => None
          end
      | TIf c t e => match tceval l c with Some true => texec t st | Some false => texec e st | None => None end
      | TPush p =>
          match p with
          | PAmbiguous => Some (l, mk_to (o_cells o ++ [CAmb]) (o_counts o))
          | PNotImplemented => Some (l, mk_to (o_cells o ++ [CNi]) (o_counts o))
          | PSpec0 => match l_specs l with
                      | Some (s :: _) => Some (l, mk_to (o_cells o ++ [CDef s]) (o_counts o))
                      | _ => None
                      end
          end
      | TCount k => Some (l, mk_to (o_cells o) (bump k (o_counts o)))
      | TRecurse conc =>
          match l_mask l, tceval l conc with
          | Some m, Some c => match recurse m c o with Some o' => Some (l, o') | None => None end
          | _, _ => None
          end
      end.
  End Group.

  (* for (const auto& [group_mask, group] : *group_iter) BODY — the locals of an iteration do not outlive it *)
  Fixpoint groups_loop (body : tstmt) (cand : N) (concrete dim0 : bool) (recurse : N -> bool -> tout -> option tout)
           (gs : list (N * bool)) (o : tout) : option tout :=
    match gs with
    | [] => Some o
    | (g, hc) :: r =>
        match texec g hc cand concrete dim0 recurse body (mk_tl None None None, o) with
        | Some (_, o') => groups_loop body cand concrete dim0 recurse r o'
        | None => None
        end
    end.

  (* gss: the groups from the dimension group_iter designates down to dimension 0; dim == 0 exactly at the last one *)
  Fixpoint run_tab (body : tstmt) (gss : list (list (N * bool))) (cand : N) (concrete : bool) (o : tout) : option tout :=
    match gss with
    | [] => Some o
    | gs :: rest =>
        groups_loop body cand concrete (match rest with [] => true | _ => false end)
                    (fun m c o' => run_tab body rest m c o') gs o
    end.
End Interp.
