(* MiniTab.v — the little language into which translators/tablebuild.py translates, on every run, the body of
       compiler<Policy>::build_dispatch_table(m, dim, group_iter, candidates, concrete)           (detail/compiler.hpp)
   i.e. what is done for each group of the current dimension: the mask, the leaf case (the applicable definitions, best, the
   cell pushed on the dispatch table, the counters of the report) and the recursive call, and its interpreter.  The loop over
   the groups and the filter loop over m.specs are constructs of their own (matched on the AST by the translator).
   The translated body is in Gen/GenTab.v; Proofs/TabSource.v proves that running it yields the cells of
   Model.Compile.build_table and the counts the model derives from them.  No proofs in this file. *)
From Coq Require Import List NArith Bool Arith.
From Y2 Require Import Model.Registry Model.Compile.
Import ListNotations.

Inductive tcond :=
| BConcrete                        (* the parameter `concrete` *)
| BGroupConcrete                   (* group.has_concrete_classes *)
| BAnd (a b : tcond)
| BNot (a : tcond)
| BDimIs0                          (* dim == 0 *)
| BSpecsMany                       (* specs.size() > 1 *)
| BSpecsEmpty.                     (* specs.empty() *)

Inductive tpush := PAmbiguous | PNotImplemented | PSpec0.      (* &m.ambiguous | &m.not_implemented | specs[0] *)
Inductive tcounter := KAmbiguous | KConcreteAmbiguous | KNotImplemented | KConcreteNotImplemented.

Inductive tstmt :=
| TSkip
| TSeq (a b : tstmt)
| TLetMask                         (* auto mask = candidates & group_mask; *)
| TApplicable                      (* applicable = the definitions whose bit is set in mask, in catalog order *)
| TBest                            (* auto specs = best(applicable); *)
| TIf (c : tcond) (t e : tstmt)
| TPush (p : tpush)                (* m.dispatch_table.push_back(...) *)
| TCount (k : tcounter)            (* ++m.report.<k>; *)
| TRecurse (conc : tcond).         (* build_dispatch_table(m, dim - 1, group_iter - 1, mask, conc); *)

Record tcounts := mk_tc { k_amb : nat; k_camb : nat; k_ni : nat; k_cni : nat }.
Definition tc0 : tcounts := mk_tc 0 0 0 0.

(* what one run has produced so far *)
Record tout := mk_to { o_cells : list cell; o_counts : tcounts }.

Record tlocals := mk_tl { l_mask : option N; l_applicable : option (list nat); l_specs : option (list nat) }.

Definition bump (k : tcounter) (c : tcounts) : tcounts :=
  match k with
  | KAmbiguous => mk_tc (S (k_amb c)) (k_camb c) (k_ni c) (k_cni c)
  | KConcreteAmbiguous => mk_tc (k_amb c) (S (k_camb c)) (k_ni c) (k_cni c)
  | KNotImplemented => mk_tc (k_amb c) (k_camb c) (S (k_ni c)) (k_cni c)
  | KConcreteNotImplemented => mk_tc (k_amb c) (k_camb c) (k_ni c) (S (k_cni c))
  end.

Section Interp.
  Variables (L : lattice) (specs : list (list nat)).

  Section Group.
    (* one iteration of the loop over the groups: the group, the parameters of this call, whether dim == 0, and what the
       recursive call does *)
    Variables (gmask : N) (ghc : bool) (cand : N) (concrete : bool) (dim0 : bool).
    Variable recurse : N -> bool -> tout -> option tout.

    Fixpoint tceval (l : tlocals) (c : tcond) : option bool :=
      match c with
      | BConcrete => Some concrete
      | BGroupConcrete => Some ghc
      | BAnd a b => match tceval l a, tceval l b with Some x, Some y => Some (x && y) | _, _ => None end
      | BNot a => match tceval l a with Some x => Some (negb x) | None => None end
      | BDimIs0 => Some dim0
      | BSpecsMany => match l_specs l with Some s => Some (1 <? length s) | None => None end
      | BSpecsEmpty => match l_specs l with Some s => Some (match s with [] => true | _ => false end) | None => None end
      end.

    (* None: a local used before it exists (an ill-formed translation), or specs[0] of an empty vector *)
    Fixpoint texec (s : tstmt) (st : tlocals * tout) : option (tlocals * tout) :=
      let (l, o) := st in
      match s with
      | TSkip => Some st
      | TSeq a b => match texec a st with Some st' => texec b st' | None => None end
      | TLetMask => Some (mk_tl (Some (N.land cand gmask)) (l_applicable l) (l_specs l), o)
      | TApplicable =>
          match l_mask l with
          | Some m => Some (mk_tl (l_mask l) (Some (bits_of (length specs) m)) (l_specs l), o)
          | None => None
          end
      | TBest =>
          match l_applicable l with
          | Some a => Some (mk_tl (l_mask l) (l_applicable l) (Some (best L specs a)), o)
          | None => None
          end
      | TIf c t e => match tceval l c with Some true => texec t st | Some false => texec e st | None => None end
      | TPush p =>
          match p with
          | PAmbiguous => Some (l, mk_to (o_cells o ++ [CAmb]) (o_counts o))
          | PNotImplemented => Some (l, mk_to (o_cells o ++ [CNi]) (o_counts o))
          | PSpec0 => match l_specs l with
                      | Some (s :: _) => Some (l, mk_to (o_cells o ++ [CDef s]) (o_counts o))
                      | _ => None
                      end
          end
      | TCount k => Some (l, mk_to (o_cells o) (bump k (o_counts o)))
      | TRecurse conc =>
          match l_mask l, tceval l conc with
          | Some m, Some c => match recurse m c o with Some o' => Some (l, o') | None => None end
          | _, _ => None
          end
      end.
  End Group.

  (* for (const auto& [group_mask, group] : *group_iter) BODY — the locals of an iteration do not outlive it *)
  Fixpoint groups_loop (body : tstmt) (cand : N) (concrete dim0 : bool) (recurse : N -> bool -> tout -> option tout)
           (gs : list (N * bool)) (o : tout) : option tout :=
    match gs with
    | [] => Some o
    | (g, hc) :: r =>
        match texec g hc cand concrete dim0 recurse body (mk_tl None None None, o) with
        | Some (_, o') => groups_loop body cand concrete dim0 recurse r o'
        | None => None
        end
    end.

  (* gss: the groups from the dimension group_iter designates down to dimension 0; dim == 0 exactly at the last one *)
  Fixpoint run_tab (body : tstmt) (gss : list (list (N * bool))) (cand : N) (concrete : bool) (o : tout) : option tout :=
    match gss with
    | [] => Some o
    | gs :: rest =>
        groups_loop body cand concrete (match rest with [] => true | _ => false end)
                    (fun m c o' => run_tab body rest m c o') gs o
    end.
End Interp.

(* ------------------------------------------------------------------ "assigning next" (build_dispatch_tables) *)
(* the body of the loop `for (auto& spec : m.specs)` that computes what is stored through spec.info->next *)
Inductive ncond :=
| NSizeIs (n : nat)                (* nexts.size() == n *)
| NSizeGt (n : nat)                (* nexts.size() > n *)
| NEmpty                           (* nexts.empty() *)
| NNot (c : ncond).

Inductive nval := VDefPf (* nexts.front()->info->pf *) | VNotImplemented (* m.info->not_implemented *) | VAmbiguous (* m.info->ambiguous *).

Inductive nstmt :=
| NSkip
| NSeq (a b : nstmt)
| NCandidates                      (* candidates = the definitions `other` with is_base(other, &spec), in catalog order *)
| NBest                            (* auto nexts = best(candidates); *)
| NIf (c : ncond) (t e : nstmt)
| NSetNext (v : nval)              (* next = v;   (`void* next;` is declared uninitialised) *)
| NStore.                          (* if (spec.info->next) *spec.info->next = next; *)

Record nlocals := mk_nl { n_cands : option (list nat); n_nexts : option (list nat); n_next : option cell; n_stored : option cell }.

Section Next.
  Variables (L : lattice) (specs : list (list nat)) (sp : list nat).

  Fixpoint nceval (l : nlocals) (c : ncond) : option bool :=
    match c with
    | NSizeIs n => match n_nexts l with Some x => Some (length x =? n) | None => None end
    | NSizeGt n => match n_nexts l with Some x => Some (n <? length x) | None => None end
    | NEmpty => match n_nexts l with Some x => Some (match x with [] => true | _ => false end) | None => None end
    | NNot c => match nceval l c with Some b => Some (negb b) | None => None end
    end.

  (* None: a local read before it is written (among them: `next` stored while still uninitialised) *)
  Fixpoint nexec (s : nstmt) (l : nlocals) : option nlocals :=
    match s with
    | NSkip => Some l
    | NSeq a b => match nexec a l with Some l' => nexec b l' | None => None end
    | NCandidates =>
        Some (mk_nl (Some (filter (fun o => is_base L (nth o specs []) sp false) (seq 0 (length specs))))
                    (n_nexts l) (n_next l) (n_stored l))
    | NBest => match n_cands l with
               | Some c => Some (mk_nl (n_cands l) (Some (best L specs c)) (n_next l) (n_stored l))
               | None => None
               end
    | NIf c t e => match nceval l c with Some true => nexec t l | Some false => nexec e l | None => None end
    | NSetNext v =>
        match v with
        | VNotImplemented => Some (mk_nl (n_cands l) (n_nexts l) (Some CNi) (n_stored l))
        | VAmbiguous => Some (mk_nl (n_cands l) (n_nexts l) (Some CAmb) (n_stored l))
        | VDefPf => match n_nexts l with
                    | Some (x :: _) => Some (mk_nl (n_cands l) (n_nexts l) (Some (CDef x)) (n_stored l))
                    | _ => None
                    end
        end
    | NStore => match n_next l with
                | Some c => Some (mk_nl (n_cands l) (n_nexts l) (n_next l) (Some c))
                | None => None
                end
    end.

  (* what is stored through the definition's next pointer (when it registered one) *)
  Definition run_next (body : nstmt) : option cell :=
    match nexec body (mk_nl None None None None) with
    | Some l => n_stored l
    | None => None
    end.
End Next.

