(* MiniWr.v — the little language into which translators/encwrite.py translates, on every run, the three loops of
       generator::encode_dispatch_data                                                        (generator.hpp)
   that WRITE the cells of the emitted arrays - slots and strides, encoded v-tables, multi-method dispatch tables - and its
   interpreter.  Only the numbers count here (every `uint16_t(...)` handed to the stream, in order); the text around them
   (indentation, comments, the braces that close one array and open the next) is checked by the translator to be where it
   was and by the H3 harness, which compiles the emitted text.  Proofs/WrSource.v proves the emitted cells equal to
   e_slots / e_vtbls / e_dtbls of Model.Codec.encode.  No proofs in this file. *)
From Coq Require Import List NArith Bool Arith.
From Y2 Require Import Model.Registry Model.Compile Gen.GenCodecConsts Model.Codec.
Import ListNotations.
Local Open Scope nat_scope.

Inductive wexp :=
| WNum (k : N)
| WStopBit | WIndexBit
| WOr (a b : wexp)
| WU16 (a : wexp)               (* uint16_t(a) / (uint16_t)a inside a larger expression *)
| WFirstSlot                    (* cls.first_slot *)
| WStopIfVtblEmpty              (* cls.vtbl.empty() ? stop_bit : 0 *)
| WStop                         (* the local `stop` *)
| WEntryGroup                   (* entry.group_index *)
| WEntryMethod                  (* entry.method_index *)
| WCellSpecIndex                (* method->dispatch_table[entry.group_index]->spec_index, `method` being methods[entry.method_index] *)
| WLastSpecIndex.               (* method.dispatch_table.back()->spec_index *)

Inductive wcond :=
| WVpPositive                   (* entry.vp_index > 0 *)
| WArityIs1                     (* method->info->arity() == 1, `method` being methods[entry.method_index] *)
| WArityLt2.                    (* method.arity() < 2, in the loop over the methods *)

Inductive wstmt :=
| WSkip
| WSeq (a b : wstmt)
| WIf (c : wcond) (a b : wstmt)
| WEmit (e : wexp)              (* os << uint16_t(e) *)
| WForMethods (body : wstmt)    (* for (auto& method : methods) *)
| WEmitSlots                    (* std::transform(method->slots.begin(), end(), ostream_iterator<uint16_t>, uint16_t(slot)) *)
| WEmitStrides                  (* the same over method->strides *)
| WForClasses (body : wstmt)    (* for (auto& cls : compiler.classes) *)
| WForEntries (body : wstmt)    (* for (auto& entry : cls.vtbl) *)
| WSetStopIfLast                (* auto stop = &entry == &cls.vtbl.back() ? stop_bit : 0; *)
| WBindMethodOfEntry            (* auto method = methods[entry.method_index]; *)
| WEmitTableButLast             (* std::transform(dispatch_table.begin(), dispatch_table.end() - 1, ostream_iterator<uint16_t>, uint16_t(entry->spec_index)) *)
| WEmitThroughIterator (e : wexp).   (* *dt_iter = e;   the ostream_iterator<uint16_t> converts to uint16_t *)

Record w_cx := mk_wcx {
  wx_meth : option (nat * cmeth * ctable);          (* the method of the loop: index, itself, its table *)
  wx_slots : option (list nat);                     (* method->slots *)
  wx_cls : option (nat * list (nat * nat * nat));   (* first_slot and the v-table of the class *)
  wx_entry : option ((nat * nat * nat) * bool);     (* the entry and whether it is the last of its v-table *)
  wx_stop : option N;
  wx_bound : option (cmeth * ctable)                (* methods[entry.method_index] *)
}.
Definition wcx0 : w_cx := mk_wcx None None None None None None.

Section Wr.
  Variable C : compiled.

  Fixpoint weval (e : wexp) (x : w_cx) : option N :=
    match e with
    | WNum k => Some k
    | WStopBit => Some stop_bit
    | WIndexBit => Some index_bit
    | WOr a b => match weval a x, weval b x with Some u, Some v => Some (N.lor u v) | _, _ => None end
    | WU16 a => match weval a x with Some u => Some (u16 u) | None => None end
    | WFirstSlot => match wx_cls x with Some (fs, _) => Some (N.of_nat fs) | None => None end
    | WStopIfVtblEmpty => match wx_cls x with Some (_, []) => Some stop_bit | Some (_, _ :: _) => Some 0%N | None => None end
    | WStop => wx_stop x
    | WEntryGroup => match wx_entry x with Some ((_, _, g), _) => Some (N.of_nat g) | None => None end
    | WEntryMethod => match wx_entry x with Some ((mi, _, _), _) => Some (N.of_nat mi) | None => None end
    | WCellSpecIndex => match wx_entry x, wx_bound x with
                        | Some ((_, _, g), _), Some (m, t) =>
                            if Nat.ltb g (length (t_cells t))
                            then Some (N.of_nat (spec_index (length (cm_specs m)) (nth g (t_cells t) CNi)))
                            else None                       (* dispatch_table[g] past the end *)
                        | _, _ => None
                        end
    | WLastSpecIndex => match wx_meth x with
                        | Some (_, m, t) => match t_cells t with
                                            | [] => None    (* back() of an empty vector *)
                                            | c :: r => Some (N.of_nat (spec_index (length (cm_specs m)) (last r c)))
                                            end
                        | None => None
                        end
    end.

  Definition wtest (c : wcond) (x : w_cx) : option bool :=
    match c with
    | WVpPositive => match wx_entry x with Some ((_, vpi, _), _) => Some (Nat.ltb 0 vpi) | None => None end
    | WArityIs1 => match wx_bound x with Some (m, _) => Some (Nat.eqb (meth_arity m) 1) | None => None end
    | WArityLt2 => match wx_meth x with Some (_, m, _) => Some (Nat.ltb (meth_arity m) 2) | None => None end
    end.

  Section WLoop.
    Context {A : Type}.
    Variable step : A -> option (list N).
    Fixpoint wfor (xs : list A) : option (list N) :=
      match xs with
      | [] => Some []
      | a :: r => match step a, wfor r with Some u, Some v => Some (u ++ v) | _, _ => None end
      end.
  End WLoop.

  (* a statement yields the cells it emits and, for the two that declare a local, the new context *)
  Fixpoint wexec (s : wstmt) (x : w_cx) : option (list N * w_cx) :=
    match s with
    | WSkip => Some ([], x)
    | WSeq a b => match wexec a x with
                  | Some (u, x') => match wexec b x' with Some (v, x2) => Some (u ++ v, x2) | None => None end
                  | None => None
                  end
    | WIf c a b => match wtest c x with
                   | Some true => match wexec a x with Some (u, _) => Some (u, x) | None => None end
                   | Some false => match wexec b x with Some (u, _) => Some (u, x) | None => None end
                   | None => None
                   end
    | WEmit e => match weval e x with Some v => Some ([u16 v], x) | None => None end
    | WForMethods body =>
        match wfor (fun imst => let '(i, ((m, sl), t)) := imst in
                                match wexec body (mk_wcx (Some (i, m, t)) (Some sl) None None None None) with
                                | Some (u, _) => Some u | None => None end)
                   (combine (seq 0 (length (o_meths C))) (combine (combine (o_meths C) (o_slots C)) (o_tables C))) with
        | Some u => Some (u, x)
        | None => None
        end
    | WEmitSlots => match wx_slots x with Some sl => Some (map nat16 sl, x) | None => None end
    | WEmitStrides => match wx_meth x with Some (_, _, t) => Some (map nat16 (t_strides t), x) | None => None end
    | WForClasses body =>
        match wfor (fun fe => match wexec body (mk_wcx None None (Some fe) None None None) with Some (u, _) => Some u | None => None end)
                   (combine (o_first C) (o_vtbl C)) with
        | Some u => Some (u, x)
        | None => None
        end
    | WForEntries body =>
        match wx_cls x with
        | Some (_, es) =>
            match wfor (fun ie => let '(i, e) := ie in
                                  match wexec body (mk_wcx (wx_meth x) (wx_slots x) (wx_cls x) (Some (e, Nat.eqb (S i) (length es))) None None) with
                                  | Some (u, _) => Some u | None => None end)
                       (combine (seq 0 (length es)) es) with
            | Some u => Some (u, x)
            | None => None
            end
        | None => None
        end
    | WSetStopIfLast => match wx_entry x with
                        | Some (_, lastp) => Some ([], mk_wcx (wx_meth x) (wx_slots x) (wx_cls x) (wx_entry x) (Some (if lastp then stop_bit else 0%N)) (wx_bound x))
                        | None => None
                        end
    | WBindMethodOfEntry =>
        match wx_entry x with
        | Some ((mi, _, _), _) =>
            if Nat.ltb mi (length (o_meths C))
            then Some ([], mk_wcx (wx_meth x) (wx_slots x) (wx_cls x) (wx_entry x) (wx_stop x)
                                  (Some (nth mi (o_meths C) dummy_meth, nth mi (o_tables C) dummy_tab)))
            else None                                      (* methods[i] past the end *)
        | None => None
        end
    | WEmitTableButLast =>
        match wx_meth x with
        | Some (_, m, t) => match t_cells t with
                            | [] => None                    (* end() - 1 of an empty vector *)
                            | _ :: _ => Some (map (fun c => nat16 (spec_index (length (cm_specs m)) c)) (removelast (t_cells t)), x)
                            end
        | None => None
        end
    | WEmitThroughIterator e => match weval e x with Some v => Some ([u16 v], x) | None => None end
    end.

  Definition wrun (s : wstmt) : option (list N) :=
    match wexec s wcx0 with Some (u, _) => Some u | None => None end.
End Wr.
