(* MiniWalk.v — the little language into which translators/walk.py translates, on every run, the three function
   templates of core.hpp that perform a method call's table walk:
       method<...>::resolve_uni, resolve_multi_first, resolve_multi_next<VirtualArg>
   (compile-time recursion over the formal parameters with `if constexpr`, a handful of locals, array reads), and its
   interpreter over the compiled image of Model/Compile.v.  The translated bodies are in Gen/GenWalk.v;
   Proofs/WalkSource.v proves that interpreting them yields a word exactly when Model.Compile.resolve does, and the
   same word.  No proofs in this file. *)
From Y2 Require Import Model.Registry Model.Compile.
Local Open Scope nat_scope.

(* compile-time index expressions (std::size_t) *)
Inductive iexp :=
| IConst (n : nat)
| IVirtualArg                      (* the template parameter VirtualArg *)
| IArity                           (* method::arity *)
| IAdd (a b : iexp)
| ISub (a b : iexp).

(* conditions of `if constexpr` *)
Inductive cond :=
| CFirstIsVirtual                  (* is_virtual<mp_first<MethodArgList>>::value *)
| CArgIsVirtualPtr                 (* is_virtual_ptr<ArgType> *)
| CStaticOffsets                   (* has_static_offsets<method>::value *)
| CRuntimeChecks                   (* Policy::template has_facet<policy::runtime_checks> *)
| CIdxEq (a b : iexp).

Inductive local := LVtbl | LSlot | LStride | LDispatch.

Inductive rexp :=
| RLocal (l : local)
| RVptrEmbedded                    (* arg._vptr() *)
| RVptrCall                        (* vptr<ArgType>(arg): a call of method::vptr, itself translated (wf_vptr) *)
| RDynamicVptr                     (* Policy::dynamic_vptr(arg): the v-table pointer looked up from the argument's dynamic type *)
| RSS (i : iexp)                   (* this->slots_strides[i] *)
| RStaticSlot (i : iexp)           (* static_offsets<method>::slots[i] *)
| RStaticStride (i : iexp)         (* static_offsets<method>::strides[i] *)
| RAt (p i : rexp)                 (* p[i] *)
| RDeref (p : rexp)                (* the pointee of p *)
| RAdd (p q : rexp)
| RMul (a b : rexp)
| RAsPtr (w : rexp).               (* reinterpret_cast<const std::uintptr_t*>(w) *)

Inductive fname := FUni | FMultiFirst | FMultiNext.

Inductive wstmt :=
| WSkip
| WSeq (a b : wstmt)
| WIfc (c : cond) (t e : wstmt)    (* if constexpr *)
| WSet (l : local) (e : rexp)      (* l = e;  (also a declaration with initialiser) *)
| WCheck (a b : rexp)              (* check_static_offset<...>(a, b): the two must be equal *)
| WReturn (e : rexp)
| WTail (f : fname) (va : option iexp) (dispatch : option rexp).
    (* return f<[va,] mp_rest<MethodArgList>, MoreArgTypes...>([dispatch,] more_args...); *)

Record walkfns := { wf_uni : wstmt; wf_first : wstmt; wf_next : wstmt; wf_vptr : wstmt }.

(* run-time values *)
Inductive val :=
| VPtr (a : Z)                     (* a pointer into dispatch_data, as an offset (a biased v-table pointer may be < 0) *)
| VNat (n : nat)                   (* a slot, a stride, an offset *)
| VWord (w : word).                (* a cell read from dispatch_data *)

Record frame := { f_vtbl : option val; f_slot : option val; f_stride : option val; f_dispatch : option val }.
Definition get_local (f : frame) (l : local) : option val :=
  match l with LVtbl => f_vtbl f | LSlot => f_slot f | LStride => f_stride f | LDispatch => f_dispatch f end.
Definition set_local (f : frame) (l : local) (v : val) : frame :=
  match l with
  | LVtbl => {| f_vtbl := Some v; f_slot := f_slot f; f_stride := f_stride f; f_dispatch := f_dispatch f |}
  | LSlot => {| f_vtbl := f_vtbl f; f_slot := Some v; f_stride := f_stride f; f_dispatch := f_dispatch f |}
  | LStride => {| f_vtbl := f_vtbl f; f_slot := f_slot f; f_stride := Some v; f_dispatch := f_dispatch f |}
  | LDispatch => {| f_vtbl := f_vtbl f; f_slot := f_slot f; f_stride := f_stride f; f_dispatch := Some v |}
  end.

Section Interp.
  Variable img : list word.                  (* Policy::dispatch_data *)
  Variable ss : list nat.                    (* method::slots_strides *)
  Variable arity : nat.
  Variable statics : option (list nat * list nat).   (* static_offsets<method>, if the program has them *)
  Variable checks : bool.                    (* policy has runtime_checks *)

  Fixpoint ieval (va : nat) (e : iexp) : nat :=
    match e with
    | IConst n => n
    | IVirtualArg => va
    | IArity => arity
    | IAdd a b => ieval va a + ieval va b
    | ISub a b => ieval va a - ieval va b
    end.

  Definition rd (a : Z) : option word :=
    match read img a with Ok w => Some w | Err _ => None end.

  (* an integer used as an offset: a slot or stride, or a group index stored in a v-table *)
  Definition as_nat (v : val) : option nat :=
    match v with VNat n => Some n | VWord (WIdx g) => Some g | _ => None end.
  Definition as_ptr (v : val) : option Z :=
    match v with VPtr a => Some a | _ => None end.

  (* method::vptr<ArgType>(arg), translated: `if constexpr (is_virtual_ptr<ArgType>) return arg._vptr(); else return
     Policy::dynamic_vptr(arg);` or whatever it is now.  Its body may only test CArgIsVirtualPtr and return the embedded or the
     looked-up pointer; anything else is stuck.  arg: Some (v-table pointer of the actual, is the actual a virtual_ptr). *)
  Variable fns : walkfns.
  Fixpoint vptr_eval (arg : option (Z * bool)) (s : wstmt) : option val :=
    match s with
    | WIfc CArgIsVirtualPtr t e =>
        match arg with
        | Some (_, true) => vptr_eval arg t
        | Some (_, false) => vptr_eval arg e
        | None => None
        end
    | WReturn RVptrEmbedded => match arg with Some (vp, true) => Some (VPtr vp) | _ => None end
    | WReturn RDynamicVptr => match arg with Some (vp, false) => Some (VPtr vp) | _ => None end
    | WSeq WSkip t => vptr_eval arg t
    | _ => None
    end.

  Fixpoint reval (va : nat) (arg : option (Z * bool)) (f : frame) (e : rexp) : option val :=
    match e with
    | RLocal l => get_local f l
    | RVptrEmbedded => match arg with Some (vp, true) => Some (VPtr vp) | _ => None end
    | RDynamicVptr => match arg with Some (vp, false) => Some (VPtr vp) | _ => None end
    | RVptrCall => vptr_eval arg (wf_vptr fns)
    | RSS i => match nth_error ss (ieval va i) with Some n => Some (VNat n) | None => None end
    | RStaticSlot i =>
        match statics with
        | Some (sl, _) => match nth_error sl (ieval va i) with Some n => Some (VNat n) | None => None end
        | None => None
        end
    | RStaticStride i =>
        match statics with
        | Some (_, st) => match nth_error st (ieval va i) with Some n => Some (VNat n) | None => None end
        | None => None
        end
    | RAt p i =>
        match reval va arg f p, reval va arg f i with
        | Some pv, Some iv =>
            match as_ptr pv, as_nat iv with
            | Some a, Some n => match rd (a + Z.of_nat n)%Z with Some w => Some (VWord w) | None => None end
            | _, _ => None
            end
        | _, _ => None
        end
    | RDeref p =>
        match reval va arg f p with
        | Some pv => match as_ptr pv with
                     | Some a => match rd a with Some w => Some (VWord w) | None => None end
                     | None => None end
        | None => None
        end
    | RAdd p q =>
        match reval va arg f p, reval va arg f q with
        | Some pv, Some qv =>
            match as_ptr pv, as_nat qv with
            | Some a, Some n => Some (VPtr (a + Z.of_nat n)%Z)
            | _, _ => match as_nat pv, as_nat qv with
                      | Some m, Some n => Some (VNat (m + n))
                      | _, _ => None end
            end
        | _, _ => None
        end
    | RMul a b =>
        match reval va arg f a, reval va arg f b with
        | Some av, Some bv =>
            match as_nat av, as_nat bv with Some m, Some n => Some (VNat (m * n)) | _, _ => None end
        | _, _ => None
        end
    | RAsPtr w =>
        match reval va arg f w with
        | Some (VWord (WRow a)) => Some (VPtr (Z.of_nat a))
        | _ => None
        end
    end.

  Definition ceval (va : nat) (first_virtual : bool) (arg : option (Z * bool)) (c : cond) : bool :=
    match c with
    | CFirstIsVirtual => first_virtual
    | CArgIsVirtualPtr => match arg with Some (_, b) => b | None => false end
    | CStaticOffsets => match statics with Some _ => true | None => false end
    | CRuntimeChecks => checks
    | CIdxEq a b => Nat.eqb (ieval va a) (ieval va b)
    end.

  Definition val_eqb (a b : val) : bool :=
    match a, b with VNat m, VNat n => Nat.eqb m n | _, _ => false end.

  (* outcome of a body: a returned value, a tail call, falling off the end (no return: ill-formed), or stuck *)
  Inductive wres :=
  | WRet (v : val)
  | WCall (f : fname) (va : nat) (dispatch : option val)
  | WFall (f : frame)
  | WStuck.

  Fixpoint wexec (va : nat) (first_virtual : bool) (arg : option (Z * bool)) (f : frame) (s : wstmt) : wres :=
    match s with
    | WSkip => WFall f
    | WSeq a b => match wexec va first_virtual arg f a with WFall f' => wexec va first_virtual arg f' b | r => r end
    | WIfc c t e => if ceval va first_virtual arg c then wexec va first_virtual arg f t
                    else wexec va first_virtual arg f e
    | WSet l e => match reval va arg f e with Some v => WFall (set_local f l v) | None => WStuck end
    | WCheck a b =>
        match reval va arg f a, reval va arg f b with
        | Some x, Some y => if val_eqb x y then WFall f else WStuck     (* static_slot_error / static_stride_error *)
        | _, _ => WStuck
        end
    | WReturn e => match reval va arg f e with Some v => WRet v | None => WStuck end
    | WTail g v d =>
        match d with
        | None => WCall g (match v with Some i => ieval va i | None => va end) None
        | Some de => match reval va arg f de with
                     | Some dv => WCall g (match v with Some i => ieval va i | None => va end) (Some dv)
                     | None => WStuck end
        end
    end.

  Definition body_of (g : fname) : wstmt :=
    match g with FUni => wf_uni fns | FMultiFirst => wf_first fns | FMultiNext => wf_next fns end.

  (* one template instantiation per formal parameter: shape = is the formal virtual; acts = the actual's v-table
     pointer (virtual formals only) ; kinds = is the actual a virtual_ptr *)
  Fixpoint walk (shape : list bool) (acts : list (option Z)) (kinds : list bool)
           (g : fname) (va : nat) (dispatch : option val) : option word :=
    match shape, acts with
    | v :: shape', a :: acts' =>
        let arg := match a with
                   | Some vp => Some (vp, hd false kinds)
                   | None => None
                   end in
        (* a virtual formal needs a v-table pointer *)
        if v && match a with None => true | Some _ => false end then None
        else
          match wexec va v arg {| f_vtbl := None; f_slot := None; f_stride := None; f_dispatch := dispatch |} (body_of g) with
          | WRet (VWord w) => Some w
          | WCall g' va' d' => walk shape' acts' (tl kinds) g' va' d'
          | _ => None
          end
    | _, _ => None
    end.

  (* method::resolve: uni-methods start in resolve_uni, multi-methods in resolve_multi_first *)
  (* entry = (n, f, g):  if constexpr (arity == n) f<types<A...>, ArgType...>(args...) else g<...>(args...) *)
  Definition walk_resolve (entry : nat * fname * fname) (shape : list bool) (acts : list (option Z)) (kinds : list bool)
    : option word :=
    let '(n, f, g) := entry in
    if arity =? n then walk shape acts kinds f 0 None else walk shape acts kinds g 0 None.
End Interp.
