(* Registry.v — the data `update` reads: the three catalogs, as plain lists.
   Mirrors class_info / method_info / definition_info of policies/core.hpp.
   No proofs in Model/ files. *)
From Coq Require Export List NArith ZArith Bool Arith.
Export ListNotations.

Definition tid := N.                      (* a type id as the library sees it *)

Record class_rec := mk_class {
  c_tid : tid;                            (* class_info::type *)
  c_bases : list tid;                     (* [first_base, last_base): may contain the class itself *)
  c_abstract : bool                       (* class_info::is_abstract *)
}.

Record def_rec := mk_def {
  d_vp : list tid;                        (* definition_info: ids of the virtual parameters *)
  d_has_next : bool                       (* definition_info::next != nullptr *)
}.

Record meth_rec := mk_meth {
  m_vp : list tid;                        (* method_info: ids of the virtual parameters *)
  m_defs : list def_rec;                  (* method_info::specs, catalog order *)
  m_shape : list bool                     (* one entry per formal parameter: is it virtual? *)
}.

Record registry := mk_reg {
  r_classes : list class_rec;             (* Policy::classes, catalog order; several records per class allowed *)
  r_methods : list meth_rec;              (* Policy::methods, catalog order *)
  r_alias : list (tid * tid)              (* Policy::type_index as a finite map; ids not listed map to themselves *)
}.

Inductive error :=
| UnknownClass (t : tid)                  (* unknown_class_error::type *)
| OutOfFuel                               (* model artefact; theorems show it unreachable on well-formed registries *)
| BadRead (a : Z).                        (* a read outside dispatch_data: undefined behaviour in the real code *)

Inductive result (A : Type) := Ok (a : A) | Err (e : error).
Arguments Ok {A} a.
Arguments Err {A} e.

Definition bind {A B} (r : result A) (f : A -> result B) : result B :=
  match r with Ok a => f a | Err e => Err e end.
Notation "'do' x <- r ; k" := (bind r (fun x => k)) (at level 200, x pattern, r at level 100, k at level 200).

Fixpoint assocN {A} (k : N) (l : list (N * A)) : option A :=
  match l with
  | [] => None
  | (k', v) :: l' => if N.eqb k k' then Some v else assocN k l'
  end.

(* Policy::type_index *)
Definition proj (R : registry) (t : tid) : tid :=
  match assocN t (r_alias R) with Some c => c | None => t end.

Definition memN (x : N) (l : list N) : bool := existsb (N.eqb x) l.
Definition memn (x : nat) (l : list nat) : bool := existsb (Nat.eqb x) l.

Fixpoint index_ofN (k : N) (l : list N) : option nat :=
  match l with
  | [] => None
  | x :: l' => if N.eqb k x then Some 0 else option_map S (index_ofN k l')
  end.

Fixpoint set_nth {A} (n : nat) (l : list A) (v : A) : list A :=
  match l, n with
  | [], _ => []                            (* out of range: ignored (the theorems show it does not happen) *)
  | _ :: l', 0 => v :: l'
  | x :: l', S n' => x :: set_nth n' l' v
  end.

Definition upd_nth {A} (n : nat) (l : list A) (d : A) (f : A -> A) : list A :=
  set_nth n l (f (nth n l d)).

Fixpoint dedupn (l : list nat) (seen : list nat) : list nat :=
  match l with
  | [] => []
  | x :: l' => if memn x seen then dedupn l' seen else x :: dedupn l' (x :: seen)
  end.
