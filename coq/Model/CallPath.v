(* C16 — the call path as lists of memory accesses, and a small interleaving
   semantics of threads over a shared store.

   Definitions only (no proofs): CONTRIBUTING.md, "Model/".

   Two layers:

   1. [access] / [route]: what translators/callpath.py extracts from the LLVM IR
      of harness/callpath/routes.cpp (Gen/GenCallPath.v), and the decidable
      predicates the generated lists must satisfy ([shared_read_only], ...).

   2. [cstep] / [thread] / [interleave] / [run]: threads are lists of concrete
      steps (an access kind, the shared location it touches, the value it would
      write); a schedule is any interleaving of n threads; running a schedule
      threads a shared store through the steps and logs what every step
      observes.  Proofs/CallPathProofs.v shows that threads whose access kinds
      satisfy the predicates of layer 1 neither race nor observe anything else
      than when running alone.                                              *)

From Coq Require Import String List Bool NArith Arith.
Import ListNotations.
Open Scope string_scope.

(* ------------------------------------------------------------------------- *)
(** * 1. Accesses, as classified by the translator                            *)

(* Provenance of the address of each access (see translators/callpath.py):
   - a named global [g] (a static data member of a policy facet, of a method, ...)
   - "Via": a pointer loaded from shared memory (vptrs[i], the dispatch tables)
   - "Arg": a parameter of the route function, i.e. the caller's own object
     (the object passed by reference, the virtual_ptr being read or constructed)
   - "ArgGraph": a pointer loaded from the caller's object (e.g. the control
     block of the caller's shared_ptr) — still the caller's own object graph
   - "Fresh": memory returned by operator new in this very call
   - "Local": an alloca of this thread's stack                                *)
Inductive access : Type :=
| Read (g : string)
| ReadVia
| ArgRead
| LocalRead
| Write (g : string)
| WriteVia
| ArgWrite
| ArgGraphWrite (ty : string)
| FreshWrite
| LocalWrite
| AtomicRMW (g : string)
| AtomicRMWVia
| AtomicRMWOwned (ty : string)
| Call (f : string)            (* callee not defined in the module *)
| IndirectCall                 (* call through a computed function pointer *)
| Fence
| ErrorPath                    (* blocks that can only end in abort/unreachable *)
| Unknown (what : string).     (* the translator could not classify it *)

Record route : Type := mkRoute {
  r_name : string;       (* call_uni, vptr_from_base, ..., thunk_<definition> *)
  r_shape : string;      (* rel | dbg | nohash | vmap | ind *)
  r_variant : string;    (* O2 | O2assert | O1 | O0 : how the IR was produced *)
  r_accesses : list access
}.

Definition mem_string (x : string) (l : list string) : bool :=
  existsb (String.eqb x) l.

Definition has_prefix_in (x : string) (l : list string) : bool :=
  existsb (fun p => String.prefix p x) l.

(* External functions a read-only route may call.  Each entry is justified:
   - __dynamic_cast: walks the (constant) type_info graph of its argument and
     returns an adjusted pointer; reads only compiler-emitted constant data.
   - strcmp / std::type_info::operator== / ::before / ::name / hash_code:
     libstdc++ compares type_info by address, then by name with strcmp; both
     operands are constant strings in .rodata.
   - __cxa_pure_virtual is NOT listed (it aborts; it can only sit on an error
     path, and error paths are already collapsed by the translator).
   Deliberately NOT here: __cxa_guard_acquire/release (function-local static
   = lazy initialisation), __cxa_atexit, pthread_*, anything of
   std::_Hashtable / std::__detail (unordered_map::operator[] inserts),
   operator new/delete (see [owner_calls]), memcpy & co (the translator turns
   llvm.mem* into classified reads and writes instead).                       *)
Definition pure_calls : list string :=
  [ "__dynamic_cast";
    "strcmp";
    "_ZNKSt9type_infoeqERKS_";
    "_ZNKSt9type_info6beforeERKS_";
    "_ZNKSt9type_info4nameEv";
    "_ZNKSt9type_info9hash_codeEv" ].

(* Allowed in addition on the routes that create or copy a caller-owned smart
   pointer (make_virtual_shared allocates the object and its control block;
   the last owner frees it): operator new / operator delete act on memory that
   no other thread can reach before this call publishes it to its own caller. *)
Definition owner_calls : list string :=
  [ "_Znwm"; "_ZdlPv"; "_ZdlPvm";
    (* only on the error stubs of a policy whose error facet throws (the errstub routes): the exception object is fresh memory
       no other thread can reach; __cxa_throw unwinds the calling thread's own stack; abort() ends the process *)
    "__cxa_allocate_exception"; "__cxa_throw"; "abort" ].

(* The only objects reached through a pointer loaded from the caller's object
   that such a route may modify: the shared_ptr control block (use/weak counts;
   libstdc++ updates them atomically unless the process is single-threaded). *)
Definition owned_types : list string :=
  [ "class.std::_Sp_counted" ].

(* strict: nothing but reads of shared memory, and writes to the caller's own
   objects (the virtual_ptr under construction) and to the stack *)
Definition access_read_only (a : access) : bool :=
  match a with
  | Read _ | ReadVia | ArgRead | LocalRead => true
  | ArgWrite | LocalWrite => true
  | IndirectCall | Fence | ErrorPath => true
  | Call f => mem_string f pure_calls
  | Write _ | WriteVia | AtomicRMW _ | AtomicRMWVia => false
  | ArgGraphWrite _ | AtomicRMWOwned _ | FreshWrite => false
  | Unknown _ => false
  end.

Definition shared_read_only (l : list access) : bool :=
  forallb access_read_only l.

(* routes that copy / create / release a caller-owned shared_ptr *)
Definition access_owner_only (a : access) : bool :=
  match a with
  | ArgGraphWrite ty | AtomicRMWOwned ty => has_prefix_in ty owned_types
  | FreshWrite => true
  | Call f => mem_string f pure_calls || mem_string f owner_calls
  | _ => access_read_only a
  end.

Definition shared_read_only_owner (l : list access) : bool :=
  forallb access_owner_only l.

(* the semantic reading of an access kind: can it modify memory that another
   thread may reach through the shared registries?  A call to an external
   function outside the two lists is assumed to. *)
Definition shared_write (a : access) : bool :=
  match a with
  | Write _ | WriteVia | AtomicRMW _ | AtomicRMWVia => true
  | Unknown _ => true
  | Call f => negb (mem_string f pure_calls || mem_string f owner_calls)
  | _ => false
  end.

(* does it observe shared memory?  ArgRead is included: a virtual_ptr held by
   the caller points into the shared dispatch tables. *)
Definition shared_observe (a : access) : bool :=
  match a with
  | Read _ | ReadVia | ArgRead => true
  | AtomicRMW _ | AtomicRMWVia => true
  | Unknown _ => true
  | Call f => negb (mem_string f owner_calls)
  | _ => false
  end.

(* --- which routes are held to which predicate ---------------------------- *)

Definition smart_route_names : list string :=
  [ "call_shared"; "shared_ctor"; "shared_copy"; "shared_cast"; "shared_make" ].

(* the errstub routes: what the dispatch jump of an unresolvable call lands in (not_implemented_handler / ambiguous_handler), under a
   policy whose error facet throws: builds the resolution_error on its own stack and in the fresh exception object, throws.
   Held to the owner predicate: writes to fresh memory and the exception-runtime calls are allowed, writes to anything
   shared are not. *)
Definition is_error_stub (r : route) : bool := String.prefix "errstub_" (r_name r).

Definition is_smart (r : route) : bool :=
  mem_string (r_name r) smart_route_names || String.prefix "thunk_skick" (r_name r) || is_error_stub r.

Definition is_call_route (r : route) : bool :=
  String.prefix "call_" (r_name r) || String.prefix "errcall_" (r_name r).

(* THE SETTLED OBSERVATION (DESIGN.md, C16).  With a vptr_map policy the
   virtual_ptr constructor used to evaluate Policy::vptrs[index], i.e.
   std::unordered_map::operator[], whose IR contains the insertion path
   (operator new, _M_need_rehash, stores into the map).  Fixed in the library
   (the constructor now calls Policy::dynamic_vptr, i.e. find(), like a method
   call), so nothing is excluded any more: the three routes below are held to
   [route_read_only] like every other one.  [C16_excluded] stays as the single
   switch through which a route could be set apart. *)
Definition vptr_map_ctor_names : list string :=
  [ "vptr_exact"; "vptr_from_base"; "shared_ctor" ].

Definition is_vptr_map_ctor (r : route) : bool :=
  String.eqb (r_shape r) "vmap" && mem_string (r_name r) vptr_map_ctor_names.

Definition C16_excluded (r : route) : bool := false.

Definition checked_routes (l : list route) : list route :=
  filter (fun r => negb (C16_excluded r)) l.

Definition route_read_only (r : route) : bool :=
  if is_smart r then shared_read_only_owner (r_accesses r)
  else shared_read_only (r_accesses r).

Definition count_indirect (l : list access) : nat :=
  length (filter (fun a => match a with IndirectCall => true | _ => false end) l).

(* the dispatch jump: exactly one on a method call route, none elsewhere
   (the smart-pointer routes may in addition call the virtual functions of the
   caller's control block) *)
Definition route_jump_ok (r : route) : bool :=
  if is_call_route r then Nat.eqb (count_indirect (r_accesses r)) 1
  else if is_smart r then true
  else Nat.eqb (count_indirect (r_accesses r)) 0.

Definition globals_written (l : list access) : list string :=
  flat_map (fun a => match a with Write g | AtomicRMW g => [g] | _ => [] end) l.

Definition written_globals_of (l : list route) : list string :=
  flat_map (fun r => globals_written (r_accesses r)) l.

(* completeness of the generated list *)
Definition expected_route_names : list string :=
  [ "call_uni"; "call_multi"; "call_vptr_uni"; "call_vptr_multi";
    "call_shared"; "resolve_uni"; "resolve_multi"; "resolve_vptr";
    "vptr_exact"; "vptr_from_base"; "vptr_final"; "vptr_copy"; "vptr_convert";
    "vptr_cast"; "shared_ctor"; "shared_copy"; "shared_cast"; "shared_make";
    (* what the dispatch jump lands in: one thunk per kind of parameter *)
    "thunk_kick_d"; "thunk_meet_dc"; "thunk_vkick_d";
    "thunk_vmeet_dc"; "thunk_skick_d" ].

Definition expected_shapes : list string := [ "rel"; "dbg"; "nohash"; "vmap"; "ind" ].
Definition expected_variants : list string := [ "O2"; "O2assert"; "O1"; "O0" ].

Definition route_present (l : list route) (n s v : string) : bool :=
  existsb (fun r => String.eqb (r_name r) n && String.eqb (r_shape r) s
                    && String.eqb (r_variant r) v) l.

(* unresolvable calls under the throwing policy (shape thr): the two call routes in every variant, the four error stubs
   in the optimised variants (at -O0 the std::visit machinery they throw through is not inlined and is not analysed) *)
Definition expected_error_calls : list string := [ "errcall_uni"; "errcall_multi" ].
Definition expected_error_stubs : list string :=
  [ "errstub_gap_not_implemented"; "errstub_gap_ambiguous"; "errstub_amb_not_implemented"; "errstub_amb_ambiguous" ].
Definition optimised_variants : list string := [ "O2"; "O2assert"; "O1" ].

Definition routes_complete (l : list route) : bool :=
  forallb (fun v => forallb (fun s => forallb (fun n => route_present l n s v)
                                              expected_route_names)
                            expected_shapes)
          expected_variants
  && forallb (fun v => forallb (fun n => route_present l n "thr" v) expected_error_calls) expected_variants
  && forallb (fun v => forallb (fun n => route_present l n "thr" v) expected_error_stubs) optimised_variants.

(* ------------------------------------------------------------------------- *)
(** * 2. Threads over a shared store                                          *)

Definition loc := N.
Definition val := N.
Definition shared := loc -> val.

Definition upd (s : shared) (l : loc) (v : val) : shared :=
  fun l' => if N.eqb l' l then v else s l'.

(* a concrete step: the access kind, the shared location it touches (meaningful
   when the kind observes or writes shared memory) and the value it writes
   (meaningful when it writes) *)
Record cstep : Type := mkStep { c_acc : access; c_loc : loc; c_val : val }.

Definition thread := list cstep.
Definition kinds (t : thread) : list access := map c_acc t.

Definition effect (c : cstep) (s : shared) : shared :=
  if shared_write (c_acc c) then upd s (c_loc c) (c_val c) else s.

Definition observe (c : cstep) (s : shared) : option val :=
  if shared_observe (c_acc c) then Some (s (c_loc c)) else None.

Definition touches (c : cstep) : bool :=
  shared_observe (c_acc c) || shared_write (c_acc c).

(* two steps conflict: same shared location, at least one writes *)
Definition conflict (c d : cstep) : bool :=
  touches c && touches d && N.eqb (c_loc c) (c_loc d)
  && (shared_write (c_acc c) || shared_write (c_acc d)).

(* a schedule: steps tagged with the index of the thread that makes them *)
Definition schedule := list (nat * cstep).

Fixpoint set_nth {X : Type} (i : nat) (v : X) (l : list X) : list X :=
  match l, i with
  | [], _ => []
  | _ :: r, O => v :: r
  | x :: r, S j => x :: set_nth j v r
  end.

(* any interleaving of n threads: repeatedly pick a thread that still has a
   step to make *)
Inductive interleave {X : Type} : list (list X) -> list (nat * X) -> Prop :=
| il_done : forall ts, Forall (fun t => t = []) ts -> interleave ts []
| il_step : forall ts i x rest sch,
    nth_error ts i = Some (x :: rest) ->
    interleave (set_nth i rest ts) sch ->
    interleave ts ((i, x) :: sch).

(* run a schedule: final store, and per step what it observed *)
Fixpoint run (sch : schedule) (s : shared) : shared * list (nat * option val) :=
  match sch with
  | [] => (s, [])
  | (i, c) :: r =>
      let o := observe c s in
      let '(sf, log) := run r (effect c s) in
      (sf, (i, o) :: log)
  end.

Definition obs_of (i : nat) (log : list (nat * option val)) : list (option val) :=
  map snd (filter (fun p => Nat.eqb (fst p) i) log).

Definition proj {X : Type} (i : nat) (sch : list (nat * X)) : list X :=
  map snd (filter (fun p => Nat.eqb (fst p) i) sch).

(* what a thread observes when it runs alone from store s *)
Definition alone (t : thread) (s : shared) : list (option val) :=
  map snd (snd (run (map (fun c => (O, c)) t) s)).

(* a data race: two conflicting steps of different threads (this model has no
   synchronisation, so every such pair is unordered) *)
Definition race (sch : schedule) : Prop :=
  exists p q i c j d,
    p < q /\ nth_error sch p = Some (i, c) /\ nth_error sch q = Some (j, d)
    /\ i <> j /\ conflict c d = true.

(* a thread that writes only inside the set W of locations *)
Definition writes_within (W : loc -> Prop) (t : thread) : Prop :=
  forall c, In c t -> shared_write (c_acc c) = true -> W (c_loc c).

(* a thread that observes only outside W *)
Definition observes_outside (W : loc -> Prop) (t : thread) : Prop :=
  forall c, In c t -> shared_observe (c_acc c) = true -> ~ W (c_loc c).

Definition no_shared_write (t : thread) : Prop :=
  forall c, In c t -> shared_write (c_acc c) = false.

Definition agree_outside (W : loc -> Prop) (s s0 : shared) : Prop :=
  forall l, ~ W l -> s l = s0 l.
