(** * Subobject model of C++ class hierarchies (Rossie-Friedman), for property C11.

    A hierarchy is the list of class declarations in declaration order; every
    class lists its direct bases with a flag saying whether the edge is
    [virtual].  A *subobject* of a complete object of class [C] is, after
    Rossie and Friedman ("An algebraic semantics of subobjects", OOPSLA'95), an
    equivalence class of inheritance paths starting at [C], two paths being
    identified when they differ only before their last virtual edge (virtual
    bases are shared).  The canonical representative used here is the list of
    classes [X0; X1; ...; Xn] such that
      - every step [Xi -> Xi+1] is a NON-virtual direct-base edge,
      - [X0] is [C] itself, or a virtual base of [C] (a class reached from [C]
        through some path whose last edge is virtual),
    and the (static) class of the subobject is [Xn].

    No proofs in this file (CONTRIBUTING.md): only total computable functions,
    recursion on explicit fuel.  Out of fuel an enumeration returns fewer
    paths; [fuel_ok] is the computable side condition excluding that. *)

From Coq Require Import List NArith Bool Arith.
Import ListNotations.

Definition class := N.

(** [(X, [(B1, v1); ...])] : class X has direct bases B1... ; [vi = true] when virtual. *)
Definition hier := list (class * list (class * bool)).

Fixpoint bases_of (H : hier) (X : class) : list (class * bool) :=
  match H with
  | [] => []
  | (Y, bs) :: t => if N.eqb X Y then bs else bases_of t X
  end.

Definition nv_bases (H : hier) (X : class) : list class :=
  map fst (filter (fun b => negb (snd b)) (bases_of H X)).

Definition v_bases (H : hier) (X : class) : list class :=
  map fst (filter (fun b => snd b) (bases_of H X)).

(** A subobject: the canonical path.  The empty list is not a subobject. *)
Definition sub := list class.

Definition sub_class (s : sub) : class := last s 0%N.

Definition sub_head (s : sub) : class := hd 0%N s.

Fixpoint sub_eqb (a b : sub) : bool :=
  match a, b with
  | [], [] => true
  | x :: a', y :: b' => N.eqb x y && sub_eqb a' b'
  | _, _ => false
  end.

Definition of_class (B : class) (s : sub) : bool := N.eqb (sub_class s) B.

(** the only element of a list, if it has exactly one *)
Definition unique {A : Type} (l : list A) : option A :=
  match l with
  | [x] => Some x
  | _ => None
  end.

(** All paths starting at [X] that follow non-virtual edges only. *)
Fixpoint nv_paths (H : hier) (fuel : nat) (X : class) : list sub :=
  match fuel with
  | O => []
  | S f => [X] :: map (cons X) (flat_map (nv_paths H f) (nv_bases H X))
  end.

(** Every inheritance edge reachable from [X], with its flag. *)
Fixpoint all_edges (H : hier) (fuel : nat) (X : class) : list (class * bool) :=
  match fuel with
  | O => []
  | S f => flat_map (fun b => b :: all_edges H f (fst b)) (bases_of H X)
  end.

Fixpoint mem_class (x : class) (l : list class) : bool :=
  match l with
  | [] => false
  | y :: t => N.eqb x y || mem_class x t
  end.

Fixpoint dedup (l : list class) : list class :=
  match l with
  | [] => []
  | x :: t => if mem_class x t then dedup t else x :: dedup t
  end.

(** The virtual bases of [C]: targets of a virtual edge reachable from [C]. *)
Definition vbases (H : hier) (fuel : nat) (C : class) : list class :=
  dedup (map fst (filter (fun b => snd b) (all_edges H fuel C))).

(** All (proper and improper) base classes of [C]. *)
Definition all_bases (H : hier) (fuel : nat) (C : class) : list class :=
  dedup (C :: map fst (all_edges H fuel C)).

Definition is_base (H : hier) (fuel : nat) (B D : class) : bool :=
  mem_class B (all_bases H fuel D).

(** The subobjects of a complete object of class [C]. *)
Definition subobjects (H : hier) (fuel : nat) (C : class) : list sub :=
  nv_paths H fuel C ++ flat_map (nv_paths H fuel) (vbases H fuel C).

(** Composition of paths (Rossie-Friedman): [r] is a subobject of a complete
    object of class [sub_class d]; seen inside the larger object in which [d]
    lives it is [d] extended by [r]'s non-virtual steps when [r] is anchored at
    the class of [d], and [r] itself (a shared virtual base) otherwise. *)
Definition embed (d r : sub) : sub :=
  match r with
  | [] => []
  | h :: t => if N.eqb h (sub_class d) then d ++ t else r
  end.

(** The base-class subobjects of [d] (including [d] itself). *)
Definition base_subobjects (H : hier) (fuel : nat) (d : sub) : list sub :=
  map (embed d) (subobjects H fuel (sub_class d)).

(** [s] is [d] or one of its base-class subobjects. *)
Definition contains (H : hier) (fuel : nat) (d s : sub) : bool :=
  existsb (sub_eqb s) (base_subobjects H fuel d).

(** Derived-to-base conversion: the base-class subobject of class [B], when
    there is exactly one ([conv.ptr]: otherwise the conversion is ambiguous). *)
Definition upcast (H : hier) (fuel : nat) (s : sub) (B : class) : option sub :=
  unique (filter (of_class B) (base_subobjects H fuel s)).

(** [static_cast<D&>(B&)] is well formed ([expr.static.cast]/2): the conversion
    D* -> B* exists (B is an unambiguous base of D) and B is neither a virtual
    base of D nor a base of a virtual base of D.  In path terms: a complete D
    has exactly one B subobject and its canonical path is anchored at D itself
    (non-virtual edges only). *)
Definition static_cast_ok (H : hier) (fuel : nat) (B D : class) : bool :=
  match filter (of_class B) (subobjects H fuel D) with
  | [q] => match q with
           | h :: _ => N.eqb h D
           | [] => false
           end
  | _ => false
  end.

Fixpoint strip_suffix (t s : sub) : option sub :=
  if sub_eqb s t then Some []
  else match s with
       | [] => None
       | x :: s' => match strip_suffix t s' with
                    | Some p => Some (x :: p)
                    | None => None
                    end
       end.

(** What [static_cast<D&>] of an lvalue designating [s] computes: it removes
    the unique non-virtual path D -> class s from the end of [s].  [None] when
    the cast is ill formed or when [s] does not end with that path (undefined
    behaviour in C++: the object is not a base of a D). *)
Definition static_downcast (H : hier) (fuel : nat) (s : sub) (D : class) : option sub :=
  match filter (of_class (sub_class s)) (subobjects H fuel D) with
  | [q] => match q with
           | h :: t =>
               if N.eqb h D then
                 match strip_suffix t s with
                 | Some pre => if N.eqb (sub_class pre) D then Some pre else None
                 | None => None
                 end
               else None
           | [] => None
           end
  | _ => None
  end.

(** [dynamic_cast<D&>] applied to [s] inside a complete object of class [C]
    ([expr.dynamic.cast]/8, all bases public): down cast when [s] is a base
    subobject of exactly one D object; otherwise cross cast to the D subobject
    of the complete object when D is unambiguous there; otherwise failure. *)
Definition dynamic_cast (H : hier) (fuel : nat) (C : class) (s : sub) (D : class) : option sub :=
  let ds := filter (of_class D) (subobjects H fuel C) in
  match filter (fun d => contains H fuel d s) ds with
  | [d] => Some d
  | _ => unique ds
  end.

(** Enough fuel for every enumeration on [H]: declaration order is a
    topological order in C++ (bases are complete types), so no path is longer
    than the number of classes. *)
Definition default_fuel (H : hier) : nat := S (length H).

(** Computable well-formedness: classes are declared once, each base is
    declared earlier, no class lists the same direct base twice. *)
Fixpoint declared_before (H : hier) (seen : list class) : bool :=
  match H with
  | [] => true
  | (X, bs) :: t =>
      negb (mem_class X seen)
      && forallb (fun b => mem_class (fst b) seen) bs
      && N.eqb (N.of_nat (length (dedup (map fst bs)))) (N.of_nat (length bs))
      && declared_before t (X :: seen)
  end.

Definition wf_hier (H : hier) : bool := declared_before H [].

(** Number of subobjects of each class in a complete [C] (what the generated
    programs count through their constructors). *)
Definition count_class (H : hier) (fuel : nat) (C X : class) : nat :=
  length (filter (of_class X) (subobjects H fuel C)).
