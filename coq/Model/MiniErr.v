(* MiniErr.v — the little language into which translators/errhandlers.py translates, on every run, the two error stubs of a
   method (core.hpp: method::not_implemented_handler, method::ambiguous_handler) and detail::get_tip (detail.hpp), which
   together build the resolution_error record handed to the policy's error handler; and its interpreter.
   The translated functions are in Gen/GenErr.v; Proofs/ErrSource.v proves that the record they build IS
   Model.Errors.make_error.  No proofs in this file. *)
From Y2 Require Import Model.Registry Gen.GenCoreConsts Model.Errors.
Local Open Scope nat_scope.

(* how a formal parameter is declared, as get_tip sees it *)
Inductive argkind :=
| AKVirtualPtr        (* is_virtual_ptr<ArgType>: virtual_ptr / virtual_shared_ptr, by value or const reference *)
| AKVirtual           (* is_virtual<ArgType>::value: virtual_<T&>, virtual_<T*>, virtual_<shared_ptr<T>> ... *)
| AKPlain.            (* a non-virtual parameter *)

Inductive tipcond := TCIsVirtualPtr | TCIsVirtual.
(* get_tip<Policy, ArgType>(arg, ti_iter) *)
Inductive tipstmt :=
| TSkip
| TSeq (a b : tipstmt)
| TIfc (c : tipcond) (t e : tipstmt)
| TPushDeref          (* *ti_iter++ = Policy::dynamic_type( *arg);  the pointee of a virtual_ptr *)
| TPushRarg.          (* *ti_iter++ = Policy::dynamic_type(virtual_traits<Policy, ArgType>::rarg(arg)); *)

(* counts used by the stub *)
Inductive cnt :=
| CArity              (* method::arity: the number of virtual parameters *)
| CMaxTypes           (* resolution_error::max_types *)
| CNumArgs            (* sizeof...(args) *)
| CMin (a b : cnt).

Inductive status_name := SNoDefinition | SAmbiguous.

(* if constexpr (has_facet<error_handler>) { error.status = s; error.arity = a; type_id types[n]; fold get_tip over the
   arguments; copy_n(types, k, error.types); Policy::error(error) }  abort(); *)
Record stub := {
  sb_status : status_name;
  sb_arity : cnt;
  sb_buffer : cnt;         (* size of the local array the ids are collected in *)
  sb_copied : cnt          (* how many ids are copied into error.types *)
}.

Definition status_code (s : status_name) : nat :=
  match s with SNoDefinition => status_no_definition | SAmbiguous => status_ambiguous end.

(* an actual argument: its kind and, for a virtual one, the dynamic type id of the object it designates *)
Definition actual := (argkind * tid)%type.

Fixpoint tip_exec (s : tipstmt) (a : actual) (acc : list tid) : list tid :=
  match s with
  | TSkip => acc
  | TSeq x y => tip_exec y a (tip_exec x a acc)
  | TIfc c t e =>
      let b := match c, fst a with
               | TCIsVirtualPtr, AKVirtualPtr => true
               | TCIsVirtual, AKVirtual => true
               | _, _ => false
               end in
      if b then tip_exec t a acc else tip_exec e a acc
  | TPushDeref => acc ++ [snd a]
  | TPushRarg => acc ++ [snd a]
  end.

Definition is_virtual_kind (k : argkind) : bool := match k with AKPlain => false | _ => true end.

Fixpoint cnt_eval (nvirtual nargs : nat) (c : cnt) : nat :=
  match c with
  | CArity => nvirtual
  | CMaxTypes => max_types
  | CNumArgs => nargs
  | CMin a b => Nat.min (cnt_eval nvirtual nargs a) (cnt_eval nvirtual nargs b)
  end.

(* the record the stub hands to Policy::error; None: the local buffer is too small for the ids get_tip pushes (overflow) *)
Definition run_stub (sb : stub) (tip : tipstmt) (args : list actual) : option resolution_error :=
  let nv := length (filter (fun a => is_virtual_kind (fst a)) args) in
  let ids := fold_left (fun acc a => tip_exec tip a acc) args [] in
  if length ids <=? cnt_eval nv (length args) (sb_buffer sb)
  then Some (mk_rerr (status_code (sb_status sb)) (cnt_eval nv (length args) (sb_arity sb))
                     (firstn (cnt_eval nv (length args) (sb_copied sb)) ids))
  else None.

(* the model's view of the same arguments: Some id for a virtual one, None otherwise *)
Definition acts_of (args : list actual) : list (option tid) :=
  map (fun a => if is_virtual_kind (fst a) then Some (snd a) else None) args.
