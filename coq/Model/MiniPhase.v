(* MiniPhase.v — the little language into which translators/phases.py translates, on every run, the top of update:
       yorel::yomm2::update<Policy>()                   (core.hpp: a fresh compiler object; compiler.update())
       compiler<Policy>::update(), compile(), install_global_tables()          (detail/compiler.hpp)
   i.e. which phases run, in which order, and the compilation_done guard; and its interpreter, which gives every phase the
   meaning of the model function of the same name and makes a phase that runs before what it consumes exists a fault.
   Proofs/PhaseSource.v proves that running the translated sequence is Model.Compile.compile_with.  No proofs here. *)
From Coq Require Import List Bool.
From Y2 Require Import Model.Registry Model.Compile.
Import ListNotations.

Inductive phase :=
| PResolveStaticTypeIds          (* resolve_static_type_ids(): deferred ids; the registry of the model holds resolved ids (C10) *)
| PAugmentClasses
| PAugmentMethods
| PAssignSlots
| PBuildDispatchTables
| PSetCompilationDone            (* compilation_done = true; *)
| PRequireCompilationDone        (* if (!compilation_done) abort(); *)
| PInstallGv.

Record pstate := mk_ps {
  p_lat : option lattice;
  p_meths : option (list cmeth);
  p_slots : option sstate;
  p_tables_built : bool;
  p_done : bool;
  p_out : option compiled
}.

Definition ps0 : pstate := mk_ps None None None false false None.

(* Err: the phase reported an error of the registry; None: a phase ran before its inputs existed, or abort() *)
Definition run_phase (stale : list word) (R : registry) (p : phase) (s : pstate) : option (result pstate) :=
  match p with
  | PResolveStaticTypeIds => Some (Ok s)
  | PAugmentClasses =>
      match augment_classes R with
      | Ok L => Some (Ok (mk_ps (Some L) (p_meths s) (p_slots s) (p_tables_built s) (p_done s) (p_out s)))
      | Err e => Some (Err e)
      end
  | PAugmentMethods =>
      match p_lat s with
      | Some L => match augment_methods R (l_keys L) (r_methods R) with
                  | Ok ms => Some (Ok (mk_ps (p_lat s) (Some ms) (p_slots s) (p_tables_built s) (p_done s) (p_out s)))
                  | Err e => Some (Err e)
                  end
      | None => None
      end
  | PAssignSlots =>
      match p_lat s, p_meths s with
      | Some L, Some ms => Some (Ok (mk_ps (p_lat s) (p_meths s) (Some (assign_slots L ms)) (p_tables_built s) (p_done s) (p_out s)))
      | _, _ => None
      end
  | PBuildDispatchTables =>
      (* needs the slots: it writes the v-table entries at m.slots[dim] - cls->first_slot *)
      match p_lat s, p_meths s, p_slots s with
      | Some _, Some _, Some _ => Some (Ok (mk_ps (p_lat s) (p_meths s) (p_slots s) true (p_done s) (p_out s)))
      | _, _, _ => None
      end
  | PSetCompilationDone => Some (Ok (mk_ps (p_lat s) (p_meths s) (p_slots s) (p_tables_built s) true (p_out s)))
  | PRequireCompilationDone => if p_done s then Some (Ok s) else None
  | PInstallGv =>
      match p_lat s, p_meths s, p_slots s, p_tables_built s with
      | Some L, Some ms, Some st, true =>
          Some (Ok (mk_ps (p_lat s) (p_meths s) (p_slots s) true (p_done s) (Some (install_with stale L ms st))))
      | _, _, _, _ => None
      end
  end.

Fixpoint run_phases (stale : list word) (R : registry) (ps : list phase) (s : pstate) : option (result pstate) :=
  match ps with
  | [] => Some (Ok s)
  | p :: r => match run_phase stale R p s with
              | Some (Ok s') => run_phases stale R r s'
              | other => other
              end
  end.

(* update<Policy>(): a fresh compiler (nothing but Policy's statics survives from one update to the next), then the phases *)
Record update_src := mk_update_src { u_fresh_compiler : bool; u_phases : list phase }.

Definition run_update (u : update_src) (stale : list word) (R : registry) : option (result compiled) :=
  if u_fresh_compiler u then
    match run_phases stale R (u_phases u) ps0 with
    | Some (Ok s) => match p_out s with Some C => Some (Ok C) | None => None end
    | Some (Err e) => Some (Err e)
    | None => None
    end
  else None.
