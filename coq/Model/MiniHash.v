(* MiniHash.v — the little language into which translators/hashsearch.py translates, on every run,
   fast_perfect_hash<Policy>::hash_initialize (policies/fast_perfect_hash.hpp), and its interpreter.

   The LOOP SKELETON of the function is fixed here (run_search below: halving loop, pass loop, attempt loop, the two
   loops over classes and type ids with the break, the found test and return, the error tail) and is matched on the
   AST by the translator; the STRAIGHT-LINE pieces between the loop heads (initialisations, the attempt prologue, the
   body of the id loop, the conditions, the error record) are translated statement by statement into the `block`s and
   expressions of an `hprog`.  Gen/GenHashSearch.v holds the translated program; Proofs/HashSource.v proves that
   running it is Model.Hash.hash_initialize.  No proofs in this file. *)
From Coq Require Import NArith List Bool.
From Y2 Require Import Gen.GenHashConsts Model.Hash.
Import ListNotations.
Open Scope N_scope.

Inductive hvar :=
| VM | VPass | VTotal | VAttempts | VFound | VSize | VMult | VShift | VLength | VMin | VMax | VHalv | VN.

Inductive hexp :=
| EConst (n : N)
| EVar (v : hvar)
| EBudget                      (* verif::hash_budget / the literal *)
| EDrawn                       (* uniform_dist(rnd): the multiplier just drawn *)
| ECurId                       (* the type id the inner loop is at *)
| ESizeofTypeId                (* sizeof(type_id) *)
| ESentinel                    (* static_cast<type_id>(-1) *)
| EBucket (i : hexp)           (* buckets[i]  (control[i] in the checked lookup) *)
| EAdd (a b : hexp) | ESub (a b : hexp) | EMul (a b : hexp) | EDiv (a b : hexp)
| EMulW (a b : hexp)           (* product of type_id values: wraps at the word size *)
| EShr (a b : hexp) | EShl (a b : hexp) | EOr (a b : hexp)
| EMin (a b : hexp) | EMax (a b : hexp).

Inductive hcond :=
| CLt (a b : hexp) | CGe (a b : hexp) | CNe (a b : hexp) | CEq (a b : hexp)
| CTruth (a : hexp)
| CNot (c : hcond) | CAnd (c d : hcond) | COr (c d : hcond).

Inductive hstmt :=
| SSet (v : hvar) (e : hexp)
| SResize (e : hexp)           (* buckets.resize(e) *)
| SFill (e : hexp)             (* std::fill(buckets.begin(), buckets.end(), e) *)
| SSetBucket (i e : hexp).     (* buckets[i] = e *)

Definition block := list hstmt.

Record hprog := {
  hp_pre : block;              (* before the halving loop *)
  hp_halv_init : hexp;         (* for (auto size = <init>; <step, then test size != 0>;) <body> *)
  hp_halv_step : block;
  hp_halv_body : block;
  hp_pass_init : block;        (* for (<init>; <cond>; <step>) { <pro> while (<while_cond>) { <attempt_pre> loops } found test } *)
  hp_pass_cond : hcond;
  hp_pass_step : block;
  hp_pass_pro : block;
  hp_while_cond : hcond;
  hp_attempt_pre : block;
  hp_id_pre : block;           (* body of the loop over a class's type ids, before the occupancy test *)
  hp_id_cond : hcond;          (* the occupancy test *)
  hp_id_then : block;          (* ... its branch, which ends with break *)
  hp_id_post : block;          (* ... the rest of the body *)
  hp_found_cond : hcond;       (* after the while loop: if (<cond>) { <then>; return; } *)
  hp_found_then : block;
  hp_err_attempts : hexp;      (* hash_search_error{attempts, buckets} *)
  hp_err_buckets : hexp
}.

(* the variables of the function and the static members it assigns *)
Record store := mk_store {
  s_M : N; s_pass : N; s_total : N; s_attempts : N; s_found : N; s_size : N;
  s_mult : N; s_shift : N; s_length : N; s_min : N; s_max : N;
  s_halv : N; s_N : N;
  s_buckets : list N
}.

Definition getv (s : store) (v : hvar) : N :=
  match v with
  | VM => s_M s | VPass => s_pass s | VTotal => s_total s | VAttempts => s_attempts s | VFound => s_found s
  | VSize => s_size s | VMult => s_mult s | VShift => s_shift s | VLength => s_length s | VMin => s_min s
  | VMax => s_max s | VHalv => s_halv s | VN => s_N s
  end.

Definition setv (s : store) (v : hvar) (x : N) : store :=
  match v with
  | VM => mk_store x (s_pass s) (s_total s) (s_attempts s) (s_found s) (s_size s) (s_mult s) (s_shift s) (s_length s) (s_min s) (s_max s) (s_halv s) (s_N s) (s_buckets s)
  | VPass => mk_store (s_M s) x (s_total s) (s_attempts s) (s_found s) (s_size s) (s_mult s) (s_shift s) (s_length s) (s_min s) (s_max s) (s_halv s) (s_N s) (s_buckets s)
  | VTotal => mk_store (s_M s) (s_pass s) x (s_attempts s) (s_found s) (s_size s) (s_mult s) (s_shift s) (s_length s) (s_min s) (s_max s) (s_halv s) (s_N s) (s_buckets s)
  | VAttempts => mk_store (s_M s) (s_pass s) (s_total s) x (s_found s) (s_size s) (s_mult s) (s_shift s) (s_length s) (s_min s) (s_max s) (s_halv s) (s_N s) (s_buckets s)
  | VFound => mk_store (s_M s) (s_pass s) (s_total s) (s_attempts s) x (s_size s) (s_mult s) (s_shift s) (s_length s) (s_min s) (s_max s) (s_halv s) (s_N s) (s_buckets s)
  | VSize => mk_store (s_M s) (s_pass s) (s_total s) (s_attempts s) (s_found s) x (s_mult s) (s_shift s) (s_length s) (s_min s) (s_max s) (s_halv s) (s_N s) (s_buckets s)
  | VMult => mk_store (s_M s) (s_pass s) (s_total s) (s_attempts s) (s_found s) (s_size s) x (s_shift s) (s_length s) (s_min s) (s_max s) (s_halv s) (s_N s) (s_buckets s)
  | VShift => mk_store (s_M s) (s_pass s) (s_total s) (s_attempts s) (s_found s) (s_size s) (s_mult s) x (s_length s) (s_min s) (s_max s) (s_halv s) (s_N s) (s_buckets s)
  | VLength => mk_store (s_M s) (s_pass s) (s_total s) (s_attempts s) (s_found s) (s_size s) (s_mult s) (s_shift s) x (s_min s) (s_max s) (s_halv s) (s_N s) (s_buckets s)
  | VMin => mk_store (s_M s) (s_pass s) (s_total s) (s_attempts s) (s_found s) (s_size s) (s_mult s) (s_shift s) (s_length s) x (s_max s) (s_halv s) (s_N s) (s_buckets s)
  | VMax => mk_store (s_M s) (s_pass s) (s_total s) (s_attempts s) (s_found s) (s_size s) (s_mult s) (s_shift s) (s_length s) (s_min s) x (s_halv s) (s_N s) (s_buckets s)
  | VHalv => mk_store (s_M s) (s_pass s) (s_total s) (s_attempts s) (s_found s) (s_size s) (s_mult s) (s_shift s) (s_length s) (s_min s) (s_max s) x (s_N s) (s_buckets s)
  | VN => mk_store (s_M s) (s_pass s) (s_total s) (s_attempts s) (s_found s) (s_size s) (s_mult s) (s_shift s) (s_length s) (s_min s) (s_max s) (s_halv s) x (s_buckets s)
  end.

Definition set_buckets (s : store) (b : list N) : store :=
  mk_store (s_M s) (s_pass s) (s_total s) (s_attempts s) (s_found s) (s_size s) (s_mult s) (s_shift s) (s_length s) (s_min s) (s_max s) (s_halv s) (s_N s) b.

Section Eval.
  Variable budget : N.
  Variable sizeof_type_id : N.          (* sizeof(std::uintptr_t) on the platform: word_bits / 8 *)

  (* drawn: the multiplier just drawn; cur: the type id the inner loop is at *)
  Fixpoint heval (drawn cur : N) (s : store) (e : hexp) : N :=
    match e with
    | EConst n => n
    | EVar v => getv s v
    | EBudget => budget
    | EDrawn => drawn
    | ECurId => cur
    | ESizeofTypeId => sizeof_type_id
    | ESentinel => sentinel
    | EBucket i => vget (s_buckets s) (heval drawn cur s i)
    | EAdd a b => heval drawn cur s a + heval drawn cur s b
    | ESub a b => heval drawn cur s a - heval drawn cur s b
    | EMul a b => heval drawn cur s a * heval drawn cur s b
    | EDiv a b => heval drawn cur s a / heval drawn cur s b
    | EMulW a b => N.land (heval drawn cur s a * heval drawn cur s b) (N.ones word_bits)
    | EShr a b => N.shiftr (heval drawn cur s a) (heval drawn cur s b)
    | EShl a b => N.shiftl (heval drawn cur s a) (heval drawn cur s b)
    | EOr a b => N.lor (heval drawn cur s a) (heval drawn cur s b)
    | EMin a b => N.min (heval drawn cur s a) (heval drawn cur s b)
    | EMax a b => N.max (heval drawn cur s a) (heval drawn cur s b)
    end.

  Fixpoint ceval (drawn cur : N) (s : store) (c : hcond) : bool :=
    match c with
    | CLt a b => heval drawn cur s a <? heval drawn cur s b
    | CGe a b => heval drawn cur s b <=? heval drawn cur s a
    | CNe a b => negb (heval drawn cur s a =? heval drawn cur s b)
    | CEq a b => heval drawn cur s a =? heval drawn cur s b
    | CTruth a => negb (heval drawn cur s a =? 0)
    | CNot d => negb (ceval drawn cur s d)
    | CAnd d e => ceval drawn cur s d && ceval drawn cur s e
    | COr d e => ceval drawn cur s d || ceval drawn cur s e
    end.

  Definition sexec (drawn cur : N) (s : store) (st : hstmt) : store :=
    match st with
    | SSet v e => setv s v (heval drawn cur s e)
    | SResize e => set_buckets s (resize (N.to_nat (heval drawn cur s e)) (s_buckets s) 0)
    | SFill e => set_buckets s (repeat (heval drawn cur s e) (length (s_buckets s)))
    | SSetBucket i e => set_buckets s (vset (s_buckets s) (heval drawn cur s i) (heval drawn cur s e))
    end.

  Definition bexec (drawn cur : N) (b : block) (s : store) : store := fold_left (sexec drawn cur) b s.

  Variable p : hprog.

  (* for (auto size = init; size >>= 1;) body   — fuel: any bound on the number of binary digits of init *)
  Fixpoint halving (fuel : nat) (s : store) : store :=
    let s1 := bexec 0 0 (hp_halv_step p) s in
    if negb (getv s1 VHalv =? 0) then
      match fuel with
      | O => s1
      | S k => halving k (bexec 0 0 (hp_halv_body p) s1)
      end
    else s1.

  (* the loop over one class's type ids; the occupancy branch ends with break *)
  Fixpoint ids_loop (drawn : N) (ids : list N) (s : store) : store :=
    match ids with
    | [] => s
    | t :: r =>
        let s1 := bexec drawn t (hp_id_pre p) s in
        if ceval drawn t s1 (hp_id_cond p) then bexec drawn t (hp_id_then p) s1
        else ids_loop drawn r (bexec drawn t (hp_id_post p) s1)
    end.

  Definition classes_loop (drawn : N) (classes : list cls) (s : store) : store :=
    fold_left (fun s c => ids_loop drawn (cls_ids c) s) classes s.

  (* while (cond) { attempt_pre; classes loop }   None: the supplied multiplier stream ran out *)
  Fixpoint attempts_loop (classes : list cls) (stream : list N) (s : store) : option (store * list N) :=
    if ceval 0 0 s (hp_while_cond p) then
      match stream with
      | [] => None
      | x :: rest => attempts_loop classes rest (classes_loop x classes (bexec x 0 (hp_attempt_pre p) s))
      end
    else Some (s, stream).

  Inductive sres :=
  | SFound (s : store)
  | SError (attempts buckets : N) (s : store)
  | SStream
  | SFuel.

  (* for (init; cond; step) { pro; while ...; if (found_cond) { found_then; return; } }  then the error tail *)
  Fixpoint passes (fuel : nat) (classes : list cls) (stream : list N) (s : store) : sres :=
    if ceval 0 0 s (hp_pass_cond p) then
      match fuel with
      | O => SFuel
      | S k =>
          match attempts_loop classes stream (bexec 0 0 (hp_pass_pro p) s) with
          | None => SStream
          | Some (s1, rest) =>
              if ceval 0 0 s1 (hp_found_cond p) then SFound (bexec 0 0 (hp_found_then p) s1)
              else passes k classes rest (bexec 0 0 (hp_pass_step p) s1)
          end
      end
    else SError (heval 0 0 s (hp_err_attempts p)) (heval 0 0 s (hp_err_buckets p)) s.

  (* the whole function; s0 holds the statics as the previous update left them, N = std::distance(first, last),
     and `buckets` = the vector passed in *)
  Definition run_search (classes : list cls) (stream : list N) (s0 : store) : sres :=
    let s1 := bexec 0 0 (hp_pre p) s0 in
    let init := heval 0 0 s1 (hp_halv_init p) in
    let s2 := setv s1 VHalv init in
    let s3 := halving (N.size_nat init) s2 in      (* as many iterations as init has binary digits *)
    passes 64 classes stream (bexec 0 0 (hp_pass_init p) s3).
End Eval.

(* the statics and the vector handed to hash_initialize(first, last, buckets), as a store *)
Definition store_of (st : hstate) (buckets : list N) (nclasses : N) : store :=
  mk_store 0 0 0 0 0 0 (h_mult st) (h_shift st) (h_length st) (h_min st) (h_max st) 0 nclasses buckets.

(* fast_perfect_hash::hash_initialize(first, last): a fresh local vector;
   checked_perfect_hash::hash_initialize(first, last): `control`, then control.resize(hash_length) *)
Definition run_hash_initialize (p : hprog) (checked : bool) (stream : list N) (budget : N) (st : hstate)
           (classes : list cls) : outcome :=
  let b0 := if checked then h_control st else [] in
  match run_search budget (word_bits / 8) p classes stream (store_of st b0 (N.of_nat (length classes))) with
  | SFound s =>
      Found (mk_hstate (s_mult s) (s_shift s) (s_length s) (s_min s) (s_max s)
                       (if checked then resize (N.to_nat (s_length s)) (s_buckets s) 0 else h_control st))
            (s_total s)
  | SError a b s =>
      SearchError a b (mk_hstate (s_mult s) (s_shift s) (s_length s) (s_min s) (s_max s)
                                 (if checked then s_buckets s else h_control st))
  | SStream => StreamExhausted
  | SFuel => StreamExhausted
  end.
