(* Compile.v — executable model of detail/compiler.hpp: compiler<Policy>::compile() + install_gv(),
   stage by stage, loop by loop (after the fix: commits listed in known_findings.txt).
   Classes are identified by their index in the compiler's `classes` deque (order of first appearance in
   the catalog).  Bit sets (boost::dynamic_bitset) are N; `size()` is N.size_nat.  No proofs here. *)
From Y2 Require Import Model.Registry.
Local Open Scope nat_scope.

(* ------------------------------------------------------------------ augment_classes *)

(* first loop: one class_ per distinct type_index, in order of first appearance *)
Definition class_keys (R : registry) : list N :=
  fold_left (fun acc cr => let k := proj R (c_tid cr) in if memN k acc then acc else acc ++ [k])
            (r_classes R) [].

Definition class_of (R : registry) (keys : list N) (t : tid) : option nat := index_ofN (proj R t) keys.

Fixpoint dedupN (l : list N) (seen : list N) : list N :=
  match l with
  | [] => []
  | x :: l' => if memN x seen then dedupN l' seen else x :: dedupN l' (x :: seen)
  end.

Record cls := mk_cls { k_tids : list tid; k_abstract : bool }.

Definition class_infos (R : registry) (keys : list N) : list cls :=
  map (fun k =>
         let recs := filter (fun cr => N.eqb (proj R (c_tid cr)) k) (r_classes R) in
         mk_cls (dedupN (map c_tid recs) [])
                (match recs with r :: _ => c_abstract r | [] => false end)) keys.

(* second loop: collect the listed bases (class itself dropped); unknown base -> error *)
Fixpoint add_bases (R : registry) (keys : list N) (c : nat) (bases : list tid) (tb : list (list nat))
  : result (list (list nat)) :=
  match bases with
  | [] => Ok tb
  | b :: rest =>
      match class_of R keys b with
      | None => Err (UnknownClass b)
      | Some bi =>
          add_bases R keys c rest (if Nat.eqb bi c then tb else upd_nth c tb [] (fun l => l ++ [bi]))
      end
  end.

Fixpoint collect_bases (R : registry) (keys : list N) (recs : list class_rec) (tb : list (list nat))
  : result (list (list nat)) :=
  match recs with
  | [] => Ok tb
  | cr :: rest =>
      match class_of R keys (c_tid cr) with
      | None => Err OutOfFuel
      | Some c => do tb' <- add_bases R keys c (c_bases cr) tb; collect_bases R keys rest tb'
      end
  end.

(* closure of the base lists (fix 8495138): rounds until no class learns of a new base *)
Definition add_new (c : nat) (acc : list nat) (bb : nat) : list nat :=
  if Nat.eqb bb c || memn bb acc then acc else acc ++ [bb].
Definition step_class (tb : list (list nat)) (c : nat) : list nat :=
  fold_left (add_new c) (flat_map (fun b => nth b tb []) (nth c tb [])) (nth c tb []).
Definition closure_round (tb : list (list nat)) : list (list nat) :=
  fold_left (fun t c => set_nth c t (step_class t c)) (seq 0 (length tb)) tb.

Fixpoint list_eqb (a b : list nat) : bool :=
  match a, b with
  | [], [] => true
  | x :: a', y :: b' => Nat.eqb x y && list_eqb a' b'
  | _, _ => false
  end.
Fixpoint tb_eqb (a b : list (list nat)) : bool :=
  match a, b with
  | [], [] => true
  | x :: a', y :: b' => list_eqb x y && tb_eqb a' b'
  | _, _ => false
  end.

Fixpoint closure (fuel : nat) (tb : list (list nat)) : result (list (list nat)) :=
  match fuel with
  | 0 => Err OutOfFuel
  | S f => let tb' := closure_round tb in if tb_eqb tb tb' then Ok tb else closure f tb'
  end.

(* stable sort by decreasing weight (std::sort is an insertion sort below 17 elements) *)
Fixpoint insert_by (w : nat -> nat) (x : nat) (l : list nat) : list nat :=
  match l with
  | [] => [x]
  | y :: l' => if w x <? w y then y :: insert_by w x l' else x :: l
  end.
Definition sort_by_weight (w : nat -> nat) (l : list nat) : list nat := fold_right (insert_by w) [] l.

(* direct bases by the marking pass *)
Definition direct_of (tb : list (list nat)) (sorted : list nat) : list nat :=
  fst (fold_left (fun '(dir, marked) b =>
                    if memn b marked then (dir, marked) else (dir ++ [b], marked ++ nth b tb []))
                 sorted ([], [])).

Definition derived_of (direct : list (list nat)) (b : nat) : list nat :=
  filter (fun c => memn b (nth c direct [])) (seq 0 (length direct)).

(* calculate_covariant_classes: the class and, recursively, the covariant classes of its direct derived *)
Fixpoint insert_sorted (x : nat) (l : list nat) : list nat :=
  match l with
  | [] => [x]
  | y :: l' => if x <? y then x :: l else if Nat.eqb x y then l else y :: insert_sorted x l'
  end.
Fixpoint covariant (fuel : nat) (derived : list (list nat)) (c : nat) : list nat :=
  match fuel with
  | 0 => [c]
  | S f => fold_left (fun acc d => fold_left (fun a x => insert_sorted x a) (covariant f derived d) acc)
                     (nth c derived []) [c]
  end.

Record lattice := mk_lat {
  l_keys : list N;
  l_info : list cls;
  l_tb : list (list nat);         (* transitive_bases: closed, deduplicated, sorted by weight *)
  l_direct : list (list nat);
  l_derived : list (list nat);
  l_cov : list (list nat)         (* covariant_classes, kept sorted (the real one is an unordered_set) *)
}.

Definition augment_classes (R : registry) : result lattice :=
  let keys := class_keys R in
  let n := length keys in
  do tb0 <- collect_bases R keys (r_classes R) (repeat [] n);
  do tb1 <- closure (S (n * n)) tb0;
  let tb2 := map (fun l => dedupn l []) tb1 in
  let w := fun c => length (nth c tb2 []) in
  let tb3 := map (sort_by_weight w) tb2 in
  let direct := map (direct_of tb2) tb3 in
  let derived := map (derived_of direct) (seq 0 n) in
  let cov := map (covariant n derived) (seq 0 n) in
  Ok (mk_lat keys (class_infos R keys) tb3 direct derived cov).

(* ------------------------------------------------------------------ augment_methods *)

Record cmeth := mk_cmeth {
  cm_vp : list nat;               (* classes of the virtual parameters *)
  cm_specs : list (list nat);     (* per definition: classes of its virtual parameters *)
  cm_has_next : list bool;
  cm_shape : list bool
}.

Fixpoint lookup_all (R : registry) (keys : list N) (ts : list tid) : result (list nat) :=
  match ts with
  | [] => Ok []
  | t :: rest =>
      match class_of R keys t with
      | None => Err (UnknownClass t)
      | Some c => do cs <- lookup_all R keys rest; Ok (c :: cs)
      end
  end.

Fixpoint lookup_defs (R : registry) (keys : list N) (ds : list def_rec) : result (list (list nat)) :=
  match ds with
  | [] => Ok []
  | d :: rest => do v <- lookup_all R keys (d_vp d); do vs <- lookup_defs R keys rest; Ok (v :: vs)
  end.

Fixpoint augment_methods (R : registry) (keys : list N) (ms : list meth_rec) : result (list cmeth) :=
  match ms with
  | [] => Ok []
  | m :: rest =>
      do vp <- lookup_all R keys (m_vp m);
      do specs <- lookup_defs R keys (m_defs m);
      do cms <- augment_methods R keys rest;
      Ok (mk_cmeth vp specs (map d_has_next (m_defs m)) (m_shape m) :: cms)
  end.

(* used_by_vp of class c: (method, parameter) pairs in method order *)
Definition used_by_vp (ms : list cmeth) (c : nat) : list (nat * nat) :=
  flat_map (fun '(mi, m) =>
              flat_map (fun '(pi, v) => if Nat.eqb v c then [(mi, pi)] else [])
                       (combine (seq 0 (length (cm_vp m))) (cm_vp m)))
           (combine (seq 0 (length ms)) ms).

(* ------------------------------------------------------------------ assign_slots *)

Record sstate := mk_ss {
  s_slots : list (list nat);      (* method -> parameter -> slot *)
  s_used : list N;                (* class -> used_slots *)
  s_resv : list N;                (* class -> reserved_slots *)
  s_mark : list bool;
  s_first : list nat;             (* class -> first_slot *)
  s_vlen : list nat;              (* class -> vtbl.size() *)
  s_fuel_ok : bool                (* false if a recursion ran out of fuel *)
}.

Definition set_slot (st : sstate) (mp : nat * nat) (slot : nat) : list (list nat) :=
  upd_nth (fst mp) (s_slots st) [] (fun l => set_nth (snd mp) l slot).

Fixpoint assign_tree (fuel : nat) (L : lattice) (ms : list cmeth) (st : sstate) (c : nat) (base : nat) : sstate :=
  match fuel with
  | 0 => mk_ss (s_slots st) (s_used st) (s_resv st) (s_mark st) (s_first st) (s_vlen st) false
  | S f =>
      let '(st1, next) :=
        fold_left (fun '(s, nx) mp =>
                     (mk_ss (set_slot s mp nx) (s_used s) (s_resv s) (s_mark s) (s_first s) (s_vlen s) (s_fuel_ok s),
                      S nx))
                  (used_by_vp ms c) (st, base) in
      let st2 := mk_ss (s_slots st1) (s_used st1) (s_resv st1) (s_mark st1)
                       (set_nth c (s_first st1) 0) (set_nth c (s_vlen st1) next) (s_fuel_ok st1) in
      fold_left (fun s d => assign_tree f L ms s d next) (nth c (l_derived L) []) st2
  end.

Definition first_free (x : N) : nat :=
  match find (fun i => negb (N.testbit x (N.of_nat i))) (seq 0 (S (N.size_nat x))) with
  | Some i => i
  | None => N.size_nat x
  end.
Definition first_set (x : N) : nat :=
  match find (fun i => N.testbit x (N.of_nat i)) (seq 0 (N.size_nat x)) with
  | Some i => i
  | None => 0
  end.

Definition or_into (x : N) (l : list N) (i : nat) : list N := upd_nth i l 0%N (N.lor x).

Definition lattice_assign (L : lattice) (c : nat) (st : sstate) (mp : nat * nat) : sstate :=
  let used := nth c (s_used st) 0%N in
  let resv := nth c (s_resv st) 0%N in
  let slot := first_free (N.lor used resv) in
  let bit := N.shiftl 1 (N.of_nat slot) in
  let used' := N.lor used bit in
  let useds1 := set_nth c (s_used st) used' in
  let resvs1 := set_nth c (s_resv st) (N.lor resv bit) in
  (* reserve in the bases of cls *)
  let resvs2 := fold_left (or_into used') (nth c (l_tb L) []) resvs1 in
  (* assign in the covariant classes and reserve in their bases *)
  let '(useds3, resvs3) :=
    fold_left (fun '(us, rs) d =>
                 if Nat.eqb d c then (us, rs)
                 else (or_into used' us d, fold_left (or_into used') (nth d (l_tb L) []) rs))
              (nth c (l_cov L) []) (useds1, resvs2) in
  mk_ss (set_slot st mp slot) useds3 resvs3 (s_mark st) (s_first st) (s_vlen st) (s_fuel_ok st).

Fixpoint assign_lattice (fuel : nat) (L : lattice) (ms : list cmeth) (st : sstate) (c : nat) : sstate :=
  match fuel with
  | 0 => mk_ss (s_slots st) (s_used st) (s_resv st) (s_mark st) (s_first st) (s_vlen st) false
  | S f =>
      if nth c (s_mark st) false then st
      else
        let st0 := mk_ss (s_slots st) (s_used st) (s_resv st) (set_nth c (s_mark st) true)
                         (s_first st) (s_vlen st) (s_fuel_ok st) in
        let st1 := fold_left (lattice_assign L c) (used_by_vp ms c) st0 in
        fold_left (fun s d => assign_lattice f L ms s d) (nth c (l_derived L) []) st1
  end.

Definition is_tree_root (L : lattice) (c : nat) : bool :=
  forallb (fun d => length (nth d (l_direct L) []) <=? 1) (nth c (l_cov L) []).

Definition assign_slots (L : lattice) (ms : list cmeth) : sstate :=
  let n := length (l_keys L) in
  let st0 := mk_ss (map (fun m => repeat 0 (length (cm_vp m))) ms)
                   (repeat 0%N n) (repeat 0%N n) (repeat false n) (repeat 0 n) (repeat 0 n) true in
  let st1 :=
    fold_left (fun st c =>
                 match nth c (l_direct L) [] with
                 | [] => if is_tree_root L c then assign_tree (S n) L ms st c 0
                         else assign_lattice (S n) L ms st c
                 | _ => st
                 end) (seq 0 n) st0 in
  (* Allocating MI v-tables *)
  fold_left (fun st c =>
               let used := nth c (s_used st) 0%N in
               if N.eqb used 0 then st
               else let fs := first_set used in
                    mk_ss (s_slots st) (s_used st) (s_resv st) (s_mark st)
                          (set_nth c (s_first st) fs) (set_nth c (s_vlen st) (N.size_nat used - fs))
                          (s_fuel_ok st))
            (seq 0 n) st1.

(* ------------------------------------------------------------------ build_dispatch_tables *)

Definition mask_of (L : lattice) (specs : list (list nat)) (dim : nat) (c : nat) : N :=
  fold_left (fun acc '(i, sp) =>
               if memn c (nth (nth dim sp 0) (l_cov L) []) then N.setbit acc (N.of_nat i) else acc)
            (combine (seq 0 (length specs)) specs) 0%N.

Fixpoint insert_mask (x : N) (l : list N) : list N :=
  match l with
  | [] => [x]
  | y :: l' => if N.ltb x y then x :: l else if N.eqb x y then l else y :: insert_mask x l'
  end.

(* std::map<bitvec, group>: the distinct masks in increasing order, each with has_concrete_classes *)
Definition groups_of (L : lattice) (m : cmeth) (dim : nat) : list (N * bool) :=
  let cs := nth (nth dim (cm_vp m) 0) (l_cov L) [] in
  let masks := fold_left (fun acc c => insert_mask (mask_of L (cm_specs m) dim c) acc) cs [] in
  map (fun g => (g, existsb (fun c => N.eqb (mask_of L (cm_specs m) dim c) g
                                    && negb (k_abstract (nth c (l_info L) (mk_cls [] false)))) cs)) masks.

Definition group_index (L : lattice) (m : cmeth) (dim : nat) (c : nat) : nat :=
  match index_ofN (mask_of L (cm_specs m) dim c) (map fst (groups_of L m dim)) with
  | Some g => g
  | None => 0
  end.

Inductive cell := CDef (i : nat) | CAmb | CNi.

Fixpoint is_more_specific (L : lattice) (a b : list nat) (result : bool) : bool :=
  match a, b with
  | x :: a', y :: b' =>
      if Nat.eqb x y then is_more_specific L a' b' result
      else if memn x (nth y (l_cov L) []) then is_more_specific L a' b' true
      else if memn y (nth x (l_cov L) []) then false
      else is_more_specific L a' b' result
  | _, _ => result
  end.

Fixpoint is_base (L : lattice) (a b : list nat) (result : bool) : bool :=
  match a, b with
  | x :: a', y :: b' =>
      if Nat.eqb x y then is_base L a' b' result
      else if memn y (nth x (l_cov L) []) then is_base L a' b' true
      else false
  | _, _ => result
  end.

(* best (fix 654a3f8): the candidate more specific than all the others, else all the candidates *)
Definition best (L : lattice) (specs : list (list nat)) (cand : list nat) : list nat :=
  match find (fun s => forallb (fun o => Nat.eqb o s
                                        || is_more_specific L (nth s specs []) (nth o specs []) false) cand) cand with
  | Some s => [s]
  | None => cand
  end.

Definition cell_of (b : list nat) : cell :=
  match b with
  | [] => CNi
  | [s] => CDef s
  | _ => CAmb
  end.

Definition bits_of (nspecs : nat) (mask : N) : list nat :=
  filter (fun i => N.testbit mask (N.of_nat i)) (seq 0 nspecs).

(* build_dispatch_table: gss lists the groups from the LAST dimension down to dimension 0.
   Each produced cell carries the flag `concrete && group.has_concrete_classes` used by the report. *)
Fixpoint build_table (L : lattice) (specs : list (list nat)) (gss : list (list (N * bool)))
         (cand : N) (concrete : bool) : list (cell * bool) :=
  match gss with
  | [] => []
  | [gs0] => map (fun '(g, hc) =>
                    (cell_of (best L specs (bits_of (length specs) (N.land cand g))), concrete && hc)) gs0
  | gs :: rest => flat_map (fun '(g, hc) => build_table L specs rest (N.land cand g) (concrete && hc)) gs
  end.

Record mreport := mk_rep { rp_cells : nat; rp_ccells : nat; rp_ni : nat; rp_amb : nat; rp_cni : nat; rp_camb : nat }.

Definition is_amb (c : cell) := match c with CAmb => true | _ => false end.
Definition is_ni (c : cell) := match c with CNi => true | _ => false end.

Definition prod_list (l : list nat) : nat := fold_left Nat.mul l 1.

Record ctable := mk_ct {
  t_groups : list (list (N * bool));   (* per dimension, dimension 0 first *)
  t_strides : list nat;
  t_cells : list cell;
  t_report : mreport;
  t_nexts : list cell
}.

Definition build_method (L : lattice) (m : cmeth) : ctable :=
  let dims := length (cm_vp m) in
  let groups := map (groups_of L m) (seq 0 dims) in
  let sizes := map (@length _) groups in
  let strides := map (fun d => prod_list (firstn d sizes)) (seq 1 (dims - 1)) in
  let nspecs := length (cm_specs m) in
  let all := N.ones (N.of_nat nspecs) in
  let cf := build_table L (cm_specs m) (rev groups) all true in
  let cells := map fst cf in
  let rep :=
    mk_rep (if 1 <? dims then prod_list sizes else 0)
           (if 1 <? dims then prod_list (map (fun gs => length (filter snd gs)) groups) else 0)
           (length (filter (fun cf => is_ni (fst cf)) cf))
           (length (filter (fun cf => is_amb (fst cf)) cf))
           (length (filter (fun cf => is_ni (fst cf) && snd cf) cf))
           (length (filter (fun cf => is_amb (fst cf) && snd cf) cf)) in
  let nexts :=
    map (fun sp => cell_of (best L (cm_specs m)
                                 (filter (fun o => is_base L (nth o (cm_specs m) []) sp false) (seq 0 nspecs))))
        (cm_specs m) in
  mk_ct groups strides cells rep nexts.

Definition accumulate (tot : mreport) (p : mreport) : mreport :=
  let nz := fun x => if x =? 0 then 0 else 1 in
  mk_rep (rp_cells tot + rp_cells p) (rp_ccells tot + rp_ccells p)
         (rp_ni tot + nz (rp_ni p)) (rp_amb tot + nz (rp_amb p))
         (rp_cni tot + nz (rp_cni p)) (rp_camb tot + nz (rp_camb p)).

(* v-table entries: (method_index, vp_index, group_index); value-initialised = (0,0,0) *)
Definition write_vtbls (L : lattice) (ms : list cmeth) (st : sstate) : list (list (nat * nat * nat)) :=
  let n := length (l_keys L) in
  let vt0 := map (fun c => repeat (0, 0, 0) (nth c (s_vlen st) 0)) (seq 0 n) in
  fold_left (fun vt '(mi, m) =>
    fold_left (fun vt dim =>
      let slot := nth dim (nth mi (s_slots st) []) 0 in
      fold_left (fun vt c =>
                   let fs := nth c (s_first st) 0 in
                   if slot <? fs then vt
                   else upd_nth c vt [] (fun l => set_nth (slot - fs) l (mi, dim, group_index L m dim c)))
                (nth (nth dim (cm_vp m) 0) (l_cov L) []) vt)
      (seq 0 (length (cm_vp m))) vt)
    (combine (seq 0 (length ms)) ms) vt0.

(* ------------------------------------------------------------------ install_gv *)

Inductive word :=
| WFn (m i : nat)        (* definition i of method m (its thunk) *)
| WNi (m : nat)          (* method m's not_implemented stub *)
| WAmb (m : nat)         (* method m's ambiguous stub *)
| WRow (a : nat)         (* pointer to cell a of dispatch_data *)
| WIdx (g : nat)         (* a group index *)
| WJunk.                 (* never written by this update *)

Definition word_of_cell (mi : nat) (c : cell) : word :=
  match c with CDef i => WFn mi i | CAmb => WAmb mi | CNi => WNi mi end.

Record compiled := mk_comp {
  o_lat : lattice;
  o_meths : list cmeth;
  o_slots : list (list nat);
  o_first : list nat;
  o_vtbl : list (list (nat * nat * nat));
  o_tables : list ctable;
  o_report : mreport;
  o_table_off : list nat;        (* gv_dispatch_table of each method, as an offset (0 for uni-methods) *)
  o_image : list word;           (* Policy::dispatch_data *)
  o_vptr : list Z;               (* static v-table pointer of each class, as an offset into the image *)
  o_ss : list (list nat);        (* slots_strides of each method *)
  o_fuel_ok : bool
}.

(* multi-method tables first: returns gv_dispatch_table of each method (as an offset; 0 for uni-methods) and the words *)
Fixpoint place_tables (mi : nat) (off : nat) (mts : list (cmeth * ctable)) : list nat * list word :=
  match mts with
  | [] => ([], [])
  | (m, t) :: rest =>
      if length (cm_vp m) =? 1 then
        let '(offs, img) := place_tables (S mi) off rest in (0 :: offs, img)
      else
        let ws := map (word_of_cell mi) (t_cells t) in
        let '(offs, img) := place_tables (S mi) (off + length ws) rest in (off :: offs, ws ++ img)
  end.

(* what install_gv stores for one v-table entry *)
Definition entry_word (ms : list cmeth) (tables : list ctable) (offs : list nat) (e : nat * nat * nat) : word :=
  let '(mi, vpi, g) := e in
  let m := nth mi ms (mk_cmeth [] [] [] []) in
  let t := nth mi tables (mk_ct [] [] [] (mk_rep 0 0 0 0 0 0) []) in
  if length (cm_vp m) =? 1 then word_of_cell mi (nth g (t_cells t) CNi)
  else if vpi =? 0 then WRow (nth mi offs 0 + g)
  else WIdx g.

(* then one v-table per class, in class order: static v-table pointers (biased by first_slot) and the words *)
Fixpoint place_vtbls (off : nat) (firsts : list nat) (vts : list (list word)) : list Z * list word :=
  match firsts, vts with
  | fs :: firsts', ws :: vts' =>
      let '(vps, img) := place_vtbls (off + length ws) firsts' vts' in
      ((Z.of_nat off - Z.of_nat fs)%Z :: vps, ws ++ img)
  | _, _ => ([], [])
  end.

Definition total_cells (tables : list ctable) (vt : list (list (nat * nat * nat))) : nat :=
  fold_left (fun s t => s + length (t_cells t)) tables 0 + fold_left (fun s l => s + length l) vt 0.

Definition slots_strides_of (st : sstate) (mi : nat) (m : cmeth) (t : ctable) : list nat :=
  let sl := nth mi (s_slots st) [] in
  if length (cm_vp m) =? 1 then firstn 1 sl else sl ++ t_strides t.

(* install_gv.  `stale` is what Policy::dispatch_data held before this update (the vector is resized, not cleared):
   the cells this update does not write keep whatever was there. *)
Definition install_with (stale : list word) (L : lattice) (ms : list cmeth) (st : sstate) : compiled :=
  let tables := map (build_method L) ms in
  let vt := write_vtbls L ms st in
  let report := fold_left accumulate (map t_report tables) (mk_rep 0 0 0 0 0 0) in
  let '(offs, img1) := place_tables 0 0 (combine ms tables) in
  let '(vptrs, img2) := place_vtbls (length img1) (s_first st) (map (map (entry_word ms tables offs)) vt) in
  let img := img1 ++ img2 in
  let k := total_cells tables vt - length img in
  let img3 := img ++ firstn k (skipn (length img) stale ++ repeat WJunk k) in
  let ss := map (fun '(mi, (m, t)) => slots_strides_of st mi m t) (combine (seq 0 (length ms)) (combine ms tables)) in
  mk_comp L ms (s_slots st) (s_first st) vt tables report offs img3 vptrs ss (s_fuel_ok st).

Definition install := install_with [].

(* update: everything is recomputed from the catalogs; only dispatch_data's old contents (stale) persist *)
Definition compile_with (stale : list word) (R : registry) : result compiled :=
  do L <- augment_classes R;
  do ms <- augment_methods R (l_keys L) (r_methods R);
  Ok (install_with stale L ms (assign_slots L ms)).

Definition compile := compile_with [].

(* ------------------------------------------------------------------ the call side: method::resolve *)

Definition read (img : list word) (a : Z) : result word :=
  if (a <? 0)%Z then Err (BadRead a)
  else match nth_error img (Z.to_nat a) with
       | Some w => Ok w
       | None => Err (BadRead a)
       end.

(* resolve_uni: first virtual formal parameter *)
Fixpoint resolve_uni (C : compiled) (ss : list nat) (shape : list bool) (acts : list (option Z)) : result word :=
  match shape, acts with
  | true :: _, Some vp :: _ => read (o_image C) (vp + Z.of_nat (nth 0%nat ss 0%nat))%Z
  | false :: shape', _ :: acts' => resolve_uni C ss shape' acts'
  | _, _ => Err (BadRead (-1)%Z)
  end.

(* resolve_multi_next<VirtualArg>; a non-virtual parameter keeps VirtualArg (fix 4930d7d) *)
Fixpoint resolve_multi_next (C : compiled) (arity : nat) (ss : list nat) (va : nat) (dispatch : Z)
         (shape : list bool) (acts : list (option Z)) : result word :=
  match shape, acts with
  | true :: shape', Some vp :: acts' =>
      do w <- read (o_image C) (vp + Z.of_nat (nth va ss 0%nat))%Z;
      match w with
      | WIdx g =>
          let dispatch' := (dispatch + Z.of_nat g * Z.of_nat (nth (arity + va - 1)%nat ss 0%nat))%Z in
          if S va =? arity then read (o_image C) dispatch'
          else resolve_multi_next C arity ss (S va) dispatch' shape' acts'
      | _ => Err (BadRead (-2)%Z)
      end
  | false :: shape', _ :: acts' => resolve_multi_next C arity ss va dispatch shape' acts'
  | _, _ => Err (BadRead (-1)%Z)
  end.

Fixpoint resolve_multi_first (C : compiled) (arity : nat) (ss : list nat)
         (shape : list bool) (acts : list (option Z)) : result word :=
  match shape, acts with
  | true :: shape', Some vp :: acts' =>
      do w <- read (o_image C) (vp + Z.of_nat (nth 0%nat ss 0%nat))%Z;
      match w with
      | WRow a => resolve_multi_next C arity ss 1 (Z.of_nat a) shape' acts'
      | _ => Err (BadRead (-2)%Z)
      end
  | false :: shape', _ :: acts' => resolve_multi_first C arity ss shape' acts'
  | _, _ => Err (BadRead (-1)%Z)
  end.

(* actuals: per formal parameter, Some v-table pointer (virtual) or None (non-virtual) *)
Definition resolve (C : compiled) (mi : nat) (acts : list (option Z)) : result word :=
  let m := nth mi (o_meths C) (mk_cmeth [] [] [] []) in
  let ss := nth mi (o_ss C) [] in
  let arity := length (cm_vp m) in
  if arity =? 1 then resolve_uni C ss (cm_shape m) acts
  else resolve_multi_first C arity ss (cm_shape m) acts.

(* actuals for a tuple of classes (objects passed by reference): static v-table pointers *)
Fixpoint actuals_of (C : compiled) (shape : list bool) (cs : list nat) : list (option Z) :=
  match shape with
  | [] => []
  | true :: shape' =>
      match cs with
      | c :: cs' => Some (nth c (o_vptr C) 0%Z) :: actuals_of C shape' cs'
      | [] => []
      end
  | false :: shape' => None :: actuals_of C shape' cs
  end.
